package redact

import (
	"fmt"
	"os"
	"testing"

	"github.com/cockroachdb/redact/builder"
)

// Panics that unwind THROUGH a nested printer (SafePrinter.Print/Printf called from a SafeFormat method):
// a user method panics with a value whose own printing panics again, so the inner catchPanic re-panics and
// the outer one reports. What was written before, during and after must still be well-formed (finding F8).

type c01EvilErr struct{}

func (c01EvilErr) Error() string { panic("second") }

type c01EvilStr struct{}

func (c01EvilStr) String() string { panic(c01EvilErr{}) }

type c01NestPrint struct{ pre string }

func (f c01NestPrint) SafeFormat(p SafePrinter, _ rune) { p.Print(f.pre, c01EvilStr{}) }

type c01NestPrintf struct{ pre string }

func (f c01NestPrintf) SafeFormat(p SafePrinter, _ rune) { p.Printf("%s%v", f.pre, c01EvilStr{}) }

type c01NestDeep struct{ pre string }

func (f c01NestDeep) SafeFormat(p SafePrinter, _ rune) {
	p.Print(f.pre, c01NestPrintf{f.pre})
}

func c01UnwindCases() []vCase {
	var cs []vCase
	add := func(call string, f func() RedactableString) {
		var out RedactableString
		func() {
			defer func() {
				if r := recover(); r != nil {
					out = RedactableString(fmt.Sprintf("PANIC ESCAPED: %v", r))
				}
			}()
			out = f()
		}()
		cs = append(cs, vCase{call, string(out)})
	}
	for _, pre := range []string{"zzz", "", "a\n", vS, "\xe2\x80"} {
		pre := pre
		q := fmt.Sprintf("%q", pre)
		for _, lead := range []string{"a", "", "\n", "\xe2"} {
			lead := lead
			ql := fmt.Sprintf("%q", lead)
			add("Sprintf(\"%v%v|%v\", "+ql+", SafeFormatter{p.Print("+q+", StringerPanickingWith(errorWhoseErrorPanics))}, \"tail\")",
				func() RedactableString { return Sprintf("%v%v|%v", lead, c01NestPrint{pre}, "tail") })
			add("Sprintf(\"%v%v|%v\", "+ql+", SafeFormatter{p.Printf(\"%s%v\", "+q+", StringerPanickingWith(errorWhoseErrorPanics))}, \"tail\")",
				func() RedactableString { return Sprintf("%v%v|%v", lead, c01NestPrintf{pre}, "tail") })
			add("Sprint("+ql+", SafeFormatter{p.Print("+q+", SafeFormatter{p.Printf(...panicking...)})}, \"tail\")",
				func() RedactableString { return Sprint(lead, c01NestDeep{pre}, "tail") })
			add("Sprintf(\"%v%v\", "+ql+", Safe(SafeFormatter{p.Print("+q+", ...panicking...)}))",
				func() RedactableString { return Sprintf("%v%v", lead, Safe(c01NestPrint{pre})) })
			add("Sprintf(\"%v%v\", "+ql+", Unsafe(SafeFormatter{p.Printf(...panicking...)}))",
				func() RedactableString { return Sprintf("%v%v", lead, Unsafe(c01NestPrintf{pre})) })
			add("StringBuilder{UnsafeString("+ql+"); Print(SafeFormatter{p.Print("+q+", ...panicking...)}); SafeString(\"tail\")}",
				func() RedactableString {
					var b builder.StringBuilder
					b.UnsafeString(lead)
					b.Print(c01NestPrint{pre})
					b.SafeString("tail")
					return b.RedactableString()
				})
		}
	}
	return cs
}

func TestVerifReplayC01(t *testing.T) {
	check := func(out string) (bool, string) {
		if !vWellFormed(out) {
			return false, "output is not well-formed: markers do not strictly alternate"
		}
		return true, ""
	}
	n := 0
	for _, c := range c01UnwindCases() {
		if ok, why := check(c.out); !ok {
			vFail(t, "C01", c.call, c.out, why)
			n++
			if n >= 4 {
				break
			}
		}
	}
	vRun(t, "C01", check)
}

// TestVerifBoundedC01: C01 is decided deductively for all inputs; this bounded run only adds an end-to-end
// cross-check of the public API against the executable definition of well-formedness.
func TestVerifBoundedC01(t *testing.T) {
	check := func(out string) (bool, string) {
		if !vWellFormed(out) {
			return false, "output is not well-formed: markers do not strictly alternate"
		}
		return true, ""
	}
	fails := 0
	uc := c01UnwindCases()
	for _, c := range uc {
		if ok, why := check(c.out); !ok {
			vFail(t, "C01", c.call, c.out, why)
			fails++
		}
	}
	rn, xn := 3, 2
	if os.Getenv("VERIF_TIER") == "thorough" {
		rn, xn = 4, 2
	}
	cases, nt := vRunN(t, "C01", check, rn, xn)
	vBounded("C01", "every output of the printing/building API is well-formed (end-to-end cross-check of the proved invariant)", cases+len(uc), nt,
		"the output contains at least one envelope", fmt.Sprintf("redactables of at most %d and tails of at most %d pieces over {a, LF, start, end, E2, E2 80, 80, B9, BA, ?, space}, 18 producers each; %d panic-unwinding scenarios", rn, xn, len(uc)), fails == 0 && !t.Failed())
}
