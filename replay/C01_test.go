package redact

import "testing"

func TestVerifReplayC01(t *testing.T) {
	vRun(t, "C01", func(out string) (bool, string) {
		if !vWellFormed(out) {
			return false, "output is not well-formed: markers do not strictly alternate"
		}
		return true, ""
	})
}

