package redact

// Replay and bounded harness for C09 (SafeWriter contract: each payload lands once, in call order, on its
// own side). Injected with `go test -overlay`; never written into /repo.
//
// A history is a finite sequence of SafeWriter / io.Writer-side calls. Every history is run on
//   - a builder.StringBuilder                               (observed with RedactableString()),
//   - the SafePrinter handed to Sprintfn,
//   - the SafePrinter handed to a SafeFormat method         (Sprint(f) and Sprintf("[%v]", f)),
//   - a ManualBuffer (= internal/buffer.Buffer, public alias redact.ManualBuffer; SetMode + Write*),
//   - the SafePrinter handed to a SafeFormat method under Safe() (only well-formedness, line-safety and
//     the stripped-content equation are claimed there: Safe() deliberately moves the sides, C05/C06).
//
// The oracle is written from the property statement:
//   (a) the result is well-formed and line-safe                                   (every history),
//   (b) strip-markers(result)    == concat(payloads with markers replaced by '?') (valid UTF-8 / valid runes),
//   (c) delete-envelopes(result) == concat(safe payloads) + line feeds of the unsafe ones  (idem),
//   (d) per character: every payload character is on the side of its call, in call order    (idem; this is
//       the title of the property, "each payload lands once, in order, on its own side"; it implies b, c),
//   (e) the implementations agree up to merging of adjacent envelopes             (idem),
//   (f) bytes sent through Write/WriteString/WriteByte/WriteRune/fmt.Fprintf(w, ..) are unsafe payloads.
// Single-byte unsafe writes (UnsafeByte, StringBuilder.WriteByte) of a non-ASCII byte have payload "?"
// (anchor "single-byte unsafe writes replace non-ASCII bytes by '?'"). Histories with an invalid UTF-8
// payload or an invalid rune are only checked for (a).

import (
	"encoding/json"
	"fmt"
	"io"
	"math"
	"math/rand"
	"os"
	"sort"
	"strconv"
	"strings"
	"testing"
	"time"
	"unicode/utf8"

	"github.com/cockroachdb/redact/builder"
	ci "github.com/cockroachdb/redact/interfaces"
	cib "github.com/cockroachdb/redact/internal/buffer"
)

// ---------------------------------------------------------------------------------------------------
// reference functions (from the property statement)

// c09Esc: a payload with each marker character replaced by '?'.
func c09Esc(s string) string {
	if !strings.Contains(s, vS) && !strings.Contains(s, vE) {
		return s
	}
	return strings.ReplaceAll(strings.ReplaceAll(s, vS, "?"), vE, "?")
}

// c09Strip: the string with the markers removed.
func c09Strip(s string) string {
	return strings.ReplaceAll(strings.ReplaceAll(s, vS, ""), vE, "")
}

// c09DelEnv: a well-formed string with every envelope (start marker through end marker) deleted.
func c09DelEnv(s string) string {
	var b strings.Builder
	for {
		i := strings.Index(s, vS)
		if i < 0 {
			b.WriteString(s)
			return b.String()
		}
		j := strings.Index(s[i:], vE)
		if j < 0 {
			b.WriteString(s)
			return b.String()
		}
		b.WriteString(s[:i])
		s = s[i+j+len(vE):]
	}
}

// c09Sides: the content of a well-formed string, and for every content byte 's' (outside) or 'u' (inside
// an envelope).
func c09Sides(s string) (text string, flags string) {
	var tb, fb strings.Builder
	open := false
	for j := 0; j < len(s); {
		if j+3 <= len(s) && s[j:j+3] == vS {
			open = true
			j += 3
			continue
		}
		if j+3 <= len(s) && s[j:j+3] == vE {
			open = false
			j += 3
			continue
		}
		tb.WriteByte(s[j])
		if open {
			fb.WriteByte('u')
		} else {
			fb.WriteByte('s')
		}
		j++
	}
	return tb.String(), fb.String()
}

// c09NF: normal form up to merging of adjacent envelopes. An empty envelope is merged away as well: an
// unsafe call with an empty payload (or one that starts with a line feed) contributes an empty envelope, which
// every implementation elides; when it follows an empty envelope that came in through Print(RedactableString("‹›"))
// the printer merges the two and elides the result, the StringBuilder (which inlines the finished inner
// output) keeps "‹›". Both carry the same payloads on the same sides.
func c09NF(s string) string {
	return strings.ReplaceAll(strings.ReplaceAll(s, vE+vS, ""), vS+vE, "")
}

// ---------------------------------------------------------------------------------------------------
// histories

type c09Piece struct {
	safe bool
	text string
}

// c09Tgt is the object a call is made on.
type c09Tgt struct {
	sw SafeWriter             // the SafeWriter side (StringBuilder or SafePrinter); nil for a ManualBuffer
	sb *builder.StringBuilder // non-nil: a StringBuilder (io.Writer side: Write/WriteString/WriteByte/WriteRune)
	sp SafePrinter            // non-nil: a SafePrinter (fmt.State side: Write, io.WriteString, fmt.Fprintf)
}

type c09Op struct {
	text   string     // Go-like text of the call
	ptext  string     // text on a SafePrinter when it differs (io side)
	pieces []c09Piece // the payload(s) of the call and their side
	valid  bool       // payload is valid UTF-8 / a valid rune: the equalities are claimed
	// pInvalid: on a SafePrinter the call has no exact counterpart and the stand-in has an invalid payload
	// (StringBuilder.WriteByte(non-ASCII) is a single-byte unsafe write; on a fmt.State it is a one-byte Write)
	pInvalid bool
	ioSide   bool // goes through the plain io.Writer / fmt.State side
	// unsafeOnly: the payload is as stated only when the write really is unsafe (a non-ASCII UnsafeByte is
	// replaced by '?' in unsafe mode; under Safe() it is a safe single non-ASCII byte, an invalid payload)
	unsafeOnly bool
	run        func(t *c09Tgt)
	mb         func(b *ManualBuffer) // the same write on a ManualBuffer (nil: derived from pieces)
	raw        *string               // non-nil: on a ManualBuffer this is a raw-mode write of *raw
	mbText     string
}

const (
	c09U = cib.UnsafeEscaped
	c09S = cib.SafeEscaped
	c09R = cib.SafeRaw
)

func c09ModeName(m cib.OutputMode) string {
	switch m {
	case c09U:
		return "UnsafeEscaped"
	case c09S:
		return "SafeEscaped"
	}
	return "SafeRaw"
}

func c09One(safe bool, s string) []c09Piece { return []c09Piece{{safe, s}} }

// c09PiecesOf: the pieces of a well-formed redactable fragment.
func c09PiecesOf(r string) []c09Piece {
	text, flags := c09Sides(r)
	var ps []c09Piece
	for j := 0; j < len(text); {
		k := j
		for k < len(text) && flags[k] == flags[j] {
			k++
		}
		ps = append(ps, c09Piece{flags[j] == 's', text[j:k]})
		j = k
	}
	return ps
}

func c09Mode(safe bool) cib.OutputMode {
	if safe {
		return c09S
	}
	return c09U
}

func c09SideName(safe bool) string {
	if safe {
		return "Safe"
	}
	return "Unsafe"
}

// string payloads: every method that takes a string / byte slice
func c09StringOps(s string, methods string) []*c09Op {
	v := utf8.ValidString(s)
	q := fmt.Sprintf("%q", s)
	var ops []*c09Op
	add := func(key string, o *c09Op) {
		if methods == "" || strings.Contains(methods, key+",") {
			ops = append(ops, o)
		}
	}
	mbs := func(m cib.OutputMode, bytes bool) (func(b *ManualBuffer), string) {
		if bytes {
			return func(b *ManualBuffer) { b.SetMode(m); _, _ = b.Write([]byte(s)) }, "b.SetMode(" + c09ModeName(m) + "); b.Write([]byte(" + q + "))"
		}
		return func(b *ManualBuffer) { b.SetMode(m); _, _ = b.WriteString(s) }, "b.SetMode(" + c09ModeName(m) + "); b.WriteString(" + q + ")"
	}
	{
		f, ft := mbs(c09S, false)
		add("SafeString", &c09Op{text: "SafeString(" + q + ")", pieces: c09One(true, s), valid: v, mb: f, mbText: ft,
			run: func(t *c09Tgt) { t.sw.SafeString(SafeString(s)) }})
	}
	{
		f, ft := mbs(c09S, true)
		add("SafeBytes", &c09Op{text: "SafeBytes([]byte(" + q + "))", pieces: c09One(true, s), valid: v, mb: f, mbText: ft,
			run: func(t *c09Tgt) { t.sw.SafeBytes(ci.SafeBytes(s)) }})
	}
	{
		f, ft := mbs(c09U, false)
		add("UnsafeString", &c09Op{text: "UnsafeString(" + q + ")", pieces: c09One(false, s), valid: v, mb: f, mbText: ft,
			run: func(t *c09Tgt) { t.sw.UnsafeString(s) }})
	}
	{
		f, ft := mbs(c09U, true)
		add("UnsafeBytes", &c09Op{text: "UnsafeBytes([]byte(" + q + "))", pieces: c09One(false, s), valid: v, mb: f, mbText: ft,
			run: func(t *c09Tgt) { t.sw.UnsafeBytes([]byte(s)) }})
	}
	{
		f, ft := mbs(c09U, true)
		add("Write", &c09Op{text: "Write([]byte(" + q + "))", pieces: c09One(false, s), valid: v, ioSide: true, mb: f, mbText: ft,
			run: func(t *c09Tgt) {
				if t.sb != nil {
					_, _ = t.sb.Write([]byte(s))
				} else {
					_, _ = t.sp.Write([]byte(s))
				}
			}})
	}
	{
		f, ft := mbs(c09U, false)
		add("WriteString", &c09Op{text: "WriteString(" + q + ")", ptext: "io.WriteString(p, " + q + ")", pieces: c09One(false, s), valid: v, ioSide: true, mb: f, mbText: ft,
			run: func(t *c09Tgt) {
				if t.sb != nil {
					_, _ = t.sb.WriteString(s)
				} else {
					_, _ = io.WriteString(t.sp, s)
				}
			}})
	}
	if v { // the formatting entry points: only with valid payloads (fmt verbs on invalid UTF-8 are C02/C10)
		add("Print", &c09Op{text: "Print(" + q + ")", pieces: c09One(false, s), valid: true,
			run: func(t *c09Tgt) { t.sw.Print(s) }})
		add("PrintSafe", &c09Op{text: "Print(Safe(" + q + "))", pieces: c09One(true, s), valid: true,
			run: func(t *c09Tgt) { t.sw.Print(Safe(s)) }})
		add("PrintfS", &c09Op{text: "Printf(\"%s\", " + q + ")", pieces: c09One(false, s), valid: true,
			run: func(t *c09Tgt) { t.sw.Printf("%s", s) }})
		if !strings.Contains(s, "%") {
			add("PrintfLit", &c09Op{text: "Printf(" + q + ")", pieces: c09One(true, s), valid: true,
				run: func(t *c09Tgt) { t.sw.Printf(s) }})
			// a format is interpreted also when there is no operand: %% is one '%', a verb reports its missing operand
			add("PrintfPct", &c09Op{text: "Printf(" + fmt.Sprintf("%q", s+"100%% x") + ")", pieces: c09One(true, s+"100% x"), valid: true,
				run: func(t *c09Tgt) { t.sw.Printf(s + "100%% x") }})
			add("PrintfMissing", &c09Op{text: "Printf(" + fmt.Sprintf("%q", s+"%d") + ")", pieces: c09One(true, s+"%!d(MISSING)"), valid: true,
				run: func(t *c09Tgt) { t.sw.Printf(s + "%d") }})
			add("PrintfMix", &c09Op{text: "Printf(" + fmt.Sprintf("%q", s+"k=%v;%d"+s) + ", " + q + ", Safe(3))",
				pieces: []c09Piece{{true, s + "k="}, {false, s}, {true, ";3" + s}}, valid: true,
				run: func(t *c09Tgt) { t.sw.Printf(s+"k=%v;%d"+s, s, Safe(3)) }})
		}
		add("Fprintf", &c09Op{text: "fmt.Fprintf(w, \"%d-%s\", 5, " + q + ")", pieces: c09One(false, "5-"+s), valid: true, ioSide: true,
			run: func(t *c09Tgt) {
				if t.sb != nil {
					_, _ = fmt.Fprintf(t.sb, "%d-%s", 5, s)
				} else {
					_, _ = fmt.Fprintf(t.sp, "%d-%s", 5, s)
				}
			}})
	}
	return ops
}

func c09RuneOps(r rune, methods string) []*c09Op {
	v := utf8.ValidRune(r)
	q := fmt.Sprintf("%q", r)
	if !v {
		q = fmt.Sprintf("rune(%d)", r)
	}
	s := string(r) // U+FFFD for an invalid rune (not claimed: valid=false)
	var ops []*c09Op
	add := func(key string, o *c09Op) {
		if methods == "" || strings.Contains(methods, key+",") {
			ops = append(ops, o)
		}
	}
	mbr := func(m cib.OutputMode) (func(b *ManualBuffer), string) {
		return func(b *ManualBuffer) { b.SetMode(m); _ = b.WriteRune(r) }, "b.SetMode(" + c09ModeName(m) + "); b.WriteRune(" + q + ")"
	}
	{
		f, ft := mbr(c09S)
		add("SafeRune", &c09Op{text: "SafeRune(" + q + ")", pieces: c09One(true, s), valid: v, mb: f, mbText: ft,
			run: func(t *c09Tgt) { t.sw.SafeRune(SafeRune(r)) }})
	}
	{
		f, ft := mbr(c09U)
		add("UnsafeRune", &c09Op{text: "UnsafeRune(" + q + ")", pieces: c09One(false, s), valid: v, mb: f, mbText: ft,
			run: func(t *c09Tgt) { t.sw.UnsafeRune(r) }})
	}
	{
		f, ft := mbr(c09U)
		add("WriteRune", &c09Op{text: "WriteRune(" + q + ")", ptext: "fmt.Fprintf(p, \"%c\", " + q + ")", pieces: c09One(false, s), valid: v, ioSide: true, mb: f, mbText: ft,
			run: func(t *c09Tgt) {
				if t.sb != nil {
					_ = t.sb.WriteRune(r)
				} else {
					_, _ = fmt.Fprintf(t.sp, "%c", r)
				}
			}})
	}
	return ops
}

func c09ByteOps(c byte, methods string) []*c09Op {
	ascii := c < utf8.RuneSelf
	q := fmt.Sprintf("%q", rune(c))
	if !ascii {
		q = fmt.Sprintf("0x%02x", c)
	}
	var ops []*c09Op
	add := func(key string, o *c09Op) {
		if methods == "" || strings.Contains(methods, key+",") {
			ops = append(ops, o)
		}
	}
	mbb := func(m cib.OutputMode) (func(b *ManualBuffer), string) {
		return func(b *ManualBuffer) { b.SetMode(m); _ = b.WriteByte(c) }, "b.SetMode(" + c09ModeName(m) + "); b.WriteByte(" + q + ")"
	}
	// a single unsafe byte that is not ASCII is replaced by '?' (anchor internal/buffer/buffer.go:152-168)
	up := string(rune(c))
	if !ascii {
		up = "?"
	}
	{
		f, ft := mbb(c09S)
		// a single safe non-ASCII byte is not a valid UTF-8 payload: well-formedness only
		add("SafeByte", &c09Op{text: "SafeByte(" + q + ")", pieces: c09One(true, string([]byte{c})), valid: ascii, mb: f, mbText: ft,
			run: func(t *c09Tgt) { t.sw.SafeByte(ci.SafeByte(c)) }})
	}
	{
		f, ft := mbb(c09U)
		add("UnsafeByte", &c09Op{text: "UnsafeByte(" + q + ")", pieces: c09One(false, up), valid: true, unsafeOnly: !ascii, mb: f, mbText: ft,
			run: func(t *c09Tgt) { t.sw.UnsafeByte(c) }})
	}
	{
		f, ft := mbb(c09U)
		// StringBuilder.WriteByte is a single-byte unsafe write; a fmt.State has no WriteByte: a one-byte
		// Write of a non-ASCII byte is an invalid UTF-8 payload (well-formedness only).
		add("WriteByte", &c09Op{text: "WriteByte(" + q + ")", ptext: "Write([]byte{" + q + "})", pieces: c09One(false, up), valid: true, pInvalid: !ascii, ioSide: true, mb: f, mbText: ft,
			run: func(t *c09Tgt) {
				if t.sb != nil {
					_ = t.sb.WriteByte(c)
				} else {
					_, _ = t.sp.Write([]byte{c})
				}
			}})
	}
	return ops
}

// c09Fmt is a SafeFormatter whose SafeFormat method makes the given calls on the printer it is handed.
type c09Fmt struct{ ops []*c09Op }

func (f c09Fmt) SafeFormat(p SafePrinter, _ rune) {
	t := c09Tgt{sw: p, sp: p}
	for _, o := range f.ops {
		o.run(&t)
	}
}

func c09SeqText(ops []*c09Op, printer bool, recv string) string {
	var parts []string
	for _, o := range ops {
		tx := o.text
		if printer && o.ptext != "" {
			parts = append(parts, o.ptext)
			continue
		}
		if strings.HasPrefix(tx, "fmt.Fprintf(w, ") {
			parts = append(parts, "fmt.Fprintf("+recv+", "+tx[len("fmt.Fprintf(w, "):])
			continue
		}
		parts = append(parts, recv+"."+tx)
	}
	return strings.Join(parts, "; ")
}

func c09MiscOps() []*c09Op {
	var ops []*c09Op
	ops = append(ops,
		&c09Op{text: "SafeInt(-12)", pieces: c09One(true, "-12"), valid: true, run: func(t *c09Tgt) { t.sw.SafeInt(-12) }},
		&c09Op{text: "SafeUint(7)", pieces: c09One(true, "7"), valid: true, run: func(t *c09Tgt) { t.sw.SafeUint(7) }},
		// the extremes of the integer payloads (a SafeUint at or above 2^63 must not come out negative)
		&c09Op{text: "SafeUint(1<<63)", pieces: c09One(true, "9223372036854775808"), valid: true, run: func(t *c09Tgt) { t.sw.SafeUint(1 << 63) }},
		&c09Op{text: "SafeUint(math.MaxUint64)", pieces: c09One(true, "18446744073709551615"), valid: true, run: func(t *c09Tgt) { t.sw.SafeUint(math.MaxUint64) }},
		&c09Op{text: "SafeInt(math.MinInt64)", pieces: c09One(true, "-9223372036854775808"), valid: true, run: func(t *c09Tgt) { t.sw.SafeInt(math.MinInt64) }},
		&c09Op{text: "SafeFloat(1.5)", pieces: c09One(true, "1.5"), valid: true, run: func(t *c09Tgt) { t.sw.SafeFloat(1.5) }},
		// the float payloads that are not digits (an infinity keeps its sign, as in fmt; seed C09-9)
		&c09Op{text: "SafeFloat(math.Inf(1))", pieces: c09One(true, "+Inf"), valid: true, run: func(t *c09Tgt) { t.sw.SafeFloat(SafeFloat(math.Inf(1))) }},
		&c09Op{text: "SafeFloat(math.Inf(-1))", pieces: c09One(true, "-Inf"), valid: true, run: func(t *c09Tgt) { t.sw.SafeFloat(SafeFloat(math.Inf(-1))) }},
		&c09Op{text: "SafeFloat(math.NaN())", pieces: c09One(true, "NaN"), valid: true, run: func(t *c09Tgt) { t.sw.SafeFloat(SafeFloat(math.NaN())) }},
		&c09Op{text: "Print(1, 2)", pieces: []c09Piece{{false, "1"}, {true, " "}, {false, "2"}}, valid: true, run: func(t *c09Tgt) { t.sw.Print(1, 2) }},
		&c09Op{text: "Print(Safe(1), \"x\", Safe(2), Safe(3))", pieces: []c09Piece{{true, "1"}, {false, "x"}, {true, "2 3"}}, valid: true,
			run: func(t *c09Tgt) { t.sw.Print(Safe(1), "x", Safe(2), Safe(3)) }},
	)
	for _, r := range []string{vS + "a" + vE, "b", "c" + vS + "d" + vE + "e", vS + vE, "\n", vS + "?" + vE + "\n" + vS + "f" + vE, ""} {
		r := r
		q := fmt.Sprintf("%q", r)
		ops = append(ops, &c09Op{text: "Print(RedactableString(" + q + "))", pieces: c09PiecesOf(r), valid: true,
			run:    func(t *c09Tgt) { t.sw.Print(RedactableString(r)) },
			raw:    &r,
			mb:     func(b *ManualBuffer) { b.SetMode(c09R); _, _ = b.WriteString(r) },
			mbText: "b.SetMode(SafeRaw); b.WriteString(" + q + ")"})
	}
	{
		r := "g" + vS + "h" + vE
		q := fmt.Sprintf("%q", r)
		ops = append(ops, &c09Op{text: "Printf(\"%v\", RedactableBytes(" + q + "))", pieces: c09PiecesOf(r), valid: true,
			run:    func(t *c09Tgt) { t.sw.Printf("%v", RedactableBytes(r)) },
			raw:    &r,
			mb:     func(b *ManualBuffer) { b.SetMode(c09R); _, _ = b.Write([]byte(r)) },
			mbText: "b.SetMode(SafeRaw); b.Write([]byte(" + q + "))"})
	}
	// pre-redactable fragments without markers that end in a piece of a marker (well-formedness only)
	for _, r := range []string{"\xe2\x80", vS + "\xe2\x80" + vE, "\xba"} {
		r := r
		q := fmt.Sprintf("%q", r)
		ops = append(ops, &c09Op{text: "Print(RedactableString(" + q + "))", pieces: c09PiecesOf(r), valid: false,
			run:    func(t *c09Tgt) { t.sw.Print(RedactableString(r)) },
			raw:    &r,
			mb:     func(b *ManualBuffer) { b.SetMode(c09R); _, _ = b.WriteString(r) },
			mbText: "b.SetMode(SafeRaw); b.WriteString(" + q + ")"})
	}
	// nested: Print / Printf of a SafeFormatter that itself makes SafeWriter calls
	inner1 := []*c09Op{c09StringOps("i", "SafeString,")[0], c09StringOps(vS+"\nj", "UnsafeString,")[0], c09RuneOps('›', "SafeRune,")[0]}
	inner2 := []*c09Op{c09StringOps("u", "Write,")[0], c09StringOps("=", "PrintfMix,")[0], c09ByteOps('\n', "UnsafeByte,")[0]}
	for _, in := range [][]*c09Op{inner1, inner2} {
		in := in
		var ps []c09Piece
		for _, o := range in {
			ps = append(ps, o.pieces...)
		}
		tx := "SafeFormatter{" + c09SeqText(in, true, "p") + "}"
		ops = append(ops,
			&c09Op{text: "Print(" + tx + ")", pieces: ps, valid: true, run: func(t *c09Tgt) { t.sw.Print(c09Fmt{in}) }},
			&c09Op{text: "Printf(\"<%v>\", " + tx + ")", pieces: append(append([]c09Piece{{true, "<"}}, ps...), c09Piece{true, ">"}), valid: true,
				run: func(t *c09Tgt) { t.sw.Printf("<%v>", c09Fmt{in}) }})
	}
	return ops
}

// payload alphabet: ordinary, space, line feed, the two markers, a multi-byte character, the empty payload,
// and a few two/three character payloads
var c09Strs = []string{"a", " ", "\n", vS, vE, "é", "", "x\ny", vS + "z" + vE, "\ufffd", "q\ufffd"}

// invalid UTF-8 payloads (well-formedness and line-safety only): the pieces of a marker, a marker followed by
// a partial marker, a stray lead byte before a line feed
var c09BadStrs = []string{"\xe2\x80", "\xb9", "\xe2", "\xba", vE + "\xe2\x80", "\xe9", "\xe9\nb"}
var c09Runes = []rune{'a', ' ', '\n', '‹', '›', 'é'}
var c09BadRunes = []rune{-1, 0xD800}
var c09Bytes = []byte{'a', ' ', '\n', 0xe2, 0x80, 0xb9, 0xba}

// c09FullCatalog: every method with every payload class.
func c09FullCatalog(extra []string) []*c09Op {
	var ops []*c09Op
	for _, s := range append(append([]string{}, c09Strs...), extra...) {
		ops = append(ops, c09StringOps(s, "")...)
	}
	for _, s := range c09BadStrs {
		ops = append(ops, c09StringOps(s, "SafeString,UnsafeString,Write,")...)
	}
	for _, r := range c09Runes {
		ops = append(ops, c09RuneOps(r, "")...)
	}
	for _, r := range c09BadRunes {
		ops = append(ops, c09RuneOps(r, "")...)
	}
	for _, c := range c09Bytes {
		ops = append(ops, c09ByteOps(c, "")...)
	}
	ops = append(ops, c09MiscOps()...)
	return ops
}

// c09Pick: the calls whose text starts with one of the given prefixes (exactly one each).
func c09Pick(ops []*c09Op, prefixes ...string) []*c09Op {
	var out []*c09Op
	for _, p := range prefixes {
		n := 0
		for _, o := range ops {
			if strings.HasPrefix(o.text, p) {
				out = append(out, o)
				n++
			}
		}
		if n != 1 {
			panic(fmt.Sprintf("c09Pick: %q matches %d calls", p, n))
		}
	}
	return out
}

// c09MidCatalog: every method with every single-character payload class and the empty payload, plus a
// selection of invalid payloads, redactable fragments and a nested SafeFormatter.
func c09MidCatalog() []*c09Op {
	var ops []*c09Op
	for _, s := range []string{"a", " ", "\n", vS, vE, "é", ""} {
		ops = append(ops, c09StringOps(s, "")...)
	}
	ops = append(ops, c09StringOps("\xe2\x80", "SafeString,UnsafeString,Write,")...)
	ops = append(ops, c09StringOps("\xb9", "SafeString,")...)
	for _, r := range []rune{'\n', '‹', '›', 'é'} {
		ops = append(ops, c09RuneOps(r, "")...)
	}
	ops = append(ops, c09RuneOps(-1, "UnsafeRune,")...)
	for _, c := range []byte{'a', '\n', 0xe2} {
		ops = append(ops, c09ByteOps(c, "")...)
	}
	misc := c09MiscOps()
	ops = append(ops, c09Pick(misc, "SafeInt(-12)", "Print(1, 2)", "Print(RedactableString(\"‹a›\"))", "Print(RedactableString(\"b\"))",
		"Print(RedactableString(\"c‹d›e\"))", "Print(RedactableString(\"‹›\"))", "Print(RedactableString(\"\\n\"))",
		"Print(RedactableString(\"\\xe2\\x80\"))", "Print(SafeFormatter{p.SafeString(\"i\")")...)
	return ops
}

// c09CoreCatalog: every method at least once, every payload class on both sides; small enough for the
// deepest enumeration.
func c09CoreCatalog() []*c09Op {
	var ops []*c09Op
	ops = append(ops, c09StringOps("a", "SafeString,UnsafeString,Write,")...)
	ops = append(ops, c09StringOps("\n", "SafeString,UnsafeString,Write,")...)
	ops = append(ops, c09StringOps(vS, "SafeString,UnsafeBytes,WriteString,PrintSafe,")...)
	ops = append(ops, c09StringOps(vE, "SafeBytes,UnsafeString,Print,")...)
	ops = append(ops, c09StringOps("é", "SafeString,UnsafeString,")...)
	ops = append(ops, c09StringOps("", "UnsafeString,")...)
	ops = append(ops, c09StringOps("x\ny", "PrintfMix,Fprintf,")...)
	ops = append(ops, c09RuneOps('›', "SafeRune,WriteRune,")...)
	ops = append(ops, c09RuneOps(' ', "SafeRune,")...)
	ops = append(ops, c09RuneOps('‹', "UnsafeRune,")...)
	ops = append(ops, c09RuneOps('\n', "UnsafeRune,")...)
	ops = append(ops, c09ByteOps('a', "SafeByte,UnsafeByte,")...)
	ops = append(ops, c09ByteOps('\n', "UnsafeByte,")...)
	ops = append(ops, c09ByteOps(0xe2, "SafeByte,UnsafeByte,")...)
	ops = append(ops, c09ByteOps(0x80, "WriteByte,")...)
	misc := c09MiscOps()
	ops = append(ops, c09Pick(misc, "SafeInt(-12)", "SafeFloat(1.5)", "Print(RedactableString(\"‹a›\"))", "Print(RedactableString(\"b\"))")...)
	return ops
}

// ---------------------------------------------------------------------------------------------------
// checking one history

type c09Checker struct {
	t     *testing.T
	limit int
	fails int
	// measured
	histories   int // histories run
	outputs     int // results observed (all implementations)
	claimed     int // histories with only valid payloads (equalities claimed)
	nontrivial  int // see c09NontrivialRule
	ioHistories int // claimed histories with a call on the io.Writer / fmt.State side
	agreeCases  int // claimed histories compared across implementations
	agreeNontr  int // ... of which non-trivial
	wrapped     int // histories also run under Safe()
	seen        map[string]bool
}

const c09NontrivialRule = "distinct histories with only valid payloads that put a non-empty payload on each side, or contain a marker or a line feed in a payload"

func (c *c09Checker) fail(call, out, why string) {
	c.fails++
	m, _ := json.Marshal(map[string]string{"property": "C09", "call": call, "output": fmt.Sprintf("%q", out), "why": why})
	fmt.Printf("REPLAY-FAIL: %s\n", m)
	c.t.Errorf("%s: %s: %q", call, why, out)
}

func (c *c09Checker) done() bool { return c.fails >= c.limit }

// c09KnownDefect: inputs on which the library is believed to genuinely violate the statement; the check is
// kept and these inputs are skipped (reported in the final answer). Empty when there is none.
func c09KnownDefect(seq []*c09Op) bool { return false }

func (c *c09Checker) check(seq []*c09Op, wrap bool) {
	if c09KnownDefect(seq) {
		return
	}
	c.histories++
	valid, pvalid := true, true
	for _, o := range seq {
		if !o.valid {
			valid = false
		}
		if !o.valid || o.pInvalid {
			pvalid = false
		}
	}
	// expected content and sides, from the statement
	var expText, expFlags, expDel string
	nontrivialHere := false
	if valid {
		var tb, fb, db strings.Builder
		hasS, hasU, special, viaIO := false, false, false, false
		for _, o := range seq {
			if o.ioSide {
				viaIO = true
			}
			for _, p := range o.pieces {
				if strings.Contains(p.text, vS) || strings.Contains(p.text, vE) || strings.Contains(p.text, "\n") {
					special = true
				}
				e := c09Esc(p.text)
				tb.WriteString(e)
				if p.safe {
					hasS = hasS || e != ""
					db.WriteString(e)
					for k := 0; k < len(e); k++ {
						fb.WriteByte('s')
					}
				} else {
					hasU = hasU || e != ""
					for k := 0; k < len(e); k++ {
						if e[k] == '\n' {
							db.WriteByte('\n')
							fb.WriteByte('s')
						} else {
							fb.WriteByte('u')
						}
					}
				}
			}
		}
		expText, expFlags, expDel = tb.String(), fb.String(), db.String()
		c.claimed++
		if viaIO {
			c.ioHistories++
		}
		if (hasS && hasU) || special {
			nontrivialHere = true
			if c.seen != nil {
				k := c09SeqText(seq, false, "w")
				if !c.seen[k] {
					c.seen[k] = true
					c.nontrivial++
				}
			} else {
				c.nontrivial++
			}
		}
	}

	verify := func(call func() string, out string, valid bool, sidesClaimed bool, pre, post string) (nf string, ok bool) {
		c.outputs++
		if !vWellFormed(out) {
			c.fail(call(), out, "the result is not well-formed (markers do not alternate / an envelope is left open)")
			return "", false
		}
		if !vLineSafe(out) {
			c.fail(call(), out, "the result is not line-safe (a line feed inside an envelope)")
			return "", false
		}
		if !valid {
			return "", true
		}
		if !strings.HasPrefix(out, pre) || !strings.HasSuffix(out, post) || len(out) < len(pre)+len(post) {
			c.fail(call(), out, "the safe literal text around the formatter's output is missing")
			return "", false
		}
		body := out[len(pre) : len(out)-len(post)]
		if got := c09Strip(body); got != expText {
			c.fail(call(), out, fmt.Sprintf("with markers stripped the result is %q, not the concatenation in call order of the payloads with markers replaced by '?', %q", got, expText))
			return "", false
		}
		if !sidesClaimed {
			return "", true
		}
		if got := c09DelEnv(body); got != expDel {
			c.fail(call(), out, fmt.Sprintf("with envelopes deleted the result is %q, not the safe payloads plus the line feeds of the unsafe ones, %q", got, expDel))
			return "", false
		}
		if _, flags := c09Sides(body); flags != expFlags {
			c.fail(call(), out, fmt.Sprintf("a payload is not on its own side: sides per content byte are %q, expected %q (s outside, u inside an envelope)", flags, expFlags))
			return "", false
		}
		return c09NF(body), true
	}

	type res struct {
		name string
		call func() string
		nf   string
		out  string
	}
	var rs []res

	// 1. StringBuilder
	{
		var b builder.StringBuilder
		t := c09Tgt{sw: &b, sb: &b}
		for _, o := range seq {
			o.run(&t)
		}
		out := string(b.RedactableString())
		call := func() string { return "var b StringBuilder; " + c09SeqText(seq, false, "b") + "; b.RedactableString()" }
		if nf, ok := verify(call, out, valid, true, "", ""); ok {
			rs = append(rs, res{"StringBuilder", call, nf, out})
		}
	}
	// 2. the SafePrinter of Sprintfn
	{
		out := string(Sprintfn(func(p SafePrinter) {
			t := c09Tgt{sw: p, sp: p}
			for _, o := range seq {
				o.run(&t)
			}
		}))
		call := func() string { return "Sprintfn(func(p SafePrinter) { " + c09SeqText(seq, true, "p") + " })" }
		if nf, ok := verify(call, out, pvalid, true, "", ""); ok && pvalid {
			rs = append(rs, res{"Sprintfn", call, nf, out})
		}
	}
	// 3. the SafePrinter handed to a SafeFormat method
	{
		out := string(Sprint(c09Fmt{seq}))
		call := func() string {
			return "Sprint(f) where f.SafeFormat(p SafePrinter, _ rune) { " + c09SeqText(seq, true, "p") + " }"
		}
		if nf, ok := verify(call, out, pvalid, true, "", ""); ok && pvalid {
			rs = append(rs, res{"SafeFormat", call, nf, out})
		}
	}
	{
		out := string(Sprintf("[%v]", c09Fmt{seq}))
		call := func() string {
			return "Sprintf(\"[%v]\", f) where f.SafeFormat(p SafePrinter, _ rune) { " + c09SeqText(seq, true, "p") + " }"
		}
		if nf, ok := verify(call, out, pvalid, true, "[", "]"); ok && pvalid {
			rs = append(rs, res{"SafeFormat in Sprintf", call, nf, out})
		}
	}
	// 4. ManualBuffer. Consecutive raw writes must add up to a well-formed fragment (the caller vouches for raw
	// data; the StringBuilder and the printers finish each Print on its own): otherwise the history is outside
	// the statement for a ManualBuffer.
	mbOK := true
	if !valid {
		run := ""
		for _, o := range seq {
			if o.raw == nil {
				run = ""
				continue
			}
			run += *o.raw
			if !vWellFormed(run) {
				mbOK = false
			}
		}
	}
	if mbOK {
		var b ManualBuffer
		for _, o := range seq {
			if o.mb != nil {
				o.mb(&b)
				continue
			}
			for _, p := range o.pieces {
				b.SetMode(c09Mode(p.safe))
				_, _ = b.WriteString(p.text)
			}
		}
		out := string(b.RedactableString())
		call := func() string {
			var parts []string
			for _, o := range seq {
				if o.mb != nil {
					parts = append(parts, o.mbText)
					continue
				}
				for _, p := range o.pieces {
					parts = append(parts, fmt.Sprintf("b.SetMode(%sEscaped); b.WriteString(%q)", c09SideName(p.safe), p.text))
				}
			}
			return "var b ManualBuffer; " + strings.Join(parts, "; ") + "; b.RedactableString()"
		}
		if nf, ok := verify(call, out, valid, true, "", ""); ok {
			rs = append(rs, res{"ManualBuffer", call, nf, out})
			if valid {
				if s := b.String(); s != expText {
					c.fail(strings.TrimSuffix(call(), "RedactableString()")+"String()", s, "ManualBuffer.String() is not the stripped content")
				}
			}
		}
	}
	// agreement up to merging of adjacent envelopes
	if valid && len(rs) > 1 {
		if pvalid {
			c.agreeCases++
			if nontrivialHere {
				c.agreeNontr++
			}
		}
		for _, r := range rs[1:] {
			if r.nf != rs[0].nf {
				c.fail(r.call(), r.out, fmt.Sprintf("%s and %s disagree beyond merging of adjacent envelopes: StringBuilder gives %q", r.name, rs[0].name, rs[0].out))
				break
			}
		}
	}
	// 5. the same SafeFormat method under Safe(): sides are deliberately overridden (C05/C06); the result
	// must still be well-formed, line-safe, and carry every payload once, in order.
	if wrap {
		c.wrapped++
		out := string(Sprint(Safe(c09Fmt{seq})))
		call := func() string {
			return "Sprint(Safe(f)) where f.SafeFormat(p SafePrinter, _ rune) { " + c09SeqText(seq, true, "p") + " }"
		}
		wvalid := pvalid
		for _, o := range seq {
			if o.unsafeOnly {
				wvalid = false // well-formedness and line-safety only
			}
		}
		verify(call, out, wvalid, false, "", "")
	}
}

// c09Enumerate runs check on every sequence over ops of length 0..n (stops at the failure limit).
func c09Enumerate(c *c09Checker, ops []*c09Op, n int, wrapEvery int) (count int, complete bool) {
	seq := make([]*c09Op, 0, n)
	var rec func(left int) bool
	rec = func(left int) bool {
		count++
		c.check(seq, wrapEvery > 0 && count%wrapEvery == 0)
		if c.done() {
			return false
		}
		if left == 0 {
			return true
		}
		for _, o := range ops {
			seq = append(seq, o)
			ok := rec(left - 1)
			seq = seq[:len(seq)-1]
			if !ok {
				return false
			}
		}
		return true
	}
	complete = rec(n)
	return
}

// c09EnumerateExact runs check on every sequence of length exactly n.
func c09EnumerateExact(c *c09Checker, ops []*c09Op, n int, wrapEvery int) (count int, complete bool) {
	idx := make([]int, n)
	seq := make([]*c09Op, n)
	for {
		for k := range idx {
			seq[k] = ops[idx[k]]
		}
		count++
		c.check(seq, wrapEvery > 0 && count%wrapEvery == 0)
		if c.done() {
			return count, false
		}
		k := n - 1
		for k >= 0 {
			idx[k]++
			if idx[k] < len(ops) {
				break
			}
			idx[k] = 0
			k--
		}
		if k < 0 {
			return count, true
		}
	}
}

// ---------------------------------------------------------------------------------------------------
// ManualBuffer at the level of its own steps: SetMode and raw writes as separate steps, the mode persists

type c09Step struct {
	text    string
	setMode int                   // 0..2: SetMode(mode); -1: a write
	payload string                // written bytes
	kind    byte                  // 's' WriteString, 'w' Write, 'b' WriteByte, 'r' WriteRune
	rawOK   bool                  // a well-formed, line-safe fragment (allowed in SafeRaw mode)
	validS  bool                  // a valid UTF-8 payload when written in SafeEscaped or SafeRaw mode
	validU  bool                  // a valid payload when written in UnsafeEscaped mode
	do      func(b *ManualBuffer) //
	unsafeP string                // payload when written in UnsafeEscaped mode
}

// c09Steps: the step alphabet; extended adds a raw/escaped write that ends in two thirds of a marker and the
// byte that would complete it (well-formedness only).
func c09Steps(extended bool) []*c09Step {
	var st []*c09Step
	for _, m := range []cib.OutputMode{c09U, c09S, c09R} {
		m := m
		st = append(st, &c09Step{text: "SetMode(" + c09ModeName(m) + ")", setMode: int(m), do: func(b *ManualBuffer) { b.SetMode(m) }})
	}
	for _, s := range []string{"a", "\n", vS, vE, "é", vS + "b" + vE, ""} {
		s := s
		raw := vWellFormed(s) && vLineSafe(s)
		st = append(st, &c09Step{text: fmt.Sprintf("WriteString(%q)", s), setMode: -1, payload: s, kind: 's', rawOK: raw, validS: true, validU: true, unsafeP: s,
			do: func(b *ManualBuffer) { _, _ = b.WriteString(s) }})
	}
	st = append(st, &c09Step{text: "Write([]byte(\" \\n\"))", setMode: -1, payload: " \n", kind: 'w', rawOK: true, validS: true, validU: true, unsafeP: " \n",
		do: func(b *ManualBuffer) { _, _ = b.Write([]byte(" \n")) }})
	bytes := []byte{'a', '\n', 0xe2}
	if extended {
		bytes = append(bytes, 0xb9)
		s := "\xe2\x80"
		st = append(st, &c09Step{text: fmt.Sprintf("WriteString(%q)", s), setMode: -1, payload: s, kind: 's', rawOK: true, validS: false, validU: false, unsafeP: s,
			do: func(b *ManualBuffer) { _, _ = b.WriteString(s) }})
	}
	for _, ch := range bytes {
		ch := ch
		up := string([]byte{ch})
		if ch >= utf8.RuneSelf {
			up = "?"
		}
		st = append(st, &c09Step{text: fmt.Sprintf("WriteByte(0x%02x)", ch), setMode: -1, payload: string([]byte{ch}), kind: 'b', rawOK: true, validS: ch < utf8.RuneSelf, validU: true, unsafeP: up,
			do: func(b *ManualBuffer) { _ = b.WriteByte(ch) }})
	}
	for _, r := range []rune{'‹', '\n', ' '} {
		r := r
		st = append(st, &c09Step{text: fmt.Sprintf("WriteRune(%q)", r), setMode: -1, payload: string(r), kind: 'r', rawOK: r != '‹', validS: true, validU: true, unsafeP: string(r),
			do: func(b *ManualBuffer) { _ = b.WriteRune(r) }})
	}
	return st
}

// c09StepHistories enumerates every step sequence of length minLen..n (raw-mode writes restricted to well-formed
// fragments, as the statement says) and checks the ManualBuffer result.
func c09StepHistories(c *c09Checker, n int, extended bool, minLen int) (count, claimed, nontrivial int, complete bool) {
	steps := c09Steps(extended)
	seq := make([]*c09Step, 0, n)
	var rec func(left int, mode int, rawRun string) bool
	check := func() {
		count++
		var b ManualBuffer
		mode := int(c09U) // the zero ManualBuffer is in UnsafeEscaped mode
		valid := true
		var tb, fb strings.Builder
		hasS, hasU, special := false, false, false
		for _, s := range seq {
			s.do(&b)
			if s.setMode >= 0 {
				mode = s.setMode
				continue
			}
			var ps []c09Piece
			switch cib.OutputMode(mode) {
			case c09U:
				ps = c09One(false, s.unsafeP)
				if !s.validU {
					valid = false
				}
			case c09S:
				ps = c09One(true, s.payload)
				if !s.validS {
					valid = false
				}
			default:
				ps = c09PiecesOf(s.payload)
				if !s.validS {
					valid = false
				}
			}
			for _, p := range ps {
				if strings.Contains(p.text, vS) || strings.Contains(p.text, vE) || strings.Contains(p.text, "\n") {
					special = true
				}
				e := c09Esc(p.text)
				tb.WriteString(e)
				for k := 0; k < len(e); k++ {
					if p.safe || e[k] == '\n' {
						fb.WriteByte('s')
					} else {
						fb.WriteByte('u')
					}
				}
				if e != "" {
					if p.safe {
						hasS = true
					} else {
						hasU = true
					}
				}
			}
		}
		out := string(b.RedactableString())
		call := func() string {
			var parts []string
			for _, s := range seq {
				parts = append(parts, "b."+s.text)
			}
			return "var b ManualBuffer; " + strings.Join(parts, "; ") + "; b.RedactableString()"
		}
		c.outputs++
		if !vWellFormed(out) {
			c.fail(call(), out, "the result is not well-formed")
			return
		}
		if !vLineSafe(out) {
			c.fail(call(), out, "the result is not line-safe (a line feed inside an envelope)")
			return
		}
		if !valid {
			return
		}
		claimed++
		if (hasS && hasU) || special {
			nontrivial++
		}
		expText, expFlags := tb.String(), fb.String()
		text, flags := c09Sides(out)
		if got := c09Strip(out); got != expText || text != expText {
			c.fail(call(), out, fmt.Sprintf("with markers stripped the result is %q, not the concatenation in call order of the payloads with markers replaced by '?', %q", got, expText))
			return
		}
		if flags != expFlags {
			c.fail(call(), out, fmt.Sprintf("a payload is not on the side of the mode it was written in: sides per content byte are %q, expected %q", flags, expFlags))
			return
		}
		if again := string(b.RedactableString()); again != out || string(b.RedactableBytes()) != out || b.Len() != len(out) {
			c.fail(call(), again, "RedactableString()/RedactableBytes()/Len() of the same buffer disagree")
		}
	}
	rec = func(left int, mode int, rawRun string) bool {
		if len(seq) >= minLen {
			check()
		}
		if c.done() {
			return false
		}
		if left == 0 {
			return true
		}
		for _, s := range steps {
			nm, nrun := mode, rawRun
			if s.setMode >= 0 {
				nm = s.setMode
				if cib.OutputMode(nm) != c09R {
					nrun = ""
				}
			} else if cib.OutputMode(mode) == c09R {
				// consecutive raw writes must add up to a well-formed, line-safe fragment (the caller vouches for
				// raw data); anything else is outside the statement
				nrun = rawRun + s.payload
				if !s.rawOK || !vWellFormed(nrun) || !vLineSafe(nrun) {
					continue
				}
			}
			seq = append(seq, s)
			ok := rec(left-1, nm, nrun)
			seq = seq[:len(seq)-1]
			if !ok {
				return false
			}
		}
		return true
	}
	complete = rec(n, int(c09U), "")
	return
}

// ---------------------------------------------------------------------------------------------------

func c09Hints() (strs []string) {
	var hints map[string]interface{}
	_ = json.Unmarshal([]byte(os.Getenv("REPLAY_HINTS")), &hints)
	keys := make([]string, 0, len(hints))
	for k := range hints {
		keys = append(keys, k)
	}
	sort.Strings(keys)
	for _, k := range keys {
		s, ok := hints[k].(string)
		if !ok {
			continue
		}
		if n, err := strconv.ParseInt(s, 10, 64); err == nil {
			// a numeric model value: as a byte and as a rune
			if n >= 0 && n < 256 {
				strs = append(strs, string([]byte{byte(n)}))
			}
			if n >= 0 && n <= utf8.MaxRune && utf8.ValidRune(rune(n)) {
				strs = append(strs, string(rune(n)))
			}
			continue
		}
		if len(s) <= 64 {
			strs = append(strs, s)
		}
	}
	if len(strs) > 4 {
		strs = strs[:4]
	}
	return
}

func TestVerifReplayC09(t *testing.T) {
	c := &c09Checker{t: t, limit: 12}
	extra := c09Hints()
	full := c09FullCatalog(extra)
	// the payloads of the solver model first: alone, and around every core call
	if len(extra) > 0 {
		var hops []*c09Op
		for _, s := range extra {
			hops = append(hops, c09StringOps(s, "")...)
		}
		core := c09CoreCatalog()
		for _, h := range hops {
			c.check([]*c09Op{h}, true)
			for _, o := range core {
				c.check([]*c09Op{h, o}, true)
				c.check([]*c09Op{o, h}, true)
				if c.done() {
					return
				}
			}
		}
	}
	if c.done() {
		return
	}
	// every history of at most 2 calls over the full catalog (every one also under Safe()), then every
	// history of 3 calls over the core catalog
	if _, ok := c09Enumerate(c, full, 2, 1); !ok {
		return
	}
	if _, ok := c09EnumerateExact(c, c09CoreCatalog(), 3, 7); !ok {
		return
	}
	if _, _, _, ok := c09StepHistories(c, 4, true, 0); !ok {
		return
	}
	// a few long histories (fixed seed)
	rnd := rand.New(rand.NewSource(9))
	for k := 0; k < 3000 && !c.done(); k++ {
		seq := make([]*c09Op, 4+rnd.Intn(30))
		for j := range seq {
			seq[j] = full[rnd.Intn(len(full))]
			if k%3 != 0 && (!seq[j].valid || seq[j].pInvalid) {
				seq[j] = full[0]
			}
		}
		c.check(seq, k%4 == 0)
	}
	t.Logf("C09 replay: %d histories, %d results, %d under Safe(), %d failures", c.histories, c.outputs, c.wrapped, c.fails)
}

func TestVerifBoundedC09(t *testing.T) {
	thorough := os.Getenv("VERIF_TIER") == "thorough"
	seed := int64(1)
	if v, err := strconv.ParseInt(os.Getenv("VERIF_SEED"), 10, 64); err == nil {
		seed = v
	}
	start := time.Now()
	c := &c09Checker{t: t, limit: 8, seen: nil}
	full := c09FullCatalog(nil)
	mid := c09MidCatalog()
	core := c09CoreCatalog()
	// quick: full catalog up to 2 calls, core catalog 3 calls; thorough: also mid catalog 3 calls, core catalog 4 calls
	midLen, coreLen, stepLen, nRandom := 0, 3, 5, 30000
	if thorough {
		midLen, coreLen, stepLen, nRandom = 3, 4, 6, 60000
	}
	var phases []string
	lap := time.Now()
	mark := func(name string, n int) {
		phases = append(phases, fmt.Sprintf("%s: %d in %.1fs", name, n, time.Since(lap).Seconds()))
		lap = time.Now()
	}

	// A. every history of at most 2 calls over the full catalog
	nFull, complete := c09Enumerate(c, full, 2, 1+len(full)/8)
	mark("full<=2", nFull)
	// B. every history of exactly 3 calls over the mid catalog (thorough)
	nMid := 0
	if complete && midLen == 3 {
		nMid, complete = c09EnumerateExact(c, mid, 3, 13)
		mark("mid=3", nMid)
	}
	// C. every history of 3..coreLen calls over the core catalog
	nCore := 0
	for l := 3; l <= coreLen && complete; l++ {
		if l == midLen {
			continue // the core calls are mid calls: already covered
		}
		var n int
		n, complete = c09EnumerateExact(c, core, l, 11)
		nCore += n
		mark(fmt.Sprintf("core=%d", l), n)
	}
	enumHist, enumClaimed, enumNontrivial, enumIO, enumAgree, enumAgreeNontr, enumOutputs := c.histories, c.claimed, c.nontrivial, c.ioHistories, c.agreeCases, c.agreeNontr, c.outputs
	bound := fmt.Sprintf("all call sequences of at most 2 calls over the full catalog (%d calls: every method x payloads {ordinary, space, LF, start, end, 2-byte char, empty, \"x\\ny\", \"‹z›\"}, invalid bytes/runes, Print/Printf of redactable fragments, of several operands and of nested SafeFormatters)", len(full))
	if midLen == 3 {
		bound += fmt.Sprintf(", of exactly 3 calls over the mid catalog (%d calls: every method x the seven single-character/empty payloads, a selection of the rest)", len(mid))
	}
	bound += fmt.Sprintf(", and of at most %d calls over the core catalog (%d calls: every method, every payload class on both sides); each history on StringBuilder, Sprintfn, SafeFormat via Sprint and via Sprintf, and ManualBuffer", coreLen, len(core))
	emit := func(law string, cases, nontrivial int, rule, bound string, exhaustive bool) {
		m, _ := json.Marshal(map[string]interface{}{"property": "C09", "law": law, "cases": cases, "nontrivial": nontrivial,
			"nontrivial_rule": rule, "bound": bound, "exhaustive": exhaustive})
		fmt.Printf("BOUNDED: %s\n", m)
	}

	// D. ManualBuffer step histories: the extended step alphabet up to 5 steps; thorough: also every sequence of exactly 6 steps over the base alphabet
	var nSteps, stepClaimed, stepNontrivial int
	stepsOK := false
	if complete {
		nSteps, stepClaimed, stepNontrivial, stepsOK = c09StepHistories(c, 5, true, 0)
		mark("steps19<=5", nSteps)
		if stepsOK && stepLen > 5 {
			var n2, c2, t2 int
			n2, c2, t2, stepsOK = c09StepHistories(c, stepLen, false, stepLen)
			nSteps, stepClaimed, stepNontrivial = nSteps+n2, stepClaimed+c2, stepNontrivial+t2
			mark(fmt.Sprintf("steps17=%d", stepLen), n2)
		}
	}

	// E. seeded random long histories over the full catalog
	rnd := rand.New(rand.NewSource(seed))
	c2 := &c09Checker{t: t, limit: 8, seen: map[string]bool{}}
	c2.fails = c.fails
	nRand := 0
	if c.fails == 0 {
		for k := 0; k < nRandom && !c2.done(); k++ {
			l := 5 + rnd.Intn(36)
			if k%10 == 0 {
				l = 40 + rnd.Intn(160)
			}
			seq := make([]*c09Op, l)
			onlyValid := k%4 != 0 // three in four histories draw valid payloads only, so that the equalities apply
			for j := range seq {
				for {
					seq[j] = full[rnd.Intn(len(full))]
					if (seq[j].valid && !seq[j].pInvalid) || !onlyValid {
						break
					}
				}
			}
			c2.check(seq, k%5 == 0)
			nRand++
		}
		mark("random", nRand)
	}

	noFail := c.fails == 0 && c2.fails == 0
	stepBound := ""
	if stepLen > 5 {
		stepBound = fmt.Sprintf(" and of exactly %d steps over the %d steps without \"\\xe2\\x80\" and 0xb9", stepLen, len(c09Steps(false)))
	}
	emit("every result is well-formed and line-safe (all histories, including invalid UTF-8 payloads, invalid runes, non-ASCII single bytes)",
		enumHist, enumHist-enumClaimed, "histories with at least one invalid UTF-8 payload / invalid rune (only this law applies to them); "+fmt.Sprint(enumOutputs)+" results observed in total", bound, complete && noFail)
	emit("strip-markers(result) == concatenation in call order of the payloads with markers replaced by '?'",
		enumClaimed, enumNontrivial, c09NontrivialRule, bound+"; valid UTF-8 payloads and valid runes", complete && noFail)
	emit("delete-envelopes(result) == payloads of the safe calls plus the line feeds of the unsafe ones; per content byte, each payload is on the side of its call",
		enumClaimed, enumNontrivial, c09NontrivialRule, bound+"; valid UTF-8 payloads and valid runes", complete && noFail)
	emit("StringBuilder, Sprintfn printer, SafeFormat printer (Sprint and Sprintf) and ManualBuffer agree up to merging of adjacent envelopes",
		enumAgree, enumAgreeNontr, c09NontrivialRule+" (histories whose calls all exist on every implementation)", bound+"; valid UTF-8 payloads and valid runes", complete && noFail)
	emit("bytes sent through the io.Writer / fmt.State side (Write, WriteString, WriteByte, WriteRune, fmt.Fprintf(w,..)) are unsafe payloads",
		enumIO, enumIO, "histories with only valid payloads and at least one call on the io.Writer / fmt.State side", bound, complete && noFail)
	emit("ManualBuffer step histories (SetMode and Write/WriteString/WriteByte/WriteRune as separate steps, mode persists, raw writes of well-formed fragments): well-formed, line-safe, content and sides as written",
		nSteps, stepNontrivial, "step histories with only valid payloads ("+fmt.Sprint(stepClaimed)+") that put payloads on both sides or contain a marker or line feed",
		fmt.Sprintf("all sequences of at most 5 steps over %d steps (SetMode x3, 9 string/bytes payloads incl. \"\\xe2\\x80\", WriteByte x4 incl. 0xe2 and 0xb9, WriteRune x3)", len(c09Steps(true)))+stepBound, stepsOK && noFail)
	emit("all of the above on seeded random long histories (5..40 calls, every tenth 40..200 calls) over the full catalog",
		nRand, c2.nontrivial, c09NontrivialRule, fmt.Sprintf("sampled: %d histories, VERIF_SEED=%d; not exhaustive", nRand, seed), false)
	t.Logf("C09 bounded: %s; total %.1fs", strings.Join(phases, "; "), time.Since(start).Seconds())
}
