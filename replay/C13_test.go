package redact

// Replay and bounded harness for C13 (buffer accessors are pure; Reset and Take return to a pristine
// buffer). Injected with `go test -overlay`; never written into /repo.
//
// Objects under test: builder.StringBuilder (root alias StringBuilder) and internal/buffer.Buffer (root
// alias ManualBuffer). A history is a start-up step (nothing, Grow(n), or a fill that leaves the 64-byte
// initial array almost full so that later appends and the closing marker written by an accessor's
// by-value copy land in spare capacity, exactly at its end, or force a reallocation) followed by a
// sequence of write calls as in C09 (plus Reset/Take as ordinary calls).
//
// The oracle is the property statement itself, which is relational: the SAME history is run on a new
// object without any accessor call and one RedactableString() is taken at the end ("clean run"); then
//   A. for every position and every accessor (Len, Cap, String, RedactableString, RedactableBytes,
//      GetMode) the history is re-run with that one call inserted, and once more with all accessors
//      inserted at every position: the final RedactableString must be the clean one, and what each
//      accessor returns must agree with the clean run of the prefix (String = prefix result with the
//      markers removed, GetMode = mode of the last write: unsafe / safe-escaped / raw);
//   B. Len() == len(RedactableString()) at every position (both on the same object, and Len alone
//      against the clean prefix);
//   C. Reset / TakeRedactableString / TakeRedactableBytes inserted at every position: the Take result is
//      the clean prefix result, and the rest of the history gives what it gives on `var b T`;
//   D. every string obtained at any position (RedactableString, String, Take*) still has its original
//      content after the whole history.
//
//   E. shared storage (common_test.go, vSharedStorage): the accessors, also on a by-value copy, and printing the
//      object as an operand store nothing into the spare capacity of the backing array; a use of an earlier copy
//      does not change what the original returns later; a RedactableBytes() result is not changed by later writes.

import (
	"encoding/json"
	"fmt"
	"math/rand"
	"os"
	"runtime"
	"strconv"
	"strings"
	"sync"
	"sync/atomic"
	"testing"
	"time"

	ib "github.com/cockroachdb/redact/internal/buffer"
)

type c13Target interface {
	Len() int
	Cap() int
	String() string
	RedactableString() RedactableString
	RedactableBytes() RedactableBytes
	GetMode() ib.OutputMode
	Reset()
	TakeRedactableString() RedactableString
	TakeRedactableBytes() RedactableBytes
	Grow(int)
}

var _ c13Target = (*StringBuilder)(nil)
var _ c13Target = (*ManualBuffer)(nil)

type c13Op struct {
	text  string // Go text of the call(s), receiver b
	do    func(t c13Target)
	mode  int  // output mode the call leaves behind (0 unsafe, 1 safe-escaped, 2 raw), -1 = unchanged
	write bool // a write call (not SetMode / Reset / Take)
	core  bool // member of the reduced alphabet used for the longest histories
}

type c13Kind struct {
	name  string
	fresh func() c13Target
	fill  func(t c13Target, n int) // n bytes of raw safe text, leaves mode 2 (raw)
	fillT func(n int) string
	ops   []c13Op
}

type c13Setup struct {
	text string // Go text
	grow int    // Grow(grow) if > 0
	fill int    // fill(fill) if > 0
}

const c13Partial = "\xe2\x80" // first two bytes of both markers

var c13Xs = strings.Repeat("x", 512)

var c13StrPayloads = []string{"", "a", "\n", vS, vE, "\xc3", "\xa9", c13Partial, "\xb9"}
var c13CoreStr = map[string]bool{"a": true, "\xc3": true, "\xa9": true, c13Partial: true, "\xb9": true}

var c13ModeNames = [3]string{"ib.UnsafeEscaped", "ib.SafeEscaped", "ib.SafeRaw"}

func c13ResetTakeOps() []c13Op {
	return []c13Op{
		{"b.Reset()", func(t c13Target) { t.Reset() }, 0, false, true},
		{"b.TakeRedactableString()", func(t c13Target) { _ = t.TakeRedactableString() }, 0, false, true},
		{"b.TakeRedactableBytes()", func(t c13Target) { _ = t.TakeRedactableBytes() }, 0, false, false},
	}
}

func c13BuilderKind(extra []string) *c13Kind {
	k := &c13Kind{name: "StringBuilder"}
	k.fresh = func() c13Target { return &StringBuilder{} }
	k.fill = func(t c13Target, n int) { t.(*StringBuilder).Print(RedactableString(c13Xs[:n])) }
	k.fillT = func(n int) string { return fmt.Sprintf("b.Print(RedactableString(strings.Repeat(\"x\", %d)))", n) }
	add := func(text string, mode int, core bool, f func(b *StringBuilder)) {
		k.ops = append(k.ops, c13Op{text, func(t c13Target) { f(t.(*StringBuilder)) }, mode, true, core})
	}
	strs := append(append([]string{}, c13StrPayloads...), extra...)
	for _, p := range strs {
		p := p
		add(fmt.Sprintf("b.SafeString(%q)", p), 1, c13CoreStr[p] && p != "\xb9", func(b *StringBuilder) { b.SafeString(SafeString(p)) })
	}
	for _, p := range strs {
		p := p
		add(fmt.Sprintf("b.UnsafeString(%q)", p), 0, c13CoreStr[p] || p == "" || p == "\n", func(b *StringBuilder) { b.UnsafeString(p) })
	}
	for _, p := range []string{"\xc3", "\xa9", c13Partial, "\xb9", "a\n"} {
		p := []byte(p)
		add(fmt.Sprintf("b.UnsafeBytes([]byte(%q))", p), 0, false, func(b *StringBuilder) { b.UnsafeBytes(p) })
	}
	for _, r := range []rune{'a', '‹'} {
		r := r
		add(fmt.Sprintf("b.SafeRune(%q)", r), 1, false, func(b *StringBuilder) { b.SafeRune(SafeRune(r)) })
	}
	for _, r := range []rune{'›', 'é'} {
		r := r
		add(fmt.Sprintf("b.UnsafeRune(%q)", r), 0, false, func(b *StringBuilder) { b.UnsafeRune(r) })
	}
	for _, c := range []byte{'a', 0xc3, '\n'} {
		c := c
		add(fmt.Sprintf("b.UnsafeByte(%#x)", c), 0, c == 'a', func(b *StringBuilder) { b.UnsafeByte(c) })
	}
	add(`b.Print("a")`, 2, true, func(b *StringBuilder) { b.Print("a") })
	add(`b.Print(Safe("a"))`, 2, false, func(b *StringBuilder) { b.Print(Safe("a")) })
	add(`b.Print(RedactableString("‹a›"))`, 2, true, func(b *StringBuilder) { b.Print(RedactableString("‹a›")) })
	add(`b.Print(RedactableString("x\xe2\x80"))`, 2, false, func(b *StringBuilder) { b.Print(RedactableString("x" + c13Partial)) })
	add(`b.Print("")`, 2, false, func(b *StringBuilder) { b.Print("") })
	add(`b.Printf("%s", "a")`, 2, false, func(b *StringBuilder) { b.Printf("%s", "a") })
	add(`b.Printf("a%d", 1)`, 2, true, func(b *StringBuilder) { b.Printf("a%d", 1) })
	add(`b.Printf("‹%v", Safe("\n"))`, 2, false, func(b *StringBuilder) { b.Printf("‹%v", Safe("\n")) })
	k.ops = append(k.ops, c13ResetTakeOps()...)
	return k
}

func c13BufferKind(extra []string) *c13Kind {
	k := &c13Kind{name: "ManualBuffer"}
	k.fresh = func() c13Target { return &ManualBuffer{} }
	k.fill = func(t c13Target, n int) {
		b := t.(*ManualBuffer)
		b.SetMode(ib.SafeRaw)
		_, _ = b.WriteString(c13Xs[:n])
	}
	k.fillT = func(n int) string {
		return fmt.Sprintf("b.SetMode(ib.SafeRaw); b.WriteString(strings.Repeat(\"x\", %d))", n)
	}
	add := func(text string, mode int, write, core bool, f func(b *ManualBuffer)) {
		k.ops = append(k.ops, c13Op{text, func(t c13Target) { f(t.(*ManualBuffer)) }, mode, write, core})
	}
	strs := append(append([]string{}, c13StrPayloads...), extra...)
	for m := 0; m < 2; m++ {
		m := m
		md := ib.OutputMode(m)
		pre := "b.SetMode(" + c13ModeNames[m] + "); "
		for _, p := range strs {
			p := p
			add(pre+fmt.Sprintf("b.WriteString(%q)", p), m, true, c13CoreStr[p] || (m == 0 && (p == "" || p == "\n")),
				func(b *ManualBuffer) { b.SetMode(md); _, _ = b.WriteString(p) })
		}
		for _, p := range []string{"\xc3", "\xa9"} {
			p := []byte(p)
			add(pre+fmt.Sprintf("b.Write([]byte(%q))", p), m, true, false, func(b *ManualBuffer) { b.SetMode(md); _, _ = b.Write(p) })
		}
		for _, c := range []byte{'a', 0xc3} {
			c := c
			add(pre+fmt.Sprintf("b.WriteByte(%#x)", c), m, true, false, func(b *ManualBuffer) { b.SetMode(md); _ = b.WriteByte(c) })
		}
		add(pre+"b.WriteRune('‹')", m, true, false, func(b *ManualBuffer) { b.SetMode(md); _ = b.WriteRune('‹') })
	}
	// raw mode: well-formed fragments only
	for _, p := range []string{"a", "‹a›", "x" + c13Partial, "\n"} {
		p := p
		add("b.SetMode(ib.SafeRaw); "+fmt.Sprintf("b.WriteString(%q)", p), 2, true, p == "‹a›",
			func(b *ManualBuffer) { b.SetMode(ib.SafeRaw); _, _ = b.WriteString(p) })
	}
	add(`b.SetMode(ib.SafeRaw); b.Write([]byte("‹b›"))`, 2, true, false, func(b *ManualBuffer) { b.SetMode(ib.SafeRaw); _, _ = b.Write([]byte("‹b›")) })
	// bare mode switches and bare writes (valid fragments in every mode)
	for m := 0; m < 3; m++ {
		md := ib.OutputMode(m)
		add("b.SetMode("+c13ModeNames[m]+")", m, false, m != 1, func(b *ManualBuffer) { b.SetMode(md) })
	}
	for _, p := range []string{"a", "\xc3", "\xa9"} {
		p := p
		add(fmt.Sprintf("b.WriteString(%q)", p), -1, true, p != "a", func(b *ManualBuffer) { _, _ = b.WriteString(p) })
	}
	add("b.WriteRune('é')", -1, true, false, func(b *ManualBuffer) { _ = b.WriteRune('é') })
	add("b.WriteByte('\\n')", -1, true, false, func(b *ManualBuffer) { _ = b.WriteByte('\n') })
	k.ops = append(k.ops, c13ResetTakeOps()...)
	return k
}

func c13CoreOps(ops []c13Op) []c13Op {
	var out []c13Op
	for _, o := range ops {
		if o.core {
			out = append(out, o)
		}
	}
	return out
}

func c13Setups(grows, fills []int) []c13Setup {
	out := []c13Setup{{text: ""}}
	for _, g := range grows {
		out = append(out, c13Setup{text: fmt.Sprintf("b.Grow(%d)", g), grow: g})
	}
	for _, f := range fills {
		out = append(out, c13Setup{fill: f})
	}
	return out
}

func c13Strip(s string) string {
	return strings.ReplaceAll(strings.ReplaceAll(s, vS, ""), vE, "")
}

// ---------------------------------------------------------------- reporting

type c13Reporter struct {
	mu   sync.Mutex
	t    *testing.T
	n    int
	max  int
	stop int32
}

func (r *c13Reporter) fail(call, out, why string) {
	r.mu.Lock()
	defer r.mu.Unlock()
	if r.n >= r.max {
		return
	}
	r.n++
	if r.n >= r.max {
		atomic.StoreInt32(&r.stop, 1)
	}
	vFail(r.t, "C13", call, out, why)
}

func (r *c13Reporter) full() bool { return atomic.LoadInt32(&r.stop) != 0 }

func (r *c13Reporter) count() int {
	r.mu.Lock()
	defer r.mu.Unlock()
	return r.n
}

type c13Stats struct {
	histories                 int
	pureCases, pureNontrivial int
	lenCases, lenNontrivial   int
	freshCases, freshNontriv  int
	immutCases, immutNontriv  int
	inPlace, realloc, atExact int // histories whose clean result stays within / exceeds / exactly fills the initial capacity
}

func (s *c13Stats) add(o c13Stats) {
	s.histories += o.histories
	s.pureCases += o.pureCases
	s.pureNontrivial += o.pureNontrivial
	s.lenCases += o.lenCases
	s.lenNontrivial += o.lenNontrivial
	s.freshCases += o.freshCases
	s.freshNontriv += o.freshNontriv
	s.immutCases += o.immutCases
	s.immutNontriv += o.immutNontriv
	s.inPlace += o.inPlace
	s.realloc += o.realloc
	s.atExact += o.atExact
}

// ---------------------------------------------------------------- one environment = kind x setup x alphabet

type c13Env struct {
	kind  *c13Kind
	setup c13Setup
	ops   []c13Op
	rep   *c13Reporter
	st    c13Stats

	h     []int    // current history (indices into ops)
	clean []string // clean[k]: RedactableString() of a new object after setup + h[:k], no other accessor call
	modes []int    // modes[k]: output mode after setup + h[:k]
	wrote []bool   // wrote[k]: the call just before position k was a write
	cap0  int

	part, nparts int // this environment enumerates the histories whose first call has index = part mod nparts
}

var c13AccNames = [6]string{"Len", "Cap", "String", "RedactableString", "RedactableBytes", "GetMode"}

func (e *c13Env) start() c13Target {
	t := e.kind.fresh()
	if e.setup.grow > 0 {
		t.Grow(e.setup.grow)
	}
	if e.setup.fill > 0 {
		e.kind.fill(t, e.setup.fill)
	}
	return t
}

func (e *c13Env) header() string {
	s := "var b " + e.kind.name + "; "
	if e.setup.grow > 0 {
		s += e.setup.text + "; "
	}
	if e.setup.fill > 0 {
		s += e.kind.fillT(e.setup.fill) + "; "
	}
	return s
}

// text renders the history with ins(pos) inserted before call number pos (pos == len(h): after the last).
func (e *c13Env) text(ins func(pos int) string, tail string) string {
	return e.textN(len(e.h), ins, tail)
}

// textN renders only the first n calls of the history.
func (e *c13Env) textN(n int, ins func(pos int) string, tail string) string {
	var sb strings.Builder
	sb.WriteString(e.header())
	for j := 0; j <= n; j++ {
		if ins != nil {
			sb.WriteString(ins(j))
		}
		if j < n {
			sb.WriteString(e.ops[e.h[j]].text)
			sb.WriteString("; ")
		}
	}
	sb.WriteString(tail)
	return sb.String()
}

// access calls accessor a and compares with the clean prefix result; returns the violated clause or "".
func c13Access(t c13Target, a int, want string, wantMode int) (out string, why string) {
	switch a {
	case 0:
		if n := t.Len(); n != len(want) {
			return strconv.Itoa(n), fmt.Sprintf("Len() is not the length (%d) of what RedactableString returns at that point (%q)", len(want), want)
		}
	case 1:
		if c := t.Cap(); c < 0 {
			return strconv.Itoa(c), "negative capacity"
		}
	case 2:
		if s := t.String(); s != c13Strip(want) {
			return s, fmt.Sprintf("String() is not the content at that point (%q) without the markers", want)
		}
	case 3:
		if s := string(t.RedactableString()); s != want {
			return s, fmt.Sprintf("RedactableString() differs from the same prefix run without earlier accessor calls (%q)", want)
		}
	case 4:
		if s := string(t.RedactableBytes()); s != want {
			return s, fmt.Sprintf("RedactableBytes() differs from the same prefix run without earlier accessor calls (%q)", want)
		}
	case 5:
		if m := int(t.GetMode()); m != wantMode {
			return strconv.Itoa(m), fmt.Sprintf("GetMode() is not the mode of the last write (%d)", wantMode)
		}
	}
	return "", ""
}

// pending: at position pos the buffer is in an escaping mode right after a write, i.e. an envelope is
// open and/or unescaped bytes are pending, so finalising the accessor's copy has work to do.
func (e *c13Env) pending(pos int) bool {
	return e.wrote[pos] && e.modes[pos] != 2
}

func (e *c13Env) check() {
	n := len(e.h)
	final := e.clean[n]
	e.st.histories++
	switch {
	case e.cap0 > 0 && len(final) == e.cap0:
		e.st.atExact++
	case e.cap0 > 0 && len(final) > e.cap0:
		e.st.realloc++
	default:
		e.st.inPlace++
	}
	failed := false
	fail := func(call, out, why string) {
		failed = true
		e.rep.fail(call, out, why)
	}

	// A (single accessor at a single position) and B (Len against the clean prefix)
	for pos := 0; pos <= n && !failed; pos++ {
		for a := 0; a < 6 && !failed; a++ {
			t := e.start()
			insText := func(p int) string {
				if p == pos {
					return "b." + c13AccNames[a] + "(); "
				}
				return ""
			}
			for j := 0; j <= n; j++ {
				if j == pos {
					if out, why := c13Access(t, a, e.clean[pos], e.modes[pos]); why != "" {
						fail(e.textN(pos, nil, "")+"b."+c13AccNames[a]+"()", out, why)
						break
					}
				}
				if j < n {
					e.ops[e.h[j]].do(t)
				}
			}
			if failed {
				break
			}
			got := string(t.RedactableString())
			e.st.pureCases++
			if pos < n && e.pending(pos) {
				e.st.pureNontrivial++
			}
			if a == 0 {
				e.st.lenCases++
				if e.pending(pos) {
					e.st.lenNontrivial++
				}
			}
			if got != final {
				fail(e.text(insText, "b.RedactableString()"), got,
					fmt.Sprintf("%s() called after %d write call(s) changes the result of the operations that follow: without that call the history gives %q", c13AccNames[a], pos, final))
			}
		}
	}
	if failed {
		return
	}

	// A (all accessors at every position), B (Len and RedactableString on the same object), D (strings kept)
	{
		t := e.start()
		keptR := make([]string, n+1)
		keptS := make([]string, n+1)
		insAll := func(p int) string {
			if p%2 == 0 {
				return "b.Len(); b.Cap(); b.String(); b.RedactableString(); b.RedactableBytes(); b.GetMode(); "
			}
			return "b.GetMode(); b.RedactableBytes(); b.RedactableString(); b.String(); b.Cap(); b.Len(); "
		}
		upTo := func(pos int) string {
			return e.textN(pos, func(p int) string {
				if p == pos {
					return ""
				}
				return insAll(p)
			}, "")
		}
		for j := 0; j <= n && !failed; j++ {
			for x := 0; x < 6; x++ {
				a := x
				if j%2 == 1 {
					a = 5 - x
				}
				var out, why string
				switch a {
				case 0:
					l := t.Len()
					r := t.RedactableString()
					e.st.lenCases++
					if e.pending(j) {
						e.st.lenNontrivial++
					}
					if l != len(r) {
						out, why = strconv.Itoa(l), fmt.Sprintf("Len() != len(RedactableString()) = %d on the same object (%q)", len(r), string(r))
					}
				case 2:
					keptS[j] = t.String()
					if keptS[j] != c13Strip(e.clean[j]) {
						out, why = keptS[j], fmt.Sprintf("String() after earlier accessor calls is not the content (%q) without the markers", e.clean[j])
					}
				case 3:
					keptR[j] = string(t.RedactableString())
					if keptR[j] != e.clean[j] {
						out, why = keptR[j], fmt.Sprintf("RedactableString() after earlier accessor calls differs from the run without them (%q)", e.clean[j])
					}
				default:
					out, why = c13Access(t, a, e.clean[j], e.modes[j])
				}
				if why != "" {
					fail(upTo(j)+"...accessors...; b."+c13AccNames[a]+"()", out, why)
					break
				}
			}
			if j < n {
				e.ops[e.h[j]].do(t)
			}
		}
		if failed {
			return
		}
		got := string(t.RedactableString())
		e.st.pureCases++
		if n > 0 {
			e.st.pureNontrivial++
		}
		if got != final {
			fail(e.text(insAll, "b.RedactableString()"), got,
				fmt.Sprintf("accessor calls at every position change the result: without them the history gives %q", final))
			return
		}
		for j := 0; j <= n; j++ {
			e.st.immutCases += 2
			if j < n && e.clean[j] != "" {
				e.st.immutNontriv += 2
			}
			if keptR[j] != e.clean[j] {
				fail(e.text(func(p int) string {
					if p == j {
						return "s := b.RedactableString(); "
					}
					return ""
				}, "s"), keptR[j], fmt.Sprintf("a string obtained earlier (%q) was modified by later writes", e.clean[j]))
				return
			}
			if keptS[j] != c13Strip(e.clean[j]) {
				fail(e.text(func(p int) string {
					if p == j {
						return "s := b.String(); "
					}
					return ""
				}, "s"), keptS[j], fmt.Sprintf("a string obtained earlier (%q) was modified by later writes", c13Strip(e.clean[j])))
				return
			}
		}
	}

	// C: Reset / Take at every position, then the object is as good as new
	resetNames := [3]string{"Reset", "TakeRedactableString", "TakeRedactableBytes"}
	for pos := 0; pos <= n; pos++ {
		// the rest of the history on a newly created object
		f := e.kind.fresh()
		for j := pos; j < n; j++ {
			e.ops[e.h[j]].do(f)
		}
		wantR := string(f.RedactableString())
		wantLen, wantMode := f.Len(), int(f.GetMode())
		for r := 0; r < 3; r++ {
			t := e.start()
			for j := 0; j < pos; j++ {
				e.ops[e.h[j]].do(t)
			}
			ins := func(p int) string {
				if p == pos {
					return "b." + resetNames[r] + "(); "
				}
				return ""
			}
			var tookS string
			var tookB RedactableBytes
			switch r {
			case 0:
				t.Reset()
			case 1:
				tookS = string(t.TakeRedactableString())
			case 2:
				tookB = t.TakeRedactableBytes()
				tookS = string(tookB)
			}
			e.st.freshCases++
			if pos < n && pos > 0 && e.pending(pos) {
				e.st.freshNontriv++
			}
			if r > 0 {
				e.st.immutCases++
				if pos < n && e.clean[pos] != "" {
					e.st.immutNontriv++
				}
				if tookS != e.clean[pos] {
					fail(e.textN(pos, nil, "")+"b."+resetNames[r]+"()", tookS, fmt.Sprintf("%s() does not return what RedactableString() returns at that point (%q)", resetNames[r], e.clean[pos]))
					return
				}
				if c := t.Cap(); c != 0 {
					fail(e.textN(pos, nil, "")+"b."+resetNames[r]+"(); b.Cap()", strconv.Itoa(c), "after Take the object still holds storage; a newly created one has capacity 0")
					return
				}
			}
			for j := pos; j < n; j++ {
				e.ops[e.h[j]].do(t)
			}
			got := string(t.RedactableString())
			if got != wantR {
				fail(e.text(ins, "b.RedactableString()"), got,
					fmt.Sprintf("after %s() the object does not behave like a newly created one, on which the remaining calls give %q", resetNames[r], wantR))
				return
			}
			if l, m := t.Len(), int(t.GetMode()); l != wantLen || m != wantMode {
				fail(e.text(ins, "b.Len(), b.GetMode()"), fmt.Sprintf("%d, %d", l, m),
					fmt.Sprintf("after %s() the object does not behave like a newly created one, on which the remaining calls give %d, %d", resetNames[r], wantLen, wantMode))
				return
			}
			if (r == 1 && tookS != e.clean[pos]) || (r == 2 && string(tookB) != e.clean[pos]) {
				fail(e.text(func(p int) string {
					if p == pos {
						return "s := b." + resetNames[r] + "(); "
					}
					return ""
				}, "s"), tookS, fmt.Sprintf("the content taken earlier (%q) was modified by later writes", e.clean[pos]))
				return
			}
		}
	}
}

// push appends call i to the history and extends the clean/mode stacks.
func (e *c13Env) push(i int) {
	e.h = append(e.h, i)
	t := e.start()
	for _, j := range e.h {
		e.ops[j].do(t)
	}
	e.clean = append(e.clean, string(t.RedactableString()))
	m := e.ops[i].mode
	if m < 0 {
		m = e.modes[len(e.modes)-1]
	}
	e.modes = append(e.modes, m)
	e.wrote = append(e.wrote, e.ops[i].write)
}

func (e *c13Env) pop() {
	e.h = e.h[:len(e.h)-1]
	e.clean = e.clean[:len(e.clean)-1]
	e.modes = e.modes[:len(e.modes)-1]
	e.wrote = e.wrote[:len(e.wrote)-1]
}

func (e *c13Env) init() {
	t := e.start()
	e.cap0 = t.Cap()
	if e.cap0 == 0 {
		e.cap0 = 64 // first allocation of the buffer
	}
	t = e.start()
	e.h = e.h[:0]
	e.clean = append(e.clean[:0], string(t.RedactableString()))
	m := 0
	if e.setup.fill > 0 {
		m = 2
	}
	e.modes = append(e.modes[:0], m)
	e.wrote = append(e.wrote[:0], e.setup.fill > 0)
}

func (e *c13Env) dfs(target int) {
	if len(e.h) == target {
		e.check()
		return
	}
	for i := range e.ops {
		if e.rep.full() {
			return
		}
		if len(e.h) == 0 && e.nparts > 1 && i%e.nparts != e.part {
			continue
		}
		e.push(i)
		e.dfs(target)
		e.pop()
	}
}

// enumerate checks every history of at most depth calls, shortest first.
func (e *c13Env) enumerate(depth int) {
	e.init()
	for d := 0; d <= depth && !e.rep.full(); d++ {
		if d == 0 && e.part != 0 {
			continue // the empty history belongs to part 0
		}
		e.dfs(d)
	}
}

// checkHistory checks one given history.
func (e *c13Env) checkHistory(h []int) {
	e.init()
	for _, i := range h {
		e.push(i)
	}
	e.check()
}

type c13Job struct {
	kind  *c13Kind
	setup c13Setup
	ops   []c13Op
	depth int
	part  int
}

const c13Parts = 4

func c13RunJobs(rep *c13Reporter, jobs []c13Job, workers int) c13Stats {
	var total c13Stats
	var mu sync.Mutex
	ch := make(chan c13Job)
	var wg sync.WaitGroup
	for w := 0; w < workers; w++ {
		wg.Add(1)
		go func() {
			defer wg.Done()
			for j := range ch {
				e := &c13Env{kind: j.kind, setup: j.setup, ops: j.ops, rep: rep, part: j.part, nparts: c13Parts}
				e.enumerate(j.depth)
				mu.Lock()
				total.add(e.st)
				mu.Unlock()
			}
		}()
	}
	for _, j := range jobs {
		for p := 0; p < c13Parts; p++ {
			j.part = p
			ch <- j
		}
	}
	close(ch)
	wg.Wait()
	return total
}

func c13Workers() int {
	w := runtime.GOMAXPROCS(0)
	if w > 8 {
		w = 8
	}
	if w < 1 {
		w = 1
	}
	return w
}

// c13Hints: string values become extra payloads, small numbers extra fill lengths / Grow sizes.
func c13Hints() (payloads []string, sizes []int) {
	var hints map[string]interface{}
	_ = json.Unmarshal([]byte(os.Getenv("REPLAY_HINTS")), &hints)
	for _, v := range hints {
		switch x := v.(type) {
		case string:
			if n, err := strconv.Atoi(x); err == nil {
				if n > 0 && n <= 512 {
					sizes = append(sizes, n)
				}
			} else if len(x) > 0 && len(x) <= 32 {
				payloads = append(payloads, x)
			}
		case float64:
			if x > 0 && x <= 512 && x == float64(int(x)) {
				sizes = append(sizes, int(x))
			}
		}
	}
	if len(payloads) > 3 {
		payloads = payloads[:3]
	}
	if len(sizes) > 3 {
		sizes = sizes[:3]
	}
	return
}

func TestVerifReplayC13(t *testing.T) {
	rep := &c13Reporter{t: t, max: 12}
	extra, sizes := c13Hints()
	var known []string
	for _, p := range extra {
		dup := false
		for _, q := range c13StrPayloads {
			dup = dup || p == q
		}
		if !dup {
			known = append(known, p)
		}
	}
	kinds := []*c13Kind{c13BuilderKind(known), c13BufferKind(known)}
	setups := c13Setups([]int{1, 100}, []int{57, 59, 60, 61, 62, 63, 64})
	for _, n := range sizes {
		setups = append(setups, c13Setup{fill: n}, c13Setup{text: fmt.Sprintf("b.Grow(%d)", n), grow: n})
	}
	var jobs []c13Job
	// all histories of at most 2 calls over the full alphabet, every start-up
	for _, k := range kinds {
		for _, s := range setups {
			jobs = append(jobs, c13Job{k, s, k.ops, 2, 0})
		}
	}
	st := c13RunJobs(rep, jobs, c13Workers())
	if rep.count() > 0 {
		return
	}
	// all histories of 3 calls over the reduced alphabet
	jobs = jobs[:0]
	for _, k := range kinds {
		for _, s := range c13Setups([]int{1}, []int{59, 62}) {
			jobs = append(jobs, c13Job{k, s, c13CoreOps(k.ops), 3, 0})
		}
	}
	st2 := c13RunJobs(rep, jobs, c13Workers())
	st.add(st2)
	t.Logf("C13 replay: %d histories, %d accessor insertions, %d reset/take insertions", st.histories, st.pureCases, st.freshCases)
}

func TestVerifBoundedC13(t *testing.T) {
	thorough := os.Getenv("VERIF_TIER") == "thorough"
	rep := &c13Reporter{t: t, max: 8}
	kinds := []*c13Kind{c13BuilderKind(nil), c13BufferKind(nil)}
	t0 := time.Now()

	var jobs []c13Job
	var bound string
	if thorough {
		for _, k := range kinds {
			for _, s := range c13Setups([]int{100}, []int{59, 61, 62, 63, 64}) {
				jobs = append(jobs, c13Job{k, s, k.ops, 3, 0})
			}
			for _, s := range c13Setups([]int{1}, []int{57, 58, 60})[1:] {
				jobs = append(jobs, c13Job{k, s, k.ops, 2, 0})
			}
			for _, s := range c13Setups(nil, []int{61}) {
				jobs = append(jobs, c13Job{k, s, c13CoreOps(k.ops), 4, 0})
			}
		}
		bound = fmt.Sprintf("StringBuilder (%d calls) and ManualBuffer (%d calls): every history of at most 3 calls over the full alphabet from 7 start-ups (nothing, Grow(100), 59, 61, 62, 63 or 64 raw bytes already in the 64-byte array) and of at most 2 calls from 4 more (Grow(1), 57, 58, 60 bytes); plus every history of at most 4 calls over the reduced alphabet (%d / %d calls) from 2 start-ups (nothing, 61 bytes); payloads: empty, 'a', LF, both markers, 0xC3, 0xA9, 0xE2 0x80, 0xB9, finished redactables",
			len(kinds[0].ops), len(kinds[1].ops), len(c13CoreOps(kinds[0].ops)), len(c13CoreOps(kinds[1].ops)))
	} else {
		for _, k := range kinds {
			jobs = append(jobs, c13Job{k, c13Setup{}, k.ops, 3, 0})
			for _, s := range c13Setups(nil, []int{59, 61, 62, 64})[1:] {
				jobs = append(jobs, c13Job{k, s, c13CoreOps(k.ops), 3, 0})
			}
			for _, s := range c13Setups([]int{1, 100}, []int{57, 59, 60, 61, 62, 63, 64})[1:] {
				jobs = append(jobs, c13Job{k, s, k.ops, 2, 0})
			}
		}
		bound = fmt.Sprintf("StringBuilder (%d calls) and ManualBuffer (%d calls): every history of at most 3 calls over the full alphabet on a new object, of at most 3 calls over the reduced alphabet (%d / %d calls) with 59, 61, 62 or 64 raw bytes already in the 64-byte array, and of at most 2 calls over the full alphabet from 9 start-ups (Grow(1), Grow(100), 57, 59, 60, 61, 62, 63, 64 bytes); payloads: empty, 'a', LF, both markers, 0xC3, 0xA9, 0xE2 0x80, 0xB9, finished redactables",
			len(kinds[0].ops), len(kinds[1].ops), len(c13CoreOps(kinds[0].ops)), len(c13CoreOps(kinds[1].ops)))
	}
	st := c13RunJobs(rep, jobs, c13Workers())
	tEnum := time.Since(t0)
	enumFails := rep.count()

	// sampled part: long histories (the quantifier of C09: "sampled for long ones")
	seed := int64(13)
	if v, err := strconv.ParseInt(os.Getenv("VERIF_SEED"), 10, 64); err == nil {
		seed = v
	}
	rng := rand.New(rand.NewSource(seed))
	samples := 2000
	if thorough {
		samples = 20000
	}
	var sst c13Stats
	allSetups := c13Setups([]int{1, 65, 100}, []int{40, 57, 58, 59, 60, 61, 62, 63, 64, 100})
	for s := 0; s < samples && !rep.full(); s++ {
		k := kinds[rng.Intn(2)]
		e := &c13Env{kind: k, setup: allSetups[rng.Intn(len(allSetups))], ops: k.ops, rep: rep}
		n := 5 + rng.Intn(8)
		h := make([]int, n)
		for j := range h {
			h[j] = rng.Intn(len(k.ops))
		}
		e.checkHistory(h)
		sst.add(e.st)
	}
	t.Logf("C13 bounded: enumeration %v (%d histories: %d within the initial capacity, %d exactly filling it, %d beyond it), sampling %v (%d histories, %d beyond the initial capacity)",
		tEnum, st.histories, st.inPlace, st.atExact, st.realloc, time.Since(t0)-tEnum, sst.histories, sst.realloc)

	emit := func(law string, cases, nontrivial int, rule, bnd string, exhaustive bool) {
		m, _ := json.Marshal(map[string]interface{}{"property": "C13", "law": law, "cases": cases, "nontrivial": nontrivial,
			"nontrivial_rule": rule, "bound": bnd, "exhaustive": exhaustive})
		fmt.Printf("BOUNDED: %s\n", m)
	}
	ok := enumFails == 0
	emit("accessor purity: one of Len/Cap/String/RedactableString/RedactableBytes/GetMode inserted at one position (and all six at every position) leaves the final RedactableString of the history unchanged, and returns what the clean run of the prefix gives",
		st.pureCases, st.pureNontrivial,
		"the call is inserted right after a write in an escaping mode (envelope open and/or unescaped bytes pending) and at least one write follows; or all accessors at every position of a non-empty history",
		bound, ok)
	emit("Len() == len(RedactableString()) at every position (same object, and Len alone against the clean prefix)",
		st.lenCases, st.lenNontrivial,
		"position right after a write in an escaping mode: Len must count bytes (closing marker, escapes) that are not in the buffer yet",
		bound, ok)
	emit("Reset/TakeRedactableString/TakeRedactableBytes at every position: Take returns the prefix result, capacity 0 after Take, and the remaining calls give the same RedactableString, Len, GetMode as on a newly created object",
		st.freshCases, st.freshNontriv,
		"inserted right after a write in an escaping mode (envelope open and/or unescaped bytes pending) with at least one call following",
		bound, ok)
	emit("strings obtained at any position (RedactableString, String, Take*) keep their content until the end of the history",
		st.immutCases, st.immutNontriv,
		"the string is non-empty and at least one call follows",
		bound, ok)
	shFails := rep.count()
	sh := vSharedStorage(1, rep.fail)
	emit("shared storage: the accessors (on the object or on a by-value copy) and printing the builder as an operand store nothing into the spare capacity of the backing array, a use of an earlier copy does not change what the original returns later, and a RedactableBytes() result is not changed by later writes / Reset",
		sh.Cases, sh.Nontrivial, "an envelope is open when the copy is finalized (there is a closing marker to put somewhere), or the original is written to after the copy was taken",
		"6 first payloads x 7 fill levels of the 64-byte array (0, 40, 57..61) x {unsafe, safe} x 6 uses (RedactableString, RedactableBytes, String, Len, Sprint(c), Sprintf with c and &c)", rep.count() == shFails)
	emit("sampled long histories: all of the above on random histories of 5..12 calls over the full alphabets, 14 start-ups (including Grow(65), Grow(100), 100 bytes)",
		sst.pureCases+sst.freshCases+sst.immutCases, sst.pureNontrivial+sst.freshNontriv+sst.immutNontriv,
		"sum of the non-trivial cases of the four laws above",
		fmt.Sprintf("%d random histories, seed %d", sst.histories, seed), false)
}
