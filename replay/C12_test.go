package redact

// Replay and bounded harness for C12 (a print call's result depends only on its own arguments).
// Injected with `go test -overlay`; never written into /repo.
//
// Oracle (from the property statement): the value returned by a printing call equals the value the very
// same call returns in a fresh process. The reference values are computed FIRST, before any history, and
// are themselves compared with the values computed by a really fresh process (the test binary re-executed
// as a child, probes in forward and in reverse order; in the thorough tier one child per call).
//
// A fixed catalogue of calls covers every entry point (Sprint, Sprintf, Sprintfn, HelperForErrorf, Fprint,
// Fprintf, StringWithoutMarkers, Join/JoinTo, StringBuilder.*) and every value class (Safe/Unsafe
// overrides, SafeValue, registered safe type, SafeMessager, SafeFormatter calling Print/Printf on its
// SafePrinter (nested pooled printers, up to three levels, also under Safe/Unsafe), fmt.Formatter that
// finds the SafePrinter behind its fmt.State, Stringer that re-enters Sprintf, errors through the registered
// error function, %w, bad verbs/indexes/missing operands, flags, 64KiB+ outputs, panics that are caught by
// the printer and panics that PROPAGATE out of the printer (payload whose String() panics again)).
// "probe" calls are cheap and sensitive to every field of the pooled printer; "history" calls are the
// aggressive ones. Every block = history (a sequence of history calls) followed by ALL probes, repeated
// c12Rounds times so that every printer sitting in the sync.Pool (top-level and nested ones) is handed out
// again. EVERY call of a block (history calls too) is compared with its reference, immediately and once
// more at the end of the block (a result must stay detached from the recycled buffer).
//
// The concurrency part runs such blocks on up to 16 goroutines, each on its own destinations, under
// several GOMAXPROCS settings, with and without runtime.Gosched() inside the formatting callbacks.

import (
	"bytes"
	"context"
	"encoding/json"
	"errors"
	"fmt"
	"hash/fnv"
	"io"
	"math/rand"
	"os"
	"os/exec"
	"reflect"
	"runtime"
	"strconv"
	"strings"
	"sync"
	"sync/atomic"
	"testing"
	"time"

	i "github.com/cockroachdb/redact/interfaces"
)

const c12Rounds = 4

// ---------------------------------------------------------------------------------------------------
// environment of one goroutine (its own destinations, its own operands, its own counters)

type c12Env struct {
	gid   int
	ref   c12Ref
	yield bool // formatting callbacks call runtime.Gosched() between writes

	e1, e2 error
	cerr   *c12Err

	// measurement: identity of the printers handed to formatting callbacks
	inHistory     bool
	histPrinters  map[SafePrinter]bool
	hitHistory    bool // a probe callback of this block ran on a printer used by this block's history
	hitRecycled   bool // a probe callback of this block ran on a printer handed out before in the process
	hitCrossG     bool // ... on a printer last seen by another goroutine
	callbacksSeen int
}

// c12Ref carries the environment inside formatter operands. It is a ZERO-LENGTH slice whose backing array
// holds the pointer: when the library prints such an operand by reflection (under Unsafe(), inside a struct
// field, after a bad verb) the field renders as "[]" for every goroutine and every process, never as an
// address or an index.
type c12Ref []*c12Env

func (r c12Ref) get() *c12Env { return r[:1][0] }

// c12Seen: printer object (pointer identity; kept alive by the map, so no address reuse) -> goroutine id
// of the callback that saw it last.
var c12Seen sync.Map

func c12NewEnv(gid int, yield bool) *c12Env {
	e := &c12Env{gid: gid, yield: yield, e1: errors.New("e1‹"), e2: errors.New("e2"),
		cerr: &c12Err{code: "C7", detail: "disk /dev/sda"}, histPrinters: map[SafePrinter]bool{}}
	e.ref = make(c12Ref, 1)
	e.ref[0] = e
	e.ref = e.ref[:0]
	return e
}

func (e *c12Env) note(w SafePrinter) {
	e.callbacksSeen++
	prev, loaded := c12Seen.Swap(w, e.gid)
	if e.inHistory {
		e.histPrinters[w] = true
		return
	}
	if loaded {
		e.hitRecycled = true
		if prev.(int) != e.gid {
			e.hitCrossG = true
		}
	}
	if e.histPrinters[w] {
		e.hitHistory = true
	}
}

func (e *c12Env) pause() {
	if e.yield {
		runtime.Gosched()
	}
}

func (e *c12Env) beginBlock() {
	e.inHistory = true
	for k := range e.histPrinters {
		delete(e.histPrinters, k)
	}
	e.hitHistory, e.hitRecycled, e.hitCrossG = false, false, false
}

func (e *c12Env) errName(err error) string {
	switch {
	case err == nil:
		return "nil"
	case err == e.e1:
		return "e1"
	case err == e.e2:
		return "e2"
	case err == error(e.cerr):
		return "cerr"
	}
	return "other:" + err.Error()
}

// ---------------------------------------------------------------------------------------------------
// operand types

type c12Err struct{ code, detail string }

func (e *c12Err) Error() string { return e.code + ": " + e.detail }

// c12ErrFn is registered with RegisterRedactErrorFn for the duration of the tests: errors of the harness'
// own type are printed through a NESTED printer (Printf on the SafePrinter), others as unsafe text.
func c12ErrFn(err error, p i.SafePrinter, verb rune) {
	if ce, ok := err.(*c12Err); ok {
		p.Printf("err[%s]: %v", Safe(ce.code), ce.detail)
		return
	}
	p.UnsafeString(err.Error())
}

var c12Big = strings.Repeat("x", 66000)                           // more than 64KiB: the limit above which free() drops a printer
var c12BigMarked = strings.Repeat("0123456789‹abcdefghi›\n", 400) // 10k with markers and line feeds to escape

// c12Payload: a panic payload whose String() panics `left` times before it calms down; when the printer
// tries to print it while reporting a panic, the second panic propagates out of the printer.
type c12Payload struct{ left int }

func (p *c12Payload) String() string {
	if p.left > 0 {
		p.left--
		panic("again")
	}
	return "calm"
}

// c12Seq: a fixed sequence of SafeWriter calls (each payload once, on its own side).
func c12Seq(e *c12Env, w SafeWriter, tail string) {
	w.SafeString("k=")
	w.UnsafeString("secret")
	e.pause()
	w.SafeRune(';')
	w.Print("pw")
	w.Printf("%d-%s", 7, Safe("s"))
	e.pause()
	w.SafeInt(3)
	w.SafeUint(4)
	w.SafeFloat(1.5)
	w.SafeByte('b')
	w.SafeBytes(i.SafeBytes("sb"))
	e.pause()
	w.UnsafeByte('u')
	w.UnsafeBytes([]byte("ub"))
	w.UnsafeRune('›')
	w.Print(RedactableString("‹r›"), Safe("s2"), Unsafe(SafeString("u2")))
	w.UnsafeString(tail)
}

// c12SF: a SafeFormatter; the mode selects what SafeFormat does. The environment is referenced by index
// so that printing the struct by reflection (under Unsafe or after a bad verb) shows no address.
type c12SF struct {
	env  c12Ref
	mode string
	v    interface{}
}

func (o c12SF) String() string { return "sf<" + o.mode + ">" }

func (o c12SF) SafeFormat(w SafePrinter, verb rune) {
	e := o.env.get()
	e.note(w)
	switch o.mode {
	case "print":
		w.Print("obj:", o.v)
	case "printf":
		w.Printf("id=%v/%s", o.v, "u")
	case "mix":
		c12Seq(e, w, "tail")
	case "deep":
		w.Printf("<%v|%v>", c12SF{o.env, "print", c12SF{o.env, "printf", o.v}}, Safe(c12SF{o.env, "print", "q"}))
		e.pause()
		w.UnsafeString("after")
	case "big":
		w.SafeString(SafeString(c12Big[:1000]))
		w.Printf("%s", c12BigMarked)
		w.Print(c12Big)
	case "panic":
		w.SafeString("pre")
		panic("sfboom")
	case "nestpanic":
		w.SafeString("pre")
		w.Print("x", c12Fmt{o.env, "panic2"})
		w.SafeString("post")
	case "nestpanicf":
		w.UnsafeString("pre")
		w.Printf("x%vy", c12Fmt{o.env, "panic2"})
		w.SafeString("post")
	case "verb":
		w.Printf("verb=%c", verb)
	case "reenter":
		// a complete top-level call while this one is in progress
		w.Print(Sprintf("inner %s %v", "u", Safe(c12SF{o.env, "printf", 1})))
		w.UnsafeString(string(Sprint("x")))
	default:
		w.SafeString("?mode")
	}
}

// c12Fmt: a plain fmt.Formatter that finds the SafePrinter behind its fmt.State.
type c12Fmt struct {
	env  c12Ref
	mode string
}

func (f c12Fmt) Format(s fmt.State, verb rune) {
	e := f.env.get()
	w, ok := s.(SafePrinter)
	if !ok {
		fmt.Fprint(s, "nosafeprinter")
		return
	}
	e.note(w)
	switch f.mode {
	case "print":
		w.Print("inner", 1)
	case "printf":
		w.Printf("lit %d ", 1)
		e.pause()
		w.SafeString("more")
	case "write":
		fmt.Fprintf(s, "w=%d", 5)
		_, _ = io.WriteString(s, "ws‹")
	case "flags", "rawflags":
		wid, wok := s.Width()
		prec, pok := s.Precision()
		if f.mode == "flags" {
			// a well-behaved Formatter: the numbers mean something only when they are reported as set
			if !wok {
				wid = -1
			}
			if !pok {
				prec = -1
			}
		}
		fmt.Fprintf(s, "%d/%v/%d/%v/%v/%v/%v/%v/%v/%c", wid, wok, prec, pok,
			s.Flag('-'), s.Flag('+'), s.Flag('#'), s.Flag(' '), s.Flag('0'), verb)
	case "panic2":
		panic(&c12Payload{left: 1})
	case "panic3":
		panic(&c12Payload{left: 1 << 30})
	default:
		w.SafeString("?mode")
	}
}

type c12Str struct{ s string }

func (s c12Str) String() string { return "str:" + s.s }

// c12ReStr: a Stringer that makes a complete print call of its own.
type c12ReStr struct{ env c12Ref }

func (s c12ReStr) String() string {
	return string(Sprintf("re[%d %v]", 1, Safe(c12SF{s.env, "print", "z"}))) + string(Sprint(Safe("t")))
}

type c12PanicStr struct{}

func (c12PanicStr) String() string { panic("strboom") }

type c12PtrStr struct{ x int }

func (p c12PtrStr) String() string { return "ptrstr" } // value receiver: a nil *c12PtrStr panics, printed as <nil>

type c12SV string

func (c12SV) SafeValue() {}

// c12SVF: a SafeValue that is also a SafeFormatter calling Printf.
type c12SVF struct {
	env c12Ref
	n   int
}

func (c12SVF) SafeValue() {}
func (o c12SVF) SafeFormat(w SafePrinter, _ rune) {
	o.env.get().note(w)
	w.Printf("svf=%d/%s", o.n, "u")
	w.Print("p", o.n)
}

// c12Reg: registered with RegisterSafeType (a type private to this harness; registration cannot be undone
// through the public API and concerns only values of this type).
type c12Reg struct {
	env c12Ref
	s   string
}

func (o c12Reg) SafeFormat(w SafePrinter, _ rune) {
	o.env.get().note(w)
	w.Print("reg:", o.s)
	w.Printf("/%s", o.s)
}

type c12Msg struct{}

func (c12Msg) SafeMessage() string { return "msg‹m›" }

type c12ErrW struct{}

func (c12ErrW) Write(p []byte) (int, error) { return 0, errors.New("werr") }

var c12Once sync.Once

func c12Setup() func() {
	c12Once.Do(func() { RegisterSafeType(reflect.TypeOf(c12Reg{})) })
	RegisterRedactErrorFn(c12ErrFn)
	return func() { RegisterRedactErrorFn(nil) }
}

// ---------------------------------------------------------------------------------------------------
// calls

type c12Res struct {
	out      string
	err      string // which error was returned besides the text ("" when the call returns no error value): nil, e1, e2, cerr, other:...
	panicked bool
}

type c12Call struct {
	name  string
	text  string // Go-like text of the call
	probe bool   // run after every history
	hist  bool   // member of the history catalogue
	known string // non-empty: a call on which the library is known to violate the statement (see below); not run unless C12_KNOWN_DEFECTS=1
	run   func(e *c12Env) c12Res
}

func c12PanicText(x interface{}) string {
	switch v := x.(type) {
	case string:
		return "PANIC: " + v
	case error:
		return "PANIC: " + v.Error()
	}
	return fmt.Sprintf("PANIC: %T", x)
}

func c12Do(c *c12Call, e *c12Env) (r c12Res) {
	defer func() {
		if x := recover(); x != nil {
			r = c12Res{out: c12PanicText(x), panicked: true}
		}
	}()
	return c.run(e)
}

func c12Same(a, b c12Res) bool { return a.out == b.out && a.err == b.err && a.panicked == b.panicked }

func c12Catalogue() []*c12Call {
	all := c12CatalogueAll()
	if os.Getenv("C12_KNOWN_DEFECTS") == "1" {
		return all
	}
	var cs []*c12Call
	for _, c := range all {
		if c.known == "" {
			cs = append(cs, c)
		}
	}
	return cs
}

func c12CatalogueAll() []*c12Call {
	var cs []*c12Call
	add := func(kind, name, text string, f func(e *c12Env) RedactableString) {
		cs = append(cs, &c12Call{name: name, text: text, probe: kind == "P", hist: kind == "H",
			run: func(e *c12Env) c12Res { return c12Res{out: string(f(e))} }})
	}
	addE := func(kind, name, text string, f func(e *c12Env) (RedactableString, error)) {
		cs = append(cs, &c12Call{name: name, text: text, probe: kind == "P", hist: kind == "H",
			run: func(e *c12Env) c12Res { s, err := f(e); return c12Res{out: string(s), err: e.errName(err)} }})
	}
	sf := func(e *c12Env, mode string, v interface{}) c12SF { return c12SF{e.ref, mode, v} }
	fm := func(e *c12Env, mode string) c12Fmt { return c12Fmt{e.ref, mode} }

	// ---- probes: cheap, each sensitive to some field of the pooled printer
	add("P", "P01", `Sprintf("user=%s id=%d", "alice", 42)`, func(e *c12Env) RedactableString {
		return Sprintf("user=%s id=%d", "alice", 42)
	})
	add("P", "P02", `Sprint("alice", 42)`, func(e *c12Env) RedactableString { return Sprint("alice", 42) })
	add("P", "P03", `Sprint(Unsafe("secret"))`, func(e *c12Env) RedactableString { return Sprint(Unsafe("secret")) })
	add("P", "P04", `Sprintf("n=%d", Unsafe(SafeInt(123)))`, func(e *c12Env) RedactableString {
		return Sprintf("n=%d", Unsafe(SafeInt(123)))
	})
	add("P", "P05", `Sprint(Safe("hello"))`, func(e *c12Env) RedactableString { return Sprint(Safe("hello")) })
	add("P", "P06", `Sprintf("v=%v lit", Safe(42))`, func(e *c12Env) RedactableString { return Sprintf("v=%v lit", Safe(42)) })
	add("P", "P07", `Sprintf("%s|%v", RedactableString("a‹b›c"), RedactableBytes("‹x›"))`, func(e *c12Env) RedactableString {
		return Sprintf("%s|%v", RedactableString("a‹b›c"), RedactableBytes("‹x›"))
	})
	add("P", "P08", `Sprint("a‹b›c\nd")`, func(e *c12Env) RedactableString { return Sprint("a‹b›c\nd") })
	add("P", "P09", `Sprintf("")`, func(e *c12Env) RedactableString { return Sprintf("") })
	add("P", "P10", `Sprint()`, func(e *c12Env) RedactableString { return Sprint() })
	add("P", "P11", `Sprintf("%d", 1, 2)`, func(e *c12Env) RedactableString { return Sprintf("%d", 1, 2) })
	add("P", "P12", `Sprintf("%[2]d %d|%[1]d %d", 1, 2)`, func(e *c12Env) RedactableString {
		return Sprintf("%[2]d %d|%[1]d %d", 1, 2)
	})
	add("P", "P13", `Sprintf("%d %s|%[3]d|%[x]d", 1)`, func(e *c12Env) RedactableString {
		return Sprintf("%d %s|%[3]d|%[x]d", 1)
	})
	add("P", "P14", `Sprintf("%z %-5y|%!|%", 1, "s")`, func(e *c12Env) RedactableString {
		return Sprintf("%z %-5y|%!|%", 1, "s")
	})
	add("P", "P15", `Sprintf("%d|%v|%s", nil, nil, nil)`, func(e *c12Env) RedactableString {
		return Sprintf("%d|%v|%s", nil, nil, nil)
	})
	add("P", "P16", `Sprintf("%w|%w", e1, cerr)`, func(e *c12Env) RedactableString { return Sprintf("%w|%w", e.e1, e.cerr) })
	addE("P", "P17", `HelperForErrorf("%d", 1)`, func(e *c12Env) (RedactableString, error) { return HelperForErrorf("%d", 1) })
	addE("P", "P18", `HelperForErrorf("a %w b", e1)`, func(e *c12Env) (RedactableString, error) {
		return HelperForErrorf("a %w b", e.e1)
	})
	addE("P", "P19", `HelperForErrorf("%w %w", e1, e2)`, func(e *c12Env) (RedactableString, error) {
		return HelperForErrorf("%w %w", e.e1, e.e2)
	})
	addE("P", "P20", `HelperForErrorf("%v: %w", "ctx", cerr)`, func(e *c12Env) (RedactableString, error) {
		return HelperForErrorf("%v: %w", "ctx", e.cerr)
	})
	add("P", "P21", `Sprint(panickingStringer{})`, func(e *c12Env) RedactableString { return Sprint(c12PanicStr{}) })
	add("P", "P22", `Sprint((*valueReceiverStringer)(nil), Stringer{"s‹"})`, func(e *c12Env) RedactableString {
		return Sprint((*c12PtrStr)(nil), c12Str{"s‹"})
	})
	add("P", "P23", `Sprint(3.14159, -5, true, 'x', uint8(7), []byte("ab"), struct{A int; B string}{1, "x"}, []string{"p", "q"}, map[string]int{"k": 1, "j": 2}, &struct{X int}{3}, 2+3i)`,
		func(e *c12Env) RedactableString {
			return Sprint(3.14159, -5, true, 'x', uint8(7), []byte("ab"), struct {
				A int
				B string
			}{1, "x"}, []string{"p", "q"}, map[string]int{"k": 1, "j": 2}, &struct{ X int }{3}, 2+3i)
		})
	add("P", "P24", `Sprintf("%+v|%#v|%08.3f|%-6d|%x|%q|%5.1s|%U|%c|%T|%+d|% d|%#x|%o|%e", struct{A int}{1}, "s", 3.14159, 42, "hi", "q‹", "abc", 0x2039, 0x203a, 1.5, 5, 6, 255, 8, 1234.5)`,
		func(e *c12Env) RedactableString {
			return Sprintf("%+v|%#v|%08.3f|%-6d|%x|%q|%5.1s|%U|%c|%T|%+d|% d|%#x|%o|%e", struct{ A int }{1}, "s", 3.14159, 42, "hi", "q‹", "abc", 0x2039, 0x203a, 1.5, 5, 6, 255, 8, 1234.5)
		})
	const seqText = `SafeString("k="); UnsafeString("secret"); SafeRune(';'); Print("pw"); Printf("%d-%s", 7, Safe("s")); SafeInt(3); SafeUint(4); SafeFloat(1.5); SafeByte('b'); SafeBytes("sb"); UnsafeByte('u'); UnsafeBytes("ub"); UnsafeRune('›'); Print(RedactableString("‹r›"), Safe("s2"), Unsafe(SafeString("u2"))); UnsafeString("t")`
	add("P", "P25", `Sprintfn(func(w){`+seqText+`})`, func(e *c12Env) RedactableString {
		return Sprintfn(func(w SafePrinter) { e.note(w); c12Seq(e, w, "t") })
	})
	add("P", "P26", `Sprintfn(func(w){})`, func(e *c12Env) RedactableString { return Sprintfn(func(w SafePrinter) {}) })
	add("P", "P27", `StringBuilder{`+seqText+`; Write("w‹"); WriteString("ws"); WriteByte('c'); WriteRune('›')}.RedactableString()`,
		func(e *c12Env) RedactableString {
			var b StringBuilder
			c12Seq(e, &b, "t")
			_, _ = b.Write([]byte("w‹"))
			_, _ = b.WriteString("ws")
			_ = b.WriteByte('c')
			_ = b.WriteRune('›')
			return b.RedactableString()
		})
	add("P", "P28", `Sprintf("%v", SafeFormatter{w.Print("obj:", "bob")})`, func(e *c12Env) RedactableString {
		return Sprintf("%v", sf(e, "print", "bob"))
	})
	add("P", "P29", `Sprintf("%v|%5d", SafeFormatter{w.Printf("id=%v/%s", 7, "u")}, SafeFormatter{w.Printf("verb=%c", verb)})`, func(e *c12Env) RedactableString {
		return Sprintf("%v|%5d", sf(e, "printf", 7), sf(e, "verb", nil))
	})
	add("P", "P30", `Sprint(Safe(SafeFormatter{`+seqText+`}))`, func(e *c12Env) RedactableString { return Sprint(Safe(sf(e, "mix", nil))) })
	add("P", "P31", `Sprint(Unsafe(Formatter{s.(SafePrinter).Print("inner", 1)}), Unsafe(SafeFormatter{...}))`, func(e *c12Env) RedactableString {
		return Sprint(Unsafe(fm(e, "print")), Unsafe(sf(e, "mix", nil)))
	})
	add("P", "P32", `Sprintf("%v", SafeFormatter{w.Printf("<%v|%v>", SafeFormatter{w.Print("obj:", SafeFormatter{w.Printf("id=%v/%s", "d", "u")})}, Safe(SafeFormatter{w.Print("obj:", "q")})); w.UnsafeString("after")})`,
		func(e *c12Env) RedactableString { return Sprintf("%v", sf(e, "deep", "d")) })
	add("P", "P33", `Fprint(&buf, "a", 1, Safe("s")); Fprintf(&buf, "|%s=%d", "k", Safe(2)); buf.String()`, func(e *c12Env) RedactableString {
		var buf bytes.Buffer
		n1, err1 := Fprint(&buf, "a", 1, Safe("s"))
		n2, err2 := Fprintf(&buf, "|%s=%d", "k", Safe(2))
		return RedactableString(fmt.Sprintf("%s n=%d,%d err=%v,%v", buf.String(), n1, n2, err1, err2))
	})
	add("P", "P34", `Join(", ", []RedactableString{"a", "‹b›"}) + JoinTo(&b, "‹;›", []interface{}{"x", Safe("y"), 3})`, func(e *c12Env) RedactableString {
		var b StringBuilder
		JoinTo(&b, "‹;›", []interface{}{"x", Safe("y"), 3})
		return Join(", ", []RedactableString{"a", "‹b›"}) + "#" + b.RedactableString()
	})
	add("P", "P35", `StringWithoutMarkers(SafeFormatter{`+seqText+`})`, func(e *c12Env) RedactableString {
		return RedactableString(StringWithoutMarkers(sf(e, "mix", nil)))
	})
	add("P", "P36", `Sprint(SafeValueType("safeval‹"), SafeMessager{"msg‹m›"}, RegisteredSafeType{w.Print("reg:", "r")}, SafeValue+SafeFormatter{w.Printf("svf=%d/%s", 5, "u")})`, func(e *c12Env) RedactableString {
		return Sprint(c12SV("safeval‹"), c12Msg{}, c12Reg{e.ref, "r"}, c12SVF{e.ref, 5})
	})
	add("P", "P37", `Sprintf("%v|%+-08.3x|%v", Formatter{fmt.Fprintf(s, "w=%d", 5)}, Formatter{flags}, Formatter{flags})`, func(e *c12Env) RedactableString {
		return Sprintf("%v|%+-08.3x|%v", fm(e, "write"), fm(e, "flags"), fm(e, "flags"))
	})
	add("P", "P38", `Sprint(Formatter{flags}, 1.5, Formatter{flags})`, func(e *c12Env) RedactableString {
		return Sprint(fm(e, "flags"), 1.5, fm(e, "flags"))
	})
	// Finding F7 (fixed in /repo): fmt.State.Width()/Precision() returned a STALE number (with ok=false) left
	// behind by an earlier call that used the same pooled printer (fmt.init did not reset wid/prec). A Formatter
	// that prints the number without looking at ok (legal, if careless) produced history-dependent output, e.g.
	//   Sprintf("%8.3d", 1); Sprint(Formatter{wid, _ := s.Width(); fmt.Fprint(s, wid)})  gave 8, in a fresh process 0.
	// This probe stays in the catalogue so that the defect is reported again if it returns.
	add("P", "P38x", `Sprint(Formatter{wid, wok := s.Width(); prec, pok := s.Precision(); fmt.Fprintf(s, "%d/%v/%d/%v...", wid, wok, prec, pok, ...)}, 1.5)`, func(e *c12Env) RedactableString {
		return Sprint(fm(e, "rawflags"), 1.5)
	})
	add("P", "P39", `Sprintf("%x %X % x|%v %s", "hi‹", []byte("yo"), "ab", e1, cerr)`, func(e *c12Env) RedactableString {
		return Sprintf("%x %X % x|%v %s", "hi‹", []byte("yo"), "ab", e.e1, e.cerr)
	})
	add("P", "P40", `Sprintf("%v %s", Safe(e1), Unsafe(cerr))`, func(e *c12Env) RedactableString {
		return Sprintf("%v %s", Safe(e.e1), Unsafe(e.cerr))
	})
	// the EXTRA report depends on a flag (reordered) that only the format loop resets: directive-less formats and
	// formats whose directives all come before the left-over operands, after histories that used argument indexes
	add("P", "P45", `Sprintf("done", 1, "x")`, func(e *c12Env) RedactableString { return Sprintf("done", 1, "x") })
	add("P", "P46", `Sprintf("n=%d", 1, 2)`, func(e *c12Env) RedactableString { return Sprintf("n=%d", 1, 2) })
	add("P", "P47", `Sprintf("", "x")`, func(e *c12Env) RedactableString { return Sprintf("", "x") })
	add("P", "P41", `Sprintf("%*d|%-*d|%.*f|%[3]*.[2]*[1]f", 5, 1, 4, 2, 2, 3.14159)`, func(e *c12Env) RedactableString {
		return Sprintf("%*d|%-*d|%.*f|%[3]*.[2]*[1]f", 5, 1, 4, 2, 2, 3.14159)
	})
	add("P", "P42", `Sprintf("%v|%v", []interface{}{Safe("a"), Unsafe(SafeString("b")), "c", RedactableString("‹d›"), nil}, struct{F interface{}; G SafeString}{Safe(SafeFormatter{w.Print("obj:", 1)}), "g"})`, func(e *c12Env) RedactableString {
		return Sprintf("%v|%v", []interface{}{Safe("a"), Unsafe(SafeString("b")), "c", RedactableString("‹d›"), nil},
			struct {
				F interface{}
				G SafeString
			}{Safe(sf(e, "print", 1)), "g"})
	})
	add("P", "P43", `Sprint(StringerCallingSprintf{}, SafeFormatter{w.Print(Sprintf("inner %s %v", "u", Safe(...)))})`, func(e *c12Env) RedactableString {
		return Sprint(c12ReStr{e.ref}, sf(e, "reenter", nil))
	})
	add("P", "P44", `Sprintfn(func(w){w.SafeInt(-7); w.SafeFloat(0.25); w.SafeUint(9); w.Print(3.5, -2); w.Printf("%v", Safe(SafeFormatter{w.Print("obj:", "n")}))})`, func(e *c12Env) RedactableString {
		return Sprintfn(func(w SafePrinter) {
			e.note(w)
			w.SafeInt(-7)
			w.SafeFloat(0.25)
			w.SafeUint(9)
			w.Print(3.5, -2)
			w.Printf("%v", Safe(sf(e, "print", "n")))
		})
	})

	// ---- history catalogue: every entry point, every value class, the aggressive ones
	add("H", "H01", `Sprintf("%v", Safe(SafeFormatter{w.Print("obj:", "x")}))`, func(e *c12Env) RedactableString {
		return Sprintf("%v", Safe(sf(e, "print", "x")))
	})
	add("H", "H02", `Sprint(Safe(SafeFormatter{w.Printf("id=%v/%s", 7, "u")}))`, func(e *c12Env) RedactableString {
		return Sprint(Safe(sf(e, "printf", 7)))
	})
	add("H", "H03", `Sprint(Unsafe(Formatter{s.(SafePrinter).Print("inner", 1)}))`, func(e *c12Env) RedactableString {
		return Sprint(Unsafe(fm(e, "print")))
	})
	add("H", "H04", `Sprintf("a %v b", Unsafe(Formatter{s.(SafePrinter).Printf("lit %d ", 1); SafeString("more")}))`, func(e *c12Env) RedactableString {
		return Sprintf("a %v b", Unsafe(fm(e, "printf")))
	})
	add("H", "H05", `Sprint(SafeValue+SafeFormatter{w.Printf("svf=%d/%s", 1, "u"); w.Print("p", 1)})`, func(e *c12Env) RedactableString {
		return Sprint(c12SVF{e.ref, 1})
	})
	add("H", "H06", `Sprintf("%s", RegisteredSafeType{w.Print("reg:", "h"); w.Printf("/%s", "h")})`, func(e *c12Env) RedactableString {
		return Sprintf("%s", c12Reg{e.ref, "h"})
	})
	add("H", "H07", `Sprintf("%v", struct{F interface{}; G []interface{}}{Safe(SafeFormatter{Print}), {Unsafe(Formatter{Printf}), SafeValue+SafeFormatter{}}})`, func(e *c12Env) RedactableString {
		return Sprintf("%v", struct {
			F interface{}
			G []interface{}
		}{Safe(sf(e, "print", "f")), []interface{}{Unsafe(fm(e, "printf")), c12SVF{e.ref, 2}}})
	})
	add("H", "H08", `Sprintf("a%vb", Formatter{panic(payload whose String() panics again)})  // panic propagates out of Sprintf`, func(e *c12Env) RedactableString {
		return Sprintf("a%vb", fm(e, "panic2"))
	})
	add("H", "H09", `Sprint(SafeFormatter{w.SafeString("pre"); w.Print("x", Formatter{panic(payload...)}); ...})  // nested printer panics out, outer one recovers`, func(e *c12Env) RedactableString {
		return Sprint(sf(e, "nestpanic", nil))
	})
	add("H", "H10", `Sprintf("%v|%v", Safe(SafeFormatter{w.Printf("x%vy", Formatter{panic(payload...)})}), Safe(SafeFormatter{w.Print("x", Formatter{panic(payload...)})}))`, func(e *c12Env) RedactableString {
		return Sprintf("%v|%v", Safe(sf(e, "nestpanicf", nil)), Safe(sf(e, "nestpanic", nil)))
	})
	add("H", "H11", `Sprintf("%d|%v|%s", SafeFormatter{panic("sfboom")}, Safe(SafeFormatter{panic("sfboom")}), panickingStringer{})`, func(e *c12Env) RedactableString {
		return Sprintf("%d|%v|%s", sf(e, "panic", nil), Safe(sf(e, "panic", nil)), c12PanicStr{})
	})
	add("H", "H12", `Sprintfn(func(w){w.SafeString("x"); w.UnsafeString("y"); w.Print(Safe(SafeFormatter{Printf})); panic("out")})  // panic propagates`, func(e *c12Env) RedactableString {
		return Sprintfn(func(w SafePrinter) {
			e.note(w)
			w.SafeString("x")
			w.UnsafeString("y")
			w.Print(Safe(sf(e, "printf", 1)))
			panic("out")
		})
	})
	add("H", "H13", `Sprint(Unsafe(Formatter{panic(payload that never calms down)}))  // panic propagates under Unsafe`, func(e *c12Env) RedactableString {
		return Sprint("lit", Unsafe(fm(e, "panic3")))
	})
	add("H", "H14", `Sprintf("%s|%v", strings.Repeat("x", 66000), strings.Repeat("0123456789‹abcdefghi›\n", 400))`, func(e *c12Env) RedactableString {
		return Sprintf("%s|%v", c12Big, c12BigMarked)
	})
	add("H", "H15", `Sprintf("%-300s|%0300.3f|%66000d", Safe("x"), 2.5, 1)`, func(e *c12Env) RedactableString {
		return Sprintf("%-300s|%0300.3f|%66000d", Safe("x"), 2.5, 1)
	})
	add("H", "H16", `Sprint(RedactableString(bigMarked), Unsafe(SafeString(bigMarked)), Safe(strings.Repeat("x", 66000)))`, func(e *c12Env) RedactableString {
		return Sprint(RedactableString(c12BigMarked), Unsafe(SafeString(c12BigMarked)), Safe(c12Big))
	})
	add("H", "H17", `Sprintf("%v", Safe(SafeFormatter{w.SafeString(big[:1000]); w.Printf("%s", bigMarked); w.Print(big)}))`, func(e *c12Env) RedactableString {
		return Sprintf("%v", Safe(sf(e, "big", nil)))
	})
	add("H", "H18", `StringBuilder{Printf("%s|%d", Safe(bigMarked), 3); Print(big); SafeInt(1); Print(Safe(SafeFormatter{Printf}))}.RedactableString()`, func(e *c12Env) RedactableString {
		var b StringBuilder
		b.Printf("%s|%d", Safe(c12BigMarked), 3)
		b.Print(c12Big)
		b.SafeInt(1)
		b.Print(Safe(sf(e, "printf", 2)))
		return b.RedactableString()
	})
	add("H", "H19", `Sprintf("%z %! %[9]d %[x]d %d %.*d %*d %[2]*[1]d %-+#0 12.5q|%", 1, "s", 2.5)`, func(e *c12Env) RedactableString {
		return Sprintf("%z %! %[9]d %[x]d %d %.*d %*d %[2]*[1]d %-+#0 12.5q|%", 1, "s", 2.5)
	})
	add("H", "H20", `Sprintf("%[3]d %[1]s %+#v %#v % x %+q %#U %08b", 1, "s", 3, struct{A []int}{[]int{1}}, "ab", "‹", 0x2039, 5)`, func(e *c12Env) RedactableString {
		return Sprintf("%[3]d %[1]s %+#v %#v % x %+q %#U %08b", 1, "s", 3, struct{ A []int }{[]int{1}}, "ab", "‹", 0x2039, 5)
	})
	addE("H", "H21", `HelperForErrorf("%w", e1)`, func(e *c12Env) (RedactableString, error) { return HelperForErrorf("%w", e.e1) })
	addE("H", "H22", `HelperForErrorf("%w %w %d", e1, e2)`, func(e *c12Env) (RedactableString, error) {
		return HelperForErrorf("%w %w %d", e.e1, e.e2)
	})
	addE("H", "H23", `HelperForErrorf("%w|%w", 1, Safe(e1))`, func(e *c12Env) (RedactableString, error) {
		return HelperForErrorf("%w|%w", 1, Safe(e.e1))
	})
	addE("H", "H24", `HelperForErrorf("%v %w %v", Safe(SafeFormatter{Print}), cerr, Unsafe(Formatter{Printf}))`, func(e *c12Env) (RedactableString, error) {
		return HelperForErrorf("%v %w %v", Safe(sf(e, "print", 1)), e.cerr, Unsafe(fm(e, "printf")))
	})
	addE("H", "H25", `HelperForErrorf("%w %v", e1, Formatter{panic(payload that never calms down)})  // panics out with the wrapped error recorded`, func(e *c12Env) (RedactableString, error) {
		return HelperForErrorf("%w %v", e.e1, fm(e, "panic3"))
	})
	add("H", "H26", `Fprintf(&buf, "%v", Safe(SafeFormatter{Printf})); Fprint(failingWriter, Unsafe(Formatter{Print}))`, func(e *c12Env) RedactableString {
		var buf bytes.Buffer
		n1, err1 := Fprintf(&buf, "%v", Safe(sf(e, "printf", 3)))
		n2, err2 := Fprint(c12ErrW{}, Unsafe(fm(e, "print")))
		return RedactableString(fmt.Sprintf("%s n=%d,%d err=%v,%v", buf.String(), n1, n2, err1, err2))
	})
	add("H", "H27", `Sprint(Unsafe(SafeFormatter{...}), Unsafe(SafeValueType("sv")), Unsafe(SafeMessager{}), Unsafe(RegisteredSafeType{}), Unsafe(RedactableString("‹r›")))`, func(e *c12Env) RedactableString {
		return Sprint(Unsafe(sf(e, "mix", nil)), Unsafe(c12SV("sv")), Unsafe(c12Msg{}), Unsafe(c12Reg{e.ref, "u"}), Unsafe(RedactableString("‹r›")))
	})
	add("H", "H28", `Sprintf("%v|%v", Safe(SafeFormatter{deep}), Unsafe(SafeFormatter{deep})) + Sprint(Safe(Unsafe(Safe(SafeFormatter{Print}))))`, func(e *c12Env) RedactableString {
		return Sprintf("%v|%v", Safe(sf(e, "deep", 1)), Unsafe(sf(e, "deep", 2))) + Sprint(Safe(Unsafe(Safe(sf(e, "print", 3)))))
	})
	add("H", "H29", `Sprintf("%s%s|", RedactableString("‹\xe2\x80›"), "\xb9x") + Sprintfn(func(w){w.UnsafeRune(-1); w.SafeRune(0xD800); w.UnsafeByte(0xe2); w.SafeByte(0x80); w.UnsafeBytes("\xb9")})`, func(e *c12Env) RedactableString {
		return Sprintf("%s%s|", RedactableString("‹\xe2\x80›"), "\xb9x") + Sprintfn(func(w SafePrinter) {
			w.UnsafeRune(-1)
			w.SafeRune(0xD800)
			w.UnsafeByte(0xe2)
			w.SafeByte(0x80)
			w.UnsafeBytes([]byte("\xb9"))
		})
	})
	add("H", "H30", `Sprint(Safe(StringerCallingSprintf{}), Safe(SafeFormatter{w.Print(Sprintf(...Safe(SafeFormatter{Printf})))}))`, func(e *c12Env) RedactableString {
		return Sprint(Safe(c12ReStr{e.ref}), Safe(sf(e, "reenter", nil)))
	})
	add("H", "H31", `JoinTo(&b, Safe-wrapped values...) + Join("‹,›", ...) + JoinTo(&b, ",", 5)`, func(e *c12Env) RedactableString {
		var b StringBuilder
		JoinTo(&b, "‹,›", []interface{}{Safe(sf(e, "print", 1)), Unsafe(fm(e, "print")), c12SVF{e.ref, 3}})
		JoinTo(&b, ",", 5)
		return b.RedactableString() + Join("‹,›", []RedactableString{"‹a›", "b", ""})
	})
	add("H", "H32", `Sprintfn(func(w){w.Print(Safe(SafeFormatter{Print})); w.Printf("%v", Unsafe(Formatter{Printf})); fmt.Fprintf(w, "%d", 1); w.Print(SafeValue+SafeFormatter{})})`, func(e *c12Env) RedactableString {
		return Sprintfn(func(w SafePrinter) {
			e.note(w)
			w.Print(Safe(sf(e, "print", 1)))
			e.pause()
			w.Printf("%v", Unsafe(fm(e, "printf")))
			fmt.Fprintf(w, "%d", 1)
			w.Print(c12SVF{e.ref, 4})
		})
	})
	add("H", "H33", `Sprint(Safe(e1), Safe(cerr), Unsafe(cerr), Safe(SafeMessager{}), Safe(3.5), Safe([]interface{}{SafeFormatter{Printf}}), Safe(nil))`, func(e *c12Env) RedactableString {
		return Sprint(Safe(e.e1), Safe(e.cerr), Unsafe(e.cerr), Safe(c12Msg{}), Safe(3.5), Safe([]interface{}{sf(e, "printf", 9)}), Safe(nil))
	})
	add("H", "H34", `StringWithoutMarkers(SafeFormatter{deep}) + StringBuilder{SafeFloat; SafeUint; Printf("%v", Safe(SafeFormatter{deep}))} printed with Sprint(Safe(b), Unsafe(b))`, func(e *c12Env) RedactableString {
		var b StringBuilder
		b.SafeFloat(2.5)
		b.SafeUint(7)
		b.UnsafeString("u‹")
		b.Printf("%v", Safe(sf(e, "deep", 4)))
		return RedactableString(StringWithoutMarkers(sf(e, "deep", 5))) + Sprint(Safe(b), Unsafe(&b), b)
	})
	return cs
}

// ---------------------------------------------------------------------------------------------------
// runner

type c12Shared struct {
	t      *testing.T
	calls  []*c12Call
	refs   []c12Res
	probes []int
	hists  []int
	mu     sync.Mutex
	fails  int32
	max    int32
}

func c12Trunc(s string) string {
	if len(s) > 160 {
		return s[:160] + fmt.Sprintf("...(%d bytes)", len(s))
	}
	return s
}

func (s *c12Shared) stopped() bool { return atomic.LoadInt32(&s.fails) >= s.max }

func (s *c12Shared) fail(e *c12Env, call string, got, ref c12Res, why string) {
	s.mu.Lock()
	defer s.mu.Unlock()
	if s.fails >= s.max {
		return
	}
	atomic.AddInt32(&s.fails, 1)
	out := c12Trunc(got.out)
	if got.err != "" || ref.err != "" {
		out += " [returned error: " + got.err + "]"
	}
	refText := fmt.Sprintf("%q", c12Trunc(ref.out))
	if got.err != "" || ref.err != "" {
		refText += " [returned error: " + ref.err + "]"
	}
	vFail(s.t, "C12", call, out, why+"; the same call in fresh state returns "+refText)
}

type c12Held struct {
	idx int
	res c12Res
}

type c12Runner struct {
	s      *c12Shared
	e      *c12Env
	rounds int
	held   []c12Held
	// measured
	blocks, calls, rechecks         int
	ntHistory, ntRecycled, ntCrossG int
	seqClean                        bool // after a failure, empty the pool so that later reports are attributable
}

func (r *c12Runner) histText(hist []int) string {
	if len(hist) == 0 {
		return "history{none: only the probes that ran earlier in the block}"
	}
	var parts []string
	for _, h := range hist {
		parts = append(parts, r.s.calls[h].text)
	}
	return "history{" + strings.Join(parts, " ;; ") + "}"
}

// block runs one history followed by all probes (rounds times); returns false when a check failed.
func (r *c12Runner) block(hist []int) bool {
	s, e := r.s, r.e
	ok := true
	bad := 0
	r.held = r.held[:0]
	e.beginBlock()
	one := func(idx int, desc func() string) {
		if bad >= 2 {
			return // two reports per block are enough
		}
		res := c12Do(s.calls[idx], e)
		r.calls++
		good := c12Same(res, s.refs[idx])
		if !good {
			ok = false
			bad++
			why := "the result depends on earlier calls in the process (or on concurrent ones)"
			if res.panicked && !s.refs[idx].panicked {
				why = "the call panics after this history although it does not in fresh state"
			}
			s.fail(e, desc(), res, s.refs[idx], why)
		}
		r.held = append(r.held, c12Held{idx, res})
	}
	for k, h := range hist {
		k, h := k, h
		one(h, func() string {
			return fmt.Sprintf("%s: history call #%d %s", r.histText(hist[:k]), k+1, s.calls[h].text)
		})
	}
	e.inHistory = false
	for round := 0; round < r.rounds && ok; round++ {
		// the probe that comes first (and so receives the printer the history freed last) changes from
		// round to round and from block to block
		off := (round*11 + r.blocks*7) % len(s.probes)
		for j := range s.probes {
			round, p := round, s.probes[(j+off)%len(s.probes)]
			one(p, func() string {
				return fmt.Sprintf("%s; then all probes (%d rounds, rotating order); failing in round %d: %s", r.histText(hist), r.rounds, round+1, s.calls[p].text)
			})
			if !ok && s.stopped() {
				break
			}
		}
	}
	// detachment: the values returned earlier in the block are still what they were
	if ok {
		for k := range r.held {
			h := &r.held[k]
			r.rechecks++
			if !c12Same(h.res, s.refs[h.idx]) {
				ok = false
				s.fail(e, fmt.Sprintf("%s; then all probes %d times; re-reading the value returned by call #%d of the block, %s",
					r.histText(hist), r.rounds, k+1, s.calls[h.idx].text), h.res, s.refs[h.idx],
					"a returned value changed while later calls ran: it is not detached from the recycled printer buffer")
				break
			}
		}
	}
	r.blocks++
	if e.hitHistory {
		r.ntHistory++
	}
	if e.hitRecycled {
		r.ntRecycled++
	}
	if e.hitCrossG {
		r.ntCrossG++
	}
	if !ok && r.seqClean {
		runtime.GC()
		runtime.GC()
	}
	return ok
}

// c12Refs computes the reference values, each one on an emptied printer pool.
func c12Refs(calls []*c12Call, e *c12Env, order []int) []c12Res {
	refs := make([]c12Res, len(calls))
	for _, k := range order {
		// as fresh as this process can be: two collections empty the sync.Pool of printers
		runtime.GC()
		runtime.GC()
		r := c12Do(calls[k], e)
		r.out = string([]byte(r.out)) // own copy
		refs[k] = r
	}
	return refs
}

func c12Order(calls []*c12Call, reverse bool) []int {
	var order []int
	for k := range calls { // probes come first in the catalogue
		order = append(order, k)
	}
	if reverse {
		for a, b := 0, len(order)-1; a < b; a, b = a+1, b-1 {
			order[a], order[b] = order[b], order[a]
		}
	}
	return order
}

func c12NewShared(t *testing.T, max int32) (*c12Shared, *c12Env) {
	calls := c12Catalogue()
	e := c12NewEnv(0, false)
	s := &c12Shared{t: t, calls: calls, max: max}
	for k, c := range calls {
		if c.probe {
			s.probes = append(s.probes, k)
		}
		if c.hist {
			s.hists = append(s.hists, k)
		}
	}
	s.refs = c12Refs(calls, e, c12Order(calls, false))
	runtime.GC()
	runtime.GC()
	return s, e
}

// ---------------------------------------------------------------------------------------------------
// really fresh process: the test binary re-executed

type c12ChildVal struct {
	Sum      string `json:"sum"`
	Head     string `json:"head"`
	Err      string `json:"err"`
	Panicked bool   `json:"panicked"`
}

func c12Digest(e *c12Env, r c12Res) c12ChildVal {
	h := fnv.New64a()
	_, _ = h.Write([]byte(r.out))
	head := r.out
	if len(head) > 200 {
		head = head[:200]
	}
	// quoted: JSON would replace invalid UTF-8
	return c12ChildVal{Sum: fmt.Sprintf("%d:%x", len(r.out), h.Sum64()), Head: strconv.QuoteToASCII(head), Err: r.err, Panicked: r.panicked}
}

// c12ChildMain runs in the child: mode "fwd", "rev" or "one:<index>".
func c12ChildMain(mode string) {
	restore := c12Setup()
	defer restore()
	calls := c12Catalogue()
	e := c12NewEnv(0, false)
	var order []int
	switch {
	case mode == "fwd":
		order = c12Order(calls, false)
	case mode == "rev":
		order = c12Order(calls, true)
	case strings.HasPrefix(mode, "one:"):
		k, err := strconv.Atoi(mode[4:])
		if err != nil || k < 0 || k >= len(calls) {
			return
		}
		order = []int{k}
	default:
		return
	}
	out := map[string]c12ChildVal{}
	for _, k := range order {
		runtime.GC()
		runtime.GC()
		out[calls[k].name] = c12Digest(e, c12Do(calls[k], e))
	}
	m, _ := json.Marshal(out)
	fmt.Printf("\nC12-CHILD: %s\n", m)
}

func c12RunChild(mode string) (map[string]c12ChildVal, error) {
	ctx, cancel := context.WithTimeout(context.Background(), 60*time.Second)
	defer cancel()
	cmd := exec.CommandContext(ctx, os.Args[0], "-test.run=^TestVerifReplayC12$", "-test.count=1", "-test.v")
	cmd.Env = append(os.Environ(), "C12_CHILD="+mode)
	out, err := cmd.Output()
	if err != nil {
		return nil, err
	}
	for _, line := range strings.Split(string(out), "\n") {
		if strings.HasPrefix(line, "C12-CHILD: ") {
			var m map[string]c12ChildVal
			if err := json.Unmarshal([]byte(line[len("C12-CHILD: "):]), &m); err != nil {
				return nil, err
			}
			return m, nil
		}
	}
	return nil, errors.New("no C12-CHILD line in the child's output")
}

// c12CompareChild compares the in-process references with a fresh process; returns the number of
// comparisons made (0 when no child could be run: not a failure of the property).
func c12CompareChild(s *c12Shared, e *c12Env, mode string) int {
	m, err := c12RunChild(mode)
	if err != nil {
		s.t.Logf("C12: fresh-process reference (%s) not available: %v", mode, err)
		return 0
	}
	n := 0
	for k, c := range s.calls {
		v, ok := m[c.name]
		if !ok {
			continue
		}
		n++
		mine := c12Digest(e, s.refs[k])
		if mine != v {
			head, _ := strconv.Unquote(v.Head)
			s.fail(e, c.text, s.refs[k], c12Res{out: head, err: v.Err, panicked: v.Panicked},
				"the value computed in this process before any history (on an emptied printer pool) differs from the value computed by a freshly started process ("+mode+", length:hash "+v.Sum+")")
		}
	}
	return n
}

// ---------------------------------------------------------------------------------------------------
// enumeration

// c12Enumerate visits every sequence over items of length 0..maxLen (shorter first).
func c12Enumerate(items []int, maxLen int, visit func([]int) bool) {
	for n := 0; n <= maxLen; n++ {
		idx := make([]int, n)
		seq := make([]int, n)
		for {
			for k := range idx {
				seq[k] = items[idx[k]]
			}
			if !visit(seq) {
				return
			}
			k := n - 1
			for k >= 0 {
				idx[k]++
				if idx[k] < len(items) {
					break
				}
				idx[k] = 0
				k--
			}
			if k < 0 {
				break
			}
		}
	}
}

func c12Seed() int64 {
	if v, err := strconv.ParseInt(os.Getenv("VERIF_SEED"), 10, 64); err == nil {
		return v
	}
	return 1
}

func c12RandHist(rng *rand.Rand, hists []int, minLen, maxLen int) []int {
	n := minLen + rng.Intn(maxLen-minLen+1)
	h := make([]int, n)
	for k := range h {
		h[k] = hists[rng.Intn(len(hists))]
	}
	return h
}

type c12ConcStats struct {
	blocks, calls, crossG, recycled int
}

// c12Concurrent runs g goroutines, each executing `blocks` random blocks on its own destinations.
func c12Concurrent(s *c12Shared, g, procs, blocks, rounds int, yield bool, seed int64) c12ConcStats {
	prev := runtime.GOMAXPROCS(procs)
	defer runtime.GOMAXPROCS(prev)
	runners := make([]*c12Runner, g)
	for k := 0; k < g; k++ {
		runners[k] = &c12Runner{s: s, e: c12NewEnv(k+1, yield), rounds: rounds}
	}
	start := make(chan struct{})
	var wg sync.WaitGroup
	for k := 0; k < g; k++ {
		wg.Add(1)
		go func(k int) {
			defer wg.Done()
			r := runners[k]
			rng := rand.New(rand.NewSource(seed*1000003 + int64(k)*7919 + int64(g)*31 + int64(procs)))
			<-start
			for b := 0; b < blocks && !s.stopped(); b++ {
				r.block(c12RandHist(rng, s.hists, 0, 3))
			}
		}(k)
	}
	close(start)
	wg.Wait()
	var st c12ConcStats
	for _, r := range runners {
		st.blocks += r.blocks
		st.calls += r.calls
		st.crossG += r.ntCrossG
		st.recycled += r.ntRecycled
	}
	return st
}

func c12Bounded(v map[string]interface{}) {
	v["property"] = "C12"
	m, _ := json.Marshal(v)
	fmt.Printf("BOUNDED: %s\n", m)
}

// ---------------------------------------------------------------------------------------------------
// tests

func TestVerifReplayC12(t *testing.T) {
	if mode := os.Getenv("C12_CHILD"); mode != "" {
		c12ChildMain(mode)
		return
	}
	defer c12Setup()()
	s, e := c12NewShared(t, 12)
	c12CompareChild(s, e, "fwd")
	r := &c12Runner{s: s, e: e, rounds: c12Rounds, seqClean: true}

	// a history named by the hints: {"history": ["H01", 3, ...]} (catalogue names or indexes into the history catalogue)
	var hints map[string]interface{}
	_ = json.Unmarshal([]byte(os.Getenv("REPLAY_HINTS")), &hints)
	if hv, ok := hints["history"].([]interface{}); ok {
		var hist []int
		for _, x := range hv {
			switch v := x.(type) {
			case string:
				for k, c := range s.calls {
					if c.name == v {
						hist = append(hist, k)
					}
				}
			case float64:
				if int(v) >= 0 && int(v) < len(s.hists) {
					hist = append(hist, s.hists[int(v)])
				}
			}
		}
		for k := 0; k < 3; k++ {
			r.block(hist)
		}
	}
	if s.stopped() {
		return
	}
	// every history of length <= 2
	c12Enumerate(s.hists, 2, func(h []int) bool {
		r.block(h)
		return !s.stopped()
	})
	if s.fails > 0 {
		return
	}
	// a short concurrent run
	st := c12Concurrent(s, 8, runtime.NumCPU(), 60, 2, false, c12Seed())
	st2 := c12Concurrent(s, 4, 1, 40, 2, true, c12Seed())
	t.Logf("C12 replay: %d sequential blocks (%d calls compared, %d re-read), %d of them with a probe on a printer used by the history; concurrent: %d blocks (%d with a printer last used by another goroutine)",
		r.blocks, r.calls, r.rechecks, r.ntHistory, st.blocks+st2.blocks, st.crossG+st2.crossG)
}

func TestVerifBoundedC12(t *testing.T) {
	if os.Getenv("C12_CHILD") != "" {
		return
	}
	defer c12Setup()()
	thorough := os.Getenv("VERIF_TIER") == "thorough"
	seed := c12Seed()
	t0 := time.Now()
	lap := func(what string) {
		t.Logf("C12 timing: %s: %.1fs", what, time.Since(t0).Seconds())
		t0 = time.Now()
	}
	s, e := c12NewShared(t, 8)
	lap("references")

	// (1) fresh-process agreement of the references
	childCases := c12CompareChild(s, e, "fwd") + c12CompareChild(s, e, "rev")
	childModes := "probes then history calls in catalogue order, and in reverse order"
	if thorough {
		for k := range s.calls {
			childCases += c12CompareChild(s, e, "one:"+strconv.Itoa(k))
		}
		childModes += ", and one fresh process per call"
	}
	lap("fresh processes")
	failsBefore := s.fails
	c12Bounded(map[string]interface{}{
		"law":   "the value of each catalogue call computed first in the test process equals the value computed by a fresh process (test binary re-executed)",
		"cases": childCases, "nontrivial": childCases, "nontrivial_rule": "every comparison is between two processes",
		"bound":      fmt.Sprintf("%d calls (%d probes, %d history calls); child processes: %s", len(s.calls), len(s.probes), len(s.hists), childModes),
		"exhaustive": childCases > 0 && s.fails == 0})

	// (2) sequential histories
	maxLen, sampled, sMin, sMax := 2, 1500, 3, 5
	if thorough {
		maxLen, sampled, sMin, sMax = 3, 10000, 4, 6
	}
	r := &c12Runner{s: s, e: e, rounds: c12Rounds, seqClean: true}
	complete := true
	c12Enumerate(s.hists, maxLen, func(h []int) bool {
		r.block(h)
		if s.stopped() {
			complete = false
		}
		return complete
	})
	lap("exhaustive histories")
	exBlocks, exCalls, exNT := r.blocks, r.calls, r.ntHistory
	exFails := s.fails - failsBefore
	c12Bounded(map[string]interface{}{
		"law":   "after every history, every call of the block (the history calls themselves and all probes, " + strconv.Itoa(c12Rounds) + " rounds) returns the value it returns in fresh state, text and returned error",
		"cases": exBlocks, "nontrivial": exNT, "calls_compared": exCalls,
		"nontrivial_rule": "blocks in which a formatting callback of a probe was handed a printer object (pointer identity) that a callback of the same block's history had been handed: the probe provably ran on a printer recycled from the history (histories without callbacks cannot be observed and count as trivial)",
		"recycled_any":    r.ntRecycled,
		"bound":           fmt.Sprintf("all sequences of at most %d calls over the %d-call history catalogue, each followed by %d rounds of the %d probes", maxLen, len(s.hists), c12Rounds, len(s.probes)),
		"exhaustive":      complete && exFails == 0})

	rng := rand.New(rand.NewSource(seed))
	failsBefore = s.fails
	for k := 0; k < sampled && !s.stopped(); k++ {
		r.block(c12RandHist(rng, s.hists, sMin, sMax))
	}
	lap("sampled histories")
	c12Bounded(map[string]interface{}{
		"law":   "same law on longer histories (sampled, VERIF_SEED)",
		"cases": r.blocks - exBlocks, "nontrivial": r.ntHistory - exNT, "calls_compared": r.calls - exCalls,
		"nontrivial_rule": "as above",
		"bound":           fmt.Sprintf("%d random histories of %d..%d calls, seed %d", sampled, sMin, sMax, seed),
		"exhaustive":      false})
	c12Bounded(map[string]interface{}{
		"law":   "a returned value is detached from the recycled printer: re-read at the end of its block (after all later calls of the block) it is unchanged",
		"cases": r.rechecks, "nontrivial": r.rechecks, "nontrivial_rule": "every value re-read after at least one later call",
		"bound":      "every value returned in the sequential blocks above",
		"exhaustive": complete && s.fails == 0})

	// (3) goroutines
	type conf struct {
		g, procs, blocks int
		yield            bool
	}
	ncpu := runtime.NumCPU()
	confs := []conf{{2, 2, 150, false}, {4, 1, 80, true}, {8, 4, 80, false}, {16, ncpu, 60, false}, {16, 2, 40, true}, {16, 1, 30, true}}
	if thorough {
		confs = nil
		for _, g := range []int{2, 3, 4, 8, 12, 16} {
			for _, p := range []int{1, 2, 4, ncpu, 2 * ncpu} {
				confs = append(confs, conf{g, p, 200, false}, conf{g, p, 100, true})
			}
		}
	}
	var tot c12ConcStats
	for k, c := range confs {
		if s.stopped() {
			break
		}
		st := c12Concurrent(s, c.g, c.procs, c.blocks, 2, c.yield, seed+int64(k))
		tot.blocks += st.blocks
		tot.calls += st.calls
		tot.crossG += st.crossG
		tot.recycled += st.recycled
	}
	lap("goroutines")
	c12Bounded(map[string]interface{}{
		"law":   "with up to 16 goroutines printing concurrently, each on its own destinations, every call of every block still returns its fresh-state value (also re-read at the end of the block)",
		"cases": tot.blocks, "nontrivial": tot.crossG, "calls_compared": tot.calls,
		"nontrivial_rule": "blocks in which a probe callback was handed a printer object last seen by a callback of ANOTHER goroutine (the pool really moved printers between goroutines)",
		"bound":           fmt.Sprintf("%d configurations (goroutines x GOMAXPROCS x with/without runtime.Gosched() inside formatting callbacks), goroutines in {2..16}, random histories of 0..3 calls then 2 rounds of all probes, seed %d; schedules are those the Go scheduler produced (sampled, not enumerated); data races proper need `go test -race`", len(confs), seed),
		"exhaustive":      false})
	failsBefore = s.fails
	sh := vSharedStorage(16, func(call, out, why string) { atomic.AddInt32(&s.fails, 1); vFail(s.t, "C12", call, out, why) })
	c12Bounded(map[string]interface{}{
		"law":   "an operand shared by concurrent print calls is only read: 16 goroutines printing / reading the same StringBuilder value store nothing into its backing array (deterministic witness of the data race the race detector would report), and a use of an earlier by-value copy does not change what the builder returns later",
		"cases": sh.Cases, "nontrivial": sh.Nontrivial, "nontrivial_rule": "an envelope is open when the copy is finalized, or the original is written to after the copy was taken",
		"bound":      "6 first payloads x 7 fill levels of the 64-byte array x {unsafe, safe} x 6 uses, each from 16 goroutines at once",
		"exhaustive": s.fails == failsBefore})
	_ = e
}
