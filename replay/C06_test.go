package redact

// Replay/search harness for C06 (injected with -overlay, never written into /repo):
// Unsafe(x) must render entirely inside envelopes and Safe(x) must contain none, for
// user formatting methods that call back into the printer behind their fmt.State.

import (
	"encoding/json"
	"fmt"
	"strings"
	"testing"

	i "github.com/cockroachdb/redact/interfaces"
)

type c06Print struct{ what string }

func (c c06Print) Format(s fmt.State, verb rune) {
	sp, ok := s.(SafePrinter)
	if !ok {
		fmt.Fprint(s, "plain")
		return
	}
	switch c.what {
	case "Print(Safe)":
		sp.Print(Safe("safe"))
	case "Print(literal string)":
		sp.Print("data")
	case "Printf(literal)":
		sp.Printf("lit %d", 1)
	case "Printf(Safe)":
		sp.Printf("%v", Safe(7))
	case "SafeString":
		sp.SafeString("safestring")
	case "SafeInt":
		sp.SafeInt(i.SafeInt(42))
	case "UnsafeString":
		sp.UnsafeString("u")
	case "Write":
		_, _ = s.Write([]byte("w"))
	}
}

type c06SF struct{ what string }

func (c c06SF) SafeFormat(sp SafePrinter, verb rune) { c06Print{c.what}.Format(sp.(fmt.State), verb) }

type c06Err struct{}

func (c06Err) Error() string { return "errtext" }

func c06Outside(s string) string {
	// text outside envelopes
	var sb strings.Builder
	open := false
	for j := 0; j < len(s); {
		if strings.HasPrefix(s[j:], "\xe2\x80\xb9") {
			open = true
			j += 3
			continue
		}
		if strings.HasPrefix(s[j:], "\xe2\x80\xba") {
			open = false
			j += 3
			continue
		}
		if !open {
			sb.WriteByte(s[j])
		}
		j++
	}
	return sb.String()
}

func TestVerifReplayC06(t *testing.T) {
	fail := func(call, out, why string) {
		m, _ := json.Marshal(map[string]string{"property": "C06", "call": call, "output": fmt.Sprintf("%q", out), "why": why})
		fmt.Printf("REPLAY-FAIL: %s\n", m)
		t.Errorf("%s: %s: %q", call, why, out)
	}
	whats := []string{"Print(Safe)", "Print(literal string)", "Printf(literal)", "Printf(Safe)", "SafeString", "SafeInt", "UnsafeString", "Write"}
	for _, verb := range []string{"%v", "%s", "%+v", "%d"} {
		for _, w := range whats {
			for _, mk := range []struct {
				name string
				v    interface{}
			}{{"Formatter", c06Print{w}}, {"SafeFormatter", c06SF{w}}, {"[]interface{Formatter}", []interface{}{c06Print{w}}}, {"struct{Formatter}", struct{ A interface{} }{c06Print{w}}}} {
				out := string(Sprintf(verb, Unsafe(mk.v)))
				if o := c06Outside(out); strings.Trim(o, "[]{} ") != "" && mk.name != "[]interface{Formatter}" && mk.name != "struct{Formatter}" || strings.ContainsAny(o, "abcdefghijklmnopqrstuvwxyz0123456789") {
					fail(fmt.Sprintf("Sprintf(%q, Unsafe(%s calling %s))", verb, mk.name, w), out, "text outside envelopes under Unsafe(): "+fmt.Sprintf("%q", o))
				}
				if mk.name == "Formatter" && w != "UnsafeString" && w != "Write" {
					out := string(Sprintf(verb, Safe(mk.v)))
					if strings.Contains(out, "\xe2\x80\xb9") {
						fail(fmt.Sprintf("Sprintf(%q, Safe(%s calling %s))", verb, mk.name, w), out, "envelope inside Safe()")
					}
				}
			}
		}
	}
	// nesting: outermost wins
	for _, c := range []struct {
		call string
		out  RedactableString
		safe bool
	}{
		{"Sprint(Unsafe(Safe(1)))", Sprint(Unsafe(Safe(1))), false},
		{"Sprint(Safe(Unsafe(1)))", Sprint(Safe(Unsafe(1))), true},
		{"Sprint(Unsafe(Safe(Unsafe(\"x\"))))", Sprint(Unsafe(Safe(Unsafe("x")))), false},
		{"Sprint(Unsafe(RedactableString(\"a‹b›\")))", Sprint(Unsafe(RedactableString("a\xe2\x80\xb9b\xe2\x80\xba"))), false},
		{"Sprint(Unsafe(c06Err{}))", Sprint(Unsafe(c06Err{})), false},
	} {
		o := c06Outside(string(c.out))
		if !c.safe && o != "" {
			fail(c.call, string(c.out), "text outside envelopes under Unsafe()")
		}
		if c.safe && strings.Contains(string(c.out), "\xe2\x80\xb9") {
			fail(c.call, string(c.out), "envelope inside Safe()")
		}
	}
}
