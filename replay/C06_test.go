package redact

// Replay/search and bounded harness for C06 (injected with -overlay, never written into /repo):
// Unsafe(x) must render entirely inside envelopes and Safe(x) must contain none, the characters are those fmt
// prints for x (markers replaced by '?'), and when wrappers are nested the outermost decides.
//
// TestVerifReplayC06: quick search over user formatting methods that call back into the printer behind their
// fmt.State, under Unsafe()/Safe(), plus a passive canary after every re-entrant call (a later, unrelated print
// must not inherit an override).
//
// TestVerifBoundedC06: systematic bounded check of the whole statement. The value universe (c06Universe) is
//   - passive leaves (nil, numbers, strings with markers / line feeds, bytes, containers, pointers, errors,
//     Stringers, GoStringers, passive and panicking formatting methods, reflect.Value),
//   - leaves with a classification of their own (SafeString.., custom SafeValue, registered safe types,
//     RedactableString/Bytes, SafeMessager, SafeFormatter, StringBuilder),
//   - all Safe/Unsafe wrapper nestings of depth <= 2 around a selection (the wrapper under test is the third level),
//   - containers (slice, array, map, struct, pointer to struct, nested, unexported field, typed fields) around
//     all of the above,
//   - PROGRAMS: user formatting methods (fmt.Formatter that discovers the SafePrinter behind its fmt.State,
//     SafeFormatter (+Format or +String), error handled by a registered error hook) whose body is every sequence
//     of at most 2 (quick) / 3 (thorough, reduced alphabet) operations over an alphabet of SafeString / SafeInt /
//     SafeRune / ... / UnsafeString / UnsafeRune / ... / Write / Fprintf / Print(args) / Printf(format, args) /
//     panic, with arguments that are again leaves, wrappers and (nesting depth <= 3) other programs.
// Every value x is rendered as Unsafe(x) and as Safe(x) through every context of c06Contexts (Sprint, Fprint, Fprintf,
// Sprintf with ~40 directives between safe sentinels, Sprintfn + nested Print/Printf, StringBuilder.Print/Printf,
// nested printers two levels deep, and as an element of an unwrapped slice/struct/map).
//
// Oracle (from the statement):
//   U  rendering of Unsafe(x): well-formed, and nothing but line feeds outside envelopes (the library keeps line
//      feeds out of envelopes by design);
//   S  rendering of Safe(x): no marker at all, for every x that does not contain pre-redactable text
//      (RedactableString/Bytes keep their own envelopes: "classification of its own") and whose methods do not
//      call the explicit Unsafe* writers;
//   EQ StripMarkers(output) == fmt's output for the same call with x in place of the wrapped operand, each marker
//      replaced by '?'. The fmt side of a program is the same operation list run against the io.Writer.
//   OUT the two laws above for x that contain wrappers themselves: the outermost decides;
//   POOL after every re-entrant rendering, unrelated later prints of passive values are still correct.
//
// Global state: the registered safe types and the error hook are restored (the registry has no public
// "unregister": it is reached with go:linkname).

import (
	"encoding/json"
	"errors"
	"fmt"
	"io"
	"os"
	"reflect"
	"strconv"
	"strings"
	"testing"
	_ "unsafe" // go:linkname

	"github.com/cockroachdb/redact/builder"
	i "github.com/cockroachdb/redact/interfaces"
)

//go:linkname c06Registry github.com/cockroachdb/redact/internal/rfmt.safeTypeRegistry
var c06Registry map[reflect.Type]bool

//go:linkname c06ErrorFn github.com/cockroachdb/redact/internal/rfmt.redactErrorFn
var c06ErrorFn func(err error, p i.SafePrinter, verb rune)

// ---------------------------------------------------------------------------------------------------
// replay harness

type c06Print struct{ what string }

func (c c06Print) Format(s fmt.State, verb rune) {
	sp, ok := s.(SafePrinter)
	if !ok {
		fmt.Fprint(s, "plain")
		return
	}
	switch c.what {
	case "Print(Safe)":
		sp.Print(Safe("safe"))
	case "Print(literal string)":
		sp.Print("data")
	case "Printf(literal)":
		sp.Printf("lit %d", 1)
	case "Printf(Safe)":
		sp.Printf("%v", Safe(7))
	case "SafeString":
		sp.SafeString("safestring")
	case "SafeInt":
		sp.SafeInt(i.SafeInt(42))
	case "UnsafeString":
		sp.UnsafeString("u")
	case "Write":
		_, _ = s.Write([]byte("w"))
	}
}

type c06SF struct{ what string }

func (c c06SF) SafeFormat(sp SafePrinter, verb rune) { c06Print{c.what}.Format(sp.(fmt.State), verb) }

type c06Err struct{}

func (c06Err) Error() string { return "errtext" }

func c06Outside(s string) string {
	// text outside envelopes
	var sb strings.Builder
	open := false
	for j := 0; j < len(s); {
		if strings.HasPrefix(s[j:], "\xe2\x80\xb9") {
			open = true
			j += 3
			continue
		}
		if strings.HasPrefix(s[j:], "\xe2\x80\xba") {
			open = false
			j += 3
			continue
		}
		if !open {
			sb.WriteByte(s[j])
		}
		j++
	}
	return sb.String()
}

func c06Fail(t *testing.T, call, out, why string) {
	m, _ := json.Marshal(map[string]string{"property": "C06", "call": call, "output": fmt.Sprintf("%q", out), "why": why})
	fmt.Printf("REPLAY-FAIL: %s\n", m)
	t.Errorf("%s: %s: %q", call, why, out)
}

func TestVerifReplayC06(t *testing.T) {
	nfail := 0
	fail := func(call, out, why string) {
		nfail++
		if nfail <= 12 {
			c06Fail(t, call, out, why)
		}
	}
	// REPLAY_HINTS: a solver model of the override automaton; the only keys used are "verb"/"format"
	// (a directive to try first); everything else is ignored.
	var hints map[string]interface{}
	_ = json.Unmarshal([]byte(os.Getenv("REPLAY_HINTS")), &hints)
	verbs := []string{"%v", "%s", "%+v", "%d"}
	for _, k := range []string{"verb", "format"} {
		if s, ok := hints[k].(string); ok && strings.HasPrefix(s, "%") && strings.Count(s, "%") == 1 {
			verbs = append([]string{s}, verbs...)
		}
	}
	// canary: a later print of passive values must not inherit anything from an earlier re-entrant call.
	canary := func(after string) {
		if out := string(Sprint(Unsafe("c"))); out != vS+"c"+vE {
			fail("Sprint(Unsafe(\"c\")) /* after "+after+" */", out, "a later Unsafe(x) is not enveloped (stale override in a pooled printer)")
		}
		if out := string(Sprintf("l %v", Safe("s"))); out != "l s" {
			fail("Sprintf(\"l %v\", Safe(\"s\")) /* after "+after+" */", out, "a later Safe(x) or format literal is enveloped (stale override in a pooled printer)")
		}
	}
	whats := []string{"Print(Safe)", "Print(literal string)", "Printf(literal)", "Printf(Safe)", "SafeString", "SafeInt", "UnsafeString", "Write"}
	for _, verb := range verbs {
		for _, w := range whats {
			for _, mk := range []struct {
				name string
				v    interface{}
			}{{"Formatter", c06Print{w}}, {"SafeFormatter", c06SF{w}}, {"[]interface{Formatter}", []interface{}{c06Print{w}}}, {"struct{Formatter}", struct{ A interface{} }{c06Print{w}}}} {
				call := fmt.Sprintf("Sprintf(%q, Unsafe(%s calling %s))", verb, mk.name, w)
				out := string(Sprintf(verb, Unsafe(mk.v)))
				if o := c06Outside(out); strings.Trim(o, "[]{} ") != "" && mk.name != "[]interface{Formatter}" && mk.name != "struct{Formatter}" || strings.ContainsAny(o, "abcdefghijklmnopqrstuvwxyz0123456789") {
					fail(call, out, "text outside envelopes under Unsafe(): "+fmt.Sprintf("%q", o))
				}
				canary(call)
				if mk.name == "Formatter" && w != "UnsafeString" && w != "Write" {
					call := fmt.Sprintf("Sprintf(%q, Safe(%s calling %s))", verb, mk.name, w)
					out := string(Sprintf(verb, Safe(mk.v)))
					if strings.Contains(out, "\xe2\x80\xb9") {
						fail(call, out, "envelope inside Safe()")
					}
					canary(call)
				}
				if nfail > 12 {
					return
				}
			}
		}
	}
	// nesting: outermost wins
	for _, c := range []struct {
		call string
		out  RedactableString
		safe bool
	}{
		{"Sprint(Unsafe(Safe(1)))", Sprint(Unsafe(Safe(1))), false},
		{"Sprint(Safe(Unsafe(1)))", Sprint(Safe(Unsafe(1))), true},
		{"Sprint(Unsafe(Safe(Unsafe(\"x\"))))", Sprint(Unsafe(Safe(Unsafe("x")))), false},
		{"Sprint(Unsafe(RedactableString(\"a‹b›\")))", Sprint(Unsafe(RedactableString("a\xe2\x80\xb9b\xe2\x80\xba"))), false},
		{"Sprint(Unsafe(c06Err{}))", Sprint(Unsafe(c06Err{})), false},
	} {
		o := c06Outside(string(c.out))
		if !c.safe && o != "" {
			fail(c.call, string(c.out), "text outside envelopes under Unsafe()")
		}
		if c.safe && strings.Contains(string(c.out), "\xe2\x80\xb9") {
			fail(c.call, string(c.out), "envelope inside Safe()")
		}
	}
}

// ---------------------------------------------------------------------------------------------------
// bounded harness: reference functions written from the statement

// c06Strip: the characters of a rendering = the rendering without the delimiters.
func c06Strip(s string) string {
	return strings.ReplaceAll(strings.ReplaceAll(s, vS, ""), vE, "")
}

// c06Esc: "markers replaced by '?'".
func c06Esc(s string) string {
	return strings.ReplaceAll(strings.ReplaceAll(s, vS, "?"), vE, "?")
}

func c06HasMarker(s string) bool { return strings.Contains(s, vS) || strings.Contains(s, vE) }

// c06OnlyLF: nothing but line feeds (which the library moves out of envelopes by design) outside envelopes.
func c06OnlyLF(rendering string) (string, bool) {
	o := c06Outside(rendering)
	return o, strings.Trim(o, "\n") == ""
}

// ---------------------------------------------------------------------------------------------------
// values

// c06Val is one member of the value universe with the facts the oracle needs about it.
type c06Val struct {
	name   string      // Go-like text
	v      interface{} // the value
	red    bool        // contains pre-redactable text (RedactableString/Bytes, StringBuilder) keeps its own envelopes under Safe(): no Safe() claim
	expl   bool        // a user method calls the explicit Unsafe* writers: no "Safe(x) has no envelope" claim
	meth   bool        // classification through a method (SafeFormatter, SafeMessager, hooked error): under Safe() the method, not fmt, decides how verbs other than plain %v are rendered
	hasS   bool        // contains a Safe() wrapper
	hasU   bool        // contains an Unsafe() wrapper
	prog   bool        // contains a method that calls back into the printer
	err    bool        // contains an error value (rendered by the hook when one is registered)
	pan    bool        // a SafeFormatter / hooked error panics: the method named in the panic report (SafeFormat) differs from the one fmt names (Format, String, Error)
	anypan bool        // some method panics (the fork of fmt keeps the width after a recovered panic, go1.23's fmt resets it)
	nofmt  bool        // a SafeFormatter with no method that fmt knows: under Safe() its SafeFormat decides the characters, fmt prints the struct
	mf     bool        // a method applies a directive other than plain %v to a part that is classified through a method (under Safe() that part's own method decides the characters)
	sf     bool        // a method applies a directive other than plain %v to a part that contains a Safe() wrapper
	rsf    bool        // a method applies a directive other than plain %v to a RedactableString
	rs     bool        // contains a RedactableString (documented as "not further formattable": it ignores the directive)
	div    string      // known divergence from fmt's characters (reported, equality skipped)
}

func c06Join(vs []c06Val) (names string, args []interface{}, fl c06Val) {
	var ns []string
	for _, a := range vs {
		ns = append(ns, a.name)
		args = append(args, a.v)
		fl.red = fl.red || a.red
		fl.expl = fl.expl || a.expl
		fl.meth = fl.meth || a.meth
		fl.hasS = fl.hasS || a.hasS
		fl.hasU = fl.hasU || a.hasU
		fl.prog = fl.prog || a.prog
		fl.err = fl.err || a.err
		fl.pan = fl.pan || a.pan
		fl.rs = fl.rs || a.rs
		fl.anypan = fl.anypan || a.anypan
		fl.nofmt = fl.nofmt || a.nofmt
		fl.mf = fl.mf || a.mf
		fl.rsf = fl.rsf || a.rsf
		fl.sf = fl.sf || a.sf
		if fl.div == "" {
			fl.div = a.div
		}
	}
	return strings.Join(ns, ", "), args, fl
}

// c06With builds a value around parts, inheriting their facts.
func c06With(name string, v interface{}, parts ...c06Val) c06Val {
	_, _, fl := c06Join(parts)
	fl.name, fl.v = name, v
	return fl
}

func c06P(name string, v interface{}) c06Val { return c06Val{name: name, v: v} }

func c06Safe(x c06Val) c06Val {
	r := c06With("Safe("+x.name+")", Safe(x.v), x)
	r.hasS = true
	return r
}

func c06Unsafe(x c06Val) c06Val {
	r := c06With("Unsafe("+x.name+")", Unsafe(x.v), x)
	r.hasU = true
	return r
}

type c06Stringer struct{ S string }

func (c c06Stringer) String() string { return "str:" + c.S }

type c06PtrStr struct{ S string }

func (c *c06PtrStr) String() string { return "pstr:" + c.S } // panics on a nil receiver: "<nil>"

type c06GoStr struct{ S string }

func (c c06GoStr) GoString() string { return "go" + vS + c.S + vE }

// c06PassFm: a passive fmt.Formatter (does not look behind its fmt.State).
type c06PassFm struct{ A string }

func (c c06PassFm) Format(s fmt.State, verb rune) {
	fmt.Fprintf(s, "pf[%c %s", verb, c.A)
	if w, ok := s.Width(); ok {
		fmt.Fprintf(s, " w%d", w)
	}
	_, _ = io.WriteString(s, "]")
}

type c06PanicStr struct{}

func (c06PanicStr) String() string { panic("boom" + vS + "p" + vE) }

type c06SV string

func (c06SV) SafeValue() {}

type c06SVStruct struct {
	A string
	B int
}

func (c06SVStruct) SafeValue() {}

type c06RegS struct {
	A string
	B int
}
type c06RegI int

type c06Sm struct{ A string }

func (c c06Sm) SafeMessage() string { return "sm:" + c.A }
func (c c06Sm) String() string      { return "sm:" + c.A }

// c06SfOnly: a SafeFormatter with no method fmt knows about.
type c06SfOnly struct {
	A string
	B int
}

func (c c06SfOnly) SafeFormat(sp SafePrinter, _ rune) {
	sp.SafeString("sf:")
	sp.Print(c.A)
	sp.SafeInt(i.SafeInt(c.B))
}

type c06Box struct {
	A interface{}
	B string
}
type c06Hid struct {
	a interface{}
	B int
}
type c06Field struct {
	S SafeString
	I interface{}
	N SafeInt
}
type c06Typed struct {
	S SafeString
	R RedactableString
	N SafeInt
	W SafeValue
	E error
	I interface{}
}

// ---------------------------------------------------------------------------------------------------
// programs: user formatting methods that call back into the printer

type c06Op struct {
	k    string // operation
	s    string // payload or format
	n    int
	args []c06Val
}

func (o c06Op) String() string {
	switch o.k {
	case "SafeRune", "UnsafeRune":
		return fmt.Sprintf("%s(%q)", o.k, rune(o.n))
	case "SafeByte", "UnsafeByte":
		return fmt.Sprintf("%s(%q)", o.k, byte(o.n))
	case "SafeInt", "SafeUint":
		return fmt.Sprintf("%s(%d)", o.k, o.n)
	case "SafeFloat":
		return fmt.Sprintf("%s(%d.5)", o.k, o.n)
	case "Print":
		ns, _, _ := c06Join(o.args)
		return "Print(" + ns + ")"
	case "Printf", "Fprintf":
		ns, _, _ := c06Join(o.args)
		if ns != "" {
			ns = ", " + ns
		}
		return fmt.Sprintf("%s(%q%s)", o.k, o.s, ns)
	}
	return fmt.Sprintf("%s(%q)", o.k, o.s)
}

type c06Prog struct{ ops []c06Op }

func (p *c06Prog) text() string {
	var ns []string
	for _, o := range p.ops {
		ns = append(ns, o.String())
	}
	return strings.Join(ns, "; ")
}

// c06NoFlags: the directive in progress has no flag, width or precision. SafeInt/SafeUint/SafeFloat format
// with the flags of the directive in progress, so the programs use them only under a plain directive
// (and print the same digits with SafeString otherwise): the characters of a program do not depend on flags.
func c06NoFlags(s fmt.State) bool {
	if _, ok := s.Width(); ok {
		return false
	}
	if _, ok := s.Precision(); ok {
		return false
	}
	return !s.Flag('+') && !s.Flag('-') && !s.Flag('#') && !s.Flag(' ') && !s.Flag('0')
}

func c06Args(vs []c06Val) []interface{} {
	_, a, _ := c06Join(vs)
	return a
}

// runPrinter: the program against the SafePrinter (the route taken inside redact).
func (p *c06Prog) runPrinter(sp SafePrinter) {
	for _, o := range p.ops {
		switch o.k {
		case "SafeString":
			sp.SafeString(SafeString(o.s))
		case "SafeRune":
			sp.SafeRune(SafeRune(o.n))
		case "SafeByte":
			sp.SafeByte(i.SafeByte(o.n))
		case "SafeBytes":
			sp.SafeBytes(i.SafeBytes(o.s))
		case "SafeInt":
			if c06NoFlags(sp) {
				sp.SafeInt(SafeInt(o.n))
			} else {
				sp.SafeString(SafeString(strconv.Itoa(o.n)))
			}
		case "SafeUint":
			if c06NoFlags(sp) {
				sp.SafeUint(SafeUint(o.n))
			} else {
				sp.SafeString(SafeString(strconv.Itoa(o.n)))
			}
		case "SafeFloat":
			if c06NoFlags(sp) {
				sp.SafeFloat(SafeFloat(float64(o.n) + 0.5))
			} else {
				sp.SafeString(SafeString(strconv.Itoa(o.n) + ".5"))
			}
		case "UnsafeString":
			sp.UnsafeString(o.s)
		case "UnsafeRune":
			sp.UnsafeRune(rune(o.n))
		case "UnsafeByte":
			sp.UnsafeByte(byte(o.n))
		case "UnsafeBytes":
			sp.UnsafeBytes([]byte(o.s))
		case "Write":
			_, _ = sp.Write([]byte(o.s))
		case "WriteString":
			_, _ = io.WriteString(sp, o.s)
		case "Fprintf":
			fmt.Fprintf(sp, o.s, c06Args(o.args)...)
		case "Print":
			sp.Print(c06Args(o.args)...)
		case "Printf":
			sp.Printf(o.s, c06Args(o.args)...)
		case "Panic":
			panic(o.s)
		}
	}
}

// runWriter: the same program against a plain io.Writer (the route taken inside fmt): the reference characters.
func (p *c06Prog) runWriter(w io.Writer) {
	for _, o := range p.ops {
		switch o.k {
		case "SafeString", "SafeBytes", "UnsafeString", "UnsafeBytes", "Write", "WriteString":
			_, _ = io.WriteString(w, o.s)
		case "SafeRune", "UnsafeRune":
			_, _ = io.WriteString(w, string(rune(o.n)))
		case "SafeByte", "UnsafeByte":
			_, _ = w.Write([]byte{byte(o.n)})
		case "SafeInt", "SafeUint":
			_, _ = io.WriteString(w, strconv.Itoa(o.n))
		case "SafeFloat":
			_, _ = io.WriteString(w, strconv.Itoa(o.n)+".5")
		case "Fprintf", "Printf":
			fmt.Fprintf(w, o.s, c06Args(o.args)...)
		case "Print":
			fmt.Fprint(w, c06Args(o.args)...)
		case "Panic":
			panic(o.s)
		}
	}
}

func (p *c06Prog) ref() string {
	var b strings.Builder
	p.runWriter(&b)
	return b.String()
}

// The carriers hold their program by number, so that printing a carrier by reflection (bad verbs, Unsafe() around
// a pure SafeFormatter) shows one integer and not the operation list.
var c06ProgTab []*c06Prog

type c06ProgID int

func (n c06ProgID) runPrinter(sp SafePrinter) { c06ProgTab[n].runPrinter(sp) }
func (n c06ProgID) runWriter(w io.Writer)     { c06ProgTab[n].runWriter(w) }
func (n c06ProgID) ref() string               { return c06ProgTab[n].ref() }

func c06NewProg(ops ...c06Op) c06ProgID {
	c06ProgTab = append(c06ProgTab, &c06Prog{ops: ops})
	return c06ProgID(len(c06ProgTab) - 1)
}

// c06Fm: fmt.Formatter that discovers the SafePrinter behind its fmt.State.
type c06Fm struct{ p c06ProgID }

func (c c06Fm) Format(s fmt.State, _ rune) {
	if sp, ok := s.(SafePrinter); ok {
		c.p.runPrinter(sp)
	} else {
		c.p.runWriter(s)
	}
}

// c06SfF: SafeFormatter, and for fmt a Formatter.
type c06SfF struct{ p c06ProgID }

func (c c06SfF) SafeFormat(sp SafePrinter, _ rune) { c.p.runPrinter(sp) }
func (c c06SfF) Format(s fmt.State, verb rune)     { c06Fm{c.p}.Format(s, verb) }

// c06SfS: SafeFormatter, and for fmt a Stringer.
type c06SfS struct{ p c06ProgID }

func (c c06SfS) SafeFormat(sp SafePrinter, _ rune) { c.p.runPrinter(sp) }
func (c c06SfS) String() string                    { return c.p.ref() }

// c06Er: error; with the hook registered the hook runs the program on the printer.
type c06Er struct{ p c06ProgID }

func (c c06Er) Error() string { return c.p.ref() }

func c06Hook(err error, p i.SafePrinter, _ rune) {
	if e, ok := err.(c06Er); ok {
		e.p.runPrinter(p)
		return
	}
	p.Print(err.Error())
}

var c06Carriers = []string{"c06Fm", "c06SfF", "c06SfS", "c06Er"}

func c06Carrier(kind string, ops ...c06Op) c06Val {
	p := c06NewProg(ops...)
	var parts []c06Val
	expl, pan, anypan, mf, rsf, sf := false, false, false, false, false, false
	for _, o := range ops {
		parts = append(parts, o.args...)
		switch o.k {
		case "Printf", "Fprintf":
			if _, _, a := c06Join(o.args); !c06PlainFormat(o.s) {
				mf = mf || a.meth || a.err
				rsf = rsf || a.rs
				sf = sf || a.hasS
			}
		case "UnsafeString", "UnsafeRune", "UnsafeByte", "UnsafeBytes":
			expl = true
		case "Panic":
			pan = kind != "c06Fm"
			anypan = true
		}
	}
	_, _, fl := c06Join(parts)
	fl.expl = fl.expl || expl
	fl.pan = fl.pan || pan
	fl.anypan = fl.anypan || anypan
	fl.mf = fl.mf || mf
	fl.rsf = fl.rsf || rsf
	fl.sf = fl.sf || sf
	fl.prog = true
	fl.name = kind + "{" + c06ProgTab[p].text() + "}"
	switch kind {
	case "c06Fm":
		fl.v = c06Fm{p}
	case "c06SfF":
		fl.v = c06SfF{p}
	case "c06SfS":
		fl.v = c06SfS{p}
		fl.meth = true
	case "c06Er":
		fl.v = c06Er{p}
		fl.err = true
		fl.meth = true
	}
	return fl
}

// ---------------------------------------------------------------------------------------------------
// the universe

func c06Passive() []c06Val {
	n := 5
	box := &c06Box{A: 1, B: "pb" + vE}
	return []c06Val{
		c06P("nil", nil),
		c06P("true", true),
		c06P("42", 42),
		c06P("int8(-7)", int8(-7)),
		c06P("uint8(200)", uint8(200)),
		c06P("3.5", 3.5),
		c06P("float32(0.25)", float32(0.25)),
		c06P("(2+3i)", 2+3i),
		c06P(`""`, ""),
		c06P(`"plain"`, "plain"),
		c06P(`"a‹b›c"`, "a"+vS+"b"+vE+"c"),
		c06P(`"l1\nl2"`, "l1\nl2"),
		c06P(`"\n"`, "\n"),
		c06P(`"‹"`, vS),
		c06P(`"x›\n\n›y"`, "x"+vE+"\n\n"+vE+"y"),
		c06P(`"%d%%"`, "%d%%"),
		c06P(`'x'`, 'x'),
		c06P(`'‹'`, '‹'),
		c06P(`[]byte("b‹y›")`, []byte("b"+vS+"y"+vE)),
		c06P(`[2]int{1, 2}`, [2]int{1, 2}),
		c06P(`[]string{"a", "‹b›"}`, []string{"a", vS + "b" + vE}),
		c06P(`[]int(nil)`, []int(nil)),
		c06P(`map[string]int{"k‹": 1, "a": 2}`, map[string]int{"k" + vS: 1, "a": 2}),
		c06P(`struct{A int; B string}{1, "s›"}`, struct {
			A int
			B string
		}{1, "s" + vE}),
		c06P(`&c06Box{1, "pb›"}`, box),
		c06P(`(*c06Box)(nil)`, (*c06Box)(nil)),
		c06P(`&n`, &n),
		c06With(`errors.New("err‹x›\ny")`, errors.New("err"+vS+"x"+vE+"\ny"), c06Val{err: true}),
		c06With(`c06Err{}`, c06Err{}, c06Val{err: true}),
		c06P(`c06Stringer{"st‹"}`, c06Stringer{"st" + vS}),
		c06P(`&c06PtrStr{"p›"}`, &c06PtrStr{"p" + vE}),
		c06P(`(*c06PtrStr)(nil)`, (*c06PtrStr)(nil)),
		c06P(`c06GoStr{"g"}`, c06GoStr{"g"}),
		c06P(`c06PassFm{"f‹"}`, c06PassFm{"f" + vS}),
		c06With(`c06PanicStr{}`, c06PanicStr{}, c06Val{anypan: true}),
		c06P(`reflect.ValueOf(7)`, reflect.ValueOf(7)),
		c06P(`reflect.ValueOf("r‹")`, reflect.ValueOf("r"+vS)),
		c06P(`reflect.ValueOf(c06Stringer{"rs"})`, reflect.ValueOf(c06Stringer{"rs"})),
		c06P(`c06Hid{c06Stringer{"h‹"}, 1}`, c06Hid{c06Stringer{"h" + vS}, 1}),
	}
}

func c06Classified() []c06Val {
	var sb builder.StringBuilder
	sb.SafeString("bs")
	sb.UnsafeString("bu" + vS)
	return []c06Val{
		c06P(`SafeString("ss‹")`, SafeString("ss"+vS)),
		c06P(`SafeInt(-5)`, SafeInt(-5)),
		c06P(`SafeUint(6)`, SafeUint(6)),
		c06P(`SafeFloat(1.5)`, SafeFloat(1.5)),
		c06P(`SafeRune('›')`, SafeRune('›')),
		c06P(`SafeBytes("sb")`, i.SafeBytes("sb")),
		c06P(`c06SV("sv›")`, c06SV("sv"+vE)),
		c06P(`c06SVStruct{"svs", 2}`, c06SVStruct{"svs", 2}),
		c06P(`c06RegS{"rs‹", 3} /* RegisterSafeType */`, c06RegS{"rs" + vS, 3}),
		c06P(`c06RegI(9) /* RegisterSafeType */`, c06RegI(9)),
		c06With(`RedactableString("r‹s›t")`, RedactableString("r"+vS+"s"+vE+"t"), c06Val{red: true, rs: true}),
		// by design RedactableBytes renders as its text under every directive, where fmt prints a byte slice
		c06With(`RedactableBytes("q‹b›")`, RedactableBytes("q"+vS+"b"+vE), c06Val{red: true, rs: true, div: "RedactableBytes renders as its text under every directive; fmt prints a []byte (\"[113 226 ...]\")"}),
		c06With(`RedactableString("‹›‹\n›")`, RedactableString(vS+vE+vS+"\n"+vE), c06Val{red: true, rs: true}),
		c06With(`c06Sm{"m‹"}`, c06Sm{"m" + vS}, c06Val{meth: true}),
		c06With(`c06SfOnly{"o›", 4}`, c06SfOnly{"o" + vE, 4}, c06Val{meth: true, prog: true, nofmt: true}),
		c06With(`StringBuilder{SafeString("bs"); UnsafeString("bu‹")}`, sb, c06Val{red: true, meth: true, prog: true}),
		c06With(`&StringBuilder{SafeString("bs"); UnsafeString("bu‹")}`, &sb, c06Val{red: true, meth: true, prog: true}),
	}
}

// c06ProgArgs: operands that programs hand to Print/Printf.
func c06ProgArgs(quick bool) []c06Val {
	rs := c06With(`RedactableString("r‹s›t")`, RedactableString("r"+vS+"s"+vE+"t"), c06Val{red: true, rs: true})
	all := []c06Val{
		c06P(`"d‹"`, "d"+vS),
		c06Safe(c06P(`"s"`, "s")),
		c06Unsafe(c06P(`"u"`, "u")),
		c06P(`SafeString("ss")`, SafeString("ss")),
		rs,
		c06P(`7`, 7),
		c06Safe(c06Unsafe(c06P(`1`, 1))),
		c06Unsafe(c06Safe(c06P(`"n›"`, "n"+vE))),
		c06Unsafe(rs),
		c06P(`c06RegS{"rg", 3}`, c06RegS{"rg", 3}),
		c06With(`[]interface{}{Safe(1), "x", Unsafe(SafeInt(2))}`, []interface{}{Safe(1), "x", Unsafe(SafeInt(2))}, c06Val{hasS: true, hasU: true}),
		c06With(`errors.New("e‹")`, errors.New("e"+vS), c06Val{err: true}),
	}
	if quick {
		return all[:7]
	}
	return all
}

// c06Atoms: the operation alphabet of one nesting level, over the given Print/Printf operands.
func c06Atoms(args []c06Val, full bool) []c06Op {
	ops := []c06Op{
		{k: "SafeString", s: "S" + vS + "s" + vE},
		{k: "UnsafeString", s: "U" + vS + "u" + vE + "\nv"},
		{k: "SafeInt", n: -42},
		{k: "Write", s: "W" + vE},
	}
	if full {
		ops = append(ops,
			c06Op{k: "SafeRune", n: '›'},
			c06Op{k: "SafeFloat", n: 1},
			c06Op{k: "SafeUint", n: 7},
			c06Op{k: "SafeByte", n: 'b'},
			c06Op{k: "SafeBytes", s: "sb"},
			c06Op{k: "UnsafeRune", n: '‹'},
			c06Op{k: "UnsafeByte", n: 'c'},
			c06Op{k: "UnsafeBytes", s: "ub"},
			c06Op{k: "WriteString", s: "ws"},
			c06Op{k: "Fprintf", s: "%05d|%v", args: []c06Val{c06P("5", 5), c06P(`"f‹"`, "f"+vS)}},
		)
	}
	for j, a := range args {
		ops = append(ops, c06Op{k: "Print", args: []c06Val{a}})
		switch j % 3 {
		case 0:
			ops = append(ops, c06Op{k: "Printf", s: "L %v|%6v %d", args: []c06Val{a, a, c06P("3", 3)}})
		case 1:
			ops = append(ops, c06Op{k: "Printf", s: "%s", args: []c06Val{a}})
		case 2:
			ops = append(ops, c06Op{k: "Printf", s: "%+v" + vS + "%q", args: []c06Val{a, a}})
		}
	}
	if full && len(args) >= 3 {
		ops = append(ops, c06Op{k: "Print", args: []c06Val{args[0], args[1], args[2]}})
	}
	return ops
}

// c06Programs enumerates the programs: level 1 = every sequence of at most seqLen operations over the alphabet
// (operands: leaves and wrappers), for each of the four carriers; level 2 and 3 = programs that print a
// program of the previous level, bare and under Safe()/Unsafe(), alone and between a SafeString and an
// UnsafeString.
func c06Programs(quick bool) (progs []c06Val, bound string) {
	args := c06ProgArgs(quick)
	atoms := c06Atoms(args, !quick)
	single := c06Atoms(args, true) // every writer of the SafePrinter at least alone and in one program with all of them
	var seqs [][]c06Op
	for _, a := range single {
		seqs = append(seqs, []c06Op{a})
	}
	seqs = append(seqs, single[:14])
	for _, a := range atoms {
		for _, b := range atoms {
			seqs = append(seqs, []c06Op{a, b})
		}
	}
	small := c06Atoms(args[:3], false)
	small = append(small, c06Op{k: "Panic", s: "pan" + vS})
	if !quick {
		for _, a := range small {
			for _, b := range small {
				for _, c := range small {
					seqs = append(seqs, []c06Op{a, b, c})
				}
			}
		}
	} else {
		for _, a := range small {
			seqs = append(seqs, []c06Op{a, {k: "Panic", s: "pan" + vS}}, []c06Op{{k: "Panic", s: "pan" + vS}, a})
		}
	}
	var level1 []c06Val
	for _, s := range seqs {
		for _, k := range c06Carriers {
			level1 = append(level1, c06Carrier(k, s...))
		}
	}
	progs = append(progs, level1...)
	// deeper levels: a selection of the previous level (all single-operation programs + every stride-th other)
	pick := func(level []c06Val, n, stride int) []c06Val {
		var out []c06Val
		for j, p := range level {
			if j < n || j%stride == 0 {
				out = append(out, p)
			}
		}
		return out
	}
	stride := 97
	if !quick {
		stride = 41
	}
	prev := pick(level1, len(single)*len(c06Carriers), stride)
	levels := 1
	for depth := 2; depth <= 3; depth++ {
		var next []c06Val
		for j, inner := range prev {
			var ops []c06Op
			switch j % 4 {
			case 0:
				ops = []c06Op{{k: "Print", args: []c06Val{inner}}}
			case 1:
				ops = []c06Op{{k: "Printf", s: "%v|%s", args: []c06Val{c06Safe(inner), c06Unsafe(inner)}}}
			case 2:
				ops = []c06Op{{k: "SafeString", s: "<"}, {k: "Print", args: []c06Val{c06Unsafe(inner), inner}}, {k: "UnsafeString", s: ">"}}
			case 3:
				ops = []c06Op{{k: "Printf", s: "%8v", args: []c06Val{c06Safe(inner)}}, {k: "Write", s: "w"}}
			}
			for c, k := range c06Carriers {
				if depth == 3 && (j+c)%2 == 1 {
					continue
				}
				next = append(next, c06Carrier(k, ops...))
			}
		}
		progs = append(progs, next...)
		prev = pick(next, 0, 3)
		levels = depth
	}
	bound = fmt.Sprintf("programs: 4 carriers (Formatter discovering the SafePrinter, SafeFormatter+Format, SafeFormatter+String, error + registered hook) x (all single operations out of %d + all operation sequences of length 2 over %d operations + one program with all 14 writers)", len(single), len(atoms))
	if !quick {
		bound += fmt.Sprintf(" and of length 3 over %d operations", len(small))
	}
	bound += fmt.Sprintf(", Print/Printf operands from %d leaves/wrappers, nesting depth <= %d", len(args), levels)
	return progs, bound
}

// c06Wrapped: all wrapper nestings of depth 1 and 2 (the wrapper under test is the third level).
func c06Wrapped(bases []c06Val) []c06Val {
	var out []c06Val
	for _, b := range bases {
		l1 := []c06Val{c06Safe(b), c06Unsafe(b)}
		out = append(out, l1...)
		for _, w := range l1 {
			out = append(out, c06Safe(w), c06Unsafe(w))
		}
	}
	return out
}

// c06PlainData: v is built from basic kinds, strings, slices, arrays, maps and method-less structs only
// (no pointer, no method, no wrapper): printing it by reflection and printing it as an operand give the same text.
func c06PlainData(v reflect.Value) bool {
	if !v.IsValid() {
		return true
	}
	if v.Type().NumMethod() > 0 || v.Type().PkgPath() != "" && v.Kind() != reflect.Struct {
		return false
	}
	switch v.Kind() {
	case reflect.Ptr, reflect.Func, reflect.Chan, reflect.UnsafePointer:
		return false
	case reflect.Interface:
		return c06PlainData(v.Elem())
	case reflect.Slice, reflect.Array:
		for j := 0; j < v.Len(); j++ {
			if !c06PlainData(v.Index(j)) {
				return false
			}
		}
	case reflect.Map:
		for _, k := range v.MapKeys() {
			if !c06PlainData(k) || !c06PlainData(v.MapIndex(k)) {
				return false
			}
		}
	case reflect.Struct:
		for j := 0; j < v.NumField(); j++ {
			if !c06PlainData(v.Field(j)) {
				return false
			}
		}
	}
	return true
}

// c06Innermost strips the Safe()/Unsafe() wrappers off a value.
func c06Innermost(v interface{}) interface{} {
	for {
		w, ok := v.(interface{ GetValue() interface{} })
		if !ok {
			return v
		}
		v = w.GetValue()
	}
}

// c06Containers: x as a part of a larger value.
func c06Containers(e c06Val) []c06Val {
	isWrapper := strings.HasPrefix(e.name, "Safe(") || strings.HasPrefix(e.name, "Unsafe(")
	out := []c06Val{
		c06With("[]interface{}{"+e.name+", 1}", []interface{}{e.v, 1}, e),
		c06With("[1]interface{}{"+e.name+"}", [1]interface{}{e.v}, e),
		c06With("c06Box{"+e.name+", \"b›\"}", c06Box{e.v, "b" + vE}, e),
		c06With("&c06Box{"+e.name+", \"b\"}", &c06Box{e.v, "b"}, e),
		c06With("map[string]interface{}{\"k\": "+e.name+", \"a‹\": 2}", map[string]interface{}{"k": e.v, "a" + vS: 2}, e),
		c06With("[]interface{}{[]interface{}{"+e.name+"}, c06Box{"+e.name+", \"i\"}}", []interface{}{[]interface{}{e.v}, c06Box{e.v, "i"}}, e),
		c06With("c06Typed{I: "+e.name+"}", c06Typed{S: "ts" + SafeString(vS), R: RedactableString("tr" + vS + "x" + vE), N: 8, W: Safe("tw"), E: errors.New("te"), I: e.v}, e, c06Val{red: true, rs: true, hasS: true, err: true}),
	}
	hid := c06With("c06Hid{"+e.name+", 1}", c06Hid{e.v, 1}, e)
	if isWrapper {
		// fmt cannot call the wrapper's Format method through an unexported field and prints the wrapper
		// struct itself ("{{5} 1}"); redact recognises the wrapper by its type ("{5 1}").
		hid.div = "wrapper in an unexported struct field: fmt prints the wrapper struct, redact the wrapped value"
	}
	out = append(out, hid)
	if reflect.TypeOf(e.v) != nil && reflect.TypeOf(e.v).Comparable() {
		out = append(out, c06With("map[interface{}]int{"+e.name+": 1}", map[interface{}]int{e.v: 1}, e))
	}
	rv := c06With("reflect.ValueOf("+e.name+")", reflect.ValueOf(e.v), e)
	out = append(out, rv)
	return out
}

type c06Universe struct {
	vals  []c06Val
	bound string
}

func c06BuildUniverse(quick bool) c06Universe {
	passive := c06Passive()
	classified := c06Classified()
	progs, pbound := c06Programs(quick)
	var vals []c06Val
	vals = append(vals, passive...)
	vals = append(vals, classified...)
	// wrapper nestings around a selection of leaves and a few programs
	bases := []c06Val{passive[2], passive[10], passive[11], passive[27], passive[29], passive[33], classified[0], classified[8], classified[10], classified[13], classified[14]}
	for j, p := range progs {
		if j < 8 || j%499 == 0 {
			bases = append(bases, p)
		}
	}
	wrapped := c06Wrapped(bases)
	vals = append(vals, wrapped...)
	// containers around leaves, classified leaves, wrappers and a few programs
	var elems []c06Val
	elems = append(elems, passive...)
	elems = append(elems, classified...)
	elems = append(elems, wrapped...)
	for j, p := range progs {
		if j < 16 || j%211 == 0 {
			elems = append(elems, p)
		}
	}
	ncont := 0
	for _, e := range elems {
		cs := c06Containers(e)
		ncont += len(cs)
		vals = append(vals, cs...)
		// one more level: Unsafe/Safe around a container that holds wrappers (depth 3 with the wrapper under test)
		if e.hasS || e.hasU {
			vals = append(vals, c06Safe(cs[0]), c06Unsafe(cs[2]))
		}
	}
	vals = append(vals, progs...)
	return c06Universe{vals: vals, bound: fmt.Sprintf("%d passive leaves, %d leaves with a classification of their own, %d wrapper nestings (depth <= 2 below the wrapper under test, 3 with it), %d containers (slice, array, struct, pointer, map value/key, nested, typed fields, unexported field, reflect.Value) around leaves/wrappers/programs; %s",
		len(passive), len(classified), len(wrapped), ncont, pbound)}
}

// ---------------------------------------------------------------------------------------------------
// contexts: how the wrapped operand reaches the printer

type c06Ctx struct {
	call  func(arg string) string      // Go-like text of the call, given the text of the operand
	run   func(arg interface{}) string // the call, on the real API
	ref   func(x interface{}) string   // fmt's characters for the same call shape (x: the wrapped value; for inner contexts the wrapper itself, which fmt prints through the wrapper's Format method, i.e. as a top-level operand)
	pre   string                       // safe text the call puts before the rendering of the operand
	suf   string                       // ... and after it
	plain bool                         // plain %v (no flag, width, precision)
	inner bool                         // the operand is a part of an unwrapped container
	field bool                         // ... namely a struct field
}

const (
	c06Pre = "@<@"
	c06Suf = "@>@"
)

// c06Formats: directives with one operand. %v family first.
var c06Formats = []string{
	"%v", "%+v", "%#v", "%s", "%q", "%d", "%x", "%X", "%c", "%U", "%t", "%e", "%6.2f", "%o", "%b", "%T", "%p",
	"%5v", "%-8v", "%08v", "%.2v", "%+d", "% d", "%#x", "%#q", "%+q", "%10.3s", "%-+#08.3v", "% x", "%w", "%z", "%!", "%O", "%g", "%#o", "%+ x", "% +v",
}

func c06Contexts(quick bool) []c06Ctx {
	var cs []c06Ctx
	cs = append(cs, c06Ctx{
		call:  func(a string) string { return "Sprint(" + a + ")" },
		run:   func(a interface{}) string { return string(Sprint(a)) },
		ref:   func(x interface{}) string { return fmt.Sprint(x) },
		plain: true,
	}, c06Ctx{
		// the wrapper is not a string operand: Sprint separates it from its neighbours with a space
		call:  func(a string) string { return "Sprint(SafeInt(1), " + a + ", SafeInt(2))" },
		run:   func(a interface{}) string { return string(Sprint(SafeInt(1), a, SafeInt(2))) },
		ref:   func(x interface{}) string { return "1 " + fmt.Sprint(x) + " 2" },
		pre:   "1 ",
		suf:   " 2",
		plain: true,
	}, c06Ctx{
		call: func(a string) string { return "Fprint(&buf, " + a + ")" },
		run: func(a interface{}) string {
			var b strings.Builder
			_, _ = Fprint(&b, a)
			return b.String()
		},
		ref:   func(x interface{}) string { return fmt.Sprint(x) },
		plain: true,
	}, c06Ctx{
		call: func(a string) string { return "Fprintf(&buf, \"@<@%-6v@>@\", " + a + ")" },
		run: func(a interface{}) string {
			var b strings.Builder
			_, _ = Fprintf(&b, c06Pre+"%-6v"+c06Suf, a)
			return b.String()
		},
		ref: func(x interface{}) string { return fmt.Sprintf(c06Pre+"%-6v"+c06Suf, x) },
		pre: c06Pre, suf: c06Suf,
	})
	for j, f := range c06Formats {
		f := f
		bare := c06Ctx{
			call:  func(a string) string { return fmt.Sprintf("Sprintf(%q, %s)", f, a) },
			run:   func(a interface{}) string { return string(Sprintf(f, a)) },
			ref:   func(x interface{}) string { return fmt.Sprintf(f, x) },
			plain: f == "%v",
		}
		g := c06Pre + f + c06Suf
		sent := c06Ctx{
			call:  func(a string) string { return fmt.Sprintf("Sprintf(%q, %s)", g, a) },
			run:   func(a interface{}) string { return string(Sprintf(g, a)) },
			ref:   func(x interface{}) string { return fmt.Sprintf(g, x) },
			pre:   c06Pre,
			suf:   c06Suf,
			plain: f == "%v",
		}
		// quick tier: the %v family both ways, the other directives alternately bare / between sentinels
		if !quick || j < 3 || j%2 == 0 {
			cs = append(cs, sent)
		}
		if !quick || j < 3 || j%2 == 1 {
			cs = append(cs, bare)
		}
	}
	cs = append(cs, c06Ctx{
		call: func(a string) string { return "Sprintf(\"%*v\", 6, " + a + ")" },
		run:  func(a interface{}) string { return string(Sprintf("%*v", 6, a)) },
		ref:  func(x interface{}) string { return fmt.Sprintf("%*v", 6, x) },
	}, c06Ctx{
		call: func(a string) string { return "Sprintf(\"%.*v\", 2, " + a + ")" },
		run:  func(a interface{}) string { return string(Sprintf("%.*v", 2, a)) },
		ref:  func(x interface{}) string { return fmt.Sprintf("%.*v", 2, x) },
	}, c06Ctx{
		call:  func(a string) string { return "Sprintf(\"%[2]v\", 0, " + a + ")" },
		run:   func(a interface{}) string { return string(Sprintf("%[2]v", 0, a)) },
		ref:   func(x interface{}) string { return fmt.Sprintf("%[2]v", 0, x) },
		plain: true,
	}, c06Ctx{
		call:  func(a string) string { return "Sprintf(\"%v%%@|@\", " + a + ")" },
		run:   func(a interface{}) string { return string(Sprintf("%v%%@|@", a)) },
		ref:   func(x interface{}) string { return fmt.Sprintf("%v%%@|@", x) },
		suf:   "%@|@",
		plain: true,
	})
	// Sprintfn: the callback's printer, nested printers through Print / Printf
	slotIn, slotOut := c06NewProg(), c06NewProg() // the programs of the contexts below, rewritten at every use
	for _, f := range []string{"", "%v", "%+v", "%08v", "%q", "%d"} {
		f := f
		if f == "" {
			cs = append(cs, c06Ctx{
				call: func(a string) string {
					return "Sprintfn(func(w SafePrinter) { w.SafeString(\"@<@\"); w.Print(" + a + "); w.SafeString(\"@>@\") })"
				},
				run: func(a interface{}) string {
					return string(Sprintfn(func(w SafePrinter) { w.SafeString(c06Pre); w.Print(a); w.SafeString(c06Suf) }))
				},
				ref: func(x interface{}) string { return c06Pre + fmt.Sprint(x) + c06Suf },
				pre: c06Pre, suf: c06Suf, plain: true,
			}, c06Ctx{
				call: func(a string) string {
					return "StringBuilder{SafeString(\"@<@\"); Print(" + a + "); SafeString(\"@>@\")}.RedactableString()"
				},
				run: func(a interface{}) string {
					var b builder.StringBuilder
					b.SafeString(c06Pre)
					b.Print(a)
					b.SafeString(c06Suf)
					return string(b.RedactableString())
				},
				ref: func(x interface{}) string { return c06Pre + fmt.Sprint(x) + c06Suf },
				pre: c06Pre, suf: c06Suf, plain: true,
			}, c06Ctx{
				// two nested printers deep, reached from a SafeFormatter and a Formatter
				call: func(a string) string {
					return "Sprint(c06SfF{SafeString(\"@<@\"); Print(c06Fm{Print(" + a + ")}); SafeString(\"@>@\")})"
				},
				run: func(a interface{}) string {
					c06ProgTab[slotIn].ops = []c06Op{{k: "Print", args: []c06Val{{v: a}}}}
					c06ProgTab[slotOut].ops = []c06Op{{k: "SafeString", s: c06Pre}, {k: "Print", args: []c06Val{{v: c06Fm{slotIn}}}}, {k: "SafeString", s: c06Suf}}
					return string(Sprint(c06SfF{slotOut}))
				},
				ref: func(x interface{}) string { return c06Pre + fmt.Sprint(x) + c06Suf },
				pre: c06Pre, suf: c06Suf, plain: true,
			})
			continue
		}
		cs = append(cs, c06Ctx{
			call: func(a string) string {
				return fmt.Sprintf("Sprintfn(func(w SafePrinter) { w.Printf(%q, %s) })", c06Pre+f+c06Suf, a)
			},
			run: func(a interface{}) string {
				return string(Sprintfn(func(w SafePrinter) { w.Printf(c06Pre+f+c06Suf, a) }))
			},
			ref: func(x interface{}) string { return fmt.Sprintf(c06Pre+f+c06Suf, x) },
			pre: c06Pre, suf: c06Suf, plain: f == "%v",
		}, c06Ctx{
			call: func(a string) string {
				return fmt.Sprintf("StringBuilder{Printf(%q, %s)}.RedactableString()", c06Pre+f+c06Suf, a)
			},
			run: func(a interface{}) string {
				var b builder.StringBuilder
				b.Printf(c06Pre+f+c06Suf, a)
				return string(b.RedactableString())
			},
			ref: func(x interface{}) string { return fmt.Sprintf(c06Pre+f+c06Suf, x) },
			pre: c06Pre, suf: c06Suf, plain: f == "%v",
		}, c06Ctx{
			call: func(a string) string {
				return fmt.Sprintf("Sprintf(\"%%s\", c06Fm{SafeString(\"@<@\"); Printf(%q, %s); SafeString(\"@>@\")})", f, a)
			},
			run: func(a interface{}) string {
				c06ProgTab[slotOut].ops = []c06Op{{k: "SafeString", s: c06Pre}, {k: "Printf", s: f, args: []c06Val{{v: a}}}, {k: "SafeString", s: c06Suf}}
				return string(Sprintf("%s", c06Fm{slotOut}))
			},
			ref: func(x interface{}) string { return c06Pre + fmt.Sprintf(f, x) + c06Suf },
			pre: c06Pre, suf: c06Suf, plain: f == "%v",
		})
	}
	// the wrapper as a part of an unwrapped container: its neighbours are safe (for Unsafe) or unsafe (for Safe)
	for _, f := range []string{"%v", "%+v", "%d", "%q", "%+ x"} {
		f := f
		cs = append(cs, c06Ctx{
			call: func(a string) string {
				return fmt.Sprintf("Sprintf(%q, []interface{}{SafeString(\"@<@\"), %s, SafeString(\"@>@\")})", f, a)
			},
			run: func(a interface{}) string {
				return string(Sprintf(f, []interface{}{SafeString(c06Pre), a, SafeString(c06Suf)}))
			},
			ref: func(x interface{}) string {
				return fmt.Sprintf(f, []interface{}{SafeString(c06Pre), x, SafeString(c06Suf)})
			},
			pre:   map[string]string{"%v": "[@<@ ", "%+v": "[@<@ ", "%d": "[%!d(interfaces.SafeString=@<@) ", "%q": "[\"@<@\" ", "%+ x": "[40 3c 40 "}[f],
			suf:   map[string]string{"%v": " @>@]", "%+v": " @>@]", "%d": " %!d(interfaces.SafeString=@>@)]", "%q": " \"@>@\"]", "%+ x": " 40 3e 40]"}[f],
			plain: f == "%v", inner: true,
		})
	}
	cs = append(cs, c06Ctx{
		call: func(a string) string { return "Sprint(c06Field{S: SafeString(\"@<@\"), I: " + a + ", N: SafeInt(7)})" },
		run: func(a interface{}) string {
			return string(Sprint(c06Field{c06Pre, a, 7}))
		},
		ref: func(x interface{}) string { return fmt.Sprint(c06Field{c06Pre, x, 7}) },
		pre: "{@<@ ", suf: " 7}", plain: true, inner: true, field: true,
	}, c06Ctx{
		call: func(a string) string { return "Sprint(map[SafeString]interface{}{\"@k@\": " + a + "}) /* map value */" },
		run: func(a interface{}) string {
			return string(Sprint(map[SafeString]interface{}{"@k@": a}))
		},
		ref: func(x interface{}) string { return fmt.Sprint(map[SafeString]interface{}{"@k@": x}) },
		pre: "map[@k@:", suf: "]", plain: true, inner: true,
	})
	return cs
}

// ---------------------------------------------------------------------------------------------------
// the checks

type c06Law struct {
	law, rule         string
	cases, nontrivial int
	fails             int
}

type c06Harness struct {
	t        *testing.T
	fails    int
	max      int
	debug    bool
	hook     bool
	u, s, eq c06Law
	out      c06Law
	pool     c06Law
	skipped  map[string]int
}

func (h *c06Harness) fail(l *c06Law, call, out, why string) {
	l.fails++
	h.fails++
	if h.fails <= h.max || h.debug {
		c06Fail(h.t, call, out, why)
	}
}

func (h *c06Harness) stop() bool { return h.fails >= h.max && !h.debug }

// canary: a later print of passive values is unaffected by what was printed before.
func (h *c06Harness) canary(after string) {
	h.pool.cases++
	h.pool.nontrivial++
	if out := string(Sprint(Unsafe("c" + vS))); out != vS+"c?"+vE {
		h.fail(&h.pool, "Sprint(Unsafe(\"c‹\")) /* after "+after+" */", out, "a later Unsafe(x) is not exactly one envelope around its escaped characters")
	}
	if out := string(Sprintf("l %v|", Safe("s"))); out != "l s|" {
		h.fail(&h.pool, "Sprintf(\"l %v|\", Safe(\"s\")) /* after "+after+" */", out, "a later Safe(x) or the format literal around it is enveloped")
	}
	if out := string(Sprint("d", SafeString("e"))); out != vS+"d"+vE+"e" {
		h.fail(&h.pool, "Sprint(\"d\", SafeString(\"e\")) /* after "+after+" */", out, "a later unwrapped print does not separate unsafe and safe operands")
	}
}

// one renders x under the wrapper `kind` ('U' or 'S') through ctx and applies the laws.
func (h *c06Harness) one(kind byte, x c06Val, ctx *c06Ctx) {
	var arg interface{}
	var argName string
	if kind == 'U' {
		arg, argName = Unsafe(x.v), "Unsafe("+x.name+")"
	} else {
		arg, argName = Safe(x.v), "Safe("+x.name+")"
	}
	call := ctx.call(argName)
	if h.hook {
		call += " /* error hook registered */"
	}
	out := ctx.run(arg)
	if x.prog {
		h.canary(call)
	}
	if !vWellFormed(out) {
		h.fail(&h.u, call, out, "the output is not well-formed (markers do not alternate)")
		return
	}
	if !strings.HasPrefix(out, ctx.pre) || !strings.HasSuffix(out[len(ctx.pre):], ctx.suf) {
		l := &h.u
		if kind == 'S' {
			l = &h.s
		}
		h.fail(l, call, out, fmt.Sprintf("the safe text around the operand (%q ... %q) is not rendered verbatim outside envelopes", ctx.pre, ctx.suf))
		return
	}
	rendering := out[len(ctx.pre) : len(out)-len(ctx.suf)]
	// the same call without the wrapper: only to MEASURE whether the case is non-trivial
	bare := ""
	bareOK := false
	func() {
		defer func() { _ = recover() }()
		b := ctx.run(x.v)
		if strings.HasPrefix(b, ctx.pre) && strings.HasSuffix(b[len(ctx.pre):], ctx.suf) {
			bare, bareOK = b[len(ctx.pre):len(b)-len(ctx.suf)], true
		}
	}()
	nested := kind == 'U' && x.hasS || kind == 'S' && x.hasU
	switch kind {
	case 'U':
		h.u.cases++
		o, ok := c06OnlyLF(rendering)
		if !ok {
			h.fail(&h.u, call, out, fmt.Sprintf("text outside envelopes under Unsafe(): %q", o))
		}
		nt := false
		if bareOK {
			if _, trivial := c06OnlyLF(bare); !trivial {
				nt = true
			}
		}
		if nt {
			h.u.nontrivial++
		}
		if x.hasS || x.hasU {
			h.out.cases++
			if nested {
				h.out.nontrivial++
			}
			if !ok {
				h.out.fails++
			}
		}
	case 'S':
		if x.red {
			h.skipped["Safe(x), x contains pre-redactable text (keeps its own envelopes: classification of its own)"]++
			return
		}
		if x.expl {
			h.skipped["Safe(x) no-envelope claim, a method of x calls an explicit Unsafe* writer (classification of its own)"]++
		} else {
			h.s.cases++
			bad := c06HasMarker(rendering)
			if bad {
				h.fail(&h.s, call, out, "envelope inside Safe()")
			}
			if bareOK && c06HasMarker(bare) {
				h.s.nontrivial++
			}
			if x.hasS || x.hasU {
				h.out.cases++
				if nested {
					h.out.nontrivial++
				}
				if bad {
					h.out.fails++
				}
			}
		}
	}
	// characters
	switch {
	case x.div != "":
		h.skipped["characters, KNOWN DIVERGENCE: "+x.div]++
		return
	case x.rs && !ctx.plain || x.rsf:
		h.skipped["characters of a RedactableString under a directive other than plain %v (by design it ignores the directive)"]++
		return
	case (strings.Contains(call, "%p") || strings.Contains(call, "%w")) && (x.hasS || x.hasU):
		h.skipped["characters of the bad-verb report of %p / %w on a wrapper (fmt shows the wrapper struct)"]++
		return
	case x.anypan && c06HasWidth(call):
		h.skipped["characters after a recovered panic under a width/precision (fmt version skew: go1.23 resets the width, the fork keeps it)"]++
		return
	case kind == 'S' && x.mf:
		h.skipped["characters under Safe(), a method of x applies a directive other than plain %v to a part that is rendered by its own SafeFormat/SafeMessage/error-hook method"]++
		return
	case kind == 'S' && x.nofmt:
		h.skipped["characters under Safe() of a SafeFormatter that has no method fmt knows"]++
		return
	case kind == 'S' && !ctx.plain && (x.meth || h.hook && x.err):
		h.skipped["characters under Safe() for directives other than plain %v, x rendered by its own SafeFormat/SafeMessage/error-hook method instead of the method fmt would call"]++
		return
	case kind == 'S' && x.pan:
		h.skipped["characters under Safe(), the name of the panicking method (SafeFormat vs Format/String/Error) is part of the output"]++
		return
	}
	h.eq.cases++
	ref, refPanic := "", false
	func() {
		defer func() {
			if r := recover(); r != nil {
				refPanic = true
			}
		}()
		if ctx.inner {
			ref = ctx.ref(arg)
		} else {
			ref = ctx.ref(x.v)
		}
	}()
	if refPanic {
		h.skipped["fmt itself panics on x"]++
		h.eq.cases--
		return
	}
	got := RedactableString(out).StripMarkers()
	if got != c06Strip(out) {
		h.fail(&h.eq, "RedactableString("+strconv.Quote(out)+").StripMarkers() /* output of "+call+" */", got, "StripMarkers does not remove exactly the delimiters")
		return
	}
	want := c06Esc(ref)
	if got != want {
		h.fail(&h.eq, call, out, fmt.Sprintf("characters differ from what fmt prints for x with markers replaced by '?': want %q", want))
	}
	if c06HasMarker(ref) || strings.Contains(ref, "\n") || x.prog || x.hasS || x.hasU || x.meth {
		h.eq.nontrivial++
	}
}

// c06PlainFormat: every directive of the format is exactly %v.
func c06PlainFormat(f string) bool {
	f = strings.ReplaceAll(f, "%%", "")
	return strings.Count(f, "%") == strings.Count(f, "%v")
}

// c06HasWidth: some directive of the call text has a width or a precision.
func c06HasWidth(call string) bool {
	for j := 0; j+1 < len(call); j++ {
		if call[j] != '%' {
			continue
		}
		for k := j + 1; k < len(call) && strings.IndexByte("+-# 0123456789.*[]", call[k]) >= 0; k++ {
			if call[k] >= '1' && call[k] <= '9' || call[k] == '*' || call[k] == '.' {
				return true
			}
		}
	}
	return false
}

func c06Bounded(line map[string]interface{}) {
	m, _ := json.Marshal(line)
	fmt.Printf("BOUNDED: %s\n", m)
}

func TestVerifBoundedC06(t *testing.T) {
	quick := os.Getenv("VERIF_TIER") != "thorough"
	// global state: registered safe types and error hook, restored afterwards
	prevHook := c06ErrorFn
	defer RegisterRedactErrorFn(prevHook)
	regTypes := []reflect.Type{reflect.TypeOf(c06RegS{}), reflect.TypeOf(c06RegI(0))}
	var hadType []bool
	for _, rt := range regTypes {
		hadType = append(hadType, c06Registry[rt])
		RegisterSafeType(rt)
	}
	defer func() {
		for j, rt := range regTypes {
			if !hadType[j] {
				delete(c06Registry, rt)
			}
		}
	}()

	h := &c06Harness{t: t, max: 8, debug: os.Getenv("C06_DEBUG") != "", skipped: map[string]int{}}
	h.u = c06Law{law: "Unsafe(x): the rendering is well-formed and has nothing but line feeds outside envelopes, whatever classification x, its parts or its formatting methods have",
		rule: "the same call without the wrapper renders some character other than a line feed outside envelopes (x has safe parts that the wrapper must override)"}
	h.s = c06Law{law: "Safe(x): the rendering contains no marker (x without pre-redactable parts and without explicit Unsafe* writer calls)",
		rule: "the same call without the wrapper renders an envelope"}
	h.eq = c06Law{law: "StripMarkers(rendering of Unsafe(x) / Safe(x)) = the characters fmt prints for x in the same call, markers replaced by '?'",
		rule: "fmt's characters contain a marker or a line feed, or x contains a wrapper, a classification through a method, or a method that calls back into the printer"}
	h.out = c06Law{law: "nested wrappers: the outermost decides (the two envelope laws for x that contain Safe()/Unsafe() wrappers themselves)",
		rule: "x contains a wrapper of the opposite kind"}
	h.pool = c06Law{law: "after a rendering whose formatting methods call back into the printer, later prints of passive values are unaffected (Unsafe one envelope, Safe and literals none)",
		rule: "every case (three later prints each)"}

	uni := c06BuildUniverse(quick)
	ctxs := c06Contexts(quick)
	// programs ignore the directive: they are run through a selection of the contexts in the quick tier
	progCtx := func(j int) bool {
		if !quick {
			return true
		}
		return j < 3 || j%5 == 3
	}
	run := func(hook bool, only func(c06Val) bool) {
		h.hook = hook
		if hook {
			RegisterRedactErrorFn(c06Hook)
		} else {
			RegisterRedactErrorFn(nil)
		}
		for _, x := range uni.vals {
			if only != nil && !only(x) {
				continue
			}
			isProg := strings.HasPrefix(x.name, "c06Fm{") || strings.HasPrefix(x.name, "c06SfF{") || strings.HasPrefix(x.name, "c06SfS{") || strings.HasPrefix(x.name, "c06Er{")
			for j := range ctxs {
				if isProg && !progCtx(j) {
					continue
				}
				h.one('U', x, &ctxs[j])
				h.one('S', x, &ctxs[j])
				if h.stop() {
					return
				}
			}
		}
	}
	run(true, nil)
	if !h.stop() {
		// the values that contain errors once more without a hook (errors then print through Error())
		run(false, func(x c06Val) bool { return x.err })
	}
	complete := !h.stop()
	bound := fmt.Sprintf("%d values x %d contexts x {Unsafe, Safe}, error hook registered; values containing errors also without hook. Values: %s. Contexts: Sprint, Fprint, Fprintf, Sprintf with %d directives (bare and between safe sentinels; quick tier: alternately), %%*v, %%.*v, %%[2]v, Sprintfn+Print/Printf, StringBuilder.Print/Printf, nested printers two deep, wrapper inside an unwrapped slice/struct/map",
		len(uni.vals), len(ctxs), uni.bound, len(c06Formats))
	if quick {
		bound += "; quick tier: programs go through every 5th context (+ the first three)"
	}
	for _, l := range []*c06Law{&h.u, &h.s, &h.eq, &h.out, &h.pool} {
		line := map[string]interface{}{"property": "C06", "law": l.law, "cases": l.cases, "nontrivial": l.nontrivial, "nontrivial_rule": l.rule,
			"bound": bound, "exhaustive": complete && l.fails == 0}
		if l == &h.eq || l == &h.s {
			line["skipped"] = h.skipped
		}
		c06Bounded(line)
	}
	// maps whose keys are told apart only by UNEXPORTED fields (the wrappers themselves, a struct with an unexported
	// field): the characters are those fmt prints, in fmt's key order, on every run (map iteration order is random)
	type c06KeyHid struct{ n int }
	orderCases := 0
	for rep := 0; rep < 12 && !h.stop(); rep++ {
		for _, m := range []struct {
			txt string
			v   interface{}
		}{
			{"map[interface{}]int{Safe(3): 1, Safe(1): 2, Safe(2): 3, Safe(0): 4}", map[interface{}]int{Safe(3): 1, Safe(1): 2, Safe(2): 3, Safe(0): 4}},
			{"map[c06KeyHid]int{{3}: 1, {1}: 2, {2}: 3, {0}: 4}", map[c06KeyHid]int{{3}: 1, {1}: 2, {2}: 3, {0}: 4}},
			{"map[interface{}]int{Unsafe(\"b\"): 1, Unsafe(\"a\"): 2, Unsafe(\"c\"): 3}", map[interface{}]int{Unsafe("b"): 1, Unsafe("a"): 2, Unsafe("c"): 3}},
		} {
			orderCases++
			want := c06Esc(fmt.Sprint(m.v))
			for _, w := range []struct {
				call string
				out  string
			}{
				{"Sprint(Unsafe(" + m.txt + "))", string(Sprint(Unsafe(m.v)))},
				{"Sprint(Safe(" + m.txt + "))", string(Sprint(Safe(m.v)))},
			} {
				if got := c06Strip(w.out); got != want {
					h.fail(&h.eq, w.call, w.out, "characters differ from what fmt prints for x (keys in fmt's sorted order): want "+strconv.Quote(want))
				}
			}
		}
	}
	c06Bounded(map[string]interface{}{"property": "C06", "law": "maps whose keys differ only in unexported fields print their keys in fmt's order under Safe()/Unsafe(), on every run",
		"cases": orderCases, "nontrivial": orderCases, "nontrivial_rule": "all", "bound": "3 maps x 12 repetitions (map iteration order is random)", "exhaustive": false})
	// last, because registrations cannot be undone: the wrappers are recognised before the registry is consulted,
	// so registering the TYPES of Safe()/Unsafe() themselves changes nothing (it used to end in unbounded recursion)
	RegisterSafeType(reflect.TypeOf(Safe(0)))
	RegisterSafeType(reflect.TypeOf(Unsafe(0)))
	regCases := 0
	for _, c := range []struct {
		call string
		arg  interface{}
		want string
	}{
		{`Sprintf("a%vb", Safe(1))`, Safe(1), "a1b"},
		{`Sprintf("a%vb", Unsafe(1))`, Unsafe(1), "a" + vS + "1" + vE + "b"},
		{`Sprintf("a%vb", []interface{}{Unsafe(Safe(1))})`, []interface{}{Unsafe(Safe(1))}, "a[" + vS + "1" + vE + "]b"},
		{`Sprintf("a%vb", Safe(Unsafe("x")))`, Safe(Unsafe("x")), "axb"},
	} {
		regCases++
		if got := string(Sprintf("a%vb", c.arg)); got != c.want {
			h.fail(&h.out, "RegisterSafeType(reflect.TypeOf(Safe(0))); RegisterSafeType(reflect.TypeOf(Unsafe(0))); "+c.call, got, "registering the wrapper types themselves must not change how wrappers are treated: want "+strconv.Quote(c.want))
		}
	}
	c06Bounded(map[string]interface{}{"property": "C06", "law": "with the types of Safe()/Unsafe() themselves registered as safe types, wrappers are still unwrapped and the outermost decides (no recursion)",
		"cases": regCases, "nontrivial": regCases, "nontrivial_rule": "all", "bound": "4 calls, run last in the process", "exhaustive": true})
}
