package redact

// Replay and bounded harness for C02 (redacted output is independent of unsafe data: non-interference).
// Injected with `go test -overlay`; never written into /repo.
//
// The oracle is the property statement itself, checked as a 2-run differential:
// every call is made twice, with two instantiations A and B of the unsafe leaves (same types and
// shapes, same emptiness, same line-break positions, same relative order of map keys; different
// content and, where the statement allows it, different lengths). Public values (format literals,
// star operands, Safe()-wrapped values, SafeValue types, registered safe types, the parts a
// SafeFormatter declares safe) are identical in both runs. The two results must be byte-identical
// after Redact(), and no distinctive rendering (raw, 3-rune prefix, hex, quoted, decimal, ...) of a
// secret of the run may occur in its redacted string.
//
// After every case a canary call (an ordinary Sprintf with two unsafe operands) is made: the
// printers are pooled, and a call that leaves state behind would only show in LATER calls. A canary
// failure is reported with the call that preceded it as its history.

import (
	"bytes"
	"encoding/json"
	"errors"
	"fmt"
	"io"
	"os"
	"reflect"
	"runtime"
	"strings"
	"testing"
	"unicode/utf8"

	i "github.com/cockroachdb/redact/interfaces"
)

// ---------------------------------------------------------------------------------------------
// the two instantiations of the unsafe leaves

type c02Sec struct {
	S   string // plain text (lengths differ between A and B)
	S2  string // a second plain text
	NL  string // line break at byte 3, both sides non-empty (same line-break positions)
	MK  string // contains marker runes and (B) a trailing partial marker
	I   int
	I8  int8
	U16 uint16
	U64 uint64
	UP  uintptr
	R   rune
	F   float64
	F32 float32
	C   complex128
	B   bool
	BS  []byte // same length in A and B: the element count of a container is shape
	K1  string // map keys, K1 < K2 in both instantiations
	K2  string
}

// Not in the universe (observed on the unchanged tree, outside the statement's "same emptiness, same
// line-break positions" premise as read here): an unsafe string that BEGINS or ENDS with a line feed,
// printed with a width. The padding lands in a segment of its own, which is empty or not depending
// on whether the text is shorter than the width:
//
//	Sprintf("%-12s|", "abc\n").Redact() = "‹×›\n‹×›|"  but  Sprintf("%-12s|", "abcdefghijklmno\n").Redact() = "‹×›\n|"
//
// Also observed: SafePrinter.Width()/Precision() return the numbers of an earlier directive (possibly
// of an earlier call, through the pool) when they report ok=false, e.g. after Sprintf("%7.5d", 3),
// Sprint(f) shows 7 and 5 to f.SafeFormat. These are format data (public), so c02SF{"state"} uses them
// only when ok is true.
var c02Secs = [2]*c02Sec{
	{S: "s3cr3tA", S2: "s3cr3tB2", NL: "s3c\nr3tA", MK: "s3‹cr›3tA", I: 31337, I8: 77, U16: 43981,
		U64: 3735928559, UP: 0x7a69, R: '‹', F: 1234.5678, F32: 2.5, C: complex(1.5, -2.5), B: true,
		BS: []byte("s3cr3tA"), K1: "as3cr3t", K2: "bs3cr3t"},
	{S: "zzTOPzz!long", S2: "zzTOPzz2", NL: "zzT\nOPzz!long", MK: "zz›TOP‹zz\xe2", I: -8675309, I8: -5, U16: 65535,
		U64: 18446744073709551557, UP: 0x845fed, R: '語', F: -98765.4321, F32: -1e20, C: complex(-3e10, 4), B: false,
		BS: []byte("zzTOPzz"), K1: "azzTOP!", K2: "bzzTOP"},
}

// c02Needles: renderings of the secrets of one instantiation.
// strict: whole text fragments and decimal renderings of at least 5 bytes. None of them occurs in the
// public text of the universe (format literals "a=", "|", "pub...", 9, 12, 3, 90210, type names,
// fmt's error tags), so a hit in a redacted string is a leak whatever the other run gives.
// broad: also 3-rune prefixes (what a precision of 3 leaves), hex, spaced hex, quoted, %c, %U, float
// formats. Short hex or digit strings do occur in public text (hex of "pub...", widths), and once
// the two redacted results are equal a hit can only be such a coincidence; the broad list is
// therefore used to NAME what leaked when the two runs differ.
func c02Needles(s *c02Sec) (strict, broad []string) {
	seen := map[string]bool{}
	var out []string
	add := func(n string, min int) {
		if len(n) >= min && !strings.Contains(n, "%!") && !seen[n] {
			seen[n] = true
			out = append(out, n)
		}
	}
	text := func(x string) {
		frags := strings.FieldsFunc(x, func(r rune) bool { return r == '\n' || r == '‹' || r == '›' || r == utf8.RuneError })
		for _, f := range frags {
			if len(f) < 3 {
				continue
			}
			add(f, 3)
			add(f[:3], 3) // what a precision of 3 leaves
			add(fmt.Sprintf("%x", f[:3]), 6)
			add(fmt.Sprintf("%X", f[:3]), 6)
			add(fmt.Sprintf("% x", f[:2]), 5)
			add(fmt.Sprintf("% X", f[:2]), 5)
		}
	}
	for _, x := range []string{s.S, s.S2, s.NL, s.MK, string(s.BS), s.K1, s.K2} {
		text(x)
	}
	for _, x := range []interface{}{s.I, s.I8, s.U16, s.U64, s.UP, s.R} {
		for _, f := range []string{"%d", "%x", "%X", "%c", "%q", "%U"} {
			n := fmt.Sprintf(f, x)
			if strings.Contains(n, "\ufffd") {
				continue
			}
			add(strings.TrimPrefix(n, "-"), 5)
		}
	}
	for _, x := range []interface{}{s.F, s.F32, real(s.C), imag(s.C)} {
		for _, f := range []string{"%v", "%e", "%f", "%.3f", "%.3e", "%x"} {
			add(strings.TrimPrefix(fmt.Sprintf(f, x), "-"), 5)
		}
	}
	add(fmt.Sprintf("%t", s.B), 4)
	broad = out
	// strict list: whole text fragments and decimal / default renderings of at least 5 bytes
	out, seen = nil, map[string]bool{}
	for _, x := range []string{s.S, s.S2, s.NL, s.MK, string(s.BS), s.K1, s.K2} {
		for _, f := range strings.FieldsFunc(x, func(r rune) bool { return r == '\n' || r == '‹' || r == '›' || r == utf8.RuneError }) {
			add(f, 5)
		}
	}
	for _, x := range []interface{}{s.I, s.U16, s.U64, s.UP, s.F} {
		add(strings.TrimPrefix(fmt.Sprintf("%v", x), "-"), 5)
	}
	return out, broad
}

// ---------------------------------------------------------------------------------------------
// user types of the value universe

type c02Stringer struct{ s string }

func (x c02Stringer) String() string { return x.s }

type c02PtrStringer struct{ s string }

func (x *c02PtrStringer) String() string { return "P:" + x.s }

type c02Err struct{ s string }

func (x c02Err) Error() string { return x.s }

type c02GoStr struct{ s string }

func (x c02GoStr) GoString() string { return "c02GoStr(" + x.s + ")" }

type c02StrT string
type c02IntT int

func (x c02IntT) String() string { return fmt.Sprintf("I<%d>", int(x)) }

// c02Fmter is a plain fmt.Formatter: everything it writes is unsafe, except what it declares safe
// through the SafePrinter behind its fmt.State.
type c02Fmter struct {
	s string
	i int
}

func (x c02Fmter) Format(st fmt.State, verb rune) {
	fmt.Fprintf(st, "F<%s|%d>", x.s, x.i)
	if sp, ok := st.(SafePrinter); ok {
		sp.SafeString("sp:")
		sp.UnsafeString(x.s)
	}
}

type c02Panic struct{ s string }

func (x c02Panic) String() string { panic(x.s) }

type c02PanicErr struct{ s string }

func (x c02PanicErr) Error() string { panic(c02Err{x.s}) }

type c02PanicSF struct{ pub, s string }

func (x c02PanicSF) SafeFormat(p SafePrinter, _ rune) {
	p.SafeString(SafeString(x.pub))
	p.UnsafeString(x.s)
	panic(errors.New(x.s))
}

// declared safe: content is public
type c02SafeT string

func (c02SafeT) SafeValue() {}

type c02SafeStruct struct {
	A string
	B int
}

func (c02SafeStruct) SafeValue() {}

type c02Reg struct{ A string } // registered with RegisterSafeType

type c02Msg struct{ s string }

func (x c02Msg) SafeMessage() string { return x.s }

// c02MsgSecret: a SafeMessager declares only its MESSAGE safe; the value has unsafe fields of its own that
// must not show up whatever the directive (finding F10: a bad verb used to print the value itself as safe).
type c02MsgSecret struct {
	pub string
	sec string
	n   int
}

func (x c02MsgSecret) SafeMessage() string { return x.pub }

// c02SF: a SafeFormatter with a public part (pub: declared safe by the implementation) and
// unsafe parts (sec, n).
type c02SF struct {
	mode string
	pub  string
	sec  string
	n    int
}

func (f c02SF) SafeFormat(p SafePrinter, verb rune) {
	switch f.mode {
	case "direct":
		p.SafeString(SafeString(f.pub))
		p.SafeRune(':')
		p.UnsafeString(f.sec)
		p.SafeInt(7)
		p.UnsafeRune(rune(f.n))
	case "printf":
		p.Printf("%s:%s/%05d", Safe(f.pub), f.sec, f.n)
	case "print":
		p.Print(Safe(f.pub), f.sec, f.n)
	case "write":
		_, _ = io.WriteString(p, f.sec)
		fmt.Fprintf(p, "/%d", f.n)
	case "verb":
		_, fm := MakeFormat(p, verb)
		p.SafeString(SafeString(f.pub))
		p.Printf(fm, f.sec)
	case "nested":
		p.Print(c02SF{"direct", f.pub, f.sec, f.n})
		p.Printf("[%v]", Unsafe(c02SF{"printf", f.pub, f.sec, f.n}))
		p.Printf("[%v]", c02SF{"printf", f.pub, f.sec, f.n})
	case "bytes":
		p.SafeBytes(i.SafeBytes(f.pub))
		p.UnsafeBytes([]byte(f.sec))
		p.UnsafeByte(f.sec[0])
		p.SafeByte('/')
		p.SafeUint(8)
		p.SafeFloat(0.5)
	case "state":
		// the directive's width, precision and flags are public (they come from the format); the
		// numbers are meaningful only when reported present
		if w, ok := p.Width(); ok {
			p.SafeInt(SafeInt(w))
		}
		if pr, ok := p.Precision(); ok {
			p.SafeRune('.')
			p.SafeInt(SafeInt(pr))
		}
		if p.Flag('+') {
			p.SafeRune('+')
		}
		p.UnsafeString(f.sec)
	}
}

// both SafeValue and SafeFormatter: declared safe as a whole
type c02SafeSF struct{ pub, pub2 string }

func (c02SafeSF) SafeValue() {}
func (f c02SafeSF) SafeFormat(p SafePrinter, _ rune) {
	p.Printf("%s-%v", f.pub, f.pub2)
}

type c02Rec struct {
	A string
	B int
	c string
	D *int
	E interface{}
	F []string
	G map[string]int
	H c02Stringer
	i c02Stringer
	J error
	K SafeString
	L interface{}
	M *c02Rec
}

type c02PubRec struct {
	A string
	B int
	C []string
	D map[string]int
	E interface{}
}

type c02Mixed struct {
	P  SafeString
	R  c02Reg
	T  c02SafeT
	S  string
	SF c02SF
	N  uint64
}

type c02Box struct {
	P SafeString
	X interface{}
	y interface{}
}

// c02Call routes a Printf through the nested printer of a SafeFormatter / of a fmt.Formatter.
type c02Call struct {
	f string
	a []interface{}
}

func (c c02Call) SafeFormat(p SafePrinter, _ rune) { p.Printf(c.f, c.a...) }

type c02FCall struct {
	f string
	a []interface{}
}

func (c c02FCall) Format(st fmt.State, _ rune) { st.(SafePrinter).Printf(c.f, c.a...) }

var c02Registered = false

func c02Setup() {
	if !c02Registered {
		// process-global and without an inverse; the type is private to this file
		RegisterSafeType(reflect.TypeOf(c02Reg{}))
		c02Registered = true
	}
}

// ---------------------------------------------------------------------------------------------
// value universe

type c02Val struct {
	v   interface{}
	txt string
	pub bool // declared safe as a whole: identical in both runs (verb p is skipped for these)
}

func c02Q(x interface{}) string { return fmt.Sprintf("%q", x) }

func c02Base(s *c02Sec) []c02Val {
	q := c02Q
	d := func(x interface{}) string { return fmt.Sprintf("%v", x) }
	var out []c02Val
	add := func(v interface{}, txt string) { out = append(out, c02Val{v, txt, false}) }
	pub := func(v interface{}, txt string) { out = append(out, c02Val{v, txt, true}) }

	// unsafe leaves
	add(s.S, q(s.S))
	add(s.NL, q(s.NL))
	add(s.MK, q(s.MK))
	add(s.I, d(s.I))
	add(s.I8, "int8("+d(s.I8)+")")
	add(s.U16, "uint16("+d(s.U16)+")")
	add(s.U64, "uint64("+d(s.U64)+")")
	add(s.UP, "uintptr("+d(s.UP)+")")
	add(s.R, "rune("+d(s.R)+")")
	add(s.F, d(s.F))
	add(s.F32, "float32("+d(s.F32)+")")
	add(s.C, "complex128"+d(s.C))
	add(s.B, d(s.B))
	add(s.BS, "[]byte("+q(s.BS)+")")
	var arr [7]byte
	copy(arr[:], s.BS)
	add(arr, "[7]byte("+q(s.BS)+")")
	add(c02StrT(s.S), "c02StrT("+q(s.S)+")")
	add(c02IntT(s.I), "c02IntT("+d(s.I)+")")
	// methods
	add(errors.New(s.S), "errors.New("+q(s.S)+")")
	add(c02Err{s.S}, "c02Err{"+q(s.S)+"}")
	add(fmt.Errorf("wrap %d: %w", s.I, c02Err{s.S}), "fmt.Errorf(\"wrap %d: %w\", "+d(s.I)+", c02Err{"+q(s.S)+"})")
	add(c02Stringer{s.S}, "c02Stringer{"+q(s.S)+"}")
	add(c02Stringer{s.NL}, "c02Stringer{"+q(s.NL)+"}")
	add(&c02PtrStringer{s.S}, "&c02PtrStringer{"+q(s.S)+"}")
	add(c02PtrStringer{s.S}, "c02PtrStringer{"+q(s.S)+"}")
	add(c02GoStr{s.S}, "c02GoStr{"+q(s.S)+"}")
	add(c02Fmter{s.S, s.I}, "c02Fmter{"+q(s.S)+", "+d(s.I)+"}")
	add(c02Panic{s.S}, "c02Panic{"+q(s.S)+"} /* String panics with the text */")
	add(c02PanicErr{s.S}, "c02PanicErr{"+q(s.S)+"} /* Error panics with c02Err */")
	add(c02PanicSF{"pubsf", s.S}, "c02PanicSF{\"pubsf\", "+q(s.S)+"} /* SafeFormat panics */")
	add((*c02Stringer)(nil), "(*c02Stringer)(nil)")
	// containers
	iv := s.I
	pi := &iv
	rec := c02Rec{A: s.S, B: s.I, c: s.S2, D: pi, E: s.F, F: []string{s.S, s.NL}, G: map[string]int{s.K1: s.I, s.K2: 1},
		H: c02Stringer{s.S}, i: c02Stringer{s.S2}, J: c02Err{s.S}, K: "pubK", L: Safe("pubL")}
	recTxt := "c02Rec{A: " + q(s.S) + ", B: " + d(s.I) + ", c: " + q(s.S2) + ", D: &int, E: " + d(s.F) + ", F: []string{" + q(s.S) + ", " + q(s.NL) +
		"}, G: map[string]int{" + q(s.K1) + ": " + d(s.I) + ", " + q(s.K2) + ": 1}, H: c02Stringer{" + q(s.S) + "}, i: c02Stringer{" + q(s.S2) +
		"}, J: c02Err{" + q(s.S) + "}, K: SafeString(\"pubK\"), L: Safe(\"pubL\")}"
	add(rec, recTxt)
	add(&rec, "&"+recTxt)
	add(c02Mixed{"pubP", c02Reg{"pubreg"}, "pubT", s.S, c02SF{"printf", "host", s.S2, s.I}, s.U64},
		"c02Mixed{P: \"pubP\", R: c02Reg{\"pubreg\"}, T: c02SafeT(\"pubT\"), S: "+q(s.S)+", SF: c02SF{\"printf\", \"host\", "+q(s.S2)+", "+d(s.I)+"}, N: "+d(s.U64)+"}")
	add([]string{s.S, s.S2}, "[]string{"+q(s.S)+", "+q(s.S2)+"}")
	add([]string{}, "[]string{}")
	add([]string(nil), "[]string(nil)")
	add([]int{s.I, 42}, "[]int{"+d(s.I)+", 42}")
	add([]interface{}{s.S, Safe("pub"), s.I, nil, SafeInt(7), c02Stringer{s.S2}},
		"[]interface{}{"+q(s.S)+", Safe(\"pub\"), "+d(s.I)+", nil, SafeInt(7), c02Stringer{"+q(s.S2)+"}}")
	add([]error{c02Err{s.S}, nil}, "[]error{c02Err{"+q(s.S)+"}, nil}")
	add(map[string]int{s.K1: s.I}, "map[string]int{"+q(s.K1)+": "+d(s.I)+"}")
	add(map[string]int{s.K1: s.I, s.K2: 2}, "map[string]int{"+q(s.K1)+": "+d(s.I)+", "+q(s.K2)+": 2}")
	add(map[int]string{1: s.S, 2: s.NL}, "map[int]string{1: "+q(s.S)+", 2: "+q(s.NL)+"}")
	add(map[string]interface{}{"k": s.S, "p": Safe("pub")}, "map[string]interface{}{\"k\": "+q(s.S)+", \"p\": Safe(\"pub\")}")
	add(map[c02Stringer]bool{{s.S}: s.B}, "map[c02Stringer]bool{{"+q(s.S)+"}: "+d(s.B)+"}")
	add(map[string]int(nil), "map[string]int(nil)")
	add(pi, "&int("+d(s.I)+")")
	add(&pi, "&&int("+d(s.I)+")")
	add(func() {}, "func(){}")
	add(make(chan int), "make(chan int)")
	add(nil, "nil")
	add(reflect.ValueOf(s.S), "reflect.ValueOf("+q(s.S)+")")
	add(reflect.ValueOf(c02Stringer{s.S}), "reflect.ValueOf(c02Stringer{"+q(s.S)+"})")
	add(reflect.ValueOf(rec), "reflect.ValueOf("+recTxt+")")
	// explicit wrappers around unsafe content
	add(Unsafe(s.S), "Unsafe("+q(s.S)+")")
	add(Unsafe(SafeString(s.S)), "Unsafe(SafeString("+q(s.S)+"))")
	add(Unsafe(Safe(s.S)), "Unsafe(Safe("+q(s.S)+"))")
	add(Unsafe(RedactableString("pub ‹"+s.S+"› x")), "Unsafe(RedactableString("+q("pub ‹"+s.S+"› x")+"))")
	add(Unsafe(RedactableString(s.S+" ‹in› "+s.S2)), "Unsafe(RedactableString("+q(s.S+" ‹in› "+s.S2)+"))")
	add(Unsafe(RedactableBytes(s.S+" ‹in› "+s.S2)), "Unsafe(RedactableBytes("+q(s.S+" ‹in› "+s.S2)+"))")
	// pre-redactable values: only the enveloped part differs
	add(RedactableString("rpub ‹"+s.S+"› rx"), "RedactableString("+q("rpub ‹"+s.S+"› rx")+")")
	add(RedactableBytes("rpub ‹"+s.S+"› rx"), "RedactableBytes("+q("rpub ‹"+s.S+"› rx")+")")
	add(Sprintf("n=%d %v", s.I, Safe("pub")), "Sprintf(\"n=%d %v\", "+d(s.I)+", Safe(\"pub\"))")
	add(c02MsgSecret{"pubmsg2", s.S, s.I}, "c02MsgSecret{\"pubmsg2\", "+q(s.S)+", "+d(s.I)+"} /* SafeMessager with unsafe fields */")
	// SafeFormatter implementations with public and unsafe parts
	for _, mode := range []string{"direct", "printf", "print", "write", "verb", "nested", "bytes", "state"} {
		add(c02SF{mode, "host", s.S, s.I}, "c02SF{"+q(mode)+", \"host\", "+q(s.S)+", "+d(s.I)+"}")
	}
	add(c02SF{"printf", "host", s.NL, s.I}, "c02SF{\"printf\", \"host\", "+q(s.NL)+", "+d(s.I)+"}")
	add(c02SF{"direct", "host", s.MK, int(s.R)}, "c02SF{\"direct\", \"host\", "+q(s.MK)+", "+d(int(s.R))+"}")
	// (a StringBuilder printed by value shows its buffer byte by byte: its length is shape, so the
	// two contents have the same length)
	var sb StringBuilder
	sb.SafeString("sbpub ")
	sb.UnsafeString(string(s.BS))
	sb.Printf(" %08d", s.I)
	sbTxt := "StringBuilder{SafeString(\"sbpub \"); UnsafeString(" + q(string(s.BS)) + "); Printf(\" %08d\", " + d(s.I) + ")}"
	add(sb, sbTxt)
	add(&sb, "&"+sbTxt)

	// public values: identical in both instantiations, no pointers inside
	pub(Safe("pubS"), "Safe(\"pubS\")")
	pub(Safe(90210), "Safe(90210)")
	pub(Safe(c02PubRec{"pa", 5, []string{"p", "q"}, map[string]int{"m": 1}, 6.75}), "Safe(c02PubRec{\"pa\", 5, []string{\"p\", \"q\"}, map[string]int{\"m\": 1}, 6.75})")
	pub(Safe(c02Stringer{"pubstr"}), "Safe(c02Stringer{\"pubstr\"})")
	pub(Safe(c02Err{"puberr"}), "Safe(c02Err{\"puberr\"})")
	pub(Safe(c02Panic{"pubpanic"}), "Safe(c02Panic{\"pubpanic\"})")
	pub(Safe(c02Fmter{"pubfmt", 5}), "Safe(c02Fmter{\"pubfmt\", 5})")
	pub(Safe([]interface{}{"p", 6, nil}), "Safe([]interface{}{\"p\", 6, nil})")
	pub(Safe(nil), "Safe(nil)")
	pub(Safe(Unsafe("pubsu")), "Safe(Unsafe(\"pubsu\"))")
	for _, mode := range []string{"direct", "printf", "print", "write", "verb", "nested", "bytes", "state"} {
		pub(Safe(c02SF{mode, "db1", "tok", 5}), "Safe(c02SF{"+q(mode)+", \"db1\", \"tok\", 5})")
	}
	pub(Safe(c02PanicSF{"pubsf", "pubpanic"}), "Safe(c02PanicSF{\"pubsf\", \"pubpanic\"})")
	pub(SafeString("pubss"), "SafeString(\"pubss\")")
	pub(SafeInt(-42), "SafeInt(-42)")
	pub(SafeUint(42), "SafeUint(42)")
	pub(SafeFloat(6.75), "SafeFloat(6.75)")
	pub(SafeRune('r'), "SafeRune('r')")
	pub(c02SafeT("pubT"), "c02SafeT(\"pubT\")")
	pub(c02SafeStruct{"pa", 5}, "c02SafeStruct{\"pa\", 5}")
	pub(c02Reg{"pubreg"}, "c02Reg{\"pubreg\"} /* registered safe type */")
	pub(c02Msg{"pubmsg"}, "c02Msg{\"pubmsg\"} /* SafeMessager */")
	pub(c02SafeSF{"pa", "pb"}, "c02SafeSF{\"pa\", \"pb\"} /* SafeValue + SafeFormatter using Printf */")
	return out
}

// c02Derive adds, for every base value, the value under Unsafe(), inside a slice, a struct
// (exported and unexported interface fields), a map and behind a pointer.
func c02Derive(base []c02Val) []c02Val {
	out := append([]c02Val(nil), base...)
	for _, b := range base {
		out = append(out,
			c02Val{Unsafe(b.v), "Unsafe(" + b.txt + ")", false},
			c02Val{[]interface{}{b.v, Safe("pub")}, "[]interface{}{" + b.txt + ", Safe(\"pub\")}", false},
			c02Val{c02Box{"pubbox", b.v, b.v}, "c02Box{P: \"pubbox\", X: " + b.txt + ", y: (same)}", false},
			c02Val{map[string]interface{}{"k": b.v}, "map[string]interface{}{\"k\": " + b.txt + "}", false},
			c02Val{&c02Box{"pubbox", b.v, nil}, "&c02Box{P: \"pubbox\", X: " + b.txt + "}", false},
		)
	}
	return out
}

// ---------------------------------------------------------------------------------------------
// format universe

type c02Fmt struct {
	f    string
	hasP bool
	args func(v [2]c02Val, k int) []c02Val // operand list of run k for subject value v
}

var (
	c02Nine   = c02Val{9, "9", true}
	c02MNine  = c02Val{-9, "-9", true}
	c02Three  = c02Val{3, "3", true}
	c02PubStr = c02Val{Safe("pub"), "Safe(\"pub\")", true}
)

func c02SimpleFormats(flags, widths, precs, verbs []string) []c02Fmt {
	var out []c02Fmt
	for _, verb := range verbs {
		for _, fl := range flags {
			for _, w := range widths {
				for _, pr := range precs {
					var pre []c02Val
					wt := w
					switch w {
					case "*":
						pre = append(pre, c02Nine)
					case "*-":
						wt = "*"
						pre = append(pre, c02MNine)
					}
					if pr == ".*" {
						pre = append(pre, c02Three)
					}
					pre = pre[:len(pre):len(pre)]
					out = append(out, c02Fmt{"a=%" + fl + wt + pr + verb + "|", verb == "p", func(v [2]c02Val, k int) []c02Val {
						return append(pre, v[k])
					}})
				}
			}
		}
	}
	return out
}

func c02SpecialFormats() []c02Fmt {
	one := func(v [2]c02Val, k int) []c02Val { return []c02Val{v[k]} }
	two := func(v [2]c02Val, k int) []c02Val { return []c02Val{v[k], v[k]} }
	none := func(v [2]c02Val, k int) []c02Val { return nil }
	withPub := func(v [2]c02Val, k int) []c02Val { return []c02Val{v[k], c02PubStr} }
	mid := func(v [2]c02Val, k int) []c02Val { return []c02Val{v[k], c02PubStr, v[k]} }
	return []c02Fmt{
		{"%[1]v %[1]q", false, one},
		{"%[2]v %[1]v", false, withPub},
		{"%[2]*[1]v|", false, func(v [2]c02Val, k int) []c02Val { return []c02Val{v[k], c02Nine} }},
		{"%[3]*.[2]*[1]v|", false, func(v [2]c02Val, k int) []c02Val { return []c02Val{v[k], c02Three, c02Nine} }},
		{"%[3]v|", false, one},
		{"%[0]v|", false, one},
		{"%[x]v|", false, one},
		{"%[1]v %v|", false, one},
		{"%v %v|", false, one},
		{"%d|", false, two},
		{"%v %v %v", false, none},
		{"", false, one},
		{"no verbs", false, two},
		{"%", false, one},
		{"a %12", false, one},
		{"a %.", false, one},
		{"%.*v|", false, func(v [2]c02Val, k int) []c02Val { return []c02Val{c02PubStr, v[k]} }},
		{"%*v|", false, func(v [2]c02Val, k int) []c02Val { return []c02Val{c02PubStr, v[k]} }},
		{"%99999999v|", false, one}, // width too large to parse
		{"%2000v|", false, one},
		{"100%% %v %%", false, one},
		{"%v\n%v", false, two},
		{"%v\n\n", false, one},
		{"%v%v", false, two},
		{"%v%s%v", false, mid},
		{"%v %x %q %d", false, func(v [2]c02Val, k int) []c02Val { return []c02Val{v[k], v[k], v[k], v[k]} }},
		{"pre‹fix› %v ›", false, one},
		{"a\xe2%v\x80\xb9|", false, one},
		{"a\xe2\x80%v\xb9|%v\xe2", false, two},
		{"%w|", false, one},
		{"%v %w|", false, two},
		{"%w %w|", false, two},
		{"%+.3w|", false, one},
	}
}

// ---------------------------------------------------------------------------------------------
// entry points

type c02Entry struct {
	name string
	run  func(k int, f string, a []interface{}) string
	call func(k int, fq, at string) string
}

func c02Entries() []c02Entry {
	s := c02Secs
	sep := func(at string) string {
		if at == "" {
			return ""
		}
		return ", " + at
	}
	return []c02Entry{
		{"Sprintf", func(k int, f string, a []interface{}) string { return string(Sprintf(f, a...)) },
			func(k int, fq, at string) string { return "Sprintf(" + fq + sep(at) + ")" }},
		{"Fprintf", func(k int, f string, a []interface{}) string {
			var b bytes.Buffer
			_, _ = Fprintf(&b, f, a...)
			return b.String()
		}, func(k int, fq, at string) string { return "Fprintf(&buf, " + fq + sep(at) + ")" }},
		{"HelperForErrorf", func(k int, f string, a []interface{}) string {
			r, _ := HelperForErrorf(f, a...)
			return string(r)
		}, func(k int, fq, at string) string { return "HelperForErrorf(" + fq + sep(at) + ")" }},
		{"StringBuilder.Printf", func(k int, f string, a []interface{}) string {
			var b StringBuilder
			b.Printf(f, a...)
			return string(b.RedactableString())
		}, func(k int, fq, at string) string {
			return "StringBuilder{Printf(" + fq + sep(at) + ")}.RedactableString()"
		}},
		{"Sprintfn{Printf}", func(k int, f string, a []interface{}) string {
			return string(Sprintfn(func(w SafePrinter) { w.Printf(f, a...) }))
		}, func(k int, fq, at string) string { return "Sprintfn(func(w){w.Printf(" + fq + sep(at) + ")})" }},
		{"Sprintfn{script}", func(k int, f string, a []interface{}) string {
			return string(Sprintfn(func(w SafePrinter) {
				w.SafeString("pre ")
				w.UnsafeString(s[k].S)
				w.Printf(f, a...)
				w.UnsafeString(s[k].S2)
				w.SafeString(" post")
			}))
		}, func(k int, fq, at string) string {
			return "Sprintfn(func(w){w.SafeString(\"pre \"); w.UnsafeString(" + c02Q(s[k].S) + "); w.Printf(" + fq + sep(at) + "); w.UnsafeString(" + c02Q(s[k].S2) + "); w.SafeString(\" post\")})"
		}},
		{"StringBuilder{script}", func(k int, f string, a []interface{}) string {
			var b StringBuilder
			b.SafeString("pre ")
			b.Printf(f, a...)
			b.UnsafeString(s[k].S)
			_, _ = b.Write([]byte(s[k].S2))
			b.SafeInt(7)
			return string(b.RedactableString())
		}, func(k int, fq, at string) string {
			return "StringBuilder{SafeString(\"pre \"); Printf(" + fq + sep(at) + "); UnsafeString(" + c02Q(s[k].S) + "); Write(" + c02Q(s[k].S2) + "); SafeInt(7)}.RedactableString()"
		}},
		{"SafeFormatter{Printf}", func(k int, f string, a []interface{}) string {
			return string(Sprintf("[%v]", c02Call{f, a}))
		}, func(k int, fq, at string) string {
			return "Sprintf(\"[%v]\", c02Call{" + fq + sep(at) + "} /* SafeFormat calls p.Printf */)"
		}},
		{"Formatter{Printf}", func(k int, f string, a []interface{}) string {
			return string(Sprint(c02FCall{f, a}, 1))
		}, func(k int, fq, at string) string {
			return "Sprint(c02FCall{" + fq + sep(at) + "} /* Format calls st.(SafePrinter).Printf */, 1)"
		}},
	}
}

type c02PEntry struct {
	name string
	run  func(a []interface{}) string
	call func(at string) string
}

func c02PrintEntries() []c02PEntry {
	return []c02PEntry{
		{"Sprint", func(a []interface{}) string { return string(Sprint(a...)) }, func(at string) string { return "Sprint(" + at + ")" }},
		{"Fprint", func(a []interface{}) string {
			var b bytes.Buffer
			_, _ = Fprint(&b, a...)
			return b.String()
		}, func(at string) string { return "Fprint(&buf, " + at + ")" }},
		{"StringBuilder.Print", func(a []interface{}) string {
			var b StringBuilder
			b.Print(a...)
			return string(b.RedactableString())
		}, func(at string) string { return "StringBuilder{Print(" + at + ")}.RedactableString()" }},
		{"Sprintfn{Print}", func(a []interface{}) string {
			return string(Sprintfn(func(w SafePrinter) { w.Print(a...) }))
		}, func(at string) string { return "Sprintfn(func(w){w.Print(" + at + ")})" }},
	}
}

// ---------------------------------------------------------------------------------------------
// SafeWriter scripts

type c02Op struct {
	txt func(s *c02Sec) string
	do  func(w SafeWriter, s *c02Sec)
}

func c02Ops() []c02Op {
	q := c02Q
	c := func(t string) func(*c02Sec) string { return func(*c02Sec) string { return t } }
	return []c02Op{
		{c("SafeString(\"pub \")"), func(w SafeWriter, s *c02Sec) { w.SafeString("pub ") }},
		{c("SafeString(\"\")"), func(w SafeWriter, s *c02Sec) { w.SafeString("") }},
		{c("SafeRune('\\n')"), func(w SafeWriter, s *c02Sec) { w.SafeRune('\n') }},
		{c("SafeInt(7)"), func(w SafeWriter, s *c02Sec) { w.SafeInt(7) }},
		{c("SafeBytes(\"\\xe2\\x80\")"), func(w SafeWriter, s *c02Sec) { w.SafeBytes(i.SafeBytes("\xe2\x80")) }},
		{func(s *c02Sec) string { return "UnsafeString(" + q(s.S) + ")" }, func(w SafeWriter, s *c02Sec) { w.UnsafeString(s.S) }},
		{c("UnsafeString(\"\")"), func(w SafeWriter, s *c02Sec) { w.UnsafeString("") }},
		{func(s *c02Sec) string { return "UnsafeString(" + q(s.NL) + ")" }, func(w SafeWriter, s *c02Sec) { w.UnsafeString(s.NL) }},
		{func(s *c02Sec) string { return "UnsafeString(" + q(s.MK) + ")" }, func(w SafeWriter, s *c02Sec) { w.UnsafeString(s.MK) }},
		{func(s *c02Sec) string { return "UnsafeBytes(" + q(s.BS) + ")" }, func(w SafeWriter, s *c02Sec) { w.UnsafeBytes(s.BS) }},
		{func(s *c02Sec) string { return "UnsafeByte(" + q(s.BS[0]) + ")" }, func(w SafeWriter, s *c02Sec) { w.UnsafeByte(s.BS[0]) }},
		{func(s *c02Sec) string { return "UnsafeRune(" + q(s.R) + ")" }, func(w SafeWriter, s *c02Sec) { w.UnsafeRune(s.R) }},
		{func(s *c02Sec) string { return fmt.Sprintf("Print(%q, %d)", s.S, s.I) }, func(w SafeWriter, s *c02Sec) { w.Print(s.S, s.I) }},
		{func(s *c02Sec) string { return fmt.Sprintf("Print(Safe(\"p\"), %q)", s.S2) }, func(w SafeWriter, s *c02Sec) { w.Print(Safe("p"), s.S2) }},
		{func(s *c02Sec) string { return fmt.Sprintf("Printf(\"%%05d|%%q\", %d, %q)", s.I, s.S) }, func(w SafeWriter, s *c02Sec) { w.Printf("%05d|%q", s.I, s.S) }},
		{func(s *c02Sec) string {
			return fmt.Sprintf("Printf(\"%%v\", c02SF{\"printf\", \"host\", %q, %d})", s.S, s.I)
		},
			func(w SafeWriter, s *c02Sec) { w.Printf("%v", c02SF{"printf", "host", s.S, s.I}) }},
		{c("Print(Safe(c02SF{\"printf\", \"db1\", \"tok\", 5}))"), func(w SafeWriter, s *c02Sec) { w.Print(Safe(c02SF{"printf", "db1", "tok", 5})) }},
		{func(s *c02Sec) string { return "io.WriteString(w, " + q(s.S) + ")" }, func(w SafeWriter, s *c02Sec) { _, _ = io.WriteString(w.(io.Writer), s.S) }},
		{func(s *c02Sec) string { return "Print(RedactableString(" + q("r ‹"+s.S+"›") + "))" },
			func(w SafeWriter, s *c02Sec) { w.Print(RedactableString("r ‹" + s.S + "›")) }},
	}
}

// ---------------------------------------------------------------------------------------------
// the differential checker

type c02Runner struct {
	t          *testing.T
	needles    [2][]string // strict
	broad      [2][]string
	cases      int
	nontrivial int
	fails      int
	maxFails   int
	canaryRaw  string
	canaryOff  bool
	canaryBad  int // canary failures seen; only the first 3 are reported, the others only repaired
}

func c02NewRunner(t *testing.T, maxFails int) *c02Runner {
	c02Setup()
	r := &c02Runner{t: t, maxFails: maxFails}
	r.needles[0], r.broad[0] = c02Needles(c02Secs[0])
	r.needles[1], r.broad[1] = c02Needles(c02Secs[1])
	// start from an empty printer pool so that the result does not depend on earlier tests
	runtime.GC()
	runtime.GC()
	r.canaryRaw = c02Canary(0)
	if !r.canaryOK("(first call of the test)") {
		r.canaryOff = true
	}
	return r
}

func (r *c02Runner) stop() bool { return r.fails >= r.maxFails }

func (r *c02Runner) fail(call, out, why string) {
	r.fails++
	m, _ := json.Marshal(map[string]string{"property": "C02", "call": call, "output": out, "why": why})
	fmt.Printf("REPLAY-FAIL: %s\n", m)
	r.t.Errorf("%s: %s: %s", call, why, out)
}

// verdict applies the two clauses of the statement to the raw results of the two runs.
func (r *c02Runner) verdict(outA, outB string) (ok bool, why string) {
	redA := string(RedactableString(outA).Redact())
	redB := redA
	if outB != outA {
		redB = string(RedactableString(outB).Redact())
	}
	if redA != redB {
		why = fmt.Sprintf("the two instantiations of the unsafe leaves give different results after Redact(): %q vs %q", redA, redB)
		for k, red := range []string{redA, redB} {
			other := redB
			if k == 1 {
				other = redA
			}
			for _, n := range r.broad[k] {
				if strings.Contains(red, n) && !strings.Contains(other, n) {
					return false, why + fmt.Sprintf("; the byte sequence %q taken from an unsafe value of run %c is present in its redacted string", n, 'A'+k)
				}
			}
		}
		return false, why
	}
	for k := 0; k < 2; k++ {
		for _, n := range r.needles[k] {
			if strings.Contains(redA, n) {
				return false, fmt.Sprintf("the byte sequence %q taken from an unsafe value of run %c is present in the redacted string %q", n, 'A'+k, redA)
			}
		}
	}
	return true, ""
}

// check is one case: the raw results of the two runs and a lazily built text of the two calls.
func (r *c02Runner) check(outA, outB string, call func(k int) string) {
	r.cases++
	if outA != outB {
		r.nontrivial++
	}
	if ok, why := r.verdict(outA, outB); !ok {
		r.fail("A: "+call(0)+"; B: "+call(1), fmt.Sprintf("A: %q; B: %q", outA, outB), why)
		return
	}
	// canary: an ordinary later call must not be affected by what has just been executed
	if !r.canaryOff && c02Canary(0) != r.canaryRaw {
		if !r.canaryOK(call(0)) {
			runtime.GC() // empty the printer pool (two cycles: primary and victim cache)
			runtime.GC()
			if c02Canary(0) != r.canaryRaw && !r.canaryOK("(again, on an emptied printer pool)") {
				r.canaryOff = true
			}
		}
	}
}

func c02Canary(k int) string {
	return string(Sprintf("user=%v n=%d", c02Secs[k].S, c02Secs[k].I))
}

func c02CanaryText(k int) string {
	return fmt.Sprintf("Sprintf(\"user=%%v n=%%d\", %q, %d)", c02Secs[k].S, c02Secs[k].I)
}

func (r *c02Runner) canaryOK(history string) bool {
	a, b := c02Canary(0), c02Canary(1)
	ok, why := r.verdict(a, b)
	if !ok {
		r.canaryBad++
		if r.canaryBad <= 3 {
			r.fail("after "+history+": A: "+c02CanaryText(0)+"; B: "+c02CanaryText(1), fmt.Sprintf("A: %q; B: %q", a, b),
				"a call made AFTER the one shown first is affected by it (state carried over in the pooled printer): "+why)
		}
	}
	return ok
}

func c02ArgTxt(a []c02Val) string {
	t := make([]string, len(a))
	for j := range a {
		t[j] = a[j].txt
	}
	return strings.Join(t, ", ")
}

func c02ArgVals(a []c02Val) []interface{} {
	v := make([]interface{}, len(a))
	for j := range a {
		v[j] = a[j].v
	}
	return v
}

// runFormats: entry points x formats x values.
func (r *c02Runner) runFormats(entries []c02Entry, formats []c02Fmt, vals [2][]c02Val) {
	for vi := range vals[0] {
		v := [2]c02Val{vals[0][vi], vals[1][vi]}
		for fi := range formats {
			f := &formats[fi]
			if f.hasP && v[0].pub {
				continue // an address inside a value declared safe is public and not reproducible
			}
			a0, a1 := f.args(v, 0), f.args(v, 1)
			x0, x1 := c02ArgVals(a0), c02ArgVals(a1)
			for ei := range entries {
				e := &entries[ei]
				r.check(e.run(0, f.f, x0), e.run(1, f.f, x1), func(k int) string {
					if k == 0 {
						return e.call(0, c02Q(f.f), c02ArgTxt(a0))
					}
					return e.call(1, c02Q(f.f), c02ArgTxt(a1))
				})
				if r.stop() {
					return
				}
			}
		}
	}
}

// runPrint: Print-like entry points x operand lists of the given length over the values.
func (r *c02Runner) runPrint(entries []c02PEntry, vals [2][]c02Val, n int) {
	idx := make([]int, n)
	for {
		a0, a1 := make([]c02Val, n), make([]c02Val, n)
		for j, x := range idx {
			a0[j], a1[j] = vals[0][x], vals[1][x]
		}
		x0, x1 := c02ArgVals(a0), c02ArgVals(a1)
		for ei := range entries {
			e := &entries[ei]
			r.check(e.run(x0), e.run(x1), func(k int) string {
				if k == 0 {
					return e.call(c02ArgTxt(a0))
				}
				return e.call(c02ArgTxt(a1))
			})
			if r.stop() {
				return
			}
		}
		j := n - 1
		for ; j >= 0; j-- {
			idx[j]++
			if idx[j] < len(vals[0]) {
				break
			}
			idx[j] = 0
		}
		if j < 0 {
			return
		}
	}
}

// runScripts: every sequence of at most n SafeWriter operations, through Sprintfn and StringBuilder.
func (r *c02Runner) runScripts(ops []c02Op, n int) {
	run := func(kind int, seq []int, k int) string {
		s := c02Secs[k]
		if kind == 0 {
			return string(Sprintfn(func(w SafePrinter) {
				for _, o := range seq {
					ops[o].do(w, s)
				}
			}))
		}
		var b StringBuilder
		for _, o := range seq {
			ops[o].do(&b, s)
		}
		return string(b.RedactableString())
	}
	txt := func(kind int, seq []int, k int) string {
		var t []string
		for _, o := range seq {
			t = append(t, "w."+ops[o].txt(c02Secs[k]))
		}
		if kind == 0 {
			return "Sprintfn(func(w SafePrinter){" + strings.Join(t, "; ") + "})"
		}
		return "StringBuilder w; " + strings.Join(t, "; ") + "; w.RedactableString()"
	}
	var rec func(seq []int)
	rec = func(seq []int) {
		if len(seq) > 0 {
			for kind := 0; kind < 2; kind++ {
				kind := kind
				r.check(run(kind, seq, 0), run(kind, seq, 1), func(k int) string { return txt(kind, seq, k) })
				if r.stop() {
					return
				}
			}
		}
		if len(seq) == n {
			return
		}
		for o := range ops {
			rec(append(seq[:len(seq):len(seq)], o))
			if r.stop() {
				return
			}
		}
	}
	rec(nil)
}

// runErrorFn: error operands with a registered error redaction function (process-global, restored).
func (r *c02Runner) runErrorFn(entries []c02Entry, formats []c02Fmt) {
	RegisterRedactErrorFn(func(err error, p SafePrinter, verb rune) {
		p.SafeString("E[")
		p.UnsafeString(err.Error())
		p.Printf("|%v", verb == 'v')
		p.SafeString("]")
	})
	defer RegisterRedactErrorFn(nil)
	var vals [2][]c02Val
	for k, s := range c02Secs {
		q := c02Q
		e := c02Err{s.S}
		vals[k] = []c02Val{
			{errors.New(s.S), "errors.New(" + q(s.S) + ")", false},
			{e, "c02Err{" + q(s.S) + "}", false},
			{c02Err{s.NL}, "c02Err{" + q(s.NL) + "}", false},
			{fmt.Errorf("wrap: %w", e), "fmt.Errorf(\"wrap: %w\", c02Err{" + q(s.S) + "})", false},
			{c02PanicErr{s.S}, "c02PanicErr{" + q(s.S) + "}", false},
			{[]error{e, nil}, "[]error{c02Err{" + q(s.S) + "}, nil}", false},
			{struct{ E error }{e}, "struct{E error}{c02Err{" + q(s.S) + "}}", false},
			{Unsafe(e), "Unsafe(c02Err{" + q(s.S) + "})", false},
			{Safe(c02Err{"puberr"}), "Safe(c02Err{\"puberr\"})", true},
		}
	}
	r.runFormats(entries, formats, vals)
}

func (r *c02Runner) bounded(law, rule, bound string) {
	if r.canaryBad > 3 {
		r.t.Logf("C02: %d more calls left state behind in the pooled printer (same symptom as the first 3, not listed)", r.canaryBad-3)
	}
	m, _ := json.Marshal(map[string]interface{}{"property": "C02", "law": law, "cases": r.cases, "nontrivial": r.nontrivial,
		"nontrivial_rule": rule, "bound": bound, "exhaustive": r.fails == 0})
	fmt.Printf("BOUNDED: %s\n", m)
}

func c02Values(derive bool) [2][]c02Val {
	var vals [2][]c02Val
	for k := range c02Secs {
		vals[k] = c02Base(c02Secs[k])
		if derive {
			vals[k] = c02Derive(vals[k])
		}
	}
	if len(vals[0]) != len(vals[1]) {
		panic("c02: the two instantiations have different shapes")
	}
	return vals
}

var c02Verbs = []string{"v", "s", "q", "x", "X", "d", "c", "U", "t", "T", "b", "o", "O", "e", "f", "g", "G", "p", "w", "z", "!", "é", "‹"}

const c02Rule = "the two raw (un-redacted) results differ, i.e. the unsafe data that distinguishes the runs did reach the output"

// ---------------------------------------------------------------------------------------------

func TestVerifReplayC02(t *testing.T) {
	r := c02NewRunner(t, 12)
	entries := c02Entries()
	// solver / caller hints: {"format": "...", "x": <string|number>, "y": <string|number>, "verb": "q"}
	var hints map[string]interface{}
	_ = json.Unmarshal([]byte(os.Getenv("REPLAY_HINTS")), &hints)
	pick := func(keys ...string) (interface{}, bool) {
		for _, k := range keys {
			if v, ok := hints[k]; ok {
				return v, true
			}
		}
		return nil, false
	}
	var hf []c02Fmt
	one := func(v [2]c02Val, k int) []c02Val { return []c02Val{v[k]} }
	if f, ok := pick("format", "fmt", "f"); ok {
		if fs, ok := f.(string); ok {
			hf = append(hf, c02Fmt{fs, strings.Contains(fs, "p"), one})
		}
	}
	if v, ok := pick("verb"); ok {
		if vs, ok := v.(string); ok && vs != "" {
			hf = append(hf, c02SimpleFormats([]string{"", "+", "#", "-", "0"}, []string{"", "12"}, []string{"", ".3"}, []string{vs})...)
		}
	}
	x, okx := pick("x", "a", "secret1", "s1")
	y, oky := pick("y", "b", "secret2", "s2")
	if xs, ok := x.(string); ok {
		// the statement only speaks about pairs with the same emptiness and the same line-break positions
		ys, _ := y.(string)
		if (xs == "") != (ys == "") {
			okx = false
		}
		if strings.Contains(xs+ys, "\n") {
			if len(xs) != len(ys) {
				okx = false
			}
			for j := 0; okx && j < len(xs); j++ {
				if (xs[j] == '\n') != (ys[j] == '\n') {
					okx = false
				}
			}
		}
	}
	if okx && oky && reflect.TypeOf(x) == reflect.TypeOf(y) {
		var hv [2][]c02Val
		for k, h := range []interface{}{x, y} {
			switch z := h.(type) {
			case string:
				hv[k] = []c02Val{{z, c02Q(z), false}, {c02Stringer{z}, "c02Stringer{" + c02Q(z) + "}", false}, {c02Err{z}, "c02Err{" + c02Q(z) + "}", false},
					{struct{ A string }{z}, "struct{A string}{" + c02Q(z) + "}", false}, {Unsafe(z), "Unsafe(" + c02Q(z) + ")", false},
					{c02SF{"printf", "host", z, 1}, "c02SF{\"printf\", \"host\", " + c02Q(z) + ", 1}", false}}
			case float64:
				hv[k] = []c02Val{{z, fmt.Sprint(z), false}, {int(z), fmt.Sprintf("int(%d)", int(z)), false}, {[]int{int(z)}, fmt.Sprintf("[]int{%d}", int(z)), false}}
			case bool:
				hv[k] = []c02Val{{z, fmt.Sprint(z), false}}
			}
		}
		if len(hv[0]) > 0 {
			fs := hf
			if len(fs) == 0 {
				fs = c02SimpleFormats([]string{"", "+", "#"}, []string{"", "12"}, []string{"", ".3"}, c02Verbs)
			}
			r.runFormats(entries[:1], fs, hv)
		}
	}
	vals := c02Values(true)
	if len(hf) > 0 && !r.stop() {
		r.runFormats(entries, hf, vals)
	}
	if r.stop() {
		return
	}
	// quick search: Sprintf over plain/flagged verbs and the special formats, all values
	fs := append(c02SimpleFormats([]string{"", "+", "#"}, []string{"", "12"}, []string{"", ".3"}, c02Verbs), c02SpecialFormats()...)
	r.runFormats(entries[:1], fs, vals)
	if r.stop() {
		return
	}
	// every entry point over the plain verbs, base values
	base := c02Values(false)
	r.runFormats(entries[1:], append(c02SimpleFormats([]string{"", "#"}, []string{""}, []string{""}, c02Verbs), c02SpecialFormats()...), base)
	if r.stop() {
		return
	}
	r.runPrint(c02PrintEntries()[:1], base, 2)
	if r.stop() {
		return
	}
	r.runScripts(c02Ops(), 2)
	if r.stop() {
		return
	}
	r.runErrorFn(entries[:1], c02SimpleFormats([]string{"", "+"}, []string{""}, []string{""}, []string{"v", "s", "q", "x", "d", "w"}))
	if r.canaryBad > 3 {
		t.Logf("C02: %d more calls left state behind in the pooled printer (same symptom as the first 3, not listed)", r.canaryBad-3)
	}
	t.Logf("C02 replay: %d two-run cases, %d non-trivial, %d needles", r.cases, r.nontrivial, len(r.needles[0])+len(r.needles[1]))
}

func TestVerifBoundedC02(t *testing.T) {
	thorough := os.Getenv("VERIF_TIER") == "thorough"
	entries := c02Entries()
	base := c02Values(false)
	all := c02Values(true)
	specials := c02SpecialFormats()

	flags := []string{"", "+", "#", "-", "0", " ", "+-# 0"}
	widths := []string{"", "1", "12", "*"}
	precs := []string{"", ".3"}
	if thorough {
		flags = []string{"", "+", "#", "-", "0", " ", "+#", "-0", "#0", "+ ", "-#", "+-# 0"}
		widths = []string{"", "1", "12", "*", "*-"}
		precs = []string{"", ".", ".0", ".3", ".*"}
	}
	total := 0

	// control: the harness must be able to see a dependence on the operand at all
	if a, b := Sprintf("%v", Safe(c02Secs[0].S)).Redact(), Sprintf("%v", Safe(c02Secs[1].S)).Redact(); a == b {
		t.Logf("C02 control: Safe(secret) does not show after Redact(): %q", a)
	}

	// law 1: Sprintf, full product of directives, all values
	{
		r := c02NewRunner(t, 8)
		fs := append(c02SimpleFormats(flags, widths, precs, c02Verbs), specials...)
		vals := base
		what := fmt.Sprintf("%d base values", len(base[0]))
		if thorough {
			vals = all
			what = fmt.Sprintf("%d values (base values, and each under Unsafe(), in a slice, a struct, a map, behind a pointer)", len(all[0]))
		}
		r.runFormats(entries[:1], fs, vals)
		r.bounded("Sprintf: two instantiations of the unsafe leaves give identical Redact() results, and no rendering of a secret is in the redacted string; canary call after each case",
			c02Rule, fmt.Sprintf("%d formats ('a=%%<flags><width><prec><verb>|' for %d flag sets x %d widths (incl. *) x %d precisions (incl. .*) x %d verbs incl. invalid and non-ASCII ones, plus %d special formats: indexes, BADINDEX, MISSING, EXTRA, NOVERB, BADWIDTH/BADPREC, %%%%, line feeds and marker bytes in the literal, %%w) x %s; verb p skipped for values declared safe",
				len(fs), len(flags), len(widths), len(precs), len(c02Verbs), len(specials), what))
		total += r.cases
		if r.fails > 0 {
			return
		}
	}
	// law 2: all entry points, plain and flagged verbs + special formats, all derived values
	{
		r := c02NewRunner(t, 8)
		f2 := []string{"", "#"}
		if thorough {
			f2 = []string{"", "+", "#", "-012"}
		}
		fs := append(c02SimpleFormats(f2, []string{""}, []string{""}, c02Verbs), specials...)
		if thorough {
			fs = append(fs, c02SimpleFormats([]string{""}, []string{"12", "*"}, []string{".3"}, c02Verbs)...)
		}
		var bound string
		if thorough {
			r.runFormats(entries, fs, all)
			bound = fmt.Sprintf("%d entry points (NAMES) x %d formats x %d values", len(entries), len(fs), len(all[0]))
		} else {
			// base values and each under Unsafe() through every entry point; all derived values through Sprintf
			var bu [2][]c02Val
			for k := range base {
				bu[k] = append(bu[k], base[k]...)
				for _, b := range base[k] {
					bu[k] = append(bu[k], c02Val{Unsafe(b.v), "Unsafe(" + b.txt + ")", false})
				}
			}
			r.runFormats(entries, fs, bu)
			if !r.stop() {
				r.runFormats(entries[:1], fs, all)
			}
			bound = fmt.Sprintf("%d entry points (NAMES) x %d formats x %d values (base values and each under Unsafe()); Sprintf x the same formats x %d values (each base value also in a slice, a struct, a map, behind a pointer)",
				len(entries), len(fs), len(bu[0]), len(all[0]))
		}
		names := make([]string, len(entries))
		for j := range entries {
			names[j] = entries[j].name
		}
		r.bounded("every entry point: two-run identity after Redact() and no leaked rendering; canary call after each case",
			c02Rule, strings.Replace(bound, "NAMES", strings.Join(names, ", "), 1))
		total += r.cases
		if r.fails > 0 {
			return
		}
	}
	// law 3: Print-like entry points, operand lists
	{
		r := c02NewRunner(t, 8)
		pe := c02PrintEntries()
		r.runPrint(pe, all, 1)
		r.runPrint(pe, base, 2)
		bound := fmt.Sprintf("Sprint, Fprint, StringBuilder.Print, Sprintfn{Print}: every single operand of %d values and every ordered pair of %d base values", len(all[0]), len(base[0]))
		if thorough {
			// triples over the unsafe leaves, the method types and the public values of the base list
			var sub [2][]c02Val
			for k := range base {
				for j, v := range base[k] {
					if j%3 == 0 || v.pub {
						sub[k] = append(sub[k], v)
					}
				}
			}
			r.runPrint(pe[:1], sub, 3)
			bound += fmt.Sprintf("; Sprint: every ordered triple of %d of them (every third base value and all public ones)", len(sub[0]))
		}
		r.bounded("Print-like entry points (operand separation depends on operand types only): two-run identity after Redact() and no leaked rendering", c02Rule, bound)
		total += r.cases
		if r.fails > 0 {
			return
		}
	}
	// law 4: SafeWriter scripts
	{
		r := c02NewRunner(t, 8)
		n := 3
		if thorough {
			n = 4
		}
		ops := c02Ops()
		r.runScripts(ops, n)
		r.bounded("SafePrinter/StringBuilder scripts: two-run identity after Redact() and no leaked rendering", c02Rule,
			fmt.Sprintf("every sequence of 1..%d operations out of %d (Safe*/Unsafe* writes incl. empty, line feed, markers, partial marker; Print/Printf incl. a SafeFormatter under Safe(); io.Writer; RedactableString), through Sprintfn and through StringBuilder", n, len(ops)))
		total += r.cases
		if r.fails > 0 {
			return
		}
	}
	// law 5: registered error redaction function
	{
		r := c02NewRunner(t, 8)
		fs := append(c02SimpleFormats([]string{"", "+", "#"}, []string{"", "12"}, []string{"", ".3"}, c02Verbs), specials...)
		r.runErrorFn(entries, fs)
		r.bounded("error operands with a RegisterRedactErrorFn function that declares a frame safe and the message unsafe: two-run identity after Redact() and no leaked rendering", c02Rule,
			fmt.Sprintf("%d entry points x %d formats x 9 error-carrying values", len(entries), len(fs)))
		total += r.cases
	}
	// law 6: padding next to a line feed. The two instantiations have the same emptiness and the same line-break
	// positions but different lengths; the pad is computed from the length of the whole value
	{
		r := c02NewRunner(t, 64)
		pairs := [][2]string{{"\nab", "\nabcdef"}, {"\n\nab", "\n\nabcdef"}, {"a\nb", "a\nbcdef"}, {"a\n\nb", "a\n\nbcdef"}, {"\n", "\n"}}
		for _, f := range []string{"%5s", "%05s", "%-5s", "%5v", "%5q", "%.3s", "%5.3s", "x=%5s;"} {
			for _, pr := range pairs {
				if r.stop() {
					break
				}
				f, pr := f, pr
				outA, outB := string(Sprintf(f, pr[0])), string(Sprintf(f, pr[1]))
				r.check(outA, outB, func(k int) string { return fmt.Sprintf("Sprintf(%q, %q)", f, pr[k]) })
			}
		}
		r.bounded("width, precision and padding around a line feed at the same position: two-run identity after Redact()", "the two values differ in length",
			"8 directives with width/precision x 5 pairs of strings with their line feeds at the same offsets")
		total += r.cases
	}
	t.Logf("C02 bounded: %d two-run cases in total", total)
}
