package redact

// Replay and bounded harness for C10 (escaping removes every marker from arbitrary bytes and nothing else).
// Injected with `go test -overlay`; never written into /repo.
//
// The oracles are written from the property statement:
//   - c10RefEscape: "b with each marker occurrence replaced by '?'"
//   - c10RefStrip: delete every delimiter occurrence ("stripped form")
//   - c10Scan: well-formedness (delimiters alternate, start first), line safety (no line feed inside an
//     envelope) and the text outside envelopes (what remains, next to redacted markers, in the redacted form)
//   - c10EndKind: "b ends in a truncated multi-byte sequence" (a proper prefix of a UTF-8 encoding, decided with
//     unicode/utf8.FullRune). An ending that is invalid UTF-8 without being a truncated sequence (a stray
//     continuation byte) is outside the wording: the guard '?' is accepted there but not demanded.
//
// Laws (each printed as one BOUNDED line by TestVerifBoundedC10):
//   public   EscapeMarkers / EscapeBytes on every byte string over {E2,80,B9,BA,'a',' ',LF,'?'}
//   internal escape.InternalEscapeBytes(b, startLoc, breakNewLines, false) on every such b, EVERY startLoc whose
//            prefix b[:startLoc] is an admissible already-escaped prefix, both line-splitting settings
//   chained  the way internal/buffer uses the routine: escape a first chunk, append a second chunk, escape from
//            the end of the first result (the prefix is produced by the previous call)
//   split    builder.StringBuilder: a payload written in one call vs. split at every byte position over two
//            calls (and byte by byte) made in the same mode, in several surrounding contexts
//   sampled  all of the above on seeded random strings longer than the exhaustive bound (VERIF_SEED)
//
// Besides the byte alphabet of the statement, three symbol alphabets are enumerated for all laws: whole and
// partial markers as single symbols (c10Pieces: adjacent markers within few symbols), the 3-byte sequences that
// are one byte off a marker (c10NearMiss: must come out unchanged), and lead bytes of other multi-byte
// encodings (c10Leads: truncated foreign sequences in front of markers and line feeds).

import (
	"bytes"
	"encoding/json"
	"fmt"
	"math/rand"
	"os"
	"runtime"
	"strconv"
	"sync"
	"sync/atomic"
	"testing"
	"time"
	"unicode/utf8"

	"github.com/cockroachdb/redact/builder"
	ifc "github.com/cockroachdb/redact/interfaces"
	"github.com/cockroachdb/redact/internal/escape"
)

// ---------------------------------------------------------------------------------------------------------
// alphabets

// c10Bytes: each individual byte of both markers, an ordinary byte, space, line feed, '?'.
var c10Bytes = [][]byte{{0xE2}, {0x80}, {0xB9}, {0xBA}, {'a'}, {' '}, {'\n'}, {'?'}}

// c10Pieces: whole markers and partial markers as single symbols (reaches adjacent markers within few symbols).
var c10Pieces = [][]byte{{'a'}, {'\n'}, {0xE2, 0x80, 0xB9}, {0xE2, 0x80, 0xBA}, {0xE2}, {0xE2, 0x80}, {0x80}, {0xB9}, {0xBA}, {'?'}, {' '}}

// c10NearMiss: the 3-byte sequences that differ from a marker by +-1 in exactly one byte (they are NOT markers
// and must come out unchanged), plus the markers themselves, LF and an ordinary byte.
var c10NearMiss = [][]byte{
	{0xE1, 0x80, 0xB9}, {0xE3, 0x80, 0xB9}, {0xE1, 0x80, 0xBA}, {0xE3, 0x80, 0xBA},
	{0xE2, 0x7F, 0xB9}, {0xE2, 0x81, 0xB9}, {0xE2, 0x7F, 0xBA}, {0xE2, 0x81, 0xBA},
	{0xE2, 0x80, 0xB8}, {0xE2, 0x80, 0xBB},
	{0xE2, 0x80, 0xB9}, {0xE2, 0x80, 0xBA}, {'\n'}, {'a'},
}

// c10Leads: lead bytes of other multi-byte encodings (2, 3 and 4 bytes long), a continuation byte, the markers'
// own lead byte, both markers, LF and an ordinary byte: truncated foreign sequences next to markers / line feeds.
var c10Leads = [][]byte{{0xC3}, {0xE1}, {0xF0}, {0x97}, {0xEF, 0xBF, 0xBD}, {0xF0, 0x9F, 0x98, 0x80}, {0xF0, 0x9F}, {0xE2}, {0xE2, 0x80, 0xB9}, {0xE2, 0x80, 0xBA}, {'\n'}, {'a'}}

var (
	c10StartB    = []byte{0xE2, 0x80, 0xB9}
	c10EndB      = []byte{0xE2, 0x80, 0xBA}
	c10RedactedB = []byte("\xe2\x80\xb9\xc3\x97\xe2\x80\xba")
)

// ---------------------------------------------------------------------------------------------------------
// reference functions (from the statement)

// c10MarkAt: 1 if a start marker begins at s[j], 2 if an end marker does, else 0.
func c10MarkAt(s []byte, j int) int {
	if j+3 <= len(s) && s[j] == 0xE2 && s[j+1] == 0x80 {
		if s[j+2] == 0xB9 {
			return 1
		}
		if s[j+2] == 0xBA {
			return 2
		}
	}
	return 0
}

func c10HasMarker(s []byte) bool {
	for j := 0; j+3 <= len(s); j++ {
		if c10MarkAt(s, j) != 0 {
			return true
		}
	}
	return false
}

// c10RefEscape appends to dst: s with each marker occurrence replaced by '?'.
func c10RefEscape(dst, s []byte) []byte {
	for j := 0; j < len(s); {
		if c10MarkAt(s, j) != 0 {
			dst = append(dst, '?')
			j += 3
		} else {
			dst = append(dst, s[j])
			j++
		}
	}
	return dst
}

// c10RefStrip appends to dst: s with each marker occurrence deleted.
func c10RefStrip(dst, s []byte) []byte {
	for j := 0; j < len(s); {
		if c10MarkAt(s, j) != 0 {
			j += 3
		} else {
			dst = append(dst, s[j])
			j++
		}
	}
	return dst
}

// c10Scan walks s starting outside any envelope. wf: delimiters alternate, start first. ls: no line feed
// inside an envelope. depth: 1 if an envelope is open at the end. The bytes outside envelopes are appended
// to *outside (if not nil).
func c10Scan(s []byte, outside *[]byte) (depth int, wf bool, ls bool) {
	wf, ls = true, true
	for j := 0; j < len(s); {
		switch c10MarkAt(s, j) {
		case 1:
			if depth == 1 {
				wf = false
			}
			depth = 1
			j += 3
		case 2:
			if depth == 0 {
				wf = false
			}
			depth = 0
			j += 3
		default:
			if depth == 1 && s[j] == '\n' {
				ls = false
			}
			if depth == 0 && outside != nil {
				*outside = append(*outside, s[j])
			}
			j++
		}
	}
	return
}

func c10LFs(dst, s []byte) []byte {
	for _, c := range s {
		if c == '\n' {
			dst = append(dst, c)
		}
	}
	return dst
}

const (
	c10EndValid     = 0 // empty, or the last byte ends a valid encoding
	c10EndTruncated = 1 // ends in a proper prefix of a multi-byte encoding
	c10EndStray     = 2 // invalid ending that is not a truncated sequence (stray continuation byte, ...)
)

func c10EndKind(s []byte) int {
	for k := 1; k <= 3 && k <= len(s); k++ {
		if !utf8.FullRune(s[len(s)-k:]) {
			return c10EndTruncated
		}
	}
	if r, n := utf8.DecodeLastRune(s); r == utf8.RuneError && n == 1 {
		return c10EndStray
	}
	return c10EndValid
}

// c10Clean: s does not end in the first one or two bytes of a marker (nothing appended can complete one).
func c10Clean(s []byte) bool {
	n := len(s)
	if n >= 1 && s[n-1] == 0xE2 {
		return false
	}
	if n >= 2 && s[n-2] == 0xE2 && s[n-1] == 0x80 {
		return false
	}
	return true
}

// c10GuardOK: got == want, plus exactly one '?' iff the input ended in a truncated multi-byte sequence.
func c10GuardOK(got, want []byte, kind int) bool {
	plain := bytes.Equal(got, want)
	guarded := len(got) == len(want)+1 && got[len(got)-1] == '?' && bytes.Equal(got[:len(want)], want)
	switch kind {
	case c10EndValid:
		return plain
	case c10EndTruncated:
		return guarded
	}
	return plain || guarded
}

// ---------------------------------------------------------------------------------------------------------
// reporting

type c10Reporter struct {
	t    *testing.T
	mu   sync.Mutex
	n    int
	max  int
	stop int32 // set (atomically) once max failures were reported
	done map[string]bool
}

func (r *c10Reporter) fail(call string, out []byte, why string) {
	r.mu.Lock()
	defer r.mu.Unlock()
	if r.n >= r.max || r.done[call+"|"+why] {
		return
	}
	if r.done == nil {
		r.done = map[string]bool{}
	}
	r.done[call+"|"+why] = true
	r.n++
	if r.n >= r.max {
		atomic.StoreInt32(&r.stop, 1)
	}
	m, _ := json.Marshal(map[string]string{"property": "C10", "call": call, "output": fmt.Sprintf("%q", out), "why": why})
	fmt.Printf("REPLAY-FAIL: %s\n", m)
	r.t.Errorf("%s: %s: %q", call, why, out)
}

func (r *c10Reporter) full() bool { return atomic.LoadInt32(&r.stop) != 0 }

func (r *c10Reporter) setMax(n int) {
	r.mu.Lock()
	defer r.mu.Unlock()
	r.max = n
	if r.n >= r.max {
		atomic.StoreInt32(&r.stop, 1)
	} else {
		atomic.StoreInt32(&r.stop, 0)
	}
}

func (r *c10Reporter) count() int {
	r.mu.Lock()
	defer r.mu.Unlock()
	return r.n
}

type c10Law struct{ cases, nontrivial int64 }

// c10Ctx: per-goroutine counters.
type c10Ctx struct {
	rep                                    *c10Reporter
	public, internal, chained, split       c10Law
	sampled                                c10Law
	seen                                   [5]bool // a violation was already reported for this call expression
	libCross                               bool    // also cross-check with the library's own Redact/StripMarkers
	intoSampled                            bool    // count everything under the "sampled" law
	scratchA, scratchB, scratchC, scratchD []byte
	scratchIn, scratchAgain                []byte
}

// bad reports at most one violation per call expression (slot) and check invocation.
func (c *c10Ctx) bad(slot int, call string, out []byte, why string) {
	if c.seen[slot] {
		return
	}
	c.seen[slot] = true
	c.rep.fail(call, out, why)
}

func (c *c10Ctx) bump(l *c10Law, nontrivial bool) {
	if c.intoSampled {
		l = &c.sampled
	}
	l.cases++
	if nontrivial {
		l.nontrivial++
	}
}

func (c *c10Ctx) merge(o *c10Ctx) {
	for _, p := range [][2]*c10Law{{&c.public, &o.public}, {&c.internal, &o.internal}, {&c.chained, &o.chained}, {&c.split, &o.split}, {&c.sampled, &o.sampled}} {
		p[0].cases += p[1].cases
		p[0].nontrivial += p[1].nontrivial
	}
}

// ---------------------------------------------------------------------------------------------------------
// law "public": EscapeMarkers and EscapeBytes

func (c *c10Ctx) checkPublic(w []byte) {
	c.seen[0], c.seen[1] = false, false
	q := func() string { return fmt.Sprintf("%q", w) }
	call := func() string { return "EscapeBytes([]byte(" + q() + "))" }
	keep := append(c.scratchD[:0], w...)
	c.scratchD = keep
	esc := c10RefEscape(c.scratchA[:0], w)
	c.scratchA = esc
	kind := c10EndKind(w)
	lfs := c10LFs(nil, w)
	c.bump(&c.public, c10HasMarker(w) || len(lfs) > 0 || kind == c10EndTruncated)

	// EscapeMarkers(b) contains no marker and equals b with each marker occurrence replaced by '?'.
	em := EscapeMarkers(w)
	if c10HasMarker(em) {
		c.bad(0, "EscapeMarkers([]byte("+q()+"))", em, "the result still contains a marker")
	}
	if !bytes.Equal(em, esc) {
		c.bad(0, "EscapeMarkers([]byte("+q()+"))", em, "not b with each marker occurrence replaced by '?' (a byte that is not part of a marker was altered, or a marker was not replaced)")
	}
	// idempotent
	if bytes.Equal(em, w) {
		// nothing was replaced: escaping again is the same call
	} else if em2 := EscapeMarkers(em); !bytes.Equal(em2, em) {
		c.bad(0, "EscapeMarkers(EscapeMarkers([]byte("+q()+")))", em2, "escaping is not idempotent")
	}

	// EscapeBytes(b) is a well-formed, line-safe redactable ...
	eb := []byte(EscapeBytes(w))
	outside := c.scratchB[:0]
	depth, wf, ls := c10Scan(eb, &outside)
	c.scratchB = outside
	if !wf || depth != 0 {
		c.bad(1, call(), eb, "the result is not well-formed (delimiters do not alternate / envelope left open)")
	}
	if !ls {
		c.bad(1, call(), eb, "the result is not line-safe (line feed inside an envelope)")
	}
	// ... whose stripped form is that same escaped text (plus one '?' if b ends in a truncated sequence) ...
	st := c10RefStrip(c.scratchC[:0], eb)
	c.scratchC = st
	if !c10GuardOK(st, esc, kind) {
		c.bad(1, call(), eb, c10GuardWhy(kind, "stripped form"))
	}
	// ... and whose redacted form consists solely of redacted markers and the line feeds of b.
	if !bytes.Equal(outside, lfs) {
		c.bad(1, call(), eb, "the redacted form does not consist solely of redacted markers and the line feeds of b (text outside envelopes differs from b's line feeds)")
	}
	if c.libCross {
		red := []byte(RedactableBytes(eb).Redact())
		if rem := bytes.Replace(red, c10RedactedB, nil, -1); !bytes.Equal(rem, lfs) {
			c.bad(1, call()+".Redact()", red, "the redacted form does not consist solely of redacted markers and the line feeds of b")
		}
		if ls2 := []byte(RedactableBytes(eb).StripMarkers()); !c10GuardOK(ls2, esc, kind) {
			c.bad(1, call()+".StripMarkers()", ls2, c10GuardWhy(kind, "stripped form"))
		}
	}
	// idempotent: the escaped text is a fixed point of both escapers
	if wf && depth == 0 && !c10HasMarker(st) && !bytes.Equal(st, w) { // (st == w: same call)
		eb2 := []byte(EscapeBytes(st))
		st2 := c10RefStrip(nil, eb2)
		if !bytes.Equal(st2, st) {
			c.bad(1, "EscapeBytes(stripped(EscapeBytes([]byte("+q()+"))))", eb2, "escaping is not idempotent: escaping the already escaped text changes it")
		}
	}
	if !bytes.Equal(keep, w) {
		c.bad(1, call(), w, "the argument slice was modified")
	}
}

func c10GuardWhy(kind int, what string) string {
	switch kind {
	case c10EndValid:
		return what + " is not b with each marker occurrence replaced by '?' (b does not end in a truncated multi-byte sequence, so no '?' may be added)"
	case c10EndTruncated:
		return what + " is not b with each marker occurrence replaced by '?' plus one '?' (b ends in a truncated multi-byte sequence)"
	}
	return what + " is neither b with each marker occurrence replaced by '?' nor that plus one '?'"
}

// ---------------------------------------------------------------------------------------------------------
// law "internal": escape.InternalEscapeBytes at a given offset

// c10Admissible: b[:startLoc] is an already-escaped prefix in the sense of the routine's callers
// (internal/buffer: Buffer.escapeToEnd, rfmt.EscapeBytes): delimiters alternate, no line feed inside an envelope,
// an envelope is open iff line splitting is on (unsafe mode; when nothing is left to escape the envelope may
// also be closed), and, when something is left to escape, the prefix does not end in a partial marker.
func c10Admissible(b []byte, startLoc int, bnl bool) (depth int, ok bool) {
	prefix := b[:startLoc]
	depth, wf, ls := c10Scan(prefix, nil)
	if !wf || !ls {
		return depth, false
	}
	if startLoc < len(b) {
		if !c10Clean(prefix) {
			return depth, false
		}
		if bnl != (depth == 1) {
			return depth, false
		}
	} else if !bnl && depth != 0 {
		return depth, false
	}
	return depth, true
}

// checkInternal runs the routine on (b, startLoc, bnl) if the prefix is admissible. It returns the result.
func (c *c10Ctx) checkInternal(b []byte, startLoc int, bnl bool, law *c10Law) (res []byte, ran bool) {
	depth0, ok := c10Admissible(b, startLoc, bnl)
	if !ok {
		return nil, false
	}
	c.seen[2] = false
	prefix, suffix := b[:startLoc], b[startLoc:]
	kind := c10EndKind(b)
	lfs := c10LFs(nil, suffix)
	c.bump(law, c10HasMarker(suffix) || (bnl && len(lfs) > 0) || kind == c10EndTruncated)

	in := append(c.scratchIn[:0], b...)
	c.scratchIn = in
	res = escape.InternalEscapeBytes(in, startLoc, bnl, false) // may alias in: valid until the next checkInternal
	call := func() string {
		return fmt.Sprintf("escape.InternalEscapeBytes([]byte(%q), %d, %t, false)", b, startLoc, bnl)
	}
	if !bytes.Equal(in, b) {
		c.bad(2, call(), in, "the input buffer was modified")
	}

	// content: bytes that are not part of a marker are unchanged, every marker of the suffix became '?'
	want := c10RefStrip(c.scratchA[:0], prefix)
	want = c10RefEscape(want, suffix)
	c.scratchA = want
	got := c10RefStrip(c.scratchB[:0], res)
	c.scratchB = got
	if !c10GuardOK(got, want, kind) {
		c.bad(2, call(), res, c10GuardWhy(kind, "result without the delimiters placed by the library"))
	}
	if !bnl {
		// no delimiter is placed at all: exact result
		exact := c10RefEscape(append(c.scratchC[:0], prefix...), suffix)
		c.scratchC = exact
		if !c10GuardOK(res, exact, kind) {
			c.bad(2, call(), res, "without line splitting the result must be the prefix followed by the suffix with each marker replaced by '?' (plus the '?' guard after a truncated sequence)")
		}
	}
	// structure: well-formed, line-safe, same nesting at the end as at startLoc
	outside := c.scratchD[:0]
	depth, wf, ls := c10Scan(res, &outside)
	c.scratchD = outside
	if !wf {
		c.bad(2, call(), res, "the result is not well-formed (delimiters do not alternate)")
	}
	if depth != depth0 {
		c.bad(2, call(), res, fmt.Sprintf("envelope nesting at the end (%d) differs from the nesting at startLoc (%d)", depth, depth0))
	}
	if !ls {
		c.bad(2, call(), res, "the result is not line-safe (line feed inside an envelope)")
	}
	if !c10Clean(res) {
		c.bad(2, call(), res, "the result ends in a partial marker that a later write could complete")
	}
	// what is outside envelopes: the prefix's safe text, then (inside an envelope) only the suffix's line feeds;
	// (outside an envelope) the whole escaped suffix
	if depth0 == 1 {
		wantOut := []byte(nil)
		c10Scan(prefix, &wantOut)
		wantOut = append(wantOut, lfs...)
		if !bytes.Equal(outside, wantOut) {
			c.bad(2, call(), res, "payload bytes other than line feeds ended up outside the envelopes (redacted form is more than redacted markers and line feeds)")
		}
	}
	// idempotent: nothing left to escape after the call
	// (when nothing was rewritten and no guard was due, the second call from startLoc is the same call and the
	// call at the end is the enumerated case (b, len(b)): skipped)
	if wf && depth == depth0 && !(kind == c10EndValid && bytes.Equal(res, b)) {
		c.scratchAgain = append(c.scratchAgain[:0], res...)
		again := escape.InternalEscapeBytes(c.scratchAgain, len(res), bnl, false)
		if !bytes.Equal(again, res) {
			c.bad(2, fmt.Sprintf("escape.InternalEscapeBytes([]byte(%q), %d, %t, false)", res, len(res), bnl), again, "escaping is not idempotent: a second call at the end of the escaped result changes it")
		}
		if !bnl && len(res) >= startLoc {
			c.scratchAgain = append(c.scratchAgain[:0], res...)
			again = escape.InternalEscapeBytes(c.scratchAgain, startLoc, false, false)
			if !bytes.Equal(again, res) {
				c.bad(2, fmt.Sprintf("escape.InternalEscapeBytes([]byte(%q), %d, false, false)", res, startLoc), again, "escaping is not idempotent: escaping the escaped suffix again changes it")
			}
		}
	}
	return res, true
}

// checkOffsets: every starting offset, both line-splitting settings.
func (c *c10Ctx) checkOffsets(b []byte) {
	for s := 0; s <= len(b); s++ {
		c.checkInternal(b, s, false, &c.internal)
		c.checkInternal(b, s, true, &c.internal)
	}
}

// checkChained: w[:j] is escaped by a first call (in unsafe mode behind the start marker the library writes),
// w[j:] is appended and escaped from the end of the first result, like Buffer.escapeToEnd does.
func (c *c10Ctx) checkChained(w []byte) {
	for _, bnl := range []bool{false, true} {
		for j := 0; j <= len(w); j++ {
			c.seen[3] = false
			var buf []byte
			if bnl {
				buf = append(buf, c10StartB...)
			}
			s0 := len(buf)
			buf = append(buf, w[:j]...)
			r1, ran := c.checkInternal(buf, s0, bnl, &c.chained)
			if !ran {
				continue // cannot happen: the library-written prefix is admissible
			}
			buf2 := append(append([]byte(nil), r1...), w[j:]...)
			if _, ok := c10Admissible(buf2, len(r1), bnl); !ok {
				c.bad(3, fmt.Sprintf("escape.InternalEscapeBytes([]byte(%q), %d, %t, false)", buf, s0, bnl), r1,
					"the result is not an admissible escaped prefix for the next write (open/closed envelope, partial marker at the end)")
				continue
			}
			r2, _ := c.checkInternal(buf2, len(r1), bnl, &c.chained)
			// chained content: first chunk escaped (with its guard) then second chunk escaped (with its guard)
			want := c10RefEscape(nil, w[:j])
			if c10EndKind(buf) == c10EndTruncated && j > 0 {
				want = append(want, '?')
			}
			lenFirst := len(want)
			want = c10RefEscape(want, w[j:])
			got := c10RefStrip(nil, r2)
			k2 := c10EndKind(buf2)
			strayFirst := j > 0 && c10EndKind(buf) == c10EndStray
			ok := c10GuardOK(got, want, k2)
			if !ok && strayFirst {
				// tolerated guard after a stray (not truncated) ending of the first chunk
				alt := append(append(append([]byte(nil), want[:lenFirst]...), '?'), want[lenFirst:]...)
				ok = c10GuardOK(got, alt, k2)
			}
			if !ok {
				c.bad(3, fmt.Sprintf("b1 := escape.InternalEscapeBytes([]byte(%q), %d, %t, false); escape.InternalEscapeBytes(append(b1, %q...), len(b1), %t, false)", buf, s0, bnl, w[j:], bnl), r2,
					"after two successive escapes the content is not chunk 1 escaped followed by chunk 2 escaped (a marker was left, or a byte that is not part of a marker was altered)")
			}
		}
	}
}

// ---------------------------------------------------------------------------------------------------------
// law "split": builder.StringBuilder, same-mode writes split at every position

type c10Writer struct {
	name string
	f    func(b *builder.StringBuilder, p []byte)
}

var c10Unsafe = []c10Writer{
	{"UnsafeString", func(b *builder.StringBuilder, p []byte) { b.UnsafeString(string(p)) }},
	{"UnsafeBytes", func(b *builder.StringBuilder, p []byte) { b.UnsafeBytes(p) }},
	{"Write", func(b *builder.StringBuilder, p []byte) { _, _ = b.Write(p) }},
	{"WriteString", func(b *builder.StringBuilder, p []byte) { _, _ = b.WriteString(string(p)) }},
}

var c10Safe = []c10Writer{
	{"SafeString", func(b *builder.StringBuilder, p []byte) { b.SafeString(ifc.SafeString(p)) }},
	{"SafeBytes", func(b *builder.StringBuilder, p []byte) { b.SafeBytes(ifc.SafeBytes(p)) }},
}

// pairs of writers used for the two pieces (indices into c10Unsafe / c10Safe)
var c10UnsafePairs = [][2]int{{0, 0}, {1, 1}, {2, 3}, {3, 1}}
var c10SafePairs = [][2]int{{0, 0}, {1, 1}, {0, 1}}

// c10Context: what is written before and after the payload (in another mode).
type c10Context struct {
	name          string
	pre, post     func(b *builder.StringBuilder)
	preS, postS   string // Go text for the call
	stripPre      string // stripped text contributed before / after the payload
	stripPost     string
	outPre        string // text outside envelopes contributed before / after the payload
	outPost       string
	payloadInside bool // the payload is unsafe (inside envelopes except its line feeds)
}

func c10Contexts(unsafe bool) []c10Context {
	none := func(b *builder.StringBuilder) {}
	if unsafe {
		return []c10Context{
			{"bare", none, none, "", "", "", "", "", "", true},
			{"safe-around", func(b *builder.StringBuilder) { b.SafeString("s") }, func(b *builder.StringBuilder) { b.SafeString("z") },
				"SafeString(\"s\"); ", "; SafeString(\"z\")", "s", "z", "s", "z", true},
			{"after-redactable", func(b *builder.StringBuilder) { b.Print(RedactableString("\xe2\x80\xb9u\xe2\x80\xba")) }, none,
				"Print(RedactableString(\"\\u2039u\\u203a\")); ", "", "u", "", "", "", true},
		}
	}
	return []c10Context{
		{"bare", none, none, "", "", "", "", "", "", false},
		{"unsafe-around", func(b *builder.StringBuilder) { b.UnsafeString("u") }, func(b *builder.StringBuilder) { b.UnsafeString("z") },
			"UnsafeString(\"u\"); ", "; UnsafeString(\"z\")", "u", "z", "", "", false},
		{"after-redactable", func(b *builder.StringBuilder) { b.Print(RedactableString("p\xe2\x80\xb9u\xe2\x80\xba")) }, none,
			"Print(RedactableString(\"p\\u2039u\\u203a\")); ", "", "pu", "", "p", "", false},
	}
}

var c10UnsafeContexts = c10Contexts(true)
var c10SafeContexts = c10Contexts(false)

// checkSplit: positions == nil means every position 0..len(w).
func (c *c10Ctx) checkSplit(w []byte, positions []int) {
	if positions == nil {
		for j := 0; j <= len(w); j++ {
			positions = append(positions, j)
		}
	}
	esc := c10RefEscape(nil, w)
	kind := c10EndKind(w)
	lfs := c10LFs(nil, w)
	for mode := 0; mode < 2; mode++ {
		writers, pairs, ctxs := c10Unsafe, c10UnsafePairs, c10UnsafeContexts
		if mode == 1 {
			writers, pairs, ctxs = c10Safe, c10SafePairs, c10SafeContexts
		}
		for ci := range ctxs {
			cx := &ctxs[ci]
			c.seen[4] = false
			// unsplit reference call
			var b0 builder.StringBuilder
			cx.pre(&b0)
			writers[0].f(&b0, w)
			cx.post(&b0)
			whole := []byte(b0.RedactableString())
			call0 := func() string {
				return fmt.Sprintf("StringBuilder{%s%s(%q)%s}", cx.preS, writers[0].name, w, cx.postS)
			}

			// the unsplit output itself obeys the property (observed at the buffer, both modes)
			outside := []byte(nil)
			depth, wf, ls := c10Scan(whole, &outside)
			if !wf || depth != 0 {
				c.bad(4, call0(), whole, "the result is not well-formed")
			}
			if !ls {
				c.bad(4, call0(), whole, "the result is not line-safe")
			}
			st := c10RefStrip(nil, whole)
			okStrip := len(st) >= len(cx.stripPre)+len(cx.stripPost) &&
				bytes.HasPrefix(st, []byte(cx.stripPre)) && bytes.HasSuffix(st, []byte(cx.stripPost)) &&
				c10GuardOK(st[len(cx.stripPre):len(st)-len(cx.stripPost)], esc, kind)
			if !okStrip {
				c.bad(4, call0(), whole, c10GuardWhy(kind, "stripped payload"))
			}
			if cx.payloadInside {
				wantOut := append(append([]byte(cx.outPre), lfs...), cx.outPost...)
				if !bytes.Equal(outside, wantOut) {
					c.bad(4, call0(), whole, "unsafe payload bytes other than line feeds ended up outside the envelopes")
				}
			} else {
				okOut := len(outside) >= len(cx.outPre)+len(cx.outPost) &&
					bytes.HasPrefix(outside, []byte(cx.outPre)) && bytes.HasSuffix(outside, []byte(cx.outPost)) &&
					c10GuardOK(outside[len(cx.outPre):len(outside)-len(cx.outPost)], esc, kind)
				if !okOut {
					c.bad(4, call0(), whole, "the safe payload (escaped) is not exactly the text outside the envelopes")
				}
			}
			c.bump(&c.split, c10HasMarker(w) || kind == c10EndTruncated)

			// every writer of the mode, unsplit
			for wi := 1; wi < len(writers); wi++ {
				var b builder.StringBuilder
				cx.pre(&b)
				writers[wi].f(&b, w)
				cx.post(&b)
				if got := []byte(b.RedactableString()); !bytes.Equal(got, whole) {
					c.bad(4, fmt.Sprintf("StringBuilder{%s%s(%q)%s}", cx.preS, writers[wi].name, w, cx.postS), got,
						fmt.Sprintf("differs from the same payload written with %s: %q", writers[0].name, whole))
				}
				c.bump(&c.split, false)
			}
			// split in two at every position
			for _, j := range positions {
				inside := c10SplitsMultiByte(w, j)
				for _, pr := range pairs {
					var b builder.StringBuilder
					cx.pre(&b)
					writers[pr[0]].f(&b, w[:j])
					writers[pr[1]].f(&b, w[j:])
					cx.post(&b)
					got := []byte(b.RedactableString())
					c.bump(&c.split, inside)
					if !bytes.Equal(got, whole) {
						c.bad(4, fmt.Sprintf("StringBuilder{%s%s(%q); %s(%q)%s}", cx.preS, writers[pr[0]].name, w[:j], writers[pr[1]].name, w[j:], cx.postS), got,
							fmt.Sprintf("splitting the payload over two calls in the same mode changes the result; unsplit %s gives %q", call0(), whole))
					}
				}
			}
			// byte by byte
			if len(w) > 2 {
				var b builder.StringBuilder
				cx.pre(&b)
				wr := writers[len(writers)-2] // Write / SafeString
				for k := range w {
					wr.f(&b, w[k:k+1])
				}
				cx.post(&b)
				got := []byte(b.RedactableString())
				c.bump(&c.split, c10HasMarker(w))
				if !bytes.Equal(got, whole) {
					c.bad(4, fmt.Sprintf("StringBuilder{%sfor each byte c of %q: %s(c)%s}", cx.preS, w, wr.name, cx.postS), got,
						fmt.Sprintf("writing the payload byte by byte in the same mode changes the result; unsplit %s gives %q", call0(), whole))
				}
			}
		}
	}
}

// c10SplitsMultiByte: position j separates bytes of one marker occurrence or of one multi-byte sequence.
func c10SplitsMultiByte(w []byte, j int) bool {
	if j <= 0 || j >= len(w) {
		return false
	}
	for k := 1; k <= 2 && k <= j; k++ {
		if c10MarkAt(w, j-k) != 0 {
			return true
		}
	}
	return w[j] >= 0x80 && w[j] < 0xC0 && w[j-1] >= 0x80
}

// ---------------------------------------------------------------------------------------------------------
// enumeration

// c10Canonical: appending symbol a to w keeps the symbol sequence equal to the greedy (longest symbol first)
// parse of its bytes. Non-canonical sequences (E2 then 80; E2 80 then B9/BA) spell a byte string that another,
// shorter sequence already spells, so every visited byte string is distinct.
func c10Canonical(w, a []byte) bool {
	if len(a) != 1 || len(w) == 0 {
		return true
	}
	if a[0] == 0x80 && w[len(w)-1] == 0xE2 {
		return false
	}
	if (a[0] == 0xB9 || a[0] == 0xBA) && len(w) >= 2 && w[len(w)-2] == 0xE2 && w[len(w)-1] == 0x80 {
		return false
	}
	return true
}

// c10Enumerate visits every concatenation of at most n symbols of the alphabet, in parallel (each distinct byte
// string once: over the symbol alphabet only canonical sequences are visited); per-goroutine counters are
// merged into the returned context.
func c10Enumerate(rep *c10Reporter, alphabet [][]byte, n int, libCross bool, visit func(c *c10Ctx, w []byte)) *c10Ctx {
	total := &c10Ctx{rep: rep}
	canon := len(alphabet) == len(c10Pieces)
	type job struct {
		prefix []byte
		left   int
	}
	var jobs []job
	// strings of fewer than split symbols are visited by their own jobs with left = 0
	split := 2
	if n < split {
		split = n
	}
	var gen func(prefix []byte, depth int)
	gen = func(prefix []byte, depth int) {
		if depth == split {
			jobs = append(jobs, job{append([]byte(nil), prefix...), n - split})
			return
		}
		jobs = append(jobs, job{append([]byte(nil), prefix...), 0})
		for _, a := range alphabet {
			if canon && !c10Canonical(prefix, a) {
				continue
			}
			gen(append(append([]byte(nil), prefix...), a...), depth+1)
		}
	}
	gen(nil, 0)
	ch := make(chan job, len(jobs))
	for _, j := range jobs {
		ch <- j
	}
	close(ch)
	workers := runtime.GOMAXPROCS(0)
	if workers > 16 {
		workers = 16
	}
	var wg sync.WaitGroup
	var mu sync.Mutex
	for k := 0; k < workers; k++ {
		wg.Add(1)
		go func() {
			defer wg.Done()
			c := &c10Ctx{rep: rep, libCross: libCross}
			buf := make([]byte, 0, 64)
			var rec func(w []byte, left int)
			rec = func(w []byte, left int) {
				if rep.full() {
					return
				}
				visit(c, w)
				if left == 0 {
					return
				}
				for _, a := range alphabet {
					if canon && !c10Canonical(w, a) {
						continue
					}
					rec(append(w, a...), left-1)
				}
			}
			for j := range ch {
				rec(append(buf[:0], j.prefix...), j.left)
			}
			mu.Lock()
			total.merge(c)
			mu.Unlock()
		}()
	}
	wg.Wait()
	return total
}

// c10Sequential visits the same space in order of increasing number of symbols, in one goroutine.
func c10Sequential(rep *c10Reporter, alphabet [][]byte, n int, visit func(w []byte)) {
	canon := len(alphabet) == len(c10Pieces)
	var rec func(w []byte, left int)
	rec = func(w []byte, left int) {
		if rep.full() {
			return
		}
		if left == 0 {
			visit(w)
			return
		}
		for _, a := range alphabet {
			if canon && !c10Canonical(w, a) {
				continue
			}
			rec(append(w, a...), left-1)
		}
	}
	for k := 0; k <= n; k++ {
		rec(make([]byte, 0, 64), k)
	}
}

func c10Bound(l c10Law, law, rule, bound string, exhaustive bool) {
	m, _ := json.Marshal(map[string]interface{}{"property": "C10", "law": law, "cases": l.cases, "nontrivial": l.nontrivial,
		"nontrivial_rule": rule, "bound": bound, "exhaustive": exhaustive})
	fmt.Printf("BOUNDED: %s\n", m)
}

// ---------------------------------------------------------------------------------------------------------
// tests

func TestVerifReplayC10(t *testing.T) {
	rep := &c10Reporter{t: t, max: 12}
	// solver model values: strings are payloads, integers are starting offsets
	var hints map[string]interface{}
	_ = json.Unmarshal([]byte(os.Getenv("REPLAY_HINTS")), &hints)
	var seeds [][]byte
	var offsets []int
	for _, v := range hints {
		s, ok := v.(string)
		if !ok {
			if f, isNum := v.(float64); isNum && f >= 0 && f < 64 {
				offsets = append(offsets, int(f))
			}
			continue
		}
		if n, err := strconv.Atoi(s); err == nil {
			if n >= 0 && n < 64 {
				offsets = append(offsets, n)
			}
			continue
		}
		if s == "true" || s == "false" {
			continue
		}
		if len(s) > 64 {
			s = s[:64]
		}
		seeds = append(seeds, []byte(s))
	}
	c := &c10Ctx{rep: rep, libCross: true}
	for _, s := range seeds {
		for _, v := range [][]byte{s, append(append([]byte(nil), s...), 0xE2), append(append([]byte(nil), c10EndB...), s...),
			append(append(append([]byte(nil), s...), '\n'), s...)} {
			c.checkPublic(v)
			c.checkOffsets(v)
			c.checkChained(v)
			c.checkSplit(v, nil)
		}
	}
	// model offsets: a marker / line feed / truncated tail right at and around the offset
	for _, o := range offsets {
		for _, tail := range [][]byte{c10StartB, c10EndB, {'\n'}, {0xE2}, {0xE2, 0x80}, {'\n', 0xE2, 0x80, 0xBA, 0xE2}} {
			for _, bnl := range []bool{false, true} {
				var p []byte
				if bnl {
					p = append(p, c10StartB...)
				}
				for len(p) < o {
					p = append(p, 'a')
				}
				if _, ok := c10Admissible(append(append([]byte(nil), p...), tail...), len(p), bnl); ok {
					c.checkInternal(append(append([]byte(nil), p...), tail...), len(p), bnl, &c.internal)
				}
			}
		}
	}
	if rep.count() > 0 {
		return
	}
	// small, well-chosen space: at most 4 symbols out of whole markers, partial markers, LF, '?', space, 'a'.
	// First sequentially, shortest inputs first, so that the reported inputs are small: public API (at most 5
	// lines), then the internal routine (at most 9 in total), then the split law (12 in total).
	start := time.Now()
	rep.setMax(5)
	c10Sequential(rep, c10Pieces, 3, func(w []byte) { c.checkPublic(w) })
	rep.setMax(9)
	c10Sequential(rep, c10Pieces, 3, func(w []byte) { c.checkOffsets(w) })
	rep.setMax(12)
	c10Sequential(rep, c10Pieces, 2, func(w []byte) { c.checkChained(w); c.checkSplit(w, nil) })
	c10Sequential(rep, c10NearMiss, 2, func(w []byte) { c.checkPublic(w); c.checkOffsets(w); c.checkChained(w); c.checkSplit(w, nil) })
	c10Sequential(rep, c10Leads, 3, func(w []byte) { c.checkPublic(w); c.checkOffsets(w); c.checkChained(w); c.checkSplit(w, nil) })
	if rep.count() > 0 {
		return
	}
	tot := c10Enumerate(rep, c10Pieces, 4, true, func(c *c10Ctx, w []byte) {
		c.checkPublic(w)
		c.checkOffsets(w)
		if len(w) <= 8 {
			c.checkChained(w)
			c.checkSplit(w, nil)
		}
	})
	t.Logf("C10 replay search: public %d, internal %d, chained %d, split %d cases in %v", tot.public.cases, tot.internal.cases, tot.chained.cases, tot.split.cases, time.Since(start))
}

func TestVerifBoundedC10(t *testing.T) {
	thorough := os.Getenv("VERIF_TIER") == "thorough"
	nBytes, nInternal, nPieces, nSplit, nSample := 6, 6, 4, 5, 4000
	if thorough {
		nBytes, nInternal, nPieces, nSplit, nSample = 8, 8, 5, 6, 60000
		if runtime.GOMAXPROCS(0) < 4 {
			nInternal = 7 // keep the time budget on small machines; the BOUNDED line states the bound used
		}
	}
	seed := int64(1)
	if s, err := strconv.ParseInt(os.Getenv("VERIF_SEED"), 10, 64); err == nil {
		seed = s
	}
	rep := &c10Reporter{t: t, max: 8}
	total := &c10Ctx{rep: rep}
	start := time.Now()

	// 1. byte alphabet: public laws and the internal routine at every offset
	total.merge(c10Enumerate(rep, c10Bytes, nBytes, false, func(c *c10Ctx, w []byte) {
		c.libCross = len(w) <= 6
		c.checkPublic(w)
		if len(w) <= nInternal {
			c.checkOffsets(w)
		}
	}))
	t1 := time.Since(start)
	// 2. byte alphabet, shorter: chained calls and split writes
	total.merge(c10Enumerate(rep, c10Bytes, nSplit, false, func(c *c10Ctx, w []byte) {
		c.checkChained(w)
		c.checkSplit(w, nil)
	}))
	t2 := time.Since(start)
	// 3. symbol alphabet with whole markers: everything
	piecesCtx := c10Enumerate(rep, c10Pieces, nPieces, true, func(c *c10Ctx, w []byte) {
		c.checkPublic(w)
		c.checkOffsets(w)
		c.checkChained(w)
		if len(w) <= 9 {
			c.checkSplit(w, nil)
		}
	})
	total.merge(piecesCtx)
	total.merge(c10Enumerate(rep, c10NearMiss, 3, true, func(c *c10Ctx, w []byte) {
		c.checkPublic(w)
		c.checkOffsets(w)
		c.checkChained(w)
		c.checkSplit(w, nil)
	}))
	total.merge(c10Enumerate(rep, c10Leads, 4, true, func(c *c10Ctx, w []byte) {
		c.checkPublic(w)
		c.checkOffsets(w)
		c.checkChained(w)
		c.checkSplit(w, nil)
	}))
	t3 := time.Since(start)

	// 4. sampled: longer strings
	sc := &c10Ctx{rep: rep, libCross: true, intoSampled: true}
	rng := rand.New(rand.NewSource(seed))
	sampleAlphabet := append(append(append([][]byte(nil), c10Pieces...), c10NearMiss[:10]...), []byte{0xC3}, []byte{0xC3, 0x97}, []byte{0xF0, 0x9F}, []byte{0xFF}, []byte{'\n', '\n'})
	for k := 0; k < nSample && !rep.full(); k++ {
		var w []byte
		target := nBytes + 1 + rng.Intn(40)
		for len(w) < target {
			w = append(w, sampleAlphabet[rng.Intn(len(sampleAlphabet))]...)
		}
		sc.checkPublic(w)
		for r := 0; r < 4; r++ {
			s := rng.Intn(len(w) + 1)
			sc.checkInternal(w, s, false, &sc.internal)
			sc.checkInternal(w, s, true, &sc.internal)
		}
		if k%8 == 0 {
			sc.checkChained(w)
			sc.checkSplit(w, []int{rng.Intn(len(w) + 1), rng.Intn(len(w) + 1), rng.Intn(len(w) + 1)})
		}
	}
	total.merge(sc)
	t.Logf("C10 bounded timings: bytes %v, chained+split %v, pieces %v, sampled %v", t1, t2-t1, t3-t2, time.Since(start)-t3)

	ok := rep.count() == 0
	nm := "; plus all strings of <= 3 symbols over {the 10 three-byte sequences that are one byte off a marker, start, end, LF, 'a'} and of <= 4 symbols over {C3, E1, F0, 97, E2, start, end, LF, 'a'} (a short string spelled in several alphabets is counted once per alphabet)"
	c10Bound(total.public,
		"EscapeMarkers(b) has no marker, equals b with each marker replaced by '?', is idempotent; EscapeBytes(b) is well-formed, line-safe, strips to that text (+ one '?' after a truncated multi-byte sequence), redacts to redacted markers and the line feeds of b, and re-escaping the escaped text changes nothing (library Redact/StripMarkers cross-checked up to length 6 and on the symbol alphabet)",
		"b contains a marker or a line feed or ends in a truncated multi-byte sequence",
		fmt.Sprintf("all byte strings of length <= %d over {E2,80,B9,BA,'a',' ',LF,'?'} plus all strings of <= %d symbols over {start,end,E2,E2 80,80,B9,BA,'a',' ',LF,'?'}", nBytes, nPieces)+nm, ok)
	c10Bound(total.internal,
		"escape.InternalEscapeBytes(b, startLoc, breakNewLines, false): bytes not part of a marker unchanged, every marker of b[startLoc:] replaced by '?', exact result without line splitting, well-formed / line-safe / same nesting / no partial marker at the end, only line feeds of the suffix leave the envelope, '?' guard iff truncated ending, input not modified, idempotent",
		"b[startLoc:] contains a marker, or a line feed with line splitting on, or b ends in a truncated multi-byte sequence",
		fmt.Sprintf("all byte strings of length <= %d over the byte alphabet and all strings of <= %d symbols over the symbol alphabet, EVERY startLoc whose prefix is an admissible escaped prefix, both line-splitting settings", nInternal, nPieces)+nm, ok)
	c10Bound(total.chained,
		"two successive escapes the way Buffer.escapeToEnd chains them (first chunk escaped, second chunk appended and escaped from the end of the first result): first result is an admissible prefix, all laws of the routine hold for both calls, content is chunk1 escaped + chunk2 escaped",
		"the escaped suffix of the call contains a marker, or a line feed with line splitting on, or a truncated ending",
		fmt.Sprintf("all byte strings of length <= %d over the byte alphabet and <= %d symbols over the symbol alphabet, every split position, both line-splitting settings", nSplit, nPieces)+nm, ok)
	c10Bound(total.split,
		"builder.StringBuilder: a payload written by UnsafeString/UnsafeBytes/Write/WriteString (resp. SafeString/SafeBytes) in one call, split in two at every byte position, or byte by byte, gives byte-identical output; the unsplit output is well-formed, line-safe, strips to the escaped payload (+ guard) and keeps unsafe bytes inside envelopes; contexts: bare, other-mode text around, after a pre-redactable",
		"the split position separates bytes of one marker occurrence or of one multi-byte sequence (for unsplit/bytewise cases: the payload contains a marker)",
		fmt.Sprintf("all byte strings of length <= %d over the byte alphabet and strings of <= %d symbols (<= 9 bytes) over the symbol alphabet, every split position, 3 contexts, both modes", nSplit, nPieces)+nm, ok)
	c10Bound(total.sampled,
		"all laws above on random longer strings (public laws on each; internal routine at 4 random offsets x 2 settings; chained and split on every 8th)",
		"as for the individual laws",
		fmt.Sprintf("%d seeded random strings (VERIF_SEED=%d) of %d to %d bytes over the symbol alphabet extended with the 10 near-miss sequences, C3, C3 97, F0 9F, FF, LF LF", nSample, seed, nBytes+1, nBytes+43), false)
}
