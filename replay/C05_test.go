package redact

// Replay and bounded harness for C05 (exactly the unsafe arguments are enveloped; declared-safe data
// stays visible). Injected with `go test -overlay`; never written into /repo.
//
// Oracle, written from the property statement (fmt is the reference renderer):
//   - c05DelEnv(out): the output with every envelope deleted. It must be the text fmt prints when every
//     operand that is not declared safe renders as nothing but its line feeds.
//   - c05Strip(out): the output without the delimiters. It must be fmt's text with marker characters
//     replaced by '?' (so the complete rendering of an unsafe operand is in the output, inside envelopes,
//     because nothing of it is allowed outside).
//
// Laws:
//   A  a declared-safe top-level operand (Safe(x), Safe(Unsafe(x)), SafeValue types, registered types) under
//      every valid directive (verbs x flags x width x precision): no envelope, text == fmt's.
//   B  an unsafe top-level operand (plain, Unsafe(x), Unsafe(Safe(x)), reflect.Value) under every valid
//      directive between two literals: envelopes-deleted text == literals (+ line feeds, + the structural
//      punctuation of byte slices), stripped text == fmt's.
//   C  argument lists and compound values (interface-typed slices, arrays, maps, struct fields, typed
//      structs/slices/maps, nesting, pointers, reflect.Value) mixing safe and unsafe leaves: the expected text is
//      fmt's rendering of the same value with the rendering of each unsafe leaf (a unique sentinel value,
//      rendered by fmt with the same directive) cut out.
//   D  SafePrinter / SafeWriter scripts (safe emitters, unsafe emitters, Print, Printf, Write) run through Sprintfn,
//      StringBuilder, SafeFormatter objects (plain, under Safe(), as SafeValue, of a registered type, under Unsafe(),
//      inside a slice, nested), followed by a canary call that must not be influenced by the history.
//   E  every subset of a set of 4 types registered with RegisterSafeType (registry restored afterwards).
//
// Every law is run through several entry points (Sprintf, Fprintf, StringBuilder.Printf, Sprintfn+Printf,
// a SafeFormatter calling Printf, the same under Safe() and a Formatter under Unsafe()).
//
// Deliberately outside the oracle (the statement does not decide them, or they are rendering fidelity = C04):
// nil operands / nil interface elements / nil pointers, invalid verbs and EXTRA/MISSING operands, Safe() wrappers
// of non-strings inside interface-typed slice/map slots (rendered through SafeMessage: "%x" of Safe(8) is 38),
// Unsafe(Safe(x)) printed below an enclosing Safe() (same reason), SafeValue types in unexported struct fields
// (the library cannot see the interface there and envelopes them).
//
// NOTE: this file reaches the unexported safe-type registry with go:linkname, only to delete the entries it added
// itself (there is no public unregister). It must not be compiled together with another file that links the same
// symbol under another name (the harness injects one property file at a time).

import (
	"bytes"
	"encoding/json"
	"fmt"
	c05i "github.com/cockroachdb/redact/interfaces"
	c05rfmt "github.com/cockroachdb/redact/internal/rfmt"
	"hash/fnv"
	"io"
	"math"
	"os"
	"reflect"
	"sort"
	"strconv"
	"strings"
	"testing"
	"unicode/utf8"
	_ "unsafe" // go:linkname (restore of the process-global safe-type registry)
)

// The registry has no public "unregister"; the harness needs one to restore the global state
// (property anchors: hook_needed). Only used to delete the keys the harness itself added.
//
//go:linkname c05SafeTypeRegistry github.com/cockroachdb/redact/internal/rfmt.safeTypeRegistry
var c05SafeTypeRegistry map[reflect.Type]bool

// ---------------------------------------------------------------------------------------------
// reference functions (from the property statement)

// c05DelEnv deletes every envelope (start marker .. next end marker, both included).
func c05DelEnv(s string) string {
	var b strings.Builder
	for {
		i := strings.Index(s, vS)
		if i < 0 {
			b.WriteString(s)
			return b.String()
		}
		b.WriteString(s[:i])
		j := strings.Index(s[i:], vE)
		if j < 0 {
			return b.String() // unterminated: not well-formed, reported separately
		}
		s = s[i+j+len(vE):]
	}
}

func c05Strip(s string) string {
	return strings.ReplaceAll(strings.ReplaceAll(s, vS, ""), vE, "")
}

// c05Q: "markers replaced by ?".
func c05Q(s string) string {
	return strings.ReplaceAll(strings.ReplaceAll(s, vS, "?"), vE, "?")
}

// c05LFs: what is left of an unsafe rendering outside envelopes: its line feeds.
func c05LFs(s string) string {
	return strings.Repeat("\n", strings.Count(s, "\n"))
}

// ---------------------------------------------------------------------------------------------
// bookkeeping

type c05Law struct {
	name, rule, bound string
	cases             int
	seen              map[uint64]struct{}
	nontrivial        int
	unreliable        int // cases dropped because the expected string could not be built reliably
	complete          bool
}

type c05Ctx struct {
	t     *testing.T
	fails int
	max   int
	laws  []*c05Law
}

func (c *c05Ctx) law(name, rule, bound string) *c05Law {
	l := &c05Law{name: name, rule: rule, bound: bound, seen: map[uint64]struct{}{}}
	c.laws = append(c.laws, l)
	return l
}

func (c *c05Ctx) full() bool { return c.fails >= c.max }

func (c *c05Ctx) fail(call, out, why string) {
	c.fails++
	m, _ := json.Marshal(map[string]string{"property": "C05", "call": call, "output": fmt.Sprintf("%q", out), "why": why})
	fmt.Printf("REPLAY-FAIL: %s\n", m)
	c.t.Errorf("%s: %s: %q", call, why, out)
}

// run calls the library and turns a panic into a reported failure.
func (c *c05Ctx) run(call string, f func() string) (out string, ok bool) {
	defer func() {
		if r := recover(); r != nil {
			c.fail(call, "", fmt.Sprintf("the call panics instead of printing the operands: %v", r))
			out, ok = "", false
		}
	}()
	return f(), true
}

func (l *c05Law) count(call string, nontrivial bool) {
	l.cases++
	if nontrivial {
		h := fnv.New64a()
		h.Write([]byte(call))
		k := h.Sum64()
		if _, ok := l.seen[k]; !ok {
			l.seen[k] = struct{}{}
			l.nontrivial++
		}
	}
}

// check is the oracle: out is what the library returned; wantDel the expected envelopes-deleted text;
// wantStrip the expected stripped text.
func (c *c05Ctx) check(l *c05Law, call, out, wantDel, wantStrip string, nontrivial bool) bool {
	if c.full() {
		return false
	}
	l.count(call, nontrivial)
	if !vWellFormed(out) {
		c.fail(call, out, "the output is not well-formed, envelopes cannot be told apart")
		return false
	}
	if got := c05DelEnv(out); got != wantDel {
		why := "safe text (literal, punctuation, name or declared-safe value) is missing outside envelopes (over-redaction)"
		if len(got) > len(wantDel) {
			why = "part of the rendering of an argument not declared safe is outside envelopes (under-redaction)"
		} else if len(got) == len(wantDel) {
			why = "the text outside envelopes differs from fmt's text for literals and declared-safe values"
		}
		c.fail(call, out, fmt.Sprintf("%s: envelopes-deleted text is %q, want %q", why, got, wantDel))
		return false
	}
	if got := c05Strip(out); got != wantStrip {
		c.fail(call, out, fmt.Sprintf("the text without delimiters is %q, fmt prints %q: the rendering of an argument is incomplete or altered", got, wantStrip))
		return false
	}
	return true
}

// ---------------------------------------------------------------------------------------------
// entry points for Printf-like calls

type c05SFPrintf struct {
	format string
	args   []interface{}
}

func (o c05SFPrintf) SafeFormat(w SafePrinter, _ rune) { w.Printf(o.format, o.args...) }

type c05FmtrPrintf struct {
	format string
	args   []interface{}
}

func (o c05FmtrPrintf) Format(s fmt.State, _ rune) {
	if w, ok := s.(SafePrinter); ok {
		w.Printf(o.format, o.args...)
	} else {
		fmt.Fprintf(s, o.format, o.args...)
	}
}

const (
	c05ModeMixed  = 0 // classification per operand
	c05ModeSafe   = 1 // an enclosing Safe(): everything is declared safe
	c05ModeUnsafe = 2 // an enclosing Unsafe(): nothing is declared safe
)

type c05Entry struct {
	call func(format, args string) string
	run  func(format string, args []interface{}) string
	mode int
}

var c05Entries = []c05Entry{
	{func(f, a string) string { return fmt.Sprintf("Sprintf(%q%s)", f, a) },
		func(f string, a []interface{}) string { return string(Sprintf(f, a...)) }, c05ModeMixed},
	{func(f, a string) string { return fmt.Sprintf("Fprintf(&buf, %q%s)", f, a) },
		func(f string, a []interface{}) string {
			var b bytes.Buffer
			_, _ = Fprintf(&b, f, a...)
			return b.String()
		}, c05ModeMixed},
	{func(f, a string) string { return fmt.Sprintf("StringBuilder{Printf(%q%s)}", f, a) },
		func(f string, a []interface{}) string {
			var b StringBuilder
			b.Printf(f, a...)
			return string(b.RedactableString())
		}, c05ModeMixed},
	{func(f, a string) string { return fmt.Sprintf("Sprintfn(func(w){w.Printf(%q%s)})", f, a) },
		func(f string, a []interface{}) string {
			return string(Sprintfn(func(w SafePrinter) { w.Printf(f, a...) }))
		}, c05ModeMixed},
	{func(f, a string) string {
		return fmt.Sprintf("Sprintf(\"%%v\", obj) with obj.SafeFormat(w,_){w.Printf(%q%s)}", f, a)
	},
		func(f string, a []interface{}) string { return string(Sprintf("%v", c05SFPrintf{f, a})) }, c05ModeMixed},
	{func(f, a string) string {
		return fmt.Sprintf("Sprintf(\"%%v\", Safe(obj)) with obj.SafeFormat(w,_){w.Printf(%q%s)}", f, a)
	},
		func(f string, a []interface{}) string { return string(Sprintf("%v", Safe(c05SFPrintf{f, a}))) }, c05ModeSafe},
	{func(f, a string) string {
		return fmt.Sprintf("Sprintf(\"%%v\", Unsafe(obj)) with obj.Format(s,_){s.(SafePrinter).Printf(%q%s)}", f, a)
	},
		func(f string, a []interface{}) string { return string(Sprintf("%v", Unsafe(c05FmtrPrintf{f, a}))) }, c05ModeUnsafe},
}

// c05Canary: an unrelated call whose result must not depend on what was printed before.
func (c *c05Ctx) canary(l *c05Law, after string) {
	if c.full() {
		return
	}
	out := string(Sprintf("user=%s n=%d", "secret", Safe(12)))
	if out != "user="+vS+"secret"+vE+" n=12" {
		c.fail(after+"; then Sprintf(\"user=%s n=%d\", \"secret\", Safe(12))", out,
			"an earlier call changes the classification of a later, unrelated call (a mode or override is not restored)")
	}
}

// ---------------------------------------------------------------------------------------------
// operands

type c05SafeStr string

func (c05SafeStr) SafeValue() {}

// a SafeValue with a String method
type c05SafeStringer int

func (c05SafeStringer) SafeValue()       {}
func (v c05SafeStringer) String() string { return "st" + vS + strconv.Itoa(int(v)) }

// an unsafe Stringer
type c05Stringer int

func (v c05Stringer) String() string { return "St9g" + strconv.Itoa(int(v)) }

type c05Plain string

// a plain fmt.Formatter: everything it writes to its fmt.State is unsafe
type c05PlainFmtr string

func (v c05PlainFmtr) Format(s fmt.State, verb rune) {
	_, _ = io.WriteString(s, "PF")
	_, _ = s.Write([]byte(string(verb) + ":" + string(v)))
}

// the obsolete way of declaring a message safe
type c05Msgr string

func (v c05Msgr) SafeMessage() string { return string(v) }

// types for RegisterSafeType
type c05RegInt int
type c05RegStr string
type c05RegStruct struct {
	A int
	B string
}

// a registered type that is rendered by its own String method (finding F9)
type c05RegDur int

func (d c05RegDur) String() string { return strconv.Itoa(int(d)) + "s" }

type c05RegDurHolder struct{ X interface{} }

type c05Val struct {
	kind string
	txt  string
	v    interface{}
}

type c05Arg struct {
	txt   string
	arg   interface{} // what the library gets
	ref   interface{} // what fmt gets
	safe  bool
	whole bool // not safe and under Unsafe(): structural punctuation is unsafe as well
	kind  string
}

var c05Verbs = map[string]string{
	"bool":     "vt",
	"int":      "vdboOxXcqU",
	"uint":     "vdboOxXcqU",
	"float":    "vbgGxXfFeE",
	"complex":  "vgfe",
	"string":   "vsxXq",
	"bytes":    "vdsxXq",
	"stringer": "vsqxd",
	"struct":   "v",
	"fmtr":     "vsd",
}

func c05BaseVals(tier int, hints map[string]interface{}) []c05Val {
	vals := []c05Val{
		{"bool", "true", true},
		{"int", "-42", -42},
		{"int", "int64(70493)", int64(70493)},
		{"uint", "uint(9)", uint(9)},
		{"uint", "uint8(200)", uint8(200)},
		{"float", "3.25", 3.25},
		{"float", "float32(-0.5)", float32(-0.5)},
		{"complex", "complex(1.5, -2)", complex(1.5, -2)},
		{"string", fmt.Sprintf("%q", "ab"), "ab"},
		{"string", fmt.Sprintf("%q", "a\nb"), "a\nb"},
		{"string", fmt.Sprintf("%q", "x"+vS+"y"+vE+"z"), "x" + vS + "y" + vE + "z"},
		{"bytes", "[]byte(\"hi\")", []byte("hi")},
		{"bytes", "[]byte(\"p\\nq\")", []byte("p\nq")},
	}
	if tier >= 1 {
		vals = append(vals,
			c05Val{"int", "0", 0},
			c05Val{"int", "int8(7)", int8(7)},
			c05Val{"uint", "uint64(1)<<40", uint64(1) << 40},
			c05Val{"float", "1e21", 1e21},
			c05Val{"string", `""`, ""},
			c05Val{"string", fmt.Sprintf("%q", "\n"), "\n"},
			c05Val{"string", fmt.Sprintf("%q", "é世\n\n"), "é世\n\n"},
			c05Val{"bytes", "[]byte{}", []byte{}},
			c05Val{"bytes", "[]byte(nil)", []byte(nil)},
		)
	}
	// solver model values, if any: strings and numbers become extra operands
	keys := make([]string, 0, len(hints))
	for k := range hints {
		keys = append(keys, k)
	}
	sort.Strings(keys)
	for _, k := range keys {
		switch h := hints[k].(type) {
		case string:
			if utf8.ValidString(h) && len(h) < 64 {
				vals = append(vals, c05Val{"string", fmt.Sprintf("%q", h), h})
			}
		case float64:
			if h == float64(int64(h)) {
				vals = append(vals, c05Val{"int", fmt.Sprintf("int64(%d)", int64(h)), int64(h)})
			} else {
				vals = append(vals, c05Val{"float", fmt.Sprintf("%v", h), h})
			}
		}
	}
	return vals
}

// c05Forms: the ways of passing a base value, safe and unsafe.
func c05Forms(v c05Val, tier int) []c05Arg {
	fs := []c05Arg{
		{txt: v.txt, arg: v.v, ref: v.v, kind: v.kind},
		{txt: "Safe(" + v.txt + ")", arg: Safe(v.v), ref: v.v, safe: true, kind: v.kind},
		{txt: "Unsafe(" + v.txt + ")", arg: Unsafe(v.v), ref: v.v, whole: true, kind: v.kind},
	}
	if tier >= 1 {
		fs = append(fs,
			c05Arg{txt: "Safe(Unsafe(" + v.txt + "))", arg: Safe(Unsafe(v.v)), ref: v.v, safe: true, kind: v.kind},
			c05Arg{txt: "Unsafe(Safe(" + v.txt + "))", arg: Unsafe(Safe(v.v)), ref: v.v, whole: true, kind: v.kind},
			c05Arg{txt: "reflect.ValueOf(" + v.txt + ")", arg: reflect.ValueOf(v.v), ref: reflect.ValueOf(v.v), kind: v.kind},
			c05Arg{txt: "Safe(reflect.ValueOf(" + v.txt + "))", arg: Safe(reflect.ValueOf(v.v)), ref: reflect.ValueOf(v.v), safe: true, kind: v.kind},
			c05Arg{txt: "reflect.ValueOf(Safe(" + v.txt + "))", arg: reflect.ValueOf(Safe(v.v)), ref: v.v /* fmt reaches the wrapper's Format method, which prints the wrapped value as an operand of its own */, safe: true, kind: v.kind},
			c05Arg{txt: "reflect.ValueOf(Unsafe(" + v.txt + "))", arg: reflect.ValueOf(Unsafe(v.v)), ref: v.v, whole: true, kind: v.kind},
		)
	}
	return fs
}

// c05SafeTyped: values of SafeValue types; fmt gets the very same value.
func c05SafeTyped() []c05Arg {
	mk := func(kind, txt string, v interface{}) c05Arg {
		return c05Arg{txt: txt, arg: v, ref: v, safe: true, kind: kind}
	}
	return []c05Arg{
		mk("int", "SafeInt(-42)", SafeInt(-42)),
		mk("int", "SafeInt(70493)", SafeInt(70493)),
		mk("uint", "SafeUint(9)", SafeUint(9)),
		mk("float", "SafeFloat(3.25)", SafeFloat(3.25)),
		mk("string", "SafeString(\"ab\")", SafeString("ab")),
		mk("string", fmt.Sprintf("SafeString(%q)", "x"+vS+"y"+vE+"\nz"), SafeString("x"+vS+"y"+vE+"\nz")),
		mk("int", "SafeRune('é')", SafeRune('é')),
		mk("uint", "interfaces.SafeByte('A')", c05i.SafeByte('A')),
		mk("bytes", "interfaces.SafeBytes(\"hi\")", c05SafeBytes("hi")),
		mk("string", "c05SafeStr(\"m\\nn\")", c05SafeStr("m\nn")),
		mk("stringer", "c05SafeStringer(3)", c05SafeStringer(3)),
		mk("int", "reflect.ValueOf(SafeInt(-42))", reflect.ValueOf(SafeInt(-42))),
		mk("string", "reflect.ValueOf(SafeString(\"ab\"))", reflect.ValueOf(SafeString("ab"))),
		// a SafeMessager is rendered as its message (a string) under the directive
		{txt: fmt.Sprintf("c05Msgr(%q) /*SafeMessager*/", "sm"+vS+"\ng"), arg: c05Msgr("sm" + vS + "\ng"), ref: "sm" + vS + "\ng", safe: true, kind: "string"},
	}
}

// c05UnsafeTyped: values that look like the safe ones but are not declared safe.
func c05UnsafeTyped() []c05Arg {
	return []c05Arg{
		{txt: "Unsafe(SafeInt(-42))", arg: Unsafe(SafeInt(-42)), ref: SafeInt(-42), whole: true, kind: "int"},
		{txt: "Unsafe(SafeString(\"ab\"))", arg: Unsafe(SafeString("ab")), ref: SafeString("ab"), whole: true, kind: "string"},
		{txt: "c05Plain(\"pl\")", arg: c05Plain("pl"), ref: c05Plain("pl"), kind: "string"},
		{txt: "c05Stringer(4)", arg: c05Stringer(4), ref: c05Stringer(4), kind: "stringer"},
		{txt: "c05PlainFmtr(\"x\\ny\")", arg: c05PlainFmtr("x\ny"), ref: c05PlainFmtr("x\ny"), whole: true, kind: "fmtr"},
		{txt: "c05RegInt(-7) /*not registered*/", arg: c05RegInt(-7), ref: c05RegInt(-7), kind: "int"},
		{txt: "c05RegStr(\"rs\") /*not registered*/", arg: c05RegStr("rs"), ref: c05RegStr("rs"), kind: "string"},
	}
}

func c05Directives(kind string, tier int) []string {
	flags := []string{"", "+", "-", " ", "#", "0", "+0", "-#"}
	widths := []string{"", "7"}
	precs := []string{"", ".2"}
	if tier >= 1 {
		flags = append(flags, "# ", "+#", "-+", "#0", " 0", "+ ")
		widths = []string{"", "1", "7"}
		precs = []string{"", ".0", ".2"}
	}
	if tier >= 2 {
		flags = append(flags, "+-#", "-0", "+-# 0")
		widths = append(widths, "12", "70")
		precs = append(precs, ".", ".5")
	}
	var ds []string
	for _, verb := range c05Verbs[kind] {
		for _, f := range flags {
			for _, w := range widths {
				for _, p := range precs {
					ds = append(ds, "%"+f+w+p+string(verb))
				}
			}
		}
	}
	return ds
}

func c05Verb(d string) byte { return d[len(d)-1] }

func c05SharpV(d string) bool { return c05Verb(d) == 'v' && strings.Contains(d, "#") }

// c05LeafExpect: for one top-level operand under directive d, fmt's text and what must remain of it when
// envelopes are deleted (mode: see c05Mode*).
func c05LeafExpect(a c05Arg, d string, mode int) (full, del string) {
	full = fmt.Sprintf(d, a.ref)
	switch {
	case mode == c05ModeSafe || (mode == c05ModeMixed && a.safe):
		return full, full
	case mode == c05ModeUnsafe || a.whole:
		return full, c05LFs(full)
	}
	// unsafe, but its structural punctuation is safe
	switch a.kind {
	case "complex":
		// the parentheses and the "i" are part of the rendering of the number ("the complete rendering of every
		// other argument, including its padding, sign, quotes and prefixes, is inside envelopes")
		return full, c05LFs(full)
	case "bytes":
		if v := c05Verb(d); v == 'v' || v == 'd' {
			var bs []byte
			tn := "[]byte"
			switch x := a.ref.(type) {
			case []byte:
				bs = x
			case reflect.Value:
				bs = x.Bytes()
				tn = x.Type().String() // fmt: []uint8
			}
			n := len(bs) - 1
			if n < 0 {
				n = 0
			}
			if c05SharpV(d) {
				if bs == nil {
					return full, tn + "(nil)"
				}
				return full, tn + "{" + strings.Repeat(", ", n) + "}"
			}
			return full, "[" + strings.Repeat(" ", n) + "]"
		}
	}
	return full, c05LFs(full)
}

// ---------------------------------------------------------------------------------------------
// laws A and B: one operand, every directive

var c05Lits = [][2]string{{"", ""}, {"a=", ";"}, {vS + "l", "\n" + vE}}

// entries: entry points every case goes through; rot: further entry points, one per (operand, directive) in rotation.
func (c *c05Ctx) leafGrid(la, lb *c05Law, args []c05Arg, tier int, entries []int, rot []int) {
	n := 0
	for _, a := range args {
		for _, d := range c05Directives(a.kind, tier) {
			if c.full() {
				return
			}
			lits := c05Lits
			if tier < 2 {
				lits = c05Lits[n%3 : n%3+1]
			}
			n++
			ents := entries
			if len(rot) > 0 {
				ents = append(append([]int{}, entries...), rot[n%len(rot)])
			}
			for _, lit := range lits {
				format := lit[0] + d + lit[1]
				for _, ei := range ents {
					e := c05Entries[ei]
					if e.mode == c05ModeSafe && strings.HasPrefix(a.txt, "Unsafe(Safe(") {
						// below an enclosing Safe(), a Safe() wrapper is rendered through its SafeMessage
						// string (rendering fidelity, property C04): not a valid directive/operand pair here
						continue
					}
					full, del := c05LeafExpect(a, d, e.mode)
					call := e.call(format, ", "+a.txt)
					out, ran := c.run(call, func() string { return e.run(format, []interface{}{a.arg}) })
					if !ran {
						continue
					}
					wantDel := c05Q(lit[0]) + c05Q(del) + c05Q(lit[1])
					if e.mode == c05ModeUnsafe {
						wantDel = c05LFs(lit[0] + full + lit[1])
					}
					wantStrip := c05Q(lit[0] + full + lit[1])
					flagged := len(d) > 2
					if a.safe {
						ok := c.check(la, call, out, wantDel, wantStrip, flagged)
						if ok && e.mode != c05ModeUnsafe && strings.Contains(out, vS) {
							c.fail(call, out, "a declared-safe operand produces an envelope")
						}
					} else {
						c.check(lb, call, out, wantDel, wantStrip, full != "" && lit[0] != "")
					}
					if e.mode != c05ModeMixed {
						c.canary(la, call)
					}
				}
			}
		}
	}
}

func c05AllEntries() []int {
	r := make([]int, len(c05Entries))
	for k := range r {
		r[k] = k
	}
	return r
}

// ---------------------------------------------------------------------------------------------
// law C: argument lists and compound values; sentinel cut-out oracle

// c05Cut removes from full (fmt's text) the renderings of the unsafe leaves (keeping their line feeds).
// It refuses (ok=false) when a rendering does not occur exactly as often as there are leaves with it.
func c05Cut(full string, parts []string) (string, bool) {
	mult := map[string]int{}
	for _, p := range parts {
		if p == "" {
			continue
		}
		mult[p]++
	}
	keys := make([]string, 0, len(mult))
	for k := range mult {
		keys = append(keys, k)
	}
	sort.Slice(keys, func(i, j int) bool {
		if len(keys[i]) != len(keys[j]) {
			return len(keys[i]) > len(keys[j])
		}
		return keys[i] < keys[j]
	})
	for _, k := range keys {
		if strings.Count(full, k) != mult[k] {
			return "", false
		}
	}
	for _, k := range keys {
		full = strings.ReplaceAll(full, k, c05LFs(k))
	}
	return full, true
}

type c05Leaf struct {
	txt  string
	arg  interface{}
	ref  interface{}
	safe bool
}

func c05Leaves(tier int) []c05Leaf {
	ls := []c05Leaf{
		{"\"Zq7\"", "Zq7", "Zq7", false},
		{"70493", 70493, 70493, false},
		{"SafeInt(5)", SafeInt(5), SafeInt(5), true},
		{"Safe(\"sv\")", Safe("sv"), "sv", true},
		{"SafeString(\"ok\")", SafeString("ok"), SafeString("ok"), true},
		{"\"k\\nw\"", "k\nw", "k\nw", false},
		{"Unsafe(SafeInt(61616))", Unsafe(SafeInt(61616)), SafeInt(61616), false},
		// a SafeValue that is rendered by its own String method (seed C05-3: the safe override must already be
		// in force when the method is dispatched, also for an element held in an interface-typed slot)
		{"c05SafeStringer(3)", c05SafeStringer(3), c05SafeStringer(3), true},
	}
	if tier >= 1 {
		ls = append(ls,
			// no Safe(8): in an interface-typed slice/map slot a Safe() wrapper is rendered through its SafeMessage
			// string ("%x" gives 38, "%#v" gives "8"): visible as it must be, but not fmt's text (fidelity, C04)
			c05Leaf{"Safe(\"t\\nu\")", Safe("t\nu"), "t\nu", true},
			c05Leaf{"c05SafeStr(\"m\")", c05SafeStr("m"), c05SafeStr("m"), true},
			c05Leaf{"c05Plain(\"Pz4\")", c05Plain("Pz4"), c05Plain("Pz4"), false},
			c05Leaf{"c05Stringer(987)", c05Stringer(987), c05Stringer(987), false},
			c05Leaf{"c05PlainFmtr(\"Fm2\")", c05PlainFmtr("Fm2"), c05PlainFmtr("Fm2"), false},
			c05Leaf{"c05Msgr(\"mg\")", c05Msgr("mg"), "mg", true},
		)
	}
	return ls
}

type c05IS2 struct{ A, B interface{} }
type c05IS3 struct {
	A interface{}
	B interface{}
	C interface{}
}
type c05Nest struct {
	X c05IS2
	Y []interface{}
}
type c05S1 struct {
	A SafeInt
	B string
}
type c05S2 struct {
	A string
	B SafeString
	C int
	D SafeFloat
}
type c05S3 struct {
	Q c05S1
	R [2]SafeString
	S []string
}

// a shape builds the same container twice (library operand, fmt operand) from n leaves and tells
// which further unsafe leaves (e.g. map keys) it adds itself.
type c05Shape struct {
	txt   string
	n     int
	build func(vs []interface{}) interface{}
	extra []interface{} // unsafe leaves contributed by the shape (rendered with the same directive)
}

func c05Shapes(tier int) []c05Shape {
	sh := []c05Shape{
		{"[]interface{}{%s, %s}", 2, func(v []interface{}) interface{} { return []interface{}{v[0], v[1]} }, nil},
		{"c05IS2{%s, %s}", 2, func(v []interface{}) interface{} { return c05IS2{v[0], v[1]} }, nil},
		{"map[string]interface{}{\"Ka1\": %s, \"Kb2\": %s}", 2, func(v []interface{}) interface{} {
			return map[string]interface{}{"Ka1": v[0], "Kb2": v[1]}
		}, []interface{}{"Ka1", "Kb2"}},
		{"map[SafeString]interface{}{\"ka\": %s, \"kb\": %s}", 2, func(v []interface{}) interface{} {
			return map[SafeString]interface{}{"ka": v[0], "kb": v[1]}
		}, nil},
		{"&c05IS2{%s, %s}", 2, func(v []interface{}) interface{} { return &c05IS2{v[0], v[1]} }, nil},
		{"[]interface{}{c05IS2{%s, %s}, %s}", 3, func(v []interface{}) interface{} {
			return []interface{}{c05IS2{v[0], v[1]}, v[2]}
		}, nil},
	}
	if tier >= 1 {
		sh = append(sh,
			c05Shape{"[2]interface{}{%s, %s}", 2, func(v []interface{}) interface{} { return [2]interface{}{v[0], v[1]} }, nil},
			c05Shape{"reflect.ValueOf(c05IS2{%s, %s})", 2, func(v []interface{}) interface{} { return reflect.ValueOf(c05IS2{v[0], v[1]}) }, nil},
			c05Shape{"map[interface{}]interface{}{%s: %s}", 2, func(v []interface{}) interface{} {
				return map[interface{}]interface{}{v[0]: v[1]}
			}, nil},
			c05Shape{"c05IS3{%s, %s, %s}", 3, func(v []interface{}) interface{} { return c05IS3{v[0], v[1], v[2]} }, nil},
			c05Shape{"c05Nest{X: c05IS2{%s, %s}, Y: []interface{}{%s}}", 3, func(v []interface{}) interface{} {
				return c05Nest{c05IS2{v[0], v[1]}, []interface{}{v[2]}}
			}, nil},
			c05Shape{"map[SafeString]interface{}{\"ka\": []interface{}{%s, %s}, \"kb\": %s}", 3, func(v []interface{}) interface{} {
				return map[SafeString]interface{}{"ka": []interface{}{v[0], v[1]}, "kb": v[2]}
			}, nil},
			c05Shape{"[]interface{}{[]interface{}{[]interface{}{%s}, %s}, %s}", 3, func(v []interface{}) interface{} {
				return []interface{}{[]interface{}{[]interface{}{v[0]}, v[1]}, v[2]}
			}, nil},
		)
	}
	return sh
}

var c05CompoundDirs = [][]string{
	{"%v", "%+v", "%#v", "%7v", "%-7v", "%x", "%q"},
	{"%v", "%+v", "%#v", "%7v", "%-7v", "%x", "%q", "%s", "%X", "%07v", "%+7v", "% x", "%.2v", "%9.2q", "%#x", "%#q", "%+q", "%d"},
}

// c05Static: statically typed compounds; fmt gets the same value; unsafe leaves listed.
type c05StaticCase struct {
	txt    string
	v      interface{}
	unsafe []interface{}
	mixed  bool
}

func c05Statics() []c05StaticCase {
	s1 := c05S1{5, "Zq7"}
	return []c05StaticCase{
		{"c05S1{5, \"Zq7\"}", s1, []interface{}{"Zq7"}, true},
		{"&c05S1{5, \"Zq7\"}", &s1, []interface{}{"Zq7"}, true},
		{"c05S1{5, \"k\\nw\"}", c05S1{5, "k\nw"}, []interface{}{"k\nw"}, true},
		{"c05S2{\"Zq7\", \"ok\", 70493, 2.5}", c05S2{"Zq7", "ok", 70493, 2.5}, []interface{}{"Zq7", 70493}, true},
		{"[]SafeInt{1, 2, 3}", []SafeInt{1, 2, 3}, nil, false},
		{"[]string{\"Zq7\", \"Wx3\"}", []string{"Zq7", "Wx3"}, []interface{}{"Zq7", "Wx3"}, false},
		{"[2]c05S1{{5, \"Zq7\"}, {6, \"Wx3\"}}", [2]c05S1{{5, "Zq7"}, {6, "Wx3"}}, []interface{}{"Zq7", "Wx3"}, true},
		{"map[string]SafeInt{\"Zq7\": 1, \"Wx3\": 2}", map[string]SafeInt{"Zq7": 1, "Wx3": 2}, []interface{}{"Zq7", "Wx3"}, true},
		{"map[SafeString]string{\"ka\": \"Zq7\", \"kb\": \"Wx3\"}", map[SafeString]string{"ka": "Zq7", "kb": "Wx3"}, []interface{}{"Zq7", "Wx3"}, true},
		{"map[SafeInt]int{1: 70493, 2: 81726}", map[SafeInt]int{1: 70493, 2: 81726}, []interface{}{70493, 81726}, true},
		{"c05S3{c05S1{5, \"Zq7\"}, [2]SafeString{\"ra\", \"rb\"}, []string{\"Wx3\"}}",
			c05S3{c05S1{5, "Zq7"}, [2]SafeString{"ra", "rb"}, []string{"Wx3"}}, []interface{}{"Zq7", "Wx3"}, true},
		{"struct{A SafeString; B []byte}{\"ok\", []byte(\"Zq7\")} (%s,%x,%q only)", struct {
			A SafeString
			B []byte
		}{"ok", []byte("Zq7")}, []interface{}{[]byte("Zq7")}, true},
	}
}

// compoundCase checks one format with operands (arg/ref pairs) whose unsafe leaves are given with the
// directive that applies to each.
func (c *c05Ctx) compoundCase(l *c05Law, format, argsTxt string, args, refs []interface{}, parts []string, mixed bool, entries []int) {
	full := fmt.Sprintf(format, refs...)
	if strings.Contains(full, "%!") {
		return // a verb that is not valid for one of the leaves: outside the quantifier
	}
	del, ok := c05Cut(full, parts)
	if !ok {
		l.unreliable++
		if os.Getenv("C05_DEBUG") != "" {
			fmt.Printf("UNRELIABLE %q %s full=%q parts=%q\n", format, argsTxt, full, parts)
		}
		return
	}
	for _, ei := range entries {
		if c.full() {
			return
		}
		e := c05Entries[ei]
		call := e.call(format, argsTxt)
		out, ran := c.run(call, func() string { return e.run(format, args) })
		if !ran {
			continue
		}
		wantDel := c05Q(del)
		switch e.mode {
		case c05ModeSafe:
			wantDel = c05Q(full)
		case c05ModeUnsafe:
			wantDel = c05LFs(full)
		}
		c.check(l, call, out, wantDel, c05Q(full), mixed && e.mode == c05ModeMixed)
		if e.mode != c05ModeMixed {
			c.canary(l, call)
		}
	}
}

func (c *c05Ctx) compounds(l *c05Law, tier int, entries []int) {
	leaves := c05Leaves(tier)
	dirs := c05CompoundDirs[0]
	if tier >= 1 {
		dirs = c05CompoundDirs[1]
	}
	allEntries := entries
	for _, sh := range c05Shapes(tier) {
		entries = allEntries
		if tier < 2 && sh.n == 3 && len(entries) > 3 {
			// quick tiers: the 3-leaf shapes go through Sprintf and the two override contexts only
			entries = []int{allEntries[0], allEntries[len(allEntries)-2], allEntries[len(allEntries)-1]}
		}
		idx := make([]int, sh.n)
		for {
			argv := make([]interface{}, sh.n)
			refv := make([]interface{}, sh.n)
			txts := make([]interface{}, sh.n)
			nsafe, nunsafe := 0, 0
			for k, j := range idx {
				argv[k], refv[k], txts[k] = leaves[j].arg, leaves[j].ref, leaves[j].txt
				if leaves[j].safe {
					nsafe++
				} else {
					nunsafe++
				}
			}
			{
				arg, ref := sh.build(argv), sh.build(refv)
				txt := fmt.Sprintf(sh.txt, txts...)
				for _, d := range dirs {
					if c.full() {
						return
					}
					var parts []string
					for k, j := range idx {
						if !leaves[j].safe {
							parts = append(parts, fmt.Sprintf(d, refv[k]))
						}
					}
					for _, x := range sh.extra {
						parts = append(parts, fmt.Sprintf(d, x))
					}
					mixed := nsafe > 0 && nunsafe+len(sh.extra) > 0
					c.compoundCase(l, "<"+d+">", ", "+txt, []interface{}{arg}, []interface{}{ref}, parts, mixed, entries)
					if tier >= 1 {
						// the compound between a safe and an unsafe top-level operand: restoration after each
						partsX := append(append([]string{}, parts...), fmt.Sprintf("%5d", 33221))
						c.compoundCase(l, "%s:"+d+"|%5d|%s", ", Safe(\"ts\"), "+txt+", 33221, Safe(\"ts\")",
							[]interface{}{Safe("ts"), arg, 33221, Safe("ts")}, []interface{}{"ts", ref, 33221, "ts"}, partsX, true, entries[:1])
					}
				}
			}
			// next tuple
			k := 0
			for ; k < sh.n; k++ {
				idx[k]++
				if idx[k] < len(leaves) {
					break
				}
				idx[k] = 0
			}
			if k == sh.n {
				break
			}
		}
	}
	// statically typed compounds
	entries = allEntries
	for _, sc := range c05Statics() {
		ds := dirs
		if strings.Contains(sc.txt, "only)") {
			ds = []string{"%s", "%x", "%q", "%9s", "%-9q", "% X"}
		}
		for _, d := range ds {
			var parts []string
			for _, u := range sc.unsafe {
				parts = append(parts, fmt.Sprintf(d, u))
			}
			c.compoundCase(l, "["+d+"]", ", "+sc.txt, []interface{}{sc.v}, []interface{}{sc.v}, parts, sc.mixed, entries)
			if rv := reflect.ValueOf(sc.v); tier >= 1 {
				c.compoundCase(l, "["+d+"]", ", reflect.ValueOf("+sc.txt+")", []interface{}{rv}, []interface{}{rv}, parts, sc.mixed, entries[:1])
			}
		}
	}
}

// argument lists of top-level operands: pairs (and triples) of (operand, directive) items
type c05Item struct {
	a c05Arg
	d string
}

func c05Items(tier int) []c05Item {
	it := []c05Item{
		{c05Arg{txt: "\"Zq7\"", arg: "Zq7", ref: "Zq7", kind: "string"}, "%s"},
		{c05Arg{txt: "\"u\\nv\"", arg: "u\nv", ref: "u\nv", kind: "string"}, "%-6q"},
		{c05Arg{txt: "70493", arg: 70493, ref: 70493, kind: "int"}, "%+08d"},
		{c05Arg{txt: "2.5", arg: 2.5, ref: 2.5, kind: "float"}, "%7.2f"},
		{c05Arg{txt: "Unsafe(SafeInt(3))", arg: Unsafe(SafeInt(3)), ref: 3, whole: true, kind: "int"}, "%v"},
		{c05Arg{txt: "Safe(\"sv\")", arg: Safe("sv"), ref: "sv", safe: true, kind: "string"}, "%5s"},
		{c05Arg{txt: "Safe(-12)", arg: Safe(-12), ref: -12, safe: true, kind: "int"}, "%#x"},
		{c05Arg{txt: "SafeInt(5)", arg: SafeInt(5), ref: SafeInt(5), safe: true, kind: "int"}, "%03d"},
		{c05Arg{txt: fmt.Sprintf("SafeString(%q)", "o"+vS+"\nk"), arg: SafeString("o" + vS + "\nk"), ref: SafeString("o" + vS + "\nk"), safe: true, kind: "string"}, "%v"},
		{c05Arg{txt: "SafeFloat(1.5)", arg: SafeFloat(1.5), ref: SafeFloat(1.5), safe: true, kind: "float"}, "%-8.3e"},
	}
	if tier >= 1 {
		it = append(it,
			c05Item{c05Arg{txt: "true", arg: true, ref: true, kind: "bool"}, "%6t"},
			c05Item{c05Arg{txt: "complex(1.5, -2)", arg: complex(1.5, -2), ref: complex(1.5, -2), kind: "complex"}, "%.1f"},
			c05Item{c05Arg{txt: "[]byte(\"hi\")", arg: []byte("hi"), ref: []byte("hi"), kind: "bytes"}, "%v"},
			c05Item{c05Arg{txt: "[]byte(\"hi\")", arg: []byte("hi"), ref: []byte("hi"), kind: "bytes"}, "% x"},
			c05Item{c05Arg{txt: "c05Stringer(4)", arg: c05Stringer(4), ref: c05Stringer(4), kind: "stringer"}, "%s"},
			c05Item{c05Arg{txt: "reflect.ValueOf(\"rv\")", arg: reflect.ValueOf("rv"), ref: reflect.ValueOf("rv"), kind: "string"}, "%q"},
			c05Item{c05Arg{txt: "Safe(Unsafe(\"su\"))", arg: Safe(Unsafe("su")), ref: "su", safe: true, kind: "string"}, "%-4s"},
			c05Item{c05Arg{txt: "c05SafeStringer(3)", arg: c05SafeStringer(3), ref: c05SafeStringer(3), safe: true, kind: "stringer"}, "%v"},
			c05Item{c05Arg{txt: "Safe(true)", arg: Safe(true), ref: true, safe: true, kind: "bool"}, "%v"},
			c05Item{c05Arg{txt: "c05SafeStr(\"m\")", arg: c05SafeStr("m"), ref: c05SafeStr("m"), safe: true, kind: "string"}, "%x"},
		)
	}
	return it
}

var c05Seps = []string{"", " ", ", k=", vE + "\n" + vS}

func (c *c05Ctx) argLists(l *c05Law, tier int, entries []int) {
	items := c05Items(tier)
	maxLen := 2
	if tier >= 2 {
		maxLen = 3
	}
	n := 0
	var rec func(sel []int)
	rec = func(sel []int) {
		if c.full() {
			return
		}
		if len(sel) >= 2 {
			n++
			sep := c05Seps[n%len(c05Seps)]
			pre, post := "", ""
			if n%3 == 0 {
				pre, post = "[", "]"
			}
			format := pre
			argsTxt := ""
			var args, refs []interface{}
			nsafe, nunsafe := 0, 0
			for k, j := range sel {
				if k > 0 {
					format += sep
				}
				format += items[j].d
				argsTxt += ", " + items[j].a.txt
				args = append(args, items[j].a.arg)
				refs = append(refs, items[j].a.ref)
				if items[j].a.safe {
					nsafe++
				} else {
					nunsafe++
				}
			}
			format += post
			for _, ei := range entries {
				e := c05Entries[ei]
				wantDel, wantFull := c05Q(pre), c05Q(pre)
				for k, j := range sel {
					if k > 0 {
						wantDel += c05Q(sep)
						wantFull += c05Q(sep)
					}
					full, del := c05LeafExpect(items[j].a, items[j].d, e.mode)
					wantDel += c05Q(del)
					wantFull += c05Q(full)
				}
				wantDel += post
				wantFull += post
				if e.mode == c05ModeUnsafe {
					wantDel = c05LFs(wantFull)
				}
				if ref := c05Q(fmt.Sprintf(format, refs...)); ref != wantFull {
					c.t.Fatalf("harness: piecewise fmt text %q differs from fmt.Sprintf(%q, ...) = %q", wantFull, format, ref)
				}
				if out, ran := c.run(e.call(format, argsTxt), func() string { return e.run(format, args) }); ran {
					c.check(l, e.call(format, argsTxt), out, wantDel, wantFull, nsafe > 0 && nunsafe > 0 && e.mode == c05ModeMixed)
				}
				if e.mode != c05ModeMixed {
					c.canary(l, e.call(format, argsTxt))
				}
			}
		}
		if len(sel) == maxLen {
			return
		}
		for j := range items {
			rec(append(append([]int{}, sel...), j))
		}
	}
	rec(nil)

	// Sprint / Sprintln: fmt's own spacing rule, fmt gets the same operands (Safe()/Unsafe() wrappers are fmt.Formatters)
	for _, x := range items {
		for _, y := range items {
			if c.full() {
				return
			}
			px, py := fmt.Sprint(x.a.arg), fmt.Sprint(y.a.arg)
			_, dx := c05LeafExpect(c05Arg{ref: x.a.arg, safe: x.a.safe, whole: x.a.whole, kind: x.a.kind}, "%v", c05ModeMixed)
			_, dy := c05LeafExpect(c05Arg{ref: y.a.arg, safe: y.a.safe, whole: y.a.whole, kind: y.a.kind}, "%v", c05ModeMixed)
			sp := ""
			if reflect.TypeOf(x.a.arg).Kind() != reflect.String && reflect.TypeOf(y.a.arg).Kind() != reflect.String {
				sp = " " // fmt: "Spaces are added between operands when neither is a string"
			}
			full := fmt.Sprint(x.a.arg, y.a.arg)
			if full != px+sp+py {
				c.t.Fatalf("harness: Sprint pieces %q %q %q vs %q", px, sp, py, full)
			}
			mixed := x.a.safe != y.a.safe
			argsTxt := x.a.txt + ", " + y.a.txt
			c.check(l, "Sprint("+argsTxt+")", string(Sprint(x.a.arg, y.a.arg)), c05Q(dx+sp+dy), c05Q(full), mixed)
			c.check(l, "rfmt.Sprintln("+argsTxt+")", string(c05rfmt.Sprintln(x.a.arg, y.a.arg)), c05Q(dx+" "+dy+"\n"), c05Q(px+" "+py+"\n"), mixed)
			c.check(l, "Sprintfn(func(w){w.Print("+argsTxt+")})", string(Sprintfn(func(w SafePrinter) { w.Print(x.a.arg, y.a.arg) })), c05Q(dx+sp+dy), c05Q(full), mixed)
			var b StringBuilder
			b.Print(x.a.arg, y.a.arg)
			c.check(l, "StringBuilder{Print("+argsTxt+")}", string(b.RedactableString()), c05Q(dx+sp+dy), c05Q(full), mixed)
		}
	}

	// explicit argument indexes and star width/precision: the width operands are not rendered
	type star struct {
		format, argsTxt string
		args, refs      []interface{}
		del             string
	}
	stars := []star{
		{"%*d|", ", 6, 70493", []interface{}{6, 70493}, []interface{}{6, 70493}, "|"},
		{"%*d|", ", 6, Safe(70493)", []interface{}{6, Safe(70493)}, []interface{}{6, 70493}, " 70493|"},
		{"%-*.*f|%s", ", 9, 2, SafeFloat(2.5), \"Zq7\"", []interface{}{9, 2, SafeFloat(2.5), "Zq7"}, []interface{}{9, 2, SafeFloat(2.5), "Zq7"}, "2.50     |"},
		{"%-*.*f|%s", ", 9, 2, 2.5, Safe(\"sv\")", []interface{}{9, 2, 2.5, Safe("sv")}, []interface{}{9, 2, 2.5, "sv"}, "|sv"},
		{"%[2]s %[1]d %[2]q", ", Safe(7), \"Zq7\"", []interface{}{Safe(7), "Zq7"}, []interface{}{7, "Zq7"}, " 7 "},
		{"%[2]s %[1]d %[2]q", ", 7, Safe(\"sv\")", []interface{}{7, Safe("sv")}, []interface{}{7, "sv"}, "sv  \"sv\""},
		{"%[3]*.[2]*[1]f;", ", Safe(12.0), 2, 8", []interface{}{Safe(12.0), 2, 8}, []interface{}{12.0, 2, 8}, "   12.00;"},
		{"%%%d%%", ", 70493", []interface{}{70493}, []interface{}{70493}, "%%"},
		{"%T %T", ", \"Zq7\", SafeInt(1)", []interface{}{"Zq7", SafeInt(1)}, []interface{}{"Zq7", SafeInt(1)}, "string interfaces.SafeInt"},
		{"%08.3f|%+.2e|%x", ", -2.5, Safe(1234.5), \"Zq7\"", []interface{}{-2.5, Safe(1234.5), "Zq7"}, []interface{}{-2.5, 1234.5, "Zq7"}, "|+1.23e+03|"},
	}
	for _, s := range stars {
		full := fmt.Sprintf(s.format, s.refs...)
		if strings.Contains(full, "%!") {
			// Safe() wrapped width operands are not ints for fmt either: outside the quantifier
			continue
		}
		for _, ei := range entries {
			e := c05Entries[ei]
			wantDel := s.del
			switch e.mode {
			case c05ModeSafe:
				wantDel = full
			case c05ModeUnsafe:
				wantDel = c05LFs(full)
			}
			c.check(l, e.call(s.format, s.argsTxt), e.run(s.format, s.args), wantDel, full, e.mode == c05ModeMixed)
		}
	}
}

// ---------------------------------------------------------------------------------------------
// law D: SafePrinter scripts

type c05W interface {
	SafeWriter
	io.Writer
}

type c05Op struct {
	txt  string
	run  func(w c05W)
	full string // text contributed (markers already replaced by '?')
	del  string // what remains outside envelopes when no override is active
	safe bool   // a safe emitter
	uns  bool   // an unsafe emitter
}

type c05SF struct{ ops []c05Op }

func (o c05SF) SafeFormat(w SafePrinter, _ rune) {
	for _, op := range o.ops {
		op.run(w)
	}
}

// the same, but also a SafeValue
type c05SVSF struct{ ops []c05Op }

func (o c05SVSF) SafeValue() {}
func (o c05SVSF) SafeFormat(w SafePrinter, _ rune) {
	for _, op := range o.ops {
		op.run(w)
	}
}

// the same, of a type that gets registered
type c05RegSF struct{ ops []c05Op }

func (o c05RegSF) SafeFormat(w SafePrinter, _ rune) {
	for _, op := range o.ops {
		op.run(w)
	}
}

// SafeFormatter and fmt.Formatter at once (the latter is what is used below an Unsafe())
type c05Both struct{ ops []c05Op }

func (o c05Both) SafeFormat(w SafePrinter, _ rune) {
	for _, op := range o.ops {
		op.run(w)
	}
}

func (o c05Both) Format(s fmt.State, _ rune) {
	w := s.(SafePrinter)
	for _, op := range o.ops {
		op.run(w)
	}
}

// a plain fmt.Formatter that finds the SafePrinter behind its fmt.State
type c05FS struct{ ops []c05Op }

func (o c05FS) Format(s fmt.State, _ rune) {
	w := s.(SafePrinter)
	for _, op := range o.ops {
		op.run(w)
	}
}

func c05Ops(tier int) []c05Op {
	safe := func(txt string, run func(w c05W), text string) c05Op {
		return c05Op{txt: txt, run: run, full: c05Q(text), del: c05Q(text), safe: true}
	}
	uns := func(txt string, run func(w c05W), text string) c05Op {
		return c05Op{txt: txt, run: run, full: c05Q(text), del: c05LFs(text), uns: true}
	}
	inner := c05Both{[]c05Op{
		uns("", func(w c05W) { w.UnsafeString("iu") }, "iu"),
		safe("", func(w c05W) { w.SafeString("is") }, "is"),
	}}
	mk := vS + "m" + vE
	ops := []c05Op{
		safe("w.SafeString(\"s1\")", func(w c05W) { w.SafeString("s1") }, "s1"),
		safe("w.SafeInt(-12)", func(w c05W) { w.SafeInt(-12) }, strconv.Itoa(-12)),
		safe("w.SafeRune('é')", func(w c05W) { w.SafeRune('é') }, "é"),
		uns("w.UnsafeString(\"us\")", func(w c05W) { w.UnsafeString("us") }, "us"),
		uns("w.UnsafeString(\"u\\nv\")", func(w c05W) { w.UnsafeString("u\nv") }, "u\nv"),
		uns("w.UnsafeByte('c')", func(w c05W) { w.UnsafeByte('c') }, "c"),
		uns("fmt.Fprintf(w, \"%d.\", 77)", func(w c05W) { fmt.Fprintf(w, "%d.", 77) }, "77."),
		{txt: "w.Printf(\"f=%d|%s;\", Safe(1), \"pf\")", run: func(w c05W) { w.Printf("f=%d|%s;", Safe(1), "pf") },
			full: "f=1|pf;", del: "f=1|;", safe: true, uns: true},
		{txt: "w.Print(\"pu\", Safe(\"ps\"), 3)", run: func(w c05W) { w.Print("pu", Safe("ps"), 3) },
			full: fmt.Sprint("pu", Safe("ps"), 3), del: "ps ", safe: true, uns: true},
		{txt: "w.Printf(\"%v,\", obj{w.UnsafeString(\"iu\"); w.SafeString(\"is\")})", run: func(w c05W) { w.Printf("%v,", inner) },
			full: "iuis,", del: "is,", safe: true, uns: true},
	}
	if tier >= 1 {
		ops = append(ops,
			safe(fmt.Sprintf("w.SafeString(%q)", mk+"\n"), func(w c05W) { w.SafeString(SafeString(mk + "\n")) }, mk+"\n"),
			safe("w.SafeUint(34)", func(w c05W) { w.SafeUint(34) }, strconv.FormatUint(34, 10)),
			safe("w.SafeUint(math.MaxUint64)", func(w c05W) { w.SafeUint(math.MaxUint64) }, strconv.FormatUint(math.MaxUint64, 10)),
			safe("w.SafeInt(math.MinInt64)", func(w c05W) { w.SafeInt(math.MinInt64) }, strconv.FormatInt(math.MinInt64, 10)),
			safe("w.SafeFloat(2.5)", func(w c05W) { w.SafeFloat(2.5) }, fmt.Sprint(2.5)),
			safe("w.SafeByte('B')", func(w c05W) { w.SafeByte('B') }, "B"),
			safe("w.SafeBytes(\"sb\")", func(w c05W) { w.SafeBytes(c05SafeBytes("sb")) }, "sb"),
			uns("w.UnsafeBytes(\"ub\")", func(w c05W) { w.UnsafeBytes([]byte("ub")) }, "ub"),
			uns("w.UnsafeRune('ü')", func(w c05W) { w.UnsafeRune('ü') }, "ü"),
			uns(fmt.Sprintf("w.UnsafeString(%q)", mk), func(w c05W) { w.UnsafeString(mk) }, mk),
			c05Op{txt: "w.Print(Safe(obj{w.UnsafeString(\"iu\"); w.SafeString(\"is\")}), \"x\")", run: func(w c05W) { w.Print(Safe(inner), "x") },
				full: "iuisx", del: "iuis", safe: true, uns: true},
			c05Op{txt: "w.Printf(\"%5d|%-5s|\", SafeInt(4), \"q\")", run: func(w c05W) { w.Printf("%5d|%-5s|", SafeInt(4), "q") },
				full: "    4|q    |", del: "    4||", safe: true, uns: true},
			c05Op{txt: "w.Print(c05S1{5, \"Zq7\"})", run: func(w c05W) { w.Print(c05S1{5, "Zq7"}) },
				full: "{5 Zq7}", del: "{5 }", safe: true, uns: true},
		)
	}
	return ops
}

type c05ScriptCtx struct {
	call     func(script string) string
	run      func(ops []c05Op) string
	mode     int
	pre      string // text around the script in the output: before, after (envelopes deleted), after (stripped)
	post     string
	postFull string
}

func c05ScriptCtxs(tier int) []c05ScriptCtx {
	cs := []c05ScriptCtx{
		{func(s string) string { return "Sprintfn(func(w SafePrinter){" + s + "})" },
			func(ops []c05Op) string {
				return string(Sprintfn(func(w SafePrinter) {
					for _, op := range ops {
						op.run(w)
					}
				}))
			}, c05ModeMixed, "", "", ""},
		{func(s string) string { return "var w StringBuilder; " + s + "; w.RedactableString()" },
			func(ops []c05Op) string {
				var b StringBuilder
				for _, op := range ops {
					op.run(&b)
				}
				return string(b.RedactableString())
			}, c05ModeMixed, "", "", ""},
		{func(s string) string { return "Sprintf(\"a %v b\", obj) with obj.SafeFormat(w,_){" + s + "}" },
			func(ops []c05Op) string { return string(Sprintf("a %v b", c05SF{ops})) }, c05ModeMixed, "a ", " b", " b"},
		{func(s string) string { return "Sprintf(\"a %v b\", Safe(obj)) with obj.SafeFormat(w,_){" + s + "}" },
			func(ops []c05Op) string { return string(Sprintf("a %v b", Safe(c05SF{ops}))) }, c05ModeSafe, "a ", " b", " b"},
		{func(s string) string {
			return "Sprintf(\"a %v b\", Unsafe(obj)) with obj.Format(s,_){w := s.(SafePrinter); " + s + "}"
		},
			func(ops []c05Op) string { return string(Sprintf("a %v b", Unsafe(c05FS{ops}))) }, c05ModeUnsafe, "a ", " b", " b"},
	}
	if tier >= 1 {
		cs = append(cs,
			c05ScriptCtx{func(s string) string { return "Sprint(obj, 70493) with obj.SafeFormat(w,_){" + s + "}" },
				func(ops []c05Op) string { return string(Sprint(c05SF{ops}, 70493)) }, c05ModeMixed, "", " ", " 70493"},
			c05ScriptCtx{func(s string) string {
				return "Sprintf(\"%s|%d\", obj, 70493) with obj a SafeValue and obj.SafeFormat(w,_){" + s + "}"
			},
				func(ops []c05Op) string { return string(Sprintf("%s|%d", c05SVSF{ops}, 70493)) }, c05ModeSafe, "", "|", "|70493"},
			c05ScriptCtx{func(s string) string {
				return "Sprintf(\"%v\", []interface{}{obj, \"Zq7\", SafeInt(5)}) with obj.SafeFormat(w,_){" + s + "}"
			},
				func(ops []c05Op) string { return string(Sprintf("%v", []interface{}{c05SF{ops}, "Zq7", SafeInt(5)})) }, c05ModeMixed, "[", "  5]", " Zq7 5]"},
			c05ScriptCtx{func(s string) string {
				return "Sprintf(\"%v\", c05IS2{SafeString(\"q\"), obj}) with obj.SafeFormat(w,_){" + s + "}"
			},
				func(ops []c05Op) string { return string(Sprintf("%v", c05IS2{SafeString("q"), c05SF{ops}})) }, c05ModeMixed, "{q ", "}", "}"},
			c05ScriptCtx{func(s string) string {
				return "Sprintfn(func(w){w.Print(Unsafe(obj)); w.SafeString(\"z\")}) with obj.Format(s,_){w := s.(SafePrinter); " + s + "}"
			},
				func(ops []c05Op) string {
					return string(Sprintfn(func(w SafePrinter) { w.Print(Unsafe(c05FS{ops})); w.SafeString("z") }))
				}, c05ModeUnsafe, "", "z", "z"},
			c05ScriptCtx{func(s string) string {
				return "Sprintf(\"%v;\", &obj) with obj.SafeFormat(w,_){" + s + "}"
			},
				func(ops []c05Op) string { return string(Sprintf("%v;", &c05SF{ops})) }, c05ModeMixed, "", ";", ";"},
		)
	}
	return cs
}

func (c *c05Ctx) scripts(l *c05Law, tier int, maxLen int, withReg bool) {
	ops := c05Ops(tier)
	ctxs := c05ScriptCtxs(tier)
	if withReg {
		ctxs = append(ctxs, c05ScriptCtx{func(s string) string {
			return "RegisterSafeType(typeof obj); Sprintf(\"a %v b\", obj) with obj.SafeFormat(w,_){" + s + "}"
		},
			func(ops []c05Op) string { return string(Sprintf("a %v b", c05RegSF{ops})) }, c05ModeSafe, "a ", " b", " b"})
	}
	var rec func(sel []int)
	rec = func(sel []int) {
		if c.full() {
			return
		}
		if len(sel) > 0 {
			script := make([]c05Op, len(sel))
			var txts []string
			full, del := "", ""
			hasSafe, hasUnsafe := false, false
			for k, j := range sel {
				script[k] = ops[j]
				txts = append(txts, ops[j].txt)
				full += ops[j].full
				del += ops[j].del
				hasSafe = hasSafe || ops[j].safe
				hasUnsafe = hasUnsafe || ops[j].uns
			}
			for _, x := range ctxs {
				wantDel := del
				switch x.mode {
				case c05ModeSafe:
					wantDel = full
				case c05ModeUnsafe:
					wantDel = c05LFs(full)
				}
				call := x.call(strings.Join(txts, "; "))
				if out, ran := c.run(call, func() string { return x.run(script) }); ran {
					c.check(l, call, out, x.pre+wantDel+x.post, x.pre+full+x.postFull, hasSafe && hasUnsafe)
				}
				c.canary(l, call)
			}
		}
		if len(sel) == maxLen {
			return
		}
		for j := range ops {
			rec(append(append([]int{}, sel...), j))
		}
	}
	if withReg {
		c05WithRegistered([]reflect.Type{reflect.TypeOf(c05RegSF{})}, func() { rec(nil) })
	} else {
		rec(nil)
	}
}

// ---------------------------------------------------------------------------------------------
// law E: RegisterSafeType

type c05RegHolder struct {
	I c05RegInt
	S c05RegStr
	T c05RegStruct
	N int32
	U string
}

// c05WithRegistered registers the types, runs f and removes exactly the types it added.
func c05WithRegistered(ts []reflect.Type, f func()) {
	var added []reflect.Type
	for _, t := range ts {
		if !c05SafeTypeRegistry[t] {
			added = append(added, t)
		}
		RegisterSafeType(t)
	}
	defer func() {
		for _, t := range added {
			delete(c05SafeTypeRegistry, t)
		}
	}()
	f()
}

// registeredWithMethod: a value of a registered safe type stays visible wherever it is held, also when the
// type has a formatting method and the value sits in an interface-typed slice, map or field (finding F9).
func (c *c05Ctx) registeredWithMethod(l *c05Law) {
	c05WithRegistered([]reflect.Type{reflect.TypeOf(c05RegDur(0))}, func() {
		d := c05RegDur(5)
		ops := []struct {
			txt string
			v   interface{}
		}{
			{"c05RegDur(5)", d},
			{"[]c05RegDur{5}", []c05RegDur{d}},
			{"[]interface{}{c05RegDur(5)}", []interface{}{d}},
			{"[]fmt.Stringer{c05RegDur(5)}", []fmt.Stringer{d}},
			{"map[int]interface{}{1: c05RegDur(5)}", map[int]interface{}{1: d}},
			{"c05RegDurHolder{c05RegDur(5)}", c05RegDurHolder{d}},
			{"&c05RegDurHolder{c05RegDur(5)}", &c05RegDurHolder{d}},
			{"[]interface{}{[]interface{}{c05RegDur(5)}}", []interface{}{[]interface{}{d}}},
		}
		for _, o := range ops {
			for _, dir := range []string{"%v", "%s", "%d", "%8v", "%q"} {
				if c.full() {
					return
				}
				want := fmt.Sprintf(dir, o.v)
				if strings.Contains(want, "%!") {
					continue
				}
				call := "with RegisterSafeType{c05RegDur (has a String method)}: " + fmt.Sprintf("Sprintf(%q, %s)", dir, o.txt)
				out := string(Sprintf(dir, o.v))
				l.cases++
				l.nontrivial++
				// map keys of type int are unsafe operands: compare only what must be visible
				if strings.Contains(o.txt, "map[int]") {
					if !strings.Contains(c05DelEnv(out), fmt.Sprintf(dir, d)) {
						c.fail(call, out, "the rendering of a value of a registered safe type is not visible outside the envelopes")
					}
					continue
				}
				if c05DelEnv(out) != want {
					c.fail(call, out, "the rendering of a value of a registered safe type is not visible outside the envelopes: envelopes deleted gives "+fmt.Sprintf("%q", c05DelEnv(out))+", fmt prints "+fmt.Sprintf("%q", want))
				}
			}
		}
	})
}

// c05Namer / c05Named: an INTERFACE type registered as safe makes the values in slots of that type safe (the slot's own
// type is looked up as well as the type of the value it holds).
type c05Namer interface{ Name() string }
type c05Named int

func (n c05Named) Name() string { return "n" }

func (c *c05Ctx) registeredInterfaceType(l *c05Law) {
	c05WithRegistered([]reflect.Type{reflect.TypeOf((*c05Namer)(nil)).Elem()}, func() {
		for _, tc := range []struct {
			txt  string
			v    interface{}
			want string
		}{
			{"[]c05Namer{c05Named(7)}", []c05Namer{c05Named(7)}, "[7]"},
			{"map[SafeString]c05Namer{\"k\": c05Named(7)}", map[SafeString]c05Namer{"k": c05Named(7)}, "map[k:7]"},
			{"[]interface{}{c05Named(7)} /* not a slot of the registered type */", []interface{}{c05Named(7)}, "[" + vS + "7" + vE + "]"},
		} {
			call := "with RegisterSafeType{c05Namer (an interface type)}: " + fmt.Sprintf("Sprintf(\"%%v\", %s)", tc.txt)
			out := string(Sprintf("%v", tc.v))
			l.cases++
			l.nontrivial++
			if out != tc.want {
				c.fail(call, out, "a registered interface type makes the values in slots of that type safe: want "+strconv.Quote(tc.want))
			}
		}
	})
}

// registeredReflectValue: a reflect.Value handed over as an operand stands for the value it describes, also when it
// was reached through an unexported field (CanInterface() false): of a registered safe type, it is not enveloped.
type c05RegFields struct {
	Pub  c05RegInt
	priv c05RegInt
	str  c05RegStr
}

func (c *c05Ctx) registeredReflectValue(l *c05Law) {
	c05WithRegistered([]reflect.Type{reflect.TypeOf(c05RegInt(0)), reflect.TypeOf(c05RegStr(""))}, func() {
		h := reflect.ValueOf(c05RegFields{Pub: 7, priv: -8, str: "s t"})
		for _, tc := range []struct {
			txt  string
			v    reflect.Value
			dir  string
			want string
		}{
			{"reflect.ValueOf(c05RegFields{Pub: 7, priv: -8, str: \"s t\"}).Field(0)", h.Field(0), "%v", "7"},
			{"reflect.ValueOf(c05RegFields{Pub: 7, priv: -8, str: \"s t\"}).Field(1) /* unexported */", h.Field(1), "%v", "-8"},
			{"reflect.ValueOf(c05RegFields{Pub: 7, priv: -8, str: \"s t\"}).Field(1) /* unexported */", h.Field(1), "%5d", "   -8"},
			{"reflect.ValueOf(c05RegFields{Pub: 7, priv: -8, str: \"s t\"}).Field(2) /* unexported */", h.Field(2), "%v", "s t"},
			{"reflect.ValueOf(c05RegFields{Pub: 7, priv: -8, str: \"s t\"}).Field(2) /* unexported */", h.Field(2), "%q", "\"s t\""},
		} {
			call := "with RegisterSafeType{c05RegInt, c05RegStr}: " + fmt.Sprintf("Sprintf(%q, %s)", tc.dir, tc.txt)
			out := string(Sprintf(tc.dir, tc.v))
			l.cases++
			l.nontrivial++
			if out != tc.want {
				c.fail(call, out, "a reflect.Value operand of a registered safe type is rendered without an envelope: want "+strconv.Quote(tc.want))
			}
		}
	})
}

func (c *c05Ctx) registry(l *c05Law, tier int) {
	c.registeredWithMethod(l)
	c.registeredInterfaceType(l)
	c.registeredReflectValue(l)
	types := []reflect.Type{reflect.TypeOf(c05RegInt(0)), reflect.TypeOf(c05RegStr("")), reflect.TypeOf(c05RegStruct{}), reflect.TypeOf(int32(0))}
	names := []string{"c05RegInt", "c05RegStr", "c05RegStruct", "int32"}
	before := len(c05SafeTypeRegistry)
	dirs := []string{"%v", "%+v", "%#v", "%8v", "%x"}
	if tier >= 1 {
		dirs = append(dirs, "%-8v", "%08v", "%q", "%X", "% x", "%+.3v")
	}
	for set := 0; set < 1<<len(types); set++ {
		var ts []reflect.Type
		var nm []string
		for k := range types {
			if set&(1<<k) != 0 {
				ts = append(ts, types[k])
				nm = append(nm, names[k])
			}
		}
		reg := func(k int) bool { return set&(1<<k) != 0 }
		prefix := "with RegisterSafeType{" + strings.Join(nm, ",") + "}: "
		c05WithRegistered(ts, func() {
			// unsafe leaves of a value, given the registered set
			ri, rs, rt, rn := c05RegInt(70493), c05RegStr("Zq7"), c05RegStruct{81726, "Wx3"}, int32(53535)
			type opnd struct {
				txt    string
				v      interface{}
				unsafe func() []interface{}
			}
			leavesOf := func(i, s, t, n, u bool) []interface{} {
				var r []interface{}
				if i && !reg(0) {
					r = append(r, ri)
				}
				if s && !reg(1) {
					r = append(r, rs)
				}
				if t && !reg(2) {
					r = append(r, 81726, "Wx3")
				}
				if n && !reg(3) {
					r = append(r, rn)
				}
				if u {
					r = append(r, "Uy5")
				}
				return r
			}
			holder := c05RegHolder{ri, rs, rt, rn, "Uy5"}
			ops := []opnd{
				{"c05RegInt(70493)", ri, func() []interface{} { return leavesOf(true, false, false, false, false) }},
				{"c05RegStr(\"Zq7\")", rs, func() []interface{} { return leavesOf(false, true, false, false, false) }},
				{"c05RegStruct{81726, \"Wx3\"}", rt, func() []interface{} { return leavesOf(false, false, true, false, false) }},
				{"&c05RegStruct{81726, \"Wx3\"}", &rt, func() []interface{} { return leavesOf(false, false, true, false, false) }},
				{"int32(53535)", rn, func() []interface{} { return leavesOf(false, false, false, true, false) }},
				{"reflect.ValueOf(c05RegInt(70493))", reflect.ValueOf(ri), func() []interface{} { return leavesOf(true, false, false, false, false) }},
				{"reflect.ValueOf(c05RegStruct{81726, \"Wx3\"})", reflect.ValueOf(rt), func() []interface{} { return leavesOf(false, false, true, false, false) }},
				{"c05RegHolder{70493, \"Zq7\", {81726, \"Wx3\"}, 53535, \"Uy5\"}", holder, func() []interface{} { return leavesOf(true, true, true, true, true) }},
				{"reflect.ValueOf(c05RegHolder{70493, \"Zq7\", {81726, \"Wx3\"}, 53535, \"Uy5\"})", reflect.ValueOf(holder), func() []interface{} { return leavesOf(true, true, true, true, true) }},
				{"[]interface{}{c05RegInt(70493), c05RegStr(\"Zq7\"), c05RegStruct{81726, \"Wx3\"}, int32(53535), \"Uy5\"}",
					[]interface{}{ri, rs, rt, rn, "Uy5"}, func() []interface{} { return leavesOf(true, true, true, true, true) }},
				{"map[c05RegStr]c05RegInt{\"Zq7\": 70493}", map[c05RegStr]c05RegInt{rs: ri}, func() []interface{} { return leavesOf(true, true, false, false, false) }},
				{"[]c05RegStruct{{81726, \"Wx3\"}}", []c05RegStruct{rt}, func() []interface{} { return leavesOf(false, false, true, false, false) }},
				{"[]int32{53535}", []int32{rn}, func() []interface{} { return leavesOf(false, false, false, true, false) }},
			}
			for _, o := range ops {
				for _, d := range dirs {
					if c.full() {
						return
					}
					format := "r:" + d + ";%s"
					full := fmt.Sprintf(format, o.v, "tl")
					if strings.Contains(full, "%!") {
						continue
					}
					var parts []string
					for _, u := range o.unsafe() {
						parts = append(parts, fmt.Sprintf(d, u))
					}
					del, ok := c05Cut(full[:len(full)-2], parts)
					if !ok {
						l.unreliable++
						continue
					}
					call := prefix + fmt.Sprintf("Sprintf(%q, %s, \"tl\")", format, o.txt)
					out := string(Sprintf(format, o.v, "tl"))
					okc := c.check(l, call, out, del, full, true)
					if okc && len(parts) == 0 && strings.Count(out, vS) != 1 {
						c.fail(call, out, "a value of a registered safe type produces an envelope")
					}
					// Unsafe() still wins, Safe() too
					c.check(l, prefix+fmt.Sprintf("Sprintf(%q, Unsafe(%s), \"tl\")", format, o.txt), string(Sprintf(format, Unsafe(o.v), "tl")),
						"r:"+c05LFs(full)+";", full, true)
					c.check(l, prefix+fmt.Sprintf("Sprintf(%q, Safe(%s), \"tl\")", format, o.txt), string(Sprintf(format, Safe(o.v), "tl")),
						full[:len(full)-2], full, true)
				}
			}
		})
		if len(c05SafeTypeRegistry) != before {
			c.t.Fatalf("harness: safe-type registry not restored")
		}
		if c.full() {
			return
		}
	}
}

// ---------------------------------------------------------------------------------------------

// SafeByte / SafeBytes are not re-exported by the root package under these names in every version.
type c05SafeBytes = c05i.SafeBytes

func c05Hints() map[string]interface{} {
	var hints map[string]interface{}
	_ = json.Unmarshal([]byte(os.Getenv("REPLAY_HINTS")), &hints)
	return hints
}

func c05Operands(tier int, hints map[string]interface{}) []c05Arg {
	var args []c05Arg
	for _, v := range c05BaseVals(tier, hints) {
		args = append(args, c05Forms(v, tier)...)
	}
	args = append(args, c05SafeTyped()...)
	args = append(args, c05UnsafeTyped()...)
	return args
}

func (c *c05Ctx) registeredLeafGrid(la *c05Law, tier int, entries []int) {
	ts := []reflect.Type{reflect.TypeOf(c05RegInt(0)), reflect.TypeOf(c05RegStr("")), reflect.TypeOf(c05RegStruct{})}
	c05WithRegistered(ts, func() {
		rt := c05RegStruct{7, "b\nb"}
		args := []c05Arg{
			{txt: "c05RegInt(-7) /*registered*/", arg: c05RegInt(-7), ref: c05RegInt(-7), safe: true, kind: "int"},
			{txt: "c05RegStr(\"r\\ns\") /*registered*/", arg: c05RegStr("r\ns"), ref: c05RegStr("r\ns"), safe: true, kind: "string"},
			{txt: "c05RegStruct{7, \"b\\nb\"} /*registered*/", arg: rt, ref: rt, safe: true, kind: "struct"},
			{txt: "&c05RegStruct{7, \"b\\nb\"} /*registered*/", arg: &rt, ref: &rt, safe: true, kind: "struct"},
			{txt: "reflect.ValueOf(c05RegInt(-7)) /*registered*/", arg: reflect.ValueOf(c05RegInt(-7)), ref: reflect.ValueOf(c05RegInt(-7)), safe: true, kind: "int"},
		}
		c.leafGrid(la, la, args, tier, entries, nil)
	})
}

func c05Report(c *c05Ctx) {
	for _, l := range c.laws {
		bound := l.bound
		if l.unreliable > 0 {
			bound += fmt.Sprintf("; %d generated cases dropped because the expected text could not be built unambiguously", l.unreliable)
		}
		m, _ := json.Marshal(map[string]interface{}{"property": "C05", "law": l.name, "cases": l.cases, "nontrivial": l.nontrivial,
			"nontrivial_rule": l.rule, "bound": bound, "exhaustive": c.fails == 0 && l.unreliable == 0})
		fmt.Printf("BOUNDED: %s\n", m)
	}
}

func TestVerifReplayC05(t *testing.T) {
	c := &c05Ctx{t: t, max: 12}
	hints := c05Hints()
	lD := c.law("D", "", "")
	lA := c.law("A", "", "")
	lB := c.law("B", "", "")
	lC := c.law("C", "", "")
	lE := c.law("E", "", "")
	// scripts first: a nested Printf/Print under an override is where a missing restore shows directly
	c.scripts(lD, 0, 2, false)
	c.leafGrid(lA, lB, c05Operands(0, hints), 0, []int{0, 5, 6}, []int{1, 2, 3, 4})
	c.registeredLeafGrid(lA, 0, []int{0})
	c.compounds(lC, 0, []int{0, 3, 5, 6})
	c.argLists(lC, 0, []int{0, 2, 5, 6})
	c.registry(lE, 0)
	n := 0
	for _, l := range c.laws {
		n += l.cases
	}
	t.Logf("C05 replay: %d cases, %d failures", n, c.fails)
}

func TestVerifBoundedC05(t *testing.T) {
	tier := 1
	if os.Getenv("VERIF_TIER") == "thorough" {
		tier = 2
	}
	c := &c05Ctx{t: t, max: 8}
	hints := c05Hints()
	tn := map[int]string{1: "quick", 2: "thorough"}[tier]
	en := map[int]string{1: "entry points Sprintf, Safe(obj{Printf}), Unsafe(obj{Printf}) + one of Fprintf, StringBuilder.Printf, Sprintfn{Printf}, obj{Printf} in rotation",
		2: "all 7 entry points"}[tier]
	c3 := map[int]string{1: " (3-leaf shapes: 3 of the 7 entry points)", 2: ""}[tier]
	lD := c.law("D: SafePrinter/SafeWriter scripts: safe emitters visible, unsafe emitters enveloped, Print/Printf classified per operand, in Sprintfn, StringBuilder, SafeFormatter objects (plain, Safe(), SafeValue, registered type, Unsafe(), in slices/structs, via pointer), plus a history canary after every case",
		"script has a safe and an unsafe emitter",
		fmt.Sprintf("tier %s: all scripts of 1..%d operations over %d operations x %d contexts", tn, tier+1, len(c05Ops(tier)), len(c05ScriptCtxs(tier))+1))
	lA := c.law("A: declared-safe top-level operand (Safe(x), Safe(Unsafe(x)), Safe(reflect.Value), SafeValue types, registered types): text equals fmt's, no envelope",
		"directive carries a flag, width or precision",
		fmt.Sprintf("tier %s: every directive %%[flags][width][.prec]verb over the verbs valid for the operand kind (%d directives for ints) x %d operand forms (safe and unsafe) x %s", tn, len(c05Directives("int", tier)), len(c05Operands(tier, hints))+5, en))
	lB := c.law("B: unsafe top-level operand (plain, Unsafe(x), Unsafe(Safe(x)), reflect.Value, unregistered types) between literals: envelopes-deleted text is the literals (+ line feeds and punctuation), stripped text equals fmt's",
		"non-empty rendering and non-empty literal before it",
		fmt.Sprintf("tier %s: the same directive grid x operand forms x %s, literal pairs in rotation (all 3 in tier thorough)", tn, en))
	lC := c.law("C: argument lists (Sprintf with 2.."+strconv.Itoa(tier+1)+" directives, Sprint, Sprintln, Print, indexes, star widths) and compound values (interface slices/arrays/maps/struct fields, typed structs, nesting, pointers, reflect.Value) mixing safe and unsafe leaves: envelopes-deleted text equals fmt's text with the unsafe leaves cut out",
		"at least one safe and one unsafe leaf, no enclosing Safe()/Unsafe()",
		fmt.Sprintf("tier %s: %d shapes x all leaf tuples over %d leaves x %d directives x 7 entry points%s; %d static compounds; all tuples of 2..%d of %d (operand,directive) items x 7 entry points; all pairs through Sprint/Sprintln/Print; 10 index/star formats", tn, len(c05Shapes(tier)), len(c05Leaves(tier)), len(c05CompoundDirs[1]), c3, len(c05Statics()), tier+1, len(c05Items(tier))))
	lE := c.law("E: every subset of {c05RegInt, c05RegStr, c05RegStruct, int32} registered with RegisterSafeType: values of registered types are visible at top level, behind reflect.Value, pointers and at depth; the others enveloped; Unsafe()/Safe() still win; registry restored",
		"all", "16 subsets x 13 operands x directives x {plain, Unsafe(), Safe()}")
	c.scripts(lD, tier, tier+1, true)
	args := c05Operands(tier, hints)
	if tier == 1 {
		c.leafGrid(lA, lB, args, tier, []int{0, 5, 6}, []int{1, 2, 3, 4})
	} else {
		c.leafGrid(lA, lB, args, tier, c05AllEntries(), nil)
	}
	c.registeredLeafGrid(lA, tier, c05AllEntries())
	c.compounds(lC, tier, c05AllEntries())
	c.argLists(lC, tier, c05AllEntries())
	c.registry(lE, tier)
	lF := c.law("F: Safe()/Unsafe() wrappers in interface-typed slots BELOW AN UNEXPORTED FIELD (their methods cannot be called there, they are recognised by type): the wrapper in the slot decides, Unsafe(x) is enveloped, Safe(x) visible, a plain value beside them enveloped",
		"all", "3 slot shapes (slice element, array element, map value) x {unexported field, pointer to it, nested one level deeper} x 2 directives")
	c.hiddenWrappers(lF)
	c05Report(c)
}

type c05HidSlice struct{ args []interface{} }
type c05HidArr struct{ args [2]interface{} }
type c05HidMap struct{ m map[string]interface{} }
type c05HidDeep struct{ in c05HidSlice }

func (c *c05Ctx) hiddenWrappers(l *c05Law) {
	u, sf, pl := Unsafe("Zq7"), Safe("ok5"), "Wx3"
	e := func(s string) string { return vS + s + vE }
	for _, tc := range []struct {
		txt  string
		v    interface{}
		want string
	}{
		{`c05HidSlice{[]interface{}{Unsafe("Zq7"), Safe("ok5"), "Wx3"}}`, c05HidSlice{[]interface{}{u, sf, pl}}, "{[" + e("Zq7") + " ok5 " + e("Wx3") + "]}"},
		{`&c05HidSlice{[]interface{}{Unsafe("Zq7"), Safe("ok5"), "Wx3"}}`, &c05HidSlice{[]interface{}{u, sf, pl}}, "&{[" + e("Zq7") + " ok5 " + e("Wx3") + "]}"},
		{`c05HidArr{[2]interface{}{Safe("ok5"), Unsafe("Zq7")}}`, c05HidArr{[2]interface{}{sf, u}}, "{[ok5 " + e("Zq7") + "]}"},
		{`c05HidMap{map[string]interface{}{"k": Unsafe("Zq7")}}`, c05HidMap{map[string]interface{}{"k": u}}, "{map[" + e("k") + ":" + e("Zq7") + "]}"},
		{`c05HidMap{map[string]interface{}{"k": Safe("ok5")}}`, c05HidMap{map[string]interface{}{"k": sf}}, "{map[" + e("k") + ":ok5]}"},
		{`c05HidDeep{c05HidSlice{[]interface{}{Unsafe("Zq7"), Safe("ok5")}}}`, c05HidDeep{c05HidSlice{[]interface{}{u, sf}}}, "{{[" + e("Zq7") + " ok5]}}"},
	} {
		for _, d := range []string{"%v", "%s"} {
			if c.full() {
				return
			}
			call := fmt.Sprintf("Sprintf(%q, %s)", d, tc.txt)
			out, ok := c.run(call, func() string { return string(Sprintf(d, tc.v)) })
			l.cases++
			l.nontrivial++
			if ok && out != tc.want {
				c.fail(call, out, "the wrapper in the slot decides on which side of the envelopes its content lands: want "+strconv.Quote(tc.want))
			}
		}
	}
	l.complete = !c.full()
}
