package redact

import (
	"strings"
	"testing"
)

var _ = strings.Split

func TestVerifReplayC03(t *testing.T) {
	vRun(t, "C03", func(out string) (bool, string) {
		if !vLineSafe(out) {
			return false, "a line feed lies inside an envelope"
		}
		for _, line := range strings.Split(out, "\n") {
			if !vWellFormed(line) {
				return false, "a line of the output is not well-formed on its own"
			}
		}
		return true, ""
	})
}

