package redact

import (
	"fmt"
	"os"
	"strings"
	"testing"
)

var _ = strings.Split

func TestVerifReplayC03(t *testing.T) {
	vRun(t, "C03", func(out string) (bool, string) {
		if !vLineSafe(out) {
			return false, "a line feed lies inside an envelope"
		}
		for _, line := range strings.Split(out, "\n") {
			if !vWellFormed(line) {
				return false, "a line of the output is not well-formed on its own"
			}
		}
		return true, ""
	})
}

// TestVerifBoundedC03: C03 is decided deductively; this is an end-to-end cross-check of the public API.
func TestVerifBoundedC03(t *testing.T) {
	check := func(out string) (bool, string) {
		if !vLineSafe(out) {
			return false, "a line feed lies inside an envelope"
		}
		for _, line := range strings.Split(out, "\n") {
			if !vWellFormed(line) {
				return false, "a line of the output is not well-formed on its own"
			}
		}
		return true, ""
	}
	rn, xn := 3, 2
	if os.Getenv("VERIF_TIER") == "thorough" {
		rn, xn = 4, 2
	}
	cases, _ := vRunN(t, "C03", check, rn, xn)
	nl := 0
	vRunN(t, "C03", func(out string) (bool, string) {
		if strings.Contains(out, "\n") {
			nl++
		}
		return true, ""
	}, 2, 2)
	vBounded("C03", "no line feed inside an envelope and every line well-formed on its own (end-to-end cross-check of the proved invariant)", cases, nl,
		"outputs containing a line feed, counted on the sub-space of redactables of at most 2 pieces", fmt.Sprintf("redactables of at most %d and tails of at most %d pieces over {a, LF, start, end, E2, E2 80, 80, B9, BA, ?, space}, 18 producers each", rn, xn), !t.Failed())
}
