package redact

// Shared helpers of the replay/bounded harnesses (injected next to the per-property file).
// Injected with `go test -overlay` (never written into /repo). It drives the
// real public API over small inputs built from the bytes that matter
// (marker bytes, partial markers, line feeds, '?', ordinary bytes) and checks
// the property with an executable oracle written from the property text.
// Every failing input is printed as one "REPLAY-FAIL: {json}" line.

import (
	"bytes"
	"encoding/json"
	"fmt"
	"strings"
	"testing"

	"github.com/cockroachdb/redact/builder"
	i "github.com/cockroachdb/redact/interfaces"
)

const (
	vS = "\xe2\x80\xb9" // start marker
	vE = "\xe2\x80\xba" // end marker
)

// vWellFormed: markers strictly alternate, start first, closed at the end.
func vWellFormed(s string) bool {
	open := false
	for j := 0; j+3 <= len(s); j++ {
		switch s[j : j+3] {
		case vS:
			if open {
				return false
			}
			open = true
		case vE:
			if !open {
				return false
			}
			open = false
		}
	}
	return !open
}

// vLineSafe: no line feed inside an envelope.
func vLineSafe(s string) bool {
	open := false
	for j := 0; j < len(s); j++ {
		if j+3 <= len(s) {
			switch s[j : j+3] {
			case vS:
				open = true
			case vE:
				open = false
			}
		}
		if s[j] == '\n' && open {
			// the end marker at j.. closes before its own bytes; a '\n' is never a marker byte
			return false
		}
	}
	return true
}

var vPieces = []string{"a", "\n", vS, vE, "\xe2", "\xe2\x80", "\x80", "\xb9", "\xba", "?", " "}

func vStrings(maxPieces int) []string {
	out := []string{""}
	frontier := []string{""}
	for n := 0; n < maxPieces; n++ {
		var next []string
		for _, f := range frontier {
			for _, p := range vPieces {
				next = append(next, f+p)
			}
		}
		out = append(out, next...)
		frontier = next
	}
	return out
}

func vFail(t *testing.T, prop, call string, out string, why string) {
	m, _ := json.Marshal(map[string]string{"property": prop, "call": call, "output": fmt.Sprintf("%q", out), "why": why})
	fmt.Printf("REPLAY-FAIL: %s\n", m)
	t.Errorf("%s: %s: %q", call, why, out)
}

type vCase struct {
	call string
	out  string
}

// vOutputs produces outputs of the printing/building API for the given
// redactable r (assumed well-formed) and tail string x.
func vOutputs(r string, x string) []vCase {
	R := RedactableString(r)
	var cs []vCase
	add := func(call string, out RedactableString) { cs = append(cs, vCase{call, string(out)}) }
	add(fmt.Sprintf("Sprintf(\"%%s%%s\", RedactableString(%q), %q)", r, x), Sprintf("%s%s", R, x))
	add(fmt.Sprintf("Sprintf(\"%%s%%s\", RedactableString(%q), Safe(%q))", r, x), Sprintf("%s%s", R, Safe(x)))
	add(fmt.Sprintf("Sprintf(\"%%s%%s%%s\", RedactableString(%q), \"\", Safe(%q))", r, x), Sprintf("%s%s%s", R, "", Safe(x)))
	add(fmt.Sprintf("Sprintf(\"%%s%%s\", %q, RedactableString(%q))", x, r), Sprintf("%s%s", x, R))
	add(fmt.Sprintf("Sprint(RedactableBytes(%q), %q)", r, x), Sprint(RedactableBytes(r), x))
	{
		var b builder.StringBuilder
		b.Print(R)
		b.UnsafeString(x)
		add(fmt.Sprintf("StringBuilder{Print(RedactableString(%q)); UnsafeString(%q)}", r, x), b.RedactableString())
	}
	{
		var b builder.StringBuilder
		b.Print(R)
		b.SafeString(i.SafeString(x))
		add(fmt.Sprintf("StringBuilder{Print(RedactableString(%q)); SafeString(%q)}", r, x), b.RedactableString())
	}
	{
		var b builder.StringBuilder
		b.Print(R)
		b.UnsafeString("")
		b.SafeString(i.SafeString(x))
		add(fmt.Sprintf("StringBuilder{Print(RedactableString(%q)); UnsafeString(\"\"); SafeString(%q)}", r, x), b.RedactableString())
	}
	{
		var b builder.StringBuilder
		b.UnsafeString(r)
		b.SafeString(i.SafeString(x))
		b.UnsafeString(x)
		add(fmt.Sprintf("StringBuilder{UnsafeString(%q); SafeString(%q); UnsafeString(%q)}", r, x, x), b.RedactableString())
	}
	{
		var b builder.StringBuilder
		for k := 0; k < len(x); k++ {
			b.UnsafeByte(x[k])
		}
		b.SafeString(i.SafeString(r))
		for k := 0; k < len(x); k++ {
			b.SafeByte(i.SafeByte(x[k]))
		}
		add(fmt.Sprintf("StringBuilder{UnsafeByte* %q; SafeString(%q); SafeByte* %q}", x, r, x), b.RedactableString())
	}
	add(fmt.Sprintf("EscapeBytes(%q)", r+x), RedactableString(EscapeBytes([]byte(r+x))))
	add(fmt.Sprintf("Sprintf(%q, %q)", r+"%v"+x, x), Sprintf(r+"%v"+x, x))
	add(fmt.Sprintf("Sprintf(\"%%q %%x %%10s %%-10v|\", %q...)", x), Sprintf("%q %x %10s %-10v|", x, x, x, x))
	add(fmt.Sprintf("Sprintfn(UnsafeString(%q); SafeString(%q); Print(RedactableString(%q)); UnsafeString(%q))", x, x, r, x), Sprintfn(func(w SafePrinter) {
		w.UnsafeString(x)
		w.SafeString(i.SafeString(x))
		w.Print(R)
		w.UnsafeString(x)
	}))
	add(fmt.Sprintf("Join(RedactableString(%q), {RedactableString(%q), RedactableString(%q)})", r, r, r), Join(R, []RedactableString{R, R}))
	return cs
}

func vRun(t *testing.T, prop string, check func(string) (bool, string)) {
	vRunN(t, prop, check, 3, 2)
}

// vRunN enumerates redactables r of at most rn pieces (well-formed, line-safe) and tails x of at most xn
// pieces, runs every producer of vOutputs on them and checks each output; it returns the number of outputs
// checked and how many of them contain a marker (the non-trivial ones).
func vRunN(t *testing.T, prop string, check func(string) (bool, string), rn, xn int) (cases, nontrivial int) {
	rs := vStrings(rn)
	xs := vStrings(xn)
	n := 0
	for _, r := range rs {
		if !vWellFormed(r) || !vLineSafe(r) {
			continue
		}
		for _, x := range xs {
			for _, c := range vOutputs(r, x) {
				cases++
				if strings.Contains(c.out, vS) {
					nontrivial++
				}
				if ok, why := check(c.out); !ok {
					vFail(t, prop, c.call, c.out, why)
					n++
					if n >= 12 {
						return
					}
				}
			}
		}
	}
	return
}

// vBounded prints the BOUNDED report line of a bounded stand-in.
func vBounded(prop, law string, cases, nontrivial int, rule, bound string, exhaustive bool) {
	m, _ := json.Marshal(map[string]interface{}{"property": prop, "law": law, "cases": cases, "nontrivial": nontrivial,
		"nontrivial_rule": rule, "bound": bound, "exhaustive": exhaustive})
	fmt.Printf("BOUNDED: %s\n", m)
}

var _ = bytes.Equal
var _ = strings.Split
