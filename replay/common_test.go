package redact

// Shared helpers of the replay/bounded harnesses (injected next to the per-property file).
// Injected with `go test -overlay` (never written into /repo). It drives the
// real public API over small inputs built from the bytes that matter
// (marker bytes, partial markers, line feeds, '?', ordinary bytes) and checks
// the property with an executable oracle written from the property text.
// Every failing input is printed as one "REPLAY-FAIL: {json}" line.

import (
	"bytes"
	"encoding/json"
	"fmt"
	"strings"
	"sync"
	"testing"
	"unsafe"

	"github.com/cockroachdb/redact/builder"
	i "github.com/cockroachdb/redact/interfaces"
)

const (
	vS = "\xe2\x80\xb9" // start marker
	vE = "\xe2\x80\xba" // end marker
)

// vWellFormed: markers strictly alternate, start first, closed at the end.
func vWellFormed(s string) bool {
	open := false
	for j := 0; j+3 <= len(s); j++ {
		switch s[j : j+3] {
		case vS:
			if open {
				return false
			}
			open = true
		case vE:
			if !open {
				return false
			}
			open = false
		}
	}
	return !open
}

// vLineSafe: no line feed inside an envelope.
func vLineSafe(s string) bool {
	open := false
	for j := 0; j < len(s); j++ {
		if j+3 <= len(s) {
			switch s[j : j+3] {
			case vS:
				open = true
			case vE:
				open = false
			}
		}
		if s[j] == '\n' && open {
			// the end marker at j.. closes before its own bytes; a '\n' is never a marker byte
			return false
		}
	}
	return true
}

var vPieces = []string{"a", "\n", vS, vE, "\xe2", "\xe2\x80", "\x80", "\xb9", "\xba", "?", " "}

func vStrings(maxPieces int) []string {
	out := []string{""}
	frontier := []string{""}
	for n := 0; n < maxPieces; n++ {
		var next []string
		for _, f := range frontier {
			for _, p := range vPieces {
				next = append(next, f+p)
			}
		}
		out = append(out, next...)
		frontier = next
	}
	return out
}

func vFail(t *testing.T, prop, call string, out string, why string) {
	m, _ := json.Marshal(map[string]string{"property": prop, "call": call, "output": fmt.Sprintf("%q", out), "why": why})
	fmt.Printf("REPLAY-FAIL: %s\n", m)
	t.Errorf("%s: %s: %q", call, why, out)
}

type vCase struct {
	call string
	out  string
}

// vOutputs produces outputs of the printing/building API for the given
// redactable r (assumed well-formed) and tail string x.
func vOutputs(r string, x string) []vCase {
	R := RedactableString(r)
	var cs []vCase
	add := func(call string, out RedactableString) { cs = append(cs, vCase{call, string(out)}) }
	add(fmt.Sprintf("Sprintf(\"%%s%%s\", RedactableString(%q), %q)", r, x), Sprintf("%s%s", R, x))
	add(fmt.Sprintf("Sprintf(\"%%s%%s\", RedactableString(%q), Safe(%q))", r, x), Sprintf("%s%s", R, Safe(x)))
	add(fmt.Sprintf("Sprintf(\"%%s%%s%%s\", RedactableString(%q), \"\", Safe(%q))", r, x), Sprintf("%s%s%s", R, "", Safe(x)))
	add(fmt.Sprintf("Sprintf(\"%%s%%s\", %q, RedactableString(%q))", x, r), Sprintf("%s%s", x, R))
	add(fmt.Sprintf("Sprint(RedactableBytes(%q), %q)", r, x), Sprint(RedactableBytes(r), x))
	{
		var b builder.StringBuilder
		b.Print(R)
		b.UnsafeString(x)
		add(fmt.Sprintf("StringBuilder{Print(RedactableString(%q)); UnsafeString(%q)}", r, x), b.RedactableString())
	}
	{
		var b builder.StringBuilder
		b.Print(R)
		b.SafeString(i.SafeString(x))
		add(fmt.Sprintf("StringBuilder{Print(RedactableString(%q)); SafeString(%q)}", r, x), b.RedactableString())
	}
	{
		var b builder.StringBuilder
		b.Print(R)
		b.UnsafeString("")
		b.SafeString(i.SafeString(x))
		add(fmt.Sprintf("StringBuilder{Print(RedactableString(%q)); UnsafeString(\"\"); SafeString(%q)}", r, x), b.RedactableString())
	}
	{
		var b builder.StringBuilder
		b.UnsafeString(r)
		b.SafeString(i.SafeString(x))
		b.UnsafeString(x)
		add(fmt.Sprintf("StringBuilder{UnsafeString(%q); SafeString(%q); UnsafeString(%q)}", r, x, x), b.RedactableString())
	}
	{
		var b builder.StringBuilder
		for k := 0; k < len(x); k++ {
			b.UnsafeByte(x[k])
		}
		b.SafeString(i.SafeString(r))
		for k := 0; k < len(x); k++ {
			b.SafeByte(i.SafeByte(x[k]))
		}
		add(fmt.Sprintf("StringBuilder{UnsafeByte* %q; SafeString(%q); SafeByte* %q}", x, r, x), b.RedactableString())
	}
	add(fmt.Sprintf("EscapeBytes(%q)", r+x), RedactableString(EscapeBytes([]byte(r+x))))
	add(fmt.Sprintf("Sprintf(%q, %q)", r+"%v"+x, x), Sprintf(r+"%v"+x, x))
	add(fmt.Sprintf("Sprintf(\"%%q %%x %%10s %%-10v|\", %q...)", x), Sprintf("%q %x %10s %-10v|", x, x, x, x))
	add(fmt.Sprintf("Sprintfn(UnsafeString(%q); SafeString(%q); Print(RedactableString(%q)); UnsafeString(%q))", x, x, r, x), Sprintfn(func(w SafePrinter) {
		w.UnsafeString(x)
		w.SafeString(i.SafeString(x))
		w.Print(R)
		w.UnsafeString(x)
	}))
	add(fmt.Sprintf("Join(RedactableString(%q), {RedactableString(%q), RedactableString(%q)})", r, r, r), Join(R, []RedactableString{R, R}))
	return cs
}

func vRun(t *testing.T, prop string, check func(string) (bool, string)) {
	vRunN(t, prop, check, 3, 2)
}

// vRunN enumerates redactables r of at most rn pieces (well-formed, line-safe) and tails x of at most xn
// pieces, runs every producer of vOutputs on them and checks each output; it returns the number of outputs
// checked and how many of them contain a marker (the non-trivial ones).
func vRunN(t *testing.T, prop string, check func(string) (bool, string), rn, xn int) (cases, nontrivial int) {
	rs := vStrings(rn)
	xs := vStrings(xn)
	n := 0
	for _, r := range rs {
		if !vWellFormed(r) || !vLineSafe(r) {
			continue
		}
		for _, x := range xs {
			for _, c := range vOutputs(r, x) {
				cases++
				if strings.Contains(c.out, vS) {
					nontrivial++
				}
				if ok, why := check(c.out); !ok {
					vFail(t, prop, c.call, c.out, why)
					n++
					if n >= 12 {
						return
					}
				}
			}
		}
	}
	return
}

// vBounded prints the BOUNDED report line of a bounded stand-in.
func vBounded(prop, law string, cases, nontrivial int, rule, bound string, exhaustive bool) {
	m, _ := json.Marshal(map[string]interface{}{"property": prop, "law": law, "cases": cases, "nontrivial": nontrivial,
		"nontrivial_rule": rule, "bound": bound, "exhaustive": exhaustive})
	fmt.Printf("BOUNDED: %s\n", m)
}

var _ = bytes.Equal
var _ = strings.Split


// ---------------------------------------------------------------------------------------------------
// shared storage (C12: operands shared between concurrent calls; C13: accessors and by-value copies)

// vBufHeader reads the slice header of the builder's byte buffer (first field of internal/buffer.Buffer, which
// StringBuilder embeds first): the only way to look at the spare capacity behind the contents.
func vBufHeader(sb *builder.StringBuilder) []byte { return *(*[]byte)(unsafe.Pointer(sb)) }

type vSharedStat struct {
	Cases, Nontrivial int
}

// vSharedStorage checks, for builders in many states, that the "conceptually read-only" uses of a builder
// (the accessors, on the object or on a by-value copy, and printing it as an operand, also from several
// goroutines at once) store nothing into the backing array the builder shares with its copies, that they do not
// change what the original later returns, and that a RedactableBytes() result is not changed by later writes.
// fail(call, output, why) reports a violation; goroutines > 1 also prints the operand concurrently.
func vSharedStorage(goroutines int, fail func(call, out, why string)) (st vSharedStat) {
	firsts := []string{"abc", "a\nb", "", "x" + vS, "é", "\xe2\x80"}
	fills := []int{0, 40, 57, 58, 59, 60, 61}
	type use struct {
		name string
		do   func(c builder.StringBuilder)
	}
	uses := []use{
		{"c.RedactableString()", func(c builder.StringBuilder) { _ = c.RedactableString() }},
		{"c.RedactableBytes()", func(c builder.StringBuilder) { _ = c.RedactableBytes() }},
		{"c.String()", func(c builder.StringBuilder) { _ = c.String() }},
		{"c.Len()", func(c builder.StringBuilder) { _ = c.Len() }},
		{"Sprint(c)", func(c builder.StringBuilder) { _ = Sprint(c) }},
		{"Sprintf(\"%v %s\", c, &c)", func(c builder.StringBuilder) { _ = Sprintf("%v %s", c, &c) }},
	}
	mk := func(first string, fill int, unsafeFirst bool) (*builder.StringBuilder, string) {
		sb := &builder.StringBuilder{}
		txt := "var sb StringBuilder; "
		if fill > 0 {
			sb.SafeString(i.SafeString(strings.Repeat("f", fill)))
			txt += fmt.Sprintf("sb.SafeString(%d x \"f\"); ", fill)
		}
		if unsafeFirst {
			sb.UnsafeString(first)
			txt += fmt.Sprintf("sb.UnsafeString(%q); ", first)
		} else {
			sb.SafeString(i.SafeString(first))
			txt += fmt.Sprintf("sb.SafeString(%q); ", first)
		}
		return sb, txt
	}
	for _, first := range firsts {
		for _, fill := range fills {
			for _, uf := range []bool{true, false} {
				for _, u := range uses {
					// (a) nothing is stored into the spare capacity
					sb, txt := mk(first, fill, uf)
					h := vBufHeader(sb)
					spare := h[len(h):cap(h)]
					for k := range spare {
						spare[k] = 0xAA
					}
					run := func() { u.do(*sb) }
					if goroutines > 1 {
						var wg sync.WaitGroup
						for g := 0; g < goroutines; g++ {
							wg.Add(1)
							go func() { defer wg.Done(); run() }()
						}
						wg.Wait()
					} else {
						run()
					}
					st.Cases++
					if uf && len(spare) >= 3 {
						st.Nontrivial++ // an envelope is open: finalizing a copy has a closing marker to put somewhere
					}
					for k := range spare {
						if spare[k] != 0xAA {
							fail(txt+"c := sb /* by value */; "+u.name, fmt.Sprintf("% x", spare[:k+1]),
								fmt.Sprintf("a read-only use of a builder stored byte %#x at offset %d of the spare capacity it shares with the original (concurrent uses of the same operand race on it, and a later write of the original is overwritten)", spare[k], k))
							return
						}
					}
					// (b) a use of an earlier by-value copy does not change what the original returns later
					sb, txt = mk(first, fill, uf)
					ref, _ := mk(first, fill, uf)
					c := *sb
					for _, b := range []*builder.StringBuilder{sb, ref} {
						b.UnsafeString("defgh")
						b.SafeString(" tail")
					}
					u.do(c)
					st.Cases++
					st.Nontrivial++
					if got, want := sb.RedactableString(), ref.RedactableString(); got != want {
						fail(txt+"c := sb /* by value */; sb.UnsafeString(\"defgh\"); sb.SafeString(\" tail\"); "+u.name+"; sb.RedactableString()", string(got),
							fmt.Sprintf("a read-only use of an earlier copy of the builder changed what the builder returns: want %q", want))
						return
					}
				}
				// (c) a RedactableBytes() result is a value: later writes and Reset do not change it
				sb, txt := mk(first, fill, uf)
				rb := sb.RedactableBytes()
				was := string(rb)
				sb.UnsafeString("yyyy")
				sb.SafeString("zz")
				sb.Reset()
				sb.UnsafeString("pw")
				st.Cases++
				st.Nontrivial++
				if string(rb) != was {
					fail(txt+"rb := sb.RedactableBytes(); sb.UnsafeString(\"yyyy\"); sb.SafeString(\"zz\"); sb.Reset(); sb.UnsafeString(\"pw\"); rb", string(rb),
						fmt.Sprintf("the bytes returned by RedactableBytes() were changed by later writes to the builder: they were %q", was))
					return
				}
			}
		}
	}
	return st
}
