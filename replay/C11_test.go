package redact

// Replay/search harness for C11 (injected with -overlay, never written into /repo).
// It drives the real public API with the values named by a refuted obligation's
// model (REPLAY_HINTS) plus a fixed set of edge values and reports the first
// call that panics.

import (
	"encoding/json"
	"fmt"
	"os"
	"strconv"
	"testing"

	"github.com/cockroachdb/redact/builder"
	i "github.com/cockroachdb/redact/interfaces"
)

type c11case struct {
	name string
	f    func()
}

func TestVerifReplayC11(t *testing.T) {
	var hints map[string]string
	_ = json.Unmarshal([]byte(os.Getenv("REPLAY_HINTS")), &hints)
	runes := []rune{-1, 0xD800, 0xDFFF, 0x110000, -2147483648, 2147483647, 0, 'a', 0x203A}
	for _, v := range hints {
		if n, err := strconv.ParseInt(v, 10, 64); err == nil && n >= -2147483648 && n <= 2147483647 {
			runes = append([]rune{rune(n)}, runes...)
		}
	}
	var cases []c11case
	for _, r := range runes {
		r := r
		cases = append(cases,
			c11case{fmt.Sprintf("StringBuilder.UnsafeRune(%d)", r), func() { var b builder.StringBuilder; b.UnsafeRune(r); _ = b.RedactableString() }},
			c11case{fmt.Sprintf("StringBuilder.SafeRune(%d)", r), func() { var b builder.StringBuilder; b.SafeRune(SafeRune(r)); _ = b.RedactableString() }},
			c11case{fmt.Sprintf("StringBuilder.WriteRune(%d)", r), func() { var b builder.StringBuilder; _ = b.WriteRune(r); _ = b.RedactableString() }},
			c11case{fmt.Sprintf("Sprintfn(SafeRune(%d))", r), func() { _ = Sprintfn(func(w SafePrinter) { w.SafeRune(SafeRune(r)) }) }},
			c11case{fmt.Sprintf("Sprintfn(UnsafeRune(%d))", r), func() { _ = Sprintfn(func(w SafePrinter) { w.UnsafeRune(r) }) }},
			c11case{fmt.Sprintf("Sprintf(%%c,%d)", r), func() { _ = Sprintf("%c %q %U %#U", r, r, r, r) }},
		)
	}
	for _, v := range []interface{}{1, nil, "str", 3.5, []int(nil), [2]int{1, 2}, map[int]int{}, struct{}{}, (*int)(nil)} {
		v := v
		cases = append(cases, c11case{fmt.Sprintf("JoinTo(non-slice %T)", v), func() { var b builder.StringBuilder; JoinTo(&b, ",", v); _ = b.RedactableString() }})
	}
	for _, bb := range []byte{0, 0x7f, 0x80, 0xe2, 0xff} {
		bb := bb
		cases = append(cases, c11case{fmt.Sprintf("StringBuilder.UnsafeByte(%d)", bb), func() { var b builder.StringBuilder; b.UnsafeByte(bb); b.SafeByte(i.SafeByte(bb)); _ = b.WriteByte(bb); _ = b.RedactableString() }})
	}
	for _, f := range []string{"%", "%!", "%[", "%[1", "%[1]", "%[0]d", "%[9]d", "%*d", "%.*d", "%[2]*[1]d", "%-010d", "%.", "%1000000d", "%10000000d", "%.1000001f", "\xff%\xff", "%w", "%x %X %q %v %d %s %T %p %t %e %U %c %b %o %O", "%!(NOVERB)", "%99999999999999999999d", "%[99999999999999999999]d", "%-+# 0123.456v"} {
		f := f
		cases = append(cases, c11case{fmt.Sprintf("Sprintf(%q,...)", f), func() {
			_ = Sprintf(f)
			_ = Sprintf(f, 1)
			_ = Sprintf(f, "a", 2, nil)
			_ = Sprintf(f, -3, []byte("x"), Safe(1), Unsafe("u"), struct{ A interface{} }{nil})
			_, _ = HelperForErrorf(f, fmt.Errorf("e"), 1)
		}})
	}
	for _, c := range cases {
		func() {
			defer func() {
				if r := recover(); r != nil {
					out, _ := json.Marshal(map[string]string{"call": c.name, "panic": fmt.Sprint(r)})
					fmt.Printf("REPLAY-FAIL: %s\n", out)
					t.Errorf("%s panicked: %v", c.name, r)
				}
			}()
			c.f()
		}()
	}
}
