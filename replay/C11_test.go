package redact

// Replay/search and bounded harness for C11 (injected with -overlay, never written into /repo).
//
// TestVerifReplayC11 drives the real public API with the values named by a refuted obligation's
// model (REPLAY_HINTS) plus a fixed set of edge values and reports every call that panics.
//
// TestVerifBoundedC11 is a systematic bounded sweep of the printing / writing / building / joining
// API for run-time panics and lost output. Every call runs under recover(). The oracle comes from the
// property statement: a call must not panic (the only panic that may propagate is one raised while
// printing a panic payload, as in fmt: when in doubt the same call is given to fmt and only a panic
// that fmt does not raise is flagged), text before and after the operand must be intact, a panic of
// a user method is reported in place as %!verb(PANIC=...) with its payload inside an envelope.

import (
	"bytes"
	"encoding/json"
	"errors"
	"fmt"
	"io"
	"math"
	"os"
	"reflect"
	"strconv"
	"strings"
	"testing"
	"time"
	"unicode/utf8"
	"unsafe"

	"github.com/cockroachdb/redact/builder"
	i "github.com/cockroachdb/redact/interfaces"
)

type c11case struct {
	name string
	f    func()
}

func TestVerifReplayC11(t *testing.T) {
	var hints map[string]string
	_ = json.Unmarshal([]byte(os.Getenv("REPLAY_HINTS")), &hints)
	runes := []rune{-1, 0xD800, 0xDFFF, 0x110000, -2147483648, 2147483647, 0, 'a', 0x203A}
	for _, v := range hints {
		if n, err := strconv.ParseInt(v, 10, 64); err == nil && n >= -2147483648 && n <= 2147483647 {
			runes = append([]rune{rune(n)}, runes...)
		}
	}
	var cases []c11case
	for _, r := range runes {
		r := r
		cases = append(cases,
			c11case{fmt.Sprintf("StringBuilder.UnsafeRune(%d)", r), func() { var b builder.StringBuilder; b.UnsafeRune(r); _ = b.RedactableString() }},
			c11case{fmt.Sprintf("StringBuilder.SafeRune(%d)", r), func() { var b builder.StringBuilder; b.SafeRune(SafeRune(r)); _ = b.RedactableString() }},
			c11case{fmt.Sprintf("StringBuilder.WriteRune(%d)", r), func() { var b builder.StringBuilder; _ = b.WriteRune(r); _ = b.RedactableString() }},
			c11case{fmt.Sprintf("Sprintfn(SafeRune(%d))", r), func() { _ = Sprintfn(func(w SafePrinter) { w.SafeRune(SafeRune(r)) }) }},
			c11case{fmt.Sprintf("Sprintfn(UnsafeRune(%d))", r), func() { _ = Sprintfn(func(w SafePrinter) { w.UnsafeRune(r) }) }},
			c11case{fmt.Sprintf("Sprintf(%%c,%d)", r), func() { _ = Sprintf("%c %q %U %#U", r, r, r, r) }},
		)
	}
	for _, v := range []interface{}{1, nil, "str", 3.5, []int(nil), [2]int{1, 2}, map[int]int{}, struct{}{}, (*int)(nil)} {
		v := v
		cases = append(cases, c11case{fmt.Sprintf("JoinTo(non-slice %T)", v), func() { var b builder.StringBuilder; JoinTo(&b, ",", v); _ = b.RedactableString() }})
	}
	for _, bb := range []byte{0, 0x7f, 0x80, 0xe2, 0xff} {
		bb := bb
		cases = append(cases, c11case{fmt.Sprintf("StringBuilder.UnsafeByte(%d)", bb), func() {
			var b builder.StringBuilder
			b.UnsafeByte(bb)
			b.SafeByte(i.SafeByte(bb))
			_ = b.WriteByte(bb)
			_ = b.RedactableString()
		}})
	}
	for _, f := range []string{"%", "%!", "%[", "%[1", "%[1]", "%[0]d", "%[9]d", "%*d", "%.*d", "%[2]*[1]d", "%-010d", "%.", "%1000000d", "%10000000d", "%.1000001f", "\xff%\xff", "%w", "%x %X %q %v %d %s %T %p %t %e %U %c %b %o %O", "%!(NOVERB)", "%99999999999999999999d", "%[99999999999999999999]d", "%-+# 0123.456v"} {
		f := f
		cases = append(cases, c11case{fmt.Sprintf("Sprintf(%q,...)", f), func() {
			_ = Sprintf(f)
			_ = Sprintf(f, 1)
			_ = Sprintf(f, "a", 2, nil)
			_ = Sprintf(f, -3, []byte("x"), Safe(1), Unsafe("u"), struct{ A interface{} }{nil})
			_, _ = HelperForErrorf(f, fmt.Errorf("e"), 1)
		}})
	}
	// Wide zero padding / precision of integers: the digits are produced in a scratch buffer whose
	// size is derived from width and precision.
	for _, f := range []string{"%069d", "%+069d", "% 070d", "%#067x", "%#067X", "%#067b", "%067O", "%#0100o", "%0100d", "%.100d", "%#.100x",
		"%+0200d", "%#0200b", "%0*d", "%#0*x", "%+.*d", "%0300U", "%#.300U", "%0300c", "%0300q", "%#+0300v"} {
		f := f
		for _, v := range []interface{}{7, -7, int64(math.MinInt64), uint64(math.MaxUint64), uint8(200), SafeInt(-1)} {
			v := v
			name := fmt.Sprintf("Sprintf(%q, %T(%v)) / StringBuilder.Printf / SafePrinter.Printf", f, v, v)
			if strings.Contains(f, "*") {
				name = fmt.Sprintf("Sprintf(%q, 150, %T(%v)) / StringBuilder.Printf", f, v, v)
			}
			cases = append(cases, c11case{name, func() {
				if strings.Contains(f, "*") {
					_ = Sprintf(f, 150, v)
					var b builder.StringBuilder
					b.Printf(f, 150, v)
					return
				}
				_ = Sprintf(f, v)
				var b builder.StringBuilder
				b.Printf(f, Safe(v))
				_ = Sprintfn(func(w SafePrinter) { w.Printf(f, v) })
			}})
		}
	}
	fails := 0
	for _, c := range cases {
		func() {
			defer func() {
				if r := recover(); r != nil && fails < 12 {
					fails++
					out, _ := json.Marshal(map[string]string{"property": "C11", "call": c.name, "output": fmt.Sprintf("%q", "panic: "+fmt.Sprint(r)),
						"panic": fmt.Sprint(r), "why": "a printing/writing/building/joining call panicked"})
					fmt.Printf("REPLAY-FAIL: %s\n", out)
					t.Errorf("%s panicked: %v", c.name, r)
				}
			}()
			c.f()
		}()
	}
}

// ---------------------------------------------------------------------------------------------
// Bounded sweep.

type c11Rep struct {
	t     *testing.T
	fails int
}

func (r *c11Rep) full() bool { return r.fails >= 8 }

func (r *c11Rep) fail(call, out, why string) {
	r.fails++
	if r.fails > 8 {
		return
	}
	if len(out) > 400 {
		out = out[:200] + "...(" + strconv.Itoa(len(out)) + " bytes)..." + out[len(out)-150:]
	}
	m, _ := json.Marshal(map[string]string{"property": "C11", "call": call, "output": fmt.Sprintf("%q", out), "why": why})
	fmt.Printf("REPLAY-FAIL: %s\n", m)
	r.t.Errorf("%s: %s: %q", call, why, out)
}

func c11Bounded(law string, cases, nontrivial int, rule, bound string, ok bool) {
	m, _ := json.Marshal(map[string]interface{}{"property": "C11", "law": law, "cases": cases, "nontrivial": nontrivial,
		"nontrivial_rule": rule, "bound": bound, "exhaustive": ok})
	fmt.Printf("BOUNDED: %s\n", m)
}

// c11Try runs f under recover.
func c11Try(f func()) (pv interface{}, panicked bool) {
	panicked = true
	defer func() {
		if panicked {
			pv = recover()
		}
	}()
	f()
	panicked = false
	return
}

func c11DelMarkers(s string) string {
	return strings.ReplaceAll(strings.ReplaceAll(s, vS, ""), vE, "")
}

func c11EscMarkers(s string) string {
	return strings.ReplaceAll(strings.ReplaceAll(s, vS, "?"), vE, "?")
}

// c11Norm: content of an output up to the characters the library is allowed to add or substitute
// (delimiters, and '?' as the escape of a marker / the guard after a partial UTF-8 sequence).
func c11Norm(s string) string {
	return strings.ReplaceAll(c11DelMarkers(s), "?", "")
}

// c11Inside reports whether byte position pos of s lies inside an envelope.
func c11Inside(s string, pos int) bool {
	open := false
	for j := 0; j+3 <= len(s) && j < pos; j++ {
		switch s[j : j+3] {
		case vS:
			open = true
		case vE:
			open = false
		}
	}
	return open
}

func c11Thorough() bool { return os.Getenv("VERIF_TIER") == "thorough" }

// ---- user types whose methods panic ----------------------------------------------------------

// c11Invoked counts the invocations of the user methods below (single-threaded harness).
var c11Invoked int

// c11Raise describes how a user method panics.
type c11Raise struct {
	name       string
	f          func()
	text       string // fmt's rendering of the payload (what must appear, escaped, in the report)
	propagates bool   // printing the payload panics itself: the statement lets this propagate
	lenient    bool   // only "no panic / text intact" is checked (payloads that declare themselves safe, panic(nil))
	noEnv      bool   // the payload is a nil pointer: it is reported as the constant <nil>, which need not be enveloped
}

type c11PString struct{ r *c11Raise }

func (p *c11PString) String() string { r := p.r; c11Invoked++; r.f(); return "unreachable" }

type c11VString struct{ r *c11Raise }

func (p c11VString) String() string { r := p.r; c11Invoked++; r.f(); return "unreachable" }

type c11PError struct{ r *c11Raise }

func (p *c11PError) Error() string { r := p.r; c11Invoked++; r.f(); return "unreachable" }

type c11PFormat struct{ r *c11Raise }

func (p *c11PFormat) Format(fmt.State, rune) { r := p.r; c11Invoked++; r.f() }

type c11PGoString struct{ r *c11Raise }

func (p *c11PGoString) GoString() string { r := p.r; c11Invoked++; r.f(); return "unreachable" }

type c11PSafeFormat struct{ r *c11Raise }

func (p *c11PSafeFormat) SafeFormat(SafePrinter, rune) { r := p.r; c11Invoked++; r.f() }

type c11PSafeMessage struct{ r *c11Raise }

func (p *c11PSafeMessage) SafeMessage() string { r := p.r; c11Invoked++; r.f(); return "unreachable" }

// partial output, then panic
type c11PFormatPartial struct{ r *c11Raise }

func (p *c11PFormatPartial) Format(s fmt.State, _ rune) {
	r := p.r
	c11Invoked++
	_, _ = io.WriteString(s, "fp")
	_, _ = s.Write([]byte("fq"))
	r.f()
}

type c11PSafeFormatPartial struct{ r *c11Raise }

func (p *c11PSafeFormatPartial) SafeFormat(w SafePrinter, _ rune) {
	r := p.r
	c11Invoked++
	w.SafeString("sp")
	w.UnsafeString("up")
	w.Printf("%d-%s", 42, "n")
	w.Print(Safe("q"))
	r.f()
}

// a SafeFormatter that contains a panicking operand and goes on writing
type c11SFOuter struct{ inner interface{} }

func (p c11SFOuter) SafeFormat(w SafePrinter, _ rune) {
	w.SafeString("o1")
	w.Print(p.inner)
	w.SafeString("o2")
	w.Printf("%v", p.inner)
	w.UnsafeString("o3")
}

// c11SFAll calls every SafePrinter method with edge values; it inherits the flags, width and
// precision of the directive it is printed with.
type c11SFAll struct{}

func (c11SFAll) SafeFormat(w SafePrinter, verb rune) {
	for _, c := range []int{'+', '-', '#', ' ', '0', 0, -1, 'x', math.MaxInt32, math.MinInt64} {
		_ = w.Flag(c)
	}
	_, _ = w.Width()
	_, _ = w.Precision()
	w.SafeInt(math.MinInt64)
	w.SafeInt(0)
	w.SafeUint(math.MaxUint64)
	w.SafeFloat(SafeFloat(math.NaN()))
	w.SafeFloat(SafeFloat(math.Copysign(0, -1)))
	w.SafeFloat(-1e300)
	w.SafeFloat(SafeFloat(math.Inf(-1)))
	w.SafeRune(0xD800)
	w.SafeRune(-1)
	w.SafeRune(0x2039)
	w.SafeByte(0xe2)
	w.SafeBytes(nil)
	w.SafeBytes([]byte("\x80\xb9"))
	w.SafeString("")
	w.UnsafeString("")
	w.UnsafeString("\xe2\x80")
	w.UnsafeByte(0xb9)
	w.UnsafeBytes(nil)
	w.UnsafeBytes([]byte{0xff})
	w.UnsafeRune(-1)
	w.UnsafeRune(0x110000)
	w.Print()
	w.Print(nil)
	w.Print(nil, nil)
	w.Printf("")
	w.Printf("%")
	w.Printf("%*d", 300, 1)
	w.Printf("%[3]*.[2]*[1]f", 12.0, 2, 6)
	_, _ = w.Write(nil)
	_, _ = w.Write([]byte("\xe2\x80\xb9\n"))
	_, _ = io.WriteString(w, "\xba")
	w.SafeRune(SafeRune(verb))
}

// c11FmtAll does the same through fmt.State only (fmt.Formatter).
type c11FmtAll struct{}

func (c11FmtAll) Format(s fmt.State, verb rune) {
	for _, c := range []int{'+', '-', '#', ' ', '0', 0, -1, math.MaxInt32} {
		_ = s.Flag(c)
	}
	_, _ = s.Width()
	_, _ = s.Precision()
	_, _ = s.Write(nil)
	_, _ = s.Write([]byte("w\xe2"))
	_, _ = io.WriteString(s, "\x80\xb9x")
	_, _ = fmt.Fprintf(s, "%c|%*d", verb, -20, 5)
	if sp, ok := s.(SafePrinter); ok {
		sp.SafeRune(SafeRune(verb))
	}
}

type c11Err struct{ s string }

func (e *c11Err) Error() string { return e.s }

type c11ValErr struct{ s string }

func (e c11ValErr) Error() string { return e.s }

type c11Unexp struct {
	a int
	b string
	c interface{}
	d *int
	e error
	f fmt.Stringer
	g []byte
	h map[string]interface{}
	j func()
	k chan int
	l [2]byte
	m RedactableString
	n SafeString
}

type c11Exp struct {
	A interface{}
	B fmt.Stringer
	C error
	D *c11Exp
	E []interface{}
	F map[interface{}]interface{}
}

type c11SafeInt int

func (c11SafeInt) SafeValue() {}

type c11State struct {
	wid, prec  int
	widOk, pOk bool
	flags      string
	bytes.Buffer
}

func (s *c11State) Width() (int, bool)     { return s.wid, s.widOk }
func (s *c11State) Precision() (int, bool) { return s.prec, s.pOk }
func (s *c11State) Flag(c int) bool {
	return c >= 0 && c < 128 && strings.IndexByte(s.flags, byte(c)) >= 0
}

type c11ErrWriter struct{ n int }

func (w *c11ErrWriter) Write(p []byte) (int, error) {
	if len(p) > w.n {
		return w.n, errors.New("short")
	}
	return len(p), nil
}

var _ = unsafe.Pointer(nil)
var _ = reflect.ValueOf
var _ = utf8.RuneError

// ---- operands --------------------------------------------------------------------------------

type c11Op struct {
	name     string // Go-like text of the operand
	v        interface{}
	plainInt bool // integer operand without methods: the rendering is compared with fmt's
	fmtRef   bool // fmt sees the same operand (no redact-specific interface): fmt decides whether a panic may propagate
}

func c11Raises() []*c11Raise {
	var nilmap map[string]int
	var nilptr *c11Unexp
	boom := &c11Raise{name: `panic("boom")`, f: func() { panic("boom") }}
	rs := []*c11Raise{
		boom,
		{name: `panic("b‹o›m")`, f: func() { panic("b" + vS + "o" + vE + "m") }},
		{name: `panic(errors.New("eboom"))`, f: func() { panic(errors.New("eboom")) }},
		{name: `nil map assignment`, f: func() { nilmap["a"] = 1 }},
		{name: `nil pointer dereference`, f: func() { nilptr.a = 1 }},
		{name: `index out of range`, f: func() { var s []int; k := 5; _ = s[k] }},
		{name: `panic(12345)`, f: func() { panic(12345) }},
		{name: `panic((*c11PString)(nil))`, f: func() { panic((*c11PString)(nil)) }, noEnv: true},
		{name: `panic(struct{a int; b string}{1, "x"})`, f: func() {
			panic(struct {
				a int
				b string
			}{1, "x"})
		}, noEnv: true}, // enveloped field by field
		{name: `panic(Safe("sboom"))`, f: func() { panic(Safe("sboom")) }, lenient: true},
		{name: `panic(nil)`, f: func() { panic(nil) }, lenient: true},
	}
	rs = append(rs,
		&c11Raise{name: `panic(&c11PString{boom})`, f: func() { panic(&c11PString{boom}) }, propagates: true},
		&c11Raise{name: `panic(&c11PError{boom})`, f: func() { panic(&c11PError{boom}) }, propagates: true},
	)
	for _, r := range rs {
		if r.propagates || r.lenient {
			continue
		}
		pv, _ := c11Try(r.f)
		r.text = fmt.Sprint(pv)
	}
	return rs
}

// c11Panicker builds the operands whose user method panics as described by r.
type c11Panicker struct {
	name    string
	v       interface{}
	nilRecv bool   // typed nil pointer: fmt prints <nil>
	partial string // content written before the panic
	redact  bool   // SafeFormat / SafeMessage (unknown to fmt)
}

func c11Panickers(r *c11Raise) []c11Panicker {
	return []c11Panicker{
		{name: "&c11PString{" + r.name + "}", v: &c11PString{r}},
		{name: "c11VString{" + r.name + "}", v: c11VString{r}},
		{name: "&c11PError{" + r.name + "}", v: &c11PError{r}},
		{name: "&c11PFormat{" + r.name + "}", v: &c11PFormat{r}},
		{name: "&c11PGoString{" + r.name + "}", v: &c11PGoString{r}},
		{name: "&c11PSafeFormat{" + r.name + "}", v: &c11PSafeFormat{r}, redact: true},
		{name: "&c11PSafeMessage{" + r.name + "}", v: &c11PSafeMessage{r}, redact: true},
		{name: "&c11PFormatPartial{" + r.name + "}", v: &c11PFormatPartial{r}, partial: "fpfq"},
		{name: "&c11PSafeFormatPartial{" + r.name + "}", v: &c11PSafeFormatPartial{r}, partial: "spup42-nq", redact: true},
	}
}

func c11NilPanickers() []c11Panicker {
	return []c11Panicker{
		{name: "(*c11PString)(nil)", v: (*c11PString)(nil), nilRecv: true},
		{name: "(*c11VString)(nil)", v: (*c11VString)(nil), nilRecv: true},
		{name: "(*c11PError)(nil)", v: (*c11PError)(nil), nilRecv: true},
		{name: "(*c11PFormat)(nil)", v: (*c11PFormat)(nil), nilRecv: true},
		{name: "(*c11PGoString)(nil)", v: (*c11PGoString)(nil), nilRecv: true},
		{name: "(*c11PSafeFormat)(nil)", v: (*c11PSafeFormat)(nil), nilRecv: true, redact: true},
		{name: "(*c11PSafeMessage)(nil)", v: (*c11PSafeMessage)(nil), nilRecv: true, redact: true},
		{name: "(*c11PFormatPartial)(nil)", v: (*c11PFormatPartial)(nil), nilRecv: true},
		{name: "(*c11PSafeFormatPartial)(nil)", v: (*c11PSafeFormatPartial)(nil), nilRecv: true, redact: true},
		{name: "(*c11ValErr)(nil)", v: (*c11ValErr)(nil), nilRecv: true},
	}
}

func c11IntOps(all bool) []c11Op {
	ops := []c11Op{
		{"int(0)", int(0), true, true},
		{"int(-7)", int(-7), true, true},
		{"int64(math.MinInt64)", int64(math.MinInt64), true, true},
		{"uint64(math.MaxUint64)", uint64(math.MaxUint64), true, true},
		{"uint8(200)", uint8(200), true, true},
		{"int32(0x2039)", int32(0x2039), true, true},
	}
	if !all {
		return ops
	}
	return append(ops, []c11Op{
		{"int(math.MaxInt64)", int(math.MaxInt64), true, true},
		{"int(math.MinInt64)", int(math.MinInt64), true, true},
		{"int8(math.MinInt8)", int8(math.MinInt8), true, true},
		{"int8(math.MaxInt8)", int8(math.MaxInt8), true, true},
		{"int16(math.MinInt16)", int16(math.MinInt16), true, true},
		{"int16(math.MaxInt16)", int16(math.MaxInt16), true, true},
		{"int32(math.MinInt32)", int32(math.MinInt32), true, true},
		{"int32(math.MaxInt32)", int32(math.MaxInt32), true, true},
		{"int64(math.MaxInt64)", int64(math.MaxInt64), true, true},
		{"uint(math.MaxUint64)", uint(math.MaxUint64), true, true},
		{"uint16(math.MaxUint16)", uint16(math.MaxUint16), true, true},
		{"uint32(math.MaxUint32)", uint32(math.MaxUint32), true, true},
		{"uint64(1<<63)", uint64(1 << 63), true, true},
		{"uintptr(0)", uintptr(0), true, true},
		{"uintptr(math.MaxUint64)", uintptr(math.MaxUint64), true, true},
		{"rune('a')", rune('a'), true, true},
		{"rune(0xD800)", rune(0xD800), true, true},
		{"rune(0xDFFF)", rune(0xDFFF), true, true},
		{"rune(-1)", rune(-1), true, true},
		{"rune(0x110000)", rune(0x110000), true, true},
		{"rune(0x10FFFF)", rune(0x10FFFF), true, true},
		{"rune(0xFFFD)", rune(0xFFFD), true, true},
		{"rune(0x203A)", rune(0x203A), true, true},
		{"rune('\\n')", rune('\n'), true, true},
	}...)
}

func c11Ops() []c11Op {
	ops := c11IntOps(true)
	add := func(name string, v interface{}, fmtRef bool) { ops = append(ops, c11Op{name, v, false, fmtRef}) }
	x := 5
	px := &x
	ch := make(chan int)
	fn := func() {}
	var nilErr error = (*c11Err)(nil)
	var sb builder.StringBuilder
	sb.SafeString("s")
	sb.UnsafeString("u")
	unexp := c11Unexp{a: 1, b: "b" + vS, c: &c11PString{nil}, d: px, e: &c11Err{"e"}, f: &c11PString{nil}, g: []byte("\xe2"), h: map[string]interface{}{"k": nil},
		j: fn, k: ch, l: [2]byte{0xe2, 0x80}, m: "r", n: "n"}
	nested := map[string]map[int][]interface{}{"a": {1: {nil, 2, "x", []byte(nil)}, -1: nil}, "": nil}
	mixed := map[interface{}]interface{}{1: "a", "b": 2, math.NaN(): nil, math.Inf(1): 1.5, true: false, [2]int{1, 2}: struct{}{}, px: px, ch: ch,
		struct{ a, b int }{1, 2}: nil, int8(3): uint8(3), complex(1, 2): complex64(3), (*int)(nil): nil, uintptr(1): 1, float32(2): 2, nil: nil}
	nanmap := map[float64]int{math.NaN(): 1, math.Copysign(0, -1): 2}
	exp := c11Exp{A: nil, D: &c11Exp{A: 1}, E: []interface{}{nil, (*int)(nil), c11Exp{}}, F: map[interface{}]interface{}{nil: nil}}
	// floats / complex
	add("float64(0)", float64(0), true)
	add("math.Copysign(0,-1)", math.Copysign(0, -1), true)
	add("float64(1.5)", 1.5, true)
	add("math.NaN()", math.NaN(), true)
	add("math.Inf(1)", math.Inf(1), true)
	add("math.Inf(-1)", math.Inf(-1), true)
	add("math.MaxFloat64", math.MaxFloat64, true)
	add("-math.MaxFloat64", -math.MaxFloat64, true)
	add("math.SmallestNonzeroFloat64", math.SmallestNonzeroFloat64, true)
	add("float32(math.NaN())", float32(math.NaN()), true)
	add("float32(math.Inf(-1))", float32(math.Inf(-1)), true)
	add("float32(math.MaxFloat32)", float32(math.MaxFloat32), true)
	add("complex(NaN,+Inf)", complex(math.NaN(), math.Inf(1)), true)
	add("complex64(1+2i)", complex64(1+2i), true)
	add("complex(-0,-Inf)", complex(math.Copysign(0, -1), math.Inf(-1)), true)
	add("complex(MaxFloat64,-MaxFloat64)", complex(math.MaxFloat64, -math.MaxFloat64), true)
	// bool, strings, bytes
	add("true", true, true)
	add("false", false, true)
	add(`""`, "", true)
	add(`"abc"`, "abc", true)
	add(`"‹x›"`, vS+"x"+vE, true)
	add(`"\xff\xfe"`, "\xff\xfe", true)
	add(`"a\nb"`, "a\nb", true)
	add(`"\xe2\x80"`, "\xe2\x80", true)
	add(`strings.Repeat("é`+"`"+`", 100)`, strings.Repeat("é`", 100), true)
	add("[]byte(nil)", []byte(nil), true)
	add("[]byte{}", []byte{}, true)
	add(`[]byte("ab")`, []byte("ab"), true)
	add(`[]byte("›\xe2\n")`, []byte(vE+"\xe2\n"), true)
	add("[0]byte{}", [0]byte{}, true)
	add("[3]byte{0xe2,0x80,0xb9}", [3]byte{0xe2, 0x80, 0xb9}, true)
	add("&[3]byte{'a',0xff,0}", &[3]byte{'a', 0xff, 0}, true)
	add("[2]uint8{1,2}", [2]uint8{1, 2}, true)
	add("[]int8{-1}", []int8{-1}, true)
	add("[]string{\"a\",\"\"}", []string{"a", ""}, true)
	// pointers, nil, typed nils
	add("nil", nil, true)
	add("&x", px, true)
	add("&px", &px, true)
	add("(*int)(nil)", (*int)(nil), true)
	add("unsafe.Pointer(nil)", unsafe.Pointer(nil), true)
	add("unsafe.Pointer(&x)", unsafe.Pointer(px), true)
	add("map[string]int(nil)", map[string]int(nil), true)
	add("[]int(nil)", []int(nil), true)
	add("[]interface{}(nil)", []interface{}(nil), true)
	add("(func())(nil)", (func())(nil), true)
	add("(chan int)(nil)", (chan int)(nil), true)
	add("func(){}", fn, true)
	add("make(chan int)", ch, true)
	add("error((*c11Err)(nil))", nilErr, true)
	add("(*c11ValErr)(nil)", (*c11ValErr)(nil), true)
	add("(*c11Unexp)(nil)", (*c11Unexp)(nil), true)
	add("(*c11Exp)(nil)", (*c11Exp)(nil), true)
	add("(*builder.StringBuilder)(nil)", (*builder.StringBuilder)(nil), false)
	add("[]error{nil}", []error{nil}, true)
	add("[]fmt.Stringer{nil,(*c11PString)(nil)}", []fmt.Stringer{nil, (*c11PString)(nil)}, true)
	add("[]interface{}{nil,(*int)(nil),[]int(nil),map[int]int(nil),(func())(nil)}", []interface{}{nil, (*int)(nil), []int(nil), map[int]int(nil), (func())(nil)}, true)
	// structs, maps
	add("struct{}{}", struct{}{}, true)
	add("c11Unexp{...}", unexp, true)
	add("&c11Unexp{...}", &unexp, true)
	add("c11Unexp{}", c11Unexp{}, true)
	add("c11Exp{...}", exp, true)
	add("&c11Exp{}", &c11Exp{}, true)
	add("map[string]map[int][]interface{}{...}", nested, true)
	add("map[interface{}]interface{}{mixed keys}", mixed, true)
	add("map[float64]int{NaN:1,-0:2}", nanmap, true)
	add("map[[2]int]struct{}{}", map[[2]int]struct{}{{1, 2}: {}}, true)
	add("&map[int]int{1:2}", &map[int]int{1: 2}, true)
	add("&[]int{1}", &[]int{1}, true)
	// reflect.Value
	add("reflect.Value{}", reflect.Value{}, true)
	add("reflect.ValueOf(1)", reflect.ValueOf(1), true)
	add(`reflect.ValueOf("s‹")`, reflect.ValueOf("s"+vS), true)
	add("reflect.ValueOf(c11Unexp{...}).Field(2)", reflect.ValueOf(unexp).Field(2), true)
	add("reflect.ValueOf(c11Unexp{...}).Field(5)", reflect.ValueOf(unexp).Field(5), true)
	add("reflect.ValueOf(c11Unexp{...}).Field(11)", reflect.ValueOf(unexp).Field(11), false)
	add("reflect.ValueOf(c11Unexp{...})", reflect.ValueOf(unexp), true)
	add("reflect.ValueOf(&x).Elem()", reflect.ValueOf(px).Elem(), true)
	add("reflect.ValueOf(map[int]int(nil))", reflect.ValueOf(map[int]int(nil)), true)
	add("reflect.ValueOf((*int)(nil))", reflect.ValueOf((*int)(nil)), true)
	add("reflect.ValueOf(&exp).Elem().Field(0)", reflect.ValueOf(&exp).Elem().Field(0), true)
	add(`reflect.ValueOf(RedactableString("‹r›"))`, reflect.ValueOf(RedactableString(vS+"r"+vE)), false)
	add(`reflect.ValueOf(RedactableBytes(nil))`, reflect.ValueOf(RedactableBytes(nil)), false)
	add("reflect.ValueOf(Safe(1))", reflect.ValueOf(Safe(1)), false)
	add("reflect.ValueOf(Unsafe(nil))", reflect.ValueOf(Unsafe(nil)), false)
	add("reflect.ValueOf(reflect.ValueOf(1))", reflect.ValueOf(reflect.ValueOf(1)), true)
	// errors
	add(`errors.New("e‹")`, errors.New("e"+vS), true)
	add(`fmt.Errorf("w: %w", io.EOF)`, fmt.Errorf("w: %w", io.EOF), true)
	add(`&c11Err{"x"}`, &c11Err{"x"}, true)
	add(`c11ValErr{""}`, c11ValErr{""}, true)
	// redact's own types
	add(`RedactableString("a‹b›c")`, RedactableString("a"+vS+"b"+vE+"c"), false)
	add(`RedactableString("")`, RedactableString(""), false)
	add(`RedactableBytes("‹b›")`, RedactableBytes(vS+"b"+vE), false)
	add(`RedactableBytes(nil)`, RedactableBytes(nil), false)
	add(`SafeString("s›")`, SafeString("s"+vE), false)
	add(`SafeInt(math.MinInt64)`, SafeInt(math.MinInt64), false)
	add(`SafeUint(math.MaxUint64)`, SafeUint(math.MaxUint64), false)
	add(`SafeFloat(math.NaN())`, SafeFloat(math.NaN()), false)
	add(`SafeRune(0xDFFF)`, SafeRune(0xDFFF), false)
	add(`SafeRune(-1)`, SafeRune(-1), false)
	add(`i.SafeByte(0xe2)`, i.SafeByte(0xe2), false)
	add(`i.SafeBytes(nil)`, i.SafeBytes(nil), false)
	add(`i.SafeBytes("\xe2\x80")`, i.SafeBytes("\xe2\x80"), false)
	add(`c11SafeInt(-5)`, c11SafeInt(-5), false)
	add(`Safe(nil)`, Safe(nil), false)
	add(`Unsafe(nil)`, Unsafe(nil), false)
	add(`Safe(int64(math.MinInt64))`, Safe(int64(math.MinInt64)), false)
	add(`Unsafe(SafeInt(-1))`, Unsafe(SafeInt(-1)), false)
	add(`Safe(Unsafe(Safe("n")))`, Safe(Unsafe(Safe("n"))), false)
	add(`Unsafe(Safe(Unsafe(1.5)))`, Unsafe(Safe(Unsafe(1.5))), false)
	add(`Safe(c11Unexp{...})`, Safe(unexp), false)
	add(`Unsafe(map[interface{}]interface{}{mixed keys})`, Unsafe(mixed), false)
	add(`Safe((*c11PString)(nil))`, Safe((*c11PString)(nil)), false)
	add(`[]interface{}{Safe(1),Unsafe("u"),RedactableString("‹r›"),SafeRune(-1)}`, []interface{}{Safe(1), Unsafe("u"), RedactableString(vS + "r" + vE), SafeRune(-1)}, false)
	add(`struct{S i.SafeValue; U interface{}}{Safe(nil), Unsafe(nil)}`, struct {
		S i.SafeValue
		U interface{}
	}{Safe(nil), Unsafe(nil)}, false)
	add(`StringBuilder{"s‹u›"}`, sb, false)
	add(`&StringBuilder{"s‹u›"}`, &sb, false)
	add(`StringBuilder{}`, builder.StringBuilder{}, false)
	add(`c11SFAll{}`, c11SFAll{}, false)
	add(`&c11SFAll{}`, &c11SFAll{}, false)
	add(`c11FmtAll{}`, c11FmtAll{}, false)
	add(`Safe(c11FmtAll{})`, Safe(c11FmtAll{}), false)
	add(`Unsafe(c11SFAll{})`, Unsafe(c11SFAll{}), false)
	add(`c11SFOuter{c11SFAll{}}`, c11SFOuter{c11SFAll{}}, false)
	return ops
}

// ---- calling the printing entry points --------------------------------------------------------

const (
	c11EpSprintf = iota
	c11EpBuilder
	c11EpSprintfn
	c11EpErrorf
	c11EpFprintf
	c11EpCount
)

var c11EpNames = [...]string{"Sprintf", "StringBuilder{SafeString(\"pre\"); UnsafeString(\"u\"); Printf", "Sprintfn(w.SafeString(\"pre\"); w.UnsafeString(\"u\"); w.Printf", "HelperForErrorf", "Fprintf(&bytes.Buffer, "}

// c11Print formats through entry point ep. pre/post are the contents written around the call
// (without markers).
func c11Print(ep int, format string, args []interface{}) (out, pre, post string) {
	switch ep {
	case c11EpBuilder:
		var b builder.StringBuilder
		b.SafeString("pre")
		b.UnsafeString("u")
		b.Printf(format, args...)
		b.SafeString("post")
		b.UnsafeString("w")
		return string(b.RedactableString()), "preu", "postw"
	case c11EpSprintfn:
		return string(Sprintfn(func(w SafePrinter) {
			w.SafeString("pre")
			w.UnsafeString("u")
			w.Printf(format, args...)
			w.UnsafeString("w")
			w.SafeString("post")
		})), "preu", "wpost"
	case c11EpErrorf:
		s, _ := HelperForErrorf(format, args...)
		return string(s), "", ""
	case c11EpFprintf:
		var b bytes.Buffer
		b.WriteString("pre")
		_, _ = Fprintf(&b, format, args...)
		return b.String(), "pre", ""
	}
	return string(Sprintf(format, args...)), "", ""
}

func c11CallText(ep int, format string, argText string) string {
	s := c11EpNames[ep]
	if !strings.HasSuffix(s, " ") {
		s += "("
	}
	s += fmt.Sprintf("%q", format)
	if argText != "" {
		s += ", " + argText
	}
	s += ")"
	if ep == c11EpBuilder || ep == c11EpSprintfn {
		s += "; ...}"
	}
	return s
}

// c11Run runs one formatting call (format is "A|" + directive + "|Z") and checks the part of the
// statement that holds for every call: no panic (unless mayPropagate, or fmt panics on the same call
// and fmtRef says fmt is a reference for it) and the text around the directive is intact.
// It returns the output and whether the call returned normally.
func c11Run(rep *c11Rep, ep int, format string, args []interface{}, argText string, fmtRef, mayPropagate bool) (string, bool) {
	tail := "|Z"
	if !strings.HasSuffix(format, tail) {
		tail = "" // the directive without verb ends the format
	}
	var out, pre, post string
	pv, panicked := c11Try(func() { out, pre, post = c11Print(ep, format, args) })
	if panicked {
		if mayPropagate {
			return "", false
		}
		if fmtRef {
			if _, fp := c11Try(func() { _ = fmt.Sprintf(format, args...) }); fp {
				return "", false
			}
		}
		rep.fail(c11CallText(ep, format, argText), "panic: "+fmt.Sprint(pv), "the call panicked (fmt does not panic on the same call)")
		return "", false
	}
	d := c11DelMarkers(out)
	if !strings.HasPrefix(d, pre+"A|") {
		rep.fail(c11CallText(ep, format, argText), out, "text written before the directive is lost or altered")
		return out, false
	} else if !strings.HasSuffix(d, post) || !(strings.HasSuffix(d, tail+post) || strings.Contains(d, tail+"%!(EXTRA ")) {
		rep.fail(c11CallText(ep, format, argText), out, "text written after the directive is lost or altered")
		return out, false
	}
	return out, true
}

func c11FlagSets(all bool) []string {
	var fs []string
	const flags = "+-# 0"
	for m := 0; m < 32; m++ {
		s := ""
		for k := 0; k < 5; k++ {
			if m&(1<<uint(k)) != 0 {
				s += flags[k : k+1]
			}
		}
		fs = append(fs, s)
	}
	if !all {
		return []string{"", "+", "-", "#", " ", "0", "+#0", "+-# 0"}
	}
	return append(fs, "0-", "00", "##", "0+#")
}

func c11Verbs() []string {
	var vs []string
	for c := 'a'; c <= 'z'; c++ {
		vs = append(vs, string(c))
	}
	for c := 'A'; c <= 'Z'; c++ {
		vs = append(vs, string(c))
	}
	return append(vs, "%", "!", "(", ")", "_", "\n", "\x00", "\x7f", ",", "é", vS, vE, "世", "\U0010FFFF", "�",
		"\xff", "\xe2", "\xe2\x80", "\xc0\x80", "\xed\xa0\x80", "\xf4\x90\x80\x80", "")
}

// width / precision specifications: text in the format plus the operand consumed by '*'.
type c11WP struct {
	text string
	arg  []interface{}
	name string
}

func c11Widths(level int) []c11WP {
	w := []c11WP{{"", nil, ""}, {"7", nil, ""}, {"100", nil, ""}, {"*", []interface{}{-70}, "-70, "}}
	if level >= 1 {
		w = append(w, []c11WP{{"1", nil, ""}, {"64", nil, ""}, {"69", nil, ""}, {"1000", nil, ""},
			{"*", []interface{}{5}, "5, "}, {"*", []interface{}{"x"}, "\"x\", "}, {"*", []interface{}{int64(1) << 40}, "int64(1)<<40, "}}...)
	}
	if level >= 2 {
		w = append(w, []c11WP{{"65", nil, ""}, {"66", nil, ""}, {"67", nil, ""}, {"68", nil, ""}, {"70", nil, ""}, {"3000", nil, ""},
			{"*", []interface{}{-1000}, "-1000, "},
			{"*", []interface{}{nil}, "nil, "}, {"*", []interface{}{uint8(200)}, "uint8(200), "}, {"*", []interface{}{uint64(math.MaxUint64)}, "uint64(math.MaxUint64), "},
			{"*", []interface{}{math.MinInt64}, "math.MinInt64, "}, {"*", []interface{}{int8(-128)}, "int8(-128), "}, {"*", []interface{}{1.5}, "1.5, "}}...)
	}
	return w
}

func c11Precs(level int) []c11WP {
	p := []c11WP{{"", nil, ""}, {".", nil, ""}, {".0", nil, ""}, {".7", nil, ""}, {".100", nil, ""}, {".*", []interface{}{70}, "70, "}}
	if level >= 1 {
		p = append(p, []c11WP{{".1", nil, ""}, {".64", nil, ""}, {".1000", nil, ""}, {".*", []interface{}{-5}, "-5, "}, {".*", []interface{}{"x"}, "\"x\", "}}...)
	}
	if level >= 2 {
		p = append(p, []c11WP{{".65", nil, ""}, {".66", nil, ""}, {".67", nil, ""}, {".68", nil, ""}, {".3000", nil, ""},
			{".*", []interface{}{1000}, "1000, "}, {".*", []interface{}{int64(1) << 40}, "int64(1)<<40, "}, {".*", []interface{}{nil}, "nil, "},
			{".*", []interface{}{uint16(300)}, "uint16(300), "}, {".*", []interface{}{0}, "0, "}}...)
	}
	return p
}

// sweep A: every verb x flag subset x width/precision x operand
func c11SweepDirectives(rep *c11Rep) {
	thorough := c11Thorough()
	verbs, flags, ops := c11Verbs(), c11FlagSets(thorough), c11Ops()
	widths, precs := c11Widths(0), c11Precs(0)
	if !thorough {
		widths = []c11WP{widths[0], widths[2], widths[3]}
		precs = []c11WP{precs[0], precs[4]}
	}
	cases, nontrivial := 0, 0
	for _, verb := range verbs {
		for _, fl := range flags {
			for wi, w := range widths {
				for pi, p := range precs {
					format := "A|%" + fl + w.text + p.text + verb + "|Z"
					if verb == "" {
						format = "A|%" + fl + w.text + p.text
					}
					for _, op := range ops {
						if rep.full() {
							return
						}
						args := append(append(append([]interface{}(nil), w.arg...), p.arg...), op.v)
						argText := w.name + p.name + op.name
						eps := []int{c11EpSprintf}
						if wi == 0 && pi == 0 {
							eps = []int{c11EpSprintf, c11EpBuilder, c11EpSprintfn, c11EpErrorf, c11EpFprintf}
						}
						for _, ep := range eps {
							cases++
							out, ok := c11Run(rep, ep, format, args, argText, op.fmtRef, false)
							if ok && !strings.Contains(out, "%!") {
								nontrivial++
							}
						}
					}
				}
			}
		}
	}
	c11Bounded("no panic and text around the directive intact, for every verb x flag subset x width/precision x operand kind (Sprintf; also StringBuilder.Printf, SafePrinter.Printf, HelperForErrorf, Fprintf when no width/precision)",
		cases, nontrivial, "the verb is valid for the operand: the output has no %!verb(...) report",
		fmt.Sprintf("%d verbs (all ASCII letters, %%, !, punctuation, control, multi-byte, invalid UTF-8, none) x %d flag strings x %d widths x %d precisions x %d operands", len(verbs), len(flags), len(widths), len(precs), len(ops)),
		rep.fails == 0)
}

// sweep B: integer and rune formatting with wide widths and precisions; the rendering is compared
// with fmt's (the statement's "rendered": nothing is lost or cut).
func c11SweepIntegers(rep *c11Rep) {
	thorough := c11Thorough()
	verbs := []string{"d", "x", "X", "o", "O", "b", "U", "c", "q", "v"}
	flags := c11FlagSets(true)[:32]
	ops := c11IntOps(thorough)
	widths, precs := c11Widths(1), c11Precs(1)
	if thorough {
		widths, precs = c11Widths(2), c11Precs(2)
	}
	cases, nontrivial := 0, 0
	// widths and precisions at the limit of what the printer accepts (a million columns): few flags and operands
	huge := []c11WP{{"1000000", nil, ""}, {"1000001", nil, ""}, {"*", []interface{}{1000000}, "1000000, "}, {"*", []interface{}{1000001}, "1000001, "},
		{".1000000", nil, ""}, {".1000001", nil, ""}, {".*", []interface{}{1000000}, "1000000, "}, {"1000000.7", nil, ""}}
	hugeFlags, hugeOps := []string{"+#0"}, ops[:1]
	if thorough {
		hugeFlags, hugeOps = []string{"", "0", "+#0", "-# "}, ops[:2]
	}
	for _, verb := range verbs {
		for _, fl := range flags {
			for wi, w := range widths {
				for pi, p := range precs {
					if wi >= len(c11Widths(1)) && pi >= len(c11Precs(1)) {
						continue // the rarer widths are combined with the common precisions and conversely
					}
					format := "A|%" + fl + w.text + p.text + verb + "|Z"
					for _, op := range ops {
						if rep.full() {
							return
						}
						args := append(append(append([]interface{}(nil), w.arg...), p.arg...), op.v)
						argText := w.name + p.name + op.name
						cases++
						ep := c11EpSprintf
						if cases%7 == 0 {
							ep = c11EpBuilder
						}
						out, ok := c11Run(rep, ep, format, args, argText, true, false)
						if !ok {
							continue
						}
						want := c11EscMarkers(fmt.Sprintf(format, args...))
						got := c11DelMarkers(out)
						if ep == c11EpBuilder {
							want = "preu" + want + "postw"
						}
						if got != want {
							rep.fail(c11CallText(ep, format, argText), out, "the rendering differs from fmt's for a plain integer operand (digits or padding lost); fmt gives "+c11Short(want))
						}
						if len(out) > 68 {
							nontrivial++
						}
					}
				}
			}
		}
	}
	for _, verb := range verbs {
		for _, fl := range hugeFlags {
			for _, h := range huge {
				for _, op := range hugeOps {
					if rep.full() {
						return
					}
					format := "A|%" + fl + h.text + verb + "|Z"
					args := append(append([]interface{}(nil), h.arg...), op.v)
					cases++
					out, ok := c11Run(rep, c11EpSprintf, format, args, h.name+op.name, true, false)
					if !ok {
						continue
					}
					nontrivial++
					if want := c11EscMarkers(fmt.Sprintf(format, args...)); c11DelMarkers(out) != want {
						rep.fail(c11CallText(c11EpSprintf, format, h.name+op.name), out, "the rendering differs from fmt's for a plain integer operand (digits or padding lost); fmt gives "+c11Short(want))
					}
				}
			}
		}
	}
	c11Bounded("integer/rune verbs with large width and precision: no panic, text intact, rendering equal to fmt's after removing the delimiters",
		cases, nontrivial, "the output is longer than the 68-byte fixed scratch buffer of the integer formatter",
		fmt.Sprintf("verbs d x X o O b U c q v x 32 flag subsets x %d widths x %d precisions (each of the first 11 with all of the other kind; widths 0..3000, '*' with int/negative/huge/non-int operands) x %d integer operands (all sizes, min/max, invalid runes); plus 8 width/precision texts of 1e6 and 1e6+1 x %d flag strings x %d operands", len(widths), len(precs), len(ops), len(hugeFlags), len(hugeOps)),
		rep.fails == 0)
}

func c11Short(s string) string {
	if len(s) > 200 {
		return fmt.Sprintf("%q...(%d bytes)", s[:200], len(s))
	}
	return fmt.Sprintf("%q", s)
}

// sweep C: explicit operand indexes, valid and malformed, at the three places of a directive
func c11SweepIndexes(rep *c11Rep) {
	thorough := c11Thorough()
	idx := []string{"", "[1]", "[2]", "[0]", "[4]", "[", "[x]", "[99999999999999999999]"}
	if thorough {
		idx = append(idx, "[3]", "[-1]", "[]", "[1", "]", "[1]]", "[1][2]", "[ 1]", "[1 ]", "[1000001]", "[+1]", "[1.5]", "[\xff]", "[*]", "[2]*")
	}
	ws := []string{"", "*", "5"}
	ps := []string{"", ".*", ".3", "."}
	verbs := []string{"d", "v", "s", "x", "w", "T", "%", "é"}
	type al struct {
		a    []interface{}
		text string
	}
	argLists := []al{{nil, ""}, {[]interface{}{1}, "1"}, {[]interface{}{"a", 2}, "\"a\", 2"}, {[]interface{}{3, 4, "x"}, "3, 4, \"x\""},
		{[]interface{}{nil, nil}, "nil, nil"}, {[]interface{}{-2, uint8(3), 2.5, io.EOF}, "-2, uint8(3), 2.5, io.EOF"}}
	cases, nontrivial := 0, 0
	for _, i1 := range idx {
		for _, w := range ws {
			for _, p := range ps {
				for _, i2 := range idx {
					if p == "" && i2 != "" {
						continue
					}
					for _, i3 := range idx {
						for _, verb := range verbs {
							format := "A|%" + i1 + w + p + i2 + i3 + verb + "|Z"
							if p != "" && i2 != "" {
								format = "A|%" + i1 + w + p[:1] + i2 + p[1:] + i3 + verb + "|Z"
							}
							for _, a := range argLists {
								if rep.full() {
									return
								}
								cases++
								ep := c11EpSprintf
								if cases%5 == 0 {
									ep = c11EpErrorf
								}
								out, ok := c11RunFree(rep, ep, format, a.a, a.text)
								if !ok {
									continue
								}
								want := c11EscMarkers(fmt.Sprintf(format, a.a...))
								if verb == "w" && ep == c11EpErrorf {
									want = c11EscMarkers(fmt.Errorf(format, a.a...).Error())
								}
								if got := c11DelMarkers(out); got != want {
									rep.fail(c11CallText(ep, format, a.text), out, "the rendering differs from fmt's (text lost or altered); fmt gives "+c11Short(want))
								}
								if strings.Contains(out, "BADINDEX") || strings.Contains(out, "MISSING") || strings.Contains(out, "BAD") {
									nontrivial++
								}
							}
						}
					}
				}
			}
		}
	}
	c11Bounded("explicit operand indexes %[n] (valid, 0, too large, malformed) before width, precision and verb: no panic, rendering equal to fmt's after removing the delimiters",
		cases, nontrivial, "the output reports BADINDEX, MISSING, BADWIDTH or BADPREC",
		fmt.Sprintf("%d index texts at 3 positions x widths {none,*,5} x precisions {none,.*,.3,.} x verbs d v s x w T %% é x %d operand lists", len(idx), len(argLists)),
		rep.fails == 0)
}

// c11RunFree: like c11Run for formats whose tail may be swallowed by a malformed directive: only
// "no panic (unless fmt panics too)" and the leading text are checked here.
func c11RunFree(rep *c11Rep, ep int, format string, args []interface{}, argText string) (string, bool) {
	var out, pre string
	pv, panicked := c11Try(func() { out, pre, _ = c11Print(ep, format, args) })
	if panicked {
		if _, fp := c11Try(func() { _ = fmt.Sprintf(format, args...) }); fp {
			return "", false
		}
		rep.fail(c11CallText(ep, format, argText), "panic: "+fmt.Sprint(pv), "the call panicked (fmt does not panic on the same call)")
		return "", false
	}
	if !strings.HasPrefix(c11DelMarkers(out), pre+"A|") {
		rep.fail(c11CallText(ep, format, argText), out, "text written before the directive is lost or altered")
	}
	return out, true
}

// sweep D: user methods that panic
type c11Ctx struct {
	name string
	wrap func(v interface{}) interface{}
	safe bool // the caller declared the operand safe: the payload need not be enveloped
}

func c11Contexts() []c11Ctx {
	return []c11Ctx{
		{"%s", func(v interface{}) interface{} { return v }, false},
		{"Safe(%s)", func(v interface{}) interface{} { return Safe(v) }, true},
		{"Unsafe(%s)", func(v interface{}) interface{} { return Unsafe(v) }, false},
		{"[]interface{}{1, %s}", func(v interface{}) interface{} { return []interface{}{1, v} }, false},
		{"c11Exp{A: %s}", func(v interface{}) interface{} { return c11Exp{A: v} }, false},
		{"&c11Exp{E: []interface{}{%s}}", func(v interface{}) interface{} { return &c11Exp{E: []interface{}{v}} }, false},
		{"map[interface{}]interface{}{\"k\": %s}", func(v interface{}) interface{} { return map[interface{}]interface{}{"k": v} }, false},
		{"reflect.ValueOf(%s)", func(v interface{}) interface{} { return reflect.ValueOf(v) }, false},
		{"c11SFOuter{%s}", func(v interface{}) interface{} { return c11SFOuter{v} }, false},
	}
}

const (
	c11EpPrint = c11EpCount + iota
	c11EpSBPrint
	c11EpJoinTo
	c11EpSprint
)

// c11PrintPlain prints op (default format) between literal texts through the Print-style entry points.
func c11PrintPlain(ep int, op interface{}) (string, string) {
	switch ep {
	case c11EpPrint:
		return string(Sprintfn(func(w SafePrinter) {
			w.SafeString("A|")
			w.Print(op)
			w.SafeString("|M|")
			w.Print("tail")
			w.SafeString("|Z")
		})), "Sprintfn(w.SafeString(\"A|\"); w.Print(%s); w.SafeString(\"|M|\"); w.Print(\"tail\"); w.SafeString(\"|Z\"))"
	case c11EpSBPrint:
		var b builder.StringBuilder
		b.SafeString("A|")
		b.Print(op)
		b.SafeString("|M|")
		b.Print("tail")
		b.SafeString("|Z")
		return string(b.RedactableString()), "StringBuilder{SafeString(\"A|\"); Print(%s); SafeString(\"|M|\"); Print(\"tail\"); SafeString(\"|Z\")}"
	case c11EpJoinTo:
		var b builder.StringBuilder
		b.SafeString("A|")
		JoinTo(&b, "|M|", []interface{}{op, "tail"})
		b.SafeString("|Z")
		return string(b.RedactableString()), "StringBuilder{SafeString(\"A|\"); JoinTo(&b, \"|M|\", []interface{}{%s, \"tail\"}); SafeString(\"|Z\")}"
	}
	return string(Sprint(Safe("A|"), op, Safe("|M|"), "tail", Safe("|Z"))), "Sprint(Safe(\"A|\"), %s, Safe(\"|M|\"), \"tail\", Safe(\"|Z\"))"
}

// c11CheckReport checks the statement's clause on a contained panic: reported in place as
// %!verb(PANIC=...), payload inside an envelope, text around intact.
func c11CheckReport(rep *c11Rep, call, out string, invoked int, r *c11Raise, pk c11Panicker, safeCtx bool) {
	if !strings.Contains(out, "|M|"+vS+"tail"+vE+"|Z") && !strings.Contains(out, "| M |") {
		if !strings.Contains(c11DelMarkers(out), "tail") || !strings.Contains(out, vS+"tail"+vE) {
			rep.fail(call, out, "the operand printed after the panicking one is lost or no longer enveloped")
			return
		}
	}
	if r == nil || r.lenient || r.propagates || pk.nilRecv || invoked == 0 {
		return
	}
	if !vWellFormed(out) {
		rep.fail(call, out, "the output around a contained panic is not well-formed")
		return
	}
	if n := strings.Count(out, "(PANIC="); n != invoked {
		rep.fail(call, out, fmt.Sprintf("%d user method invocations panicked but %d %%!verb(PANIC=...) reports are in the output", invoked, n))
		return
	}
	esc := c11EscMarkers(r.text)
	rest := out
	for {
		k := strings.Index(rest, "(PANIC=")
		if k < 0 {
			break
		}
		base := len(out) - len(rest) + k + len("(PANIC=")
		if before := c11DelMarkers(rest[:k]); !strings.HasSuffix(before[:len(before)-c11LastRuneLen(before)], "%!") {
			rep.fail(call, out, "the panic report does not have the form %!verb(PANIC=...)")
			return
		}
		if pk.partial != "" {
			b := c11DelMarkers(rest[:k])
			b = b[:len(b)-c11LastRuneLen(b)]
			if !strings.HasSuffix(b, pk.partial+"%!") {
				rep.fail(call, out, "the output written by the user method before it panicked ("+pk.partial+") is lost")
				return
			}
		}
		rest = rest[k+len("(PANIC="):]
		// the report in the text without delimiters: label, payload, ")"
		dr := c11DelMarkers(rest)
		j := strings.Index(dr, esc)
		if j < 0 || strings.Contains(dr[:j], ")") || strings.Contains(dr[:j], "(PANIC=") {
			rep.fail(call, out, "the panic payload "+fmt.Sprintf("%q", esc)+" is not in the report")
			return
		}
		if !strings.HasPrefix(dr[j+len(esc):], ")") {
			rep.fail(call, out, "the panic report is not closed after the payload")
			return
		}
		if !safeCtx && !r.noEnv {
			// atomic payloads (strings, errors, numbers) are one contiguous unsafe datum
			jj := strings.Index(rest, esc)
			if jj < 0 || !c11Inside(out, base+jj) {
				rep.fail(call, out, "the panic payload is not inside an envelope (it must be treated as unsafe)")
				return
			}
		}
	}
}

func c11LastRuneLen(s string) int {
	if s == "" {
		return 0
	}
	_, n := utf8.DecodeLastRuneInString(s)
	return n
}

func c11SweepPanics(rep *c11Rep) {
	thorough := c11Thorough()
	verbs := []string{"v", "s", "d", "x", "q", "w", "T", "é", "X"}
	flags := []string{"", "+", "#", "-"}
	widths := []string{"", "30"}
	if thorough {
		flags = []string{"", "+", "#", "-", "0", " ", "+#", "#0", "+-# 0"}
		widths = []string{"", "30", "100", ".2", "10.3"}
	}
	ctxs := c11Contexts()
	cases, nontrivial := 0, 0
	raises := c11Raises()
	for ri := -1; ri < len(raises); ri++ {
		var r *c11Raise
		pks := c11NilPanickers()
		if ri >= 0 {
			r = raises[ri]
			pks = c11Panickers(r)
		}
		for _, pk := range pks {
			for _, ctx := range ctxs {
				op := ctx.wrap(pk.v)
				opText := fmt.Sprintf(ctx.name, pk.name)
				mayProp := r != nil && r.propagates
				// Print-style entry points
				for _, ep := range []int{c11EpPrint, c11EpSBPrint, c11EpJoinTo, c11EpSprint} {
					if rep.full() {
						return
					}
					cases++
					c11Invoked = 0
					var out, callFmt string
					pv, panicked := c11Try(func() { out, callFmt = c11PrintPlain(ep, op) })
					if callFmt == "" {
						_, callFmt = c11PrintPlain(ep, 0)
					}
					call := fmt.Sprintf(callFmt, opText)
					if panicked {
						if !mayProp {
							rep.fail(call, "panic: "+fmt.Sprint(pv), "a panic of a user method was not contained")
						}
						continue
					}
					if !strings.HasPrefix(c11DelMarkers(out), "A|") || !strings.HasSuffix(c11DelMarkers(out), "|Z") {
						rep.fail(call, out, "text written before or after the panicking operand is lost")
						continue
					}
					if c11Invoked > 0 {
						nontrivial++
					}
					c11CheckReport(rep, call, out, c11Invoked, r, pk, ctx.safe)
				}
				// Printf-style entry points
				for _, verb := range verbs {
					for _, fl := range flags {
						for _, w := range widths {
							format := "A|%" + fl + w + verb + "|M|%v|Z"
							eps := []int{cases % c11EpCount}
							if thorough {
								eps = []int{0, 1, 2, 3, 4}
							}
							for _, ep := range eps {
								if rep.full() {
									return
								}
								cases++
								c11Invoked = 0
								args := []interface{}{op, "tail"}
								out, ok := c11Run(rep, ep, format, args, opText+", \"tail\"", false, mayProp)
								if !ok {
									continue
								}
								if c11Invoked > 0 {
									nontrivial++
								}
								c11CheckReport(rep, c11CallText(ep, format, opText+", \"tail\""), out, c11Invoked, r, pk, ctx.safe)
							}
						}
					}
				}
			}
		}
	}
	c11Bounded("panics of String/Error/Format/GoString/SafeFormat/SafeMessage methods (also after partial output, also on nil receivers) are contained: no panic out of the call unless printing the payload panics, report %!verb(PANIC=...) in place with the payload enveloped, text and operands before and after intact",
		cases, nontrivial, "a user method was invoked during the call (and panicked)",
		fmt.Sprintf("%d panic payloads (string, string with markers, error, 3 run-time errors, int, nil pointer, struct, Safe value, nil, 2 payloads whose printing panics) x 9 panicking types + 10 typed nil receivers x %d contexts (bare, Safe, Unsafe, slice, struct, pointer, map, reflect.Value, inside a SafeFormatter that goes on printing) x %d verbs x %d flag strings x %d width/precision x 5 Printf-style + 4 Print-style entry points", len(raises), len(ctxs), len(verbs), len(flags), len(widths)),
		rep.fails == 0)
}

// sweep F: SafeWriter / io.Writer methods of StringBuilder and of the SafePrinter, in every buffer state
type c11W interface {
	SafeWriter
	Write([]byte) (int, error)
}

type c11WOp struct {
	name string
	do   func(w c11W)
	alts []string // admissible contents contributed by the operation
}

func c11States() []c11WOp {
	return []c11WOp{
		{"", func(w c11W) {}, []string{""}},
		{`SafeString("s")`, func(w c11W) { w.SafeString("s") }, []string{"s"}},
		{`UnsafeString("u")`, func(w c11W) { w.UnsafeString("u") }, []string{"u"}},
		{`Print(RedactableString("‹x›"))`, func(w c11W) { w.Print(RedactableString(vS + "x" + vE)) }, []string{"x"}},
		{`UnsafeString("")`, func(w c11W) { w.UnsafeString("") }, []string{""}},
		{`SafeString("\xe2\x80")`, func(w c11W) { w.SafeString("\xe2\x80") }, []string{"\xe2\x80"}},
		{`UnsafeString("\xe2\x80")`, func(w c11W) { w.UnsafeString("\xe2\x80") }, []string{"\xe2\x80"}},
		{`Print(RedactableString("r\xe2"))`, func(w c11W) { w.Print(RedactableString("r\xe2")) }, []string{"r\xe2"}},
		{`SafeString("‹")`, func(w c11W) { w.SafeString(SafeString(vS)) }, []string{""}},
		{`UnsafeString("a\n")`, func(w c11W) { w.UnsafeString("a\n") }, []string{"a\n"}},
		{`Printf("%5d", 1); UnsafeByte(0xe2)`, func(w c11W) { w.Printf("%5d", 1); w.UnsafeByte(0xe2) }, []string{"    1", "    1\xe2"}},
	}
}

func c11RuneOps(r rune, all bool) []c11WOp {
	want := []string{string(r)} // the replacement character for surrogates, negative and out-of-range values
	n := func(m string) string { return fmt.Sprintf("%s(%d)", m, r) }
	ops := []c11WOp{
		{n("SafeRune"), func(w c11W) { w.SafeRune(SafeRune(r)) }, want},
		{n("UnsafeRune"), func(w c11W) { w.UnsafeRune(r) }, want},
		{n("WriteRune"), func(w c11W) {
			if rw, ok := w.(interface{ WriteRune(rune) error }); ok {
				_ = rw.WriteRune(r)
			} else {
				w.UnsafeRune(r)
			}
		}, want},
	}
	if all {
		ops = append(ops,
			c11WOp{n("Print(SafeRune)"), func(w c11W) { w.Print(SafeRune(r)) }, []string{fmt.Sprint(r)}},
			c11WOp{fmt.Sprintf("Printf(\"%%c\", %d)", r), func(w c11W) { w.Printf("%c", r) }, want},
			c11WOp{fmt.Sprintf("Printf(\"%%c\", SafeRune(%d))", r), func(w c11W) { w.Printf("%c", SafeRune(r)) }, want},
		)
	}
	return ops
}

func c11ByteOps(b byte) []c11WOp {
	alts := []string{string([]byte{b}), ""} // a non-ASCII unsafe byte may be rendered as the escape character
	n := func(m string) string { return fmt.Sprintf("%s(0x%02x)", m, b) }
	return []c11WOp{
		{n("SafeByte"), func(w c11W) { w.SafeByte(i.SafeByte(b)) }, alts},
		{n("UnsafeByte"), func(w c11W) { w.UnsafeByte(b) }, alts},
		{n("WriteByte"), func(w c11W) {
			if bw, ok := w.(io.ByteWriter); ok {
				_ = bw.WriteByte(b)
			} else {
				w.UnsafeByte(b)
			}
		}, alts},
	}
}

func c11BytesOps(x string) []c11WOp {
	alts := []string{x}
	n := func(m string) string { return fmt.Sprintf("%s(%q)", m, x) }
	return []c11WOp{
		{n("SafeBytes"), func(w c11W) { w.SafeBytes(i.SafeBytes(x)) }, alts},
		{n("UnsafeBytes"), func(w c11W) { w.UnsafeBytes([]byte(x)) }, alts},
		{n("Write"), func(w c11W) { _, _ = w.Write([]byte(x)) }, alts},
		{n("SafeString"), func(w c11W) { w.SafeString(SafeString(x)) }, alts},
		{n("UnsafeString"), func(w c11W) { w.UnsafeString(x) }, alts},
		{n("io.WriteString"), func(w c11W) { _, _ = io.WriteString(w, x) }, alts},
		{n("Print"), func(w c11W) { w.Print(x) }, alts},
		{n("Print(RedactableString)"), func(w c11W) { w.Print(RedactableString(x)) }, alts},
		{n("Print(RedactableBytes)"), func(w c11W) { w.Print(RedactableBytes(x)) }, alts},
		{n("Printf(\"%s\", Safe)"), func(w c11W) { w.Printf("%s", Safe(x)) }, alts},
	}
}

// c11RunW runs state; op; suffix on a StringBuilder (kind 0) or on the SafePrinter (kind 1).
func c11RunW(rep *c11Rep, kind int, st, op c11WOp) bool {
	seq := func(w c11W) {
		st.do(w)
		op.do(w)
		w.SafeString("|Z")
		w.UnsafeString("z")
	}
	var out string
	pv, panicked := c11Try(func() {
		if kind == 0 {
			var b builder.StringBuilder
			seq(&b)
			out = string(b.RedactableString())
		} else {
			out = string(Sprintfn(func(w SafePrinter) { seq(w) }))
		}
	})
	call := func() string {
		if kind == 0 {
			return "StringBuilder{" + st.name + "; " + op.name + "; SafeString(\"|Z\"); UnsafeString(\"z\")}"
		}
		return "Sprintfn(func(w SafePrinter){" + st.name + "; " + op.name + "; SafeString(\"|Z\"); UnsafeString(\"z\")})"
	}
	if panicked {
		rep.fail(call(), "panic: "+fmt.Sprint(pv), "a writing call panicked")
		return false
	}
	got := c11Norm(out)
	for _, sa := range st.alts {
		for _, a := range op.alts {
			// bytes of consecutive writes may or may not be taken together as a marker (and escaped)
			if got == c11Norm(sa)+c11Norm(a)+"|Zz" || got == c11Norm(sa+a+"|Zz") {
				return true
			}
		}
	}
	rep.fail(call(), out, "the content written before, by, or after the call is lost or altered (compared up to delimiters and the escape character '?')")
	return false
}

func c11SweepWriters(rep *c11Rep) {
	thorough := c11Thorough()
	states := c11States()
	cases, nontrivial := 0, 0
	// runes: classes in every state, the whole range in the empty state
	classes := []rune{-1, -2, math.MinInt32, math.MaxInt32, 0x110000, 0x110001, 0x10FFFF, 0xD7FF, 0xD800, 0xD801, 0xDBFF, 0xDC00, 0xDFFF, 0xE000, 0xFFFD, 0xFFFE, 0xFFFF, 0x10000,
		0, 1, '\n', ' ', 'a', '?', 0x7f, 0x80, 0xff, 0x7ff, 0x800, 0x2038, 0x2039, 0x203A, 0x203B, 0x2009, 0xe2, 0x80b9, 0x4e16}
	for _, r := range classes {
		for _, st := range states {
			for _, op := range c11RuneOps(r, true) {
				for kind := 0; kind < 2; kind++ {
					if rep.full() {
						return
					}
					cases++
					if !utf8.ValidRune(r) || r == 0x2039 || r == 0x203A {
						nontrivial++
					}
					c11RunW(rep, kind, st, op)
				}
			}
		}
	}
	stride := rune(61)
	if thorough {
		stride = 1
	}
	runeCase := func(r rune) {
		for _, op := range c11RuneOps(r, false) {
			for kind := 0; kind < 2; kind++ {
				if rep.full() {
					return
				}
				cases++
				if !utf8.ValidRune(r) || r == 0x2039 || r == 0x203A {
					nontrivial++
				}
				c11RunW(rep, kind, states[int(r&1)*2], op)
			}
		}
	}
	for r := rune(-3); r <= 0x110002 && !rep.full(); r += stride {
		runeCase(r)
	}
	if !thorough {
		for r := rune(0xD7F0); r < 0xE010 && !rep.full(); r++ {
			runeCase(r)
		}
	}
	runeCases, runeNT := cases, nontrivial
	strideText := "every 61st rune of [-3, 0x110002] plus all of [0xD7F0, 0xE010)"
	if thorough {
		strideText = "every rune of [-3, 0x110002]"
	}
	c11Bounded("SafeRune/UnsafeRune/WriteRune (StringBuilder and SafePrinter) accept every rune: no panic, content before/after intact, invalid runes rendered as U+FFFD",
		runeCases, runeNT, "the rune is invalid (surrogate, negative, out of range) or a marker",
		fmt.Sprintf("%d rune classes x %d buffer states x 6 operations x 2 writers; %s x 3 operations x 2 writers in the empty / open-envelope state", len(classes), len(states), strideText), rep.fails == 0)

	// bytes
	cases, nontrivial = 0, 0
	for b := 0; b < 256; b++ {
		for _, st := range states {
			for _, op := range c11ByteOps(byte(b)) {
				for kind := 0; kind < 2; kind++ {
					if rep.full() {
						return
					}
					cases++
					if b >= 0x80 {
						nontrivial++
					}
					c11RunW(rep, kind, st, op)
				}
			}
		}
	}
	c11Bounded("SafeByte/UnsafeByte/WriteByte accept every byte: no panic, content before/after intact", cases, nontrivial, "the byte is not ASCII",
		fmt.Sprintf("256 bytes x %d buffer states x 3 operations x 2 writers", len(states)), rep.fails == 0)

	// byte strings
	cases, nontrivial = 0, 0
	alpha := []byte{0xe2, 0x80, 0xb9, 0xba, 'a', '\n', '?', 0xff, 0xc3, 0x00}
	maxLen := 3
	if thorough {
		maxLen = 4
	}
	var strs []string
	var rec func(prefix string, left int)
	rec = func(prefix string, left int) {
		strs = append(strs, prefix)
		if left == 0 {
			return
		}
		for _, c := range alpha {
			rec(prefix+string([]byte{c}), left-1)
		}
	}
	rec("", maxLen)
	nAlpha := len(strs)
	if thorough {
		// every two-byte string, in one state
		for a := 0; a < 256; a++ {
			for b := 0; b < 256; b++ {
				strs = append(strs, string([]byte{byte(a), byte(b)}))
			}
		}
	}
	strs = append(strs, strings.Repeat("\xe2\x80", 100), strings.Repeat(vS, 50)+"\n\n"+strings.Repeat(vE, 50), strings.Repeat("a\n", 70))
	for si, x := range strs {
		sts := states
		if si >= nAlpha || (len(x) > 2 && !thorough) {
			sts = states[si%len(states) : si%len(states)+1] // one state, rotating
		}
		for _, st := range sts {
			for _, op := range c11BytesOps(x) {
				for kind := 0; kind < 2; kind++ {
					if rep.full() {
						return
					}
					cases++
					if !utf8.ValidString(x) || strings.Contains(x, vS) || strings.Contains(x, vE) {
						nontrivial++
					}
					c11RunW(rep, kind, st, op)
				}
			}
		}
	}
	c11Bounded("Write/WriteString/SafeBytes/UnsafeBytes/SafeString/UnsafeString/Print accept every byte string: no panic, content before/after intact",
		cases, nontrivial, "the byte string is invalid UTF-8 or contains a marker",
		fmt.Sprintf("%d byte strings (all of length <= %d over {e2 80 b9 ba 'a' LF '?' ff c3 00}; thorough: all 65536 two-byte strings; 3 long ones) x up to %d buffer states x 10 operations x 2 writers", len(strs), maxLen, len(states)), rep.fails == 0)
}

// sweep E: JoinTo / Join with every kind of operand
func c11SweepJoin(rep *c11Rep) {
	ops := c11Ops()
	for _, r := range c11Raises() {
		if r.propagates || r.lenient {
			continue
		}
		for _, pk := range c11Panickers(r) {
			ops = append(ops, c11Op{pk.name, pk.v, false, false})
		}
	}
	var vals []c11Op
	for _, op := range ops {
		vals = append(vals, op, c11Op{"[]interface{}{" + op.name + ", " + op.name + "}", []interface{}{op.v, op.v}, false, false})
	}
	vals = append(vals,
		c11Op{"[]int{1,2,3}", []int{1, 2, 3}, false, false},
		c11Op{"[]string{}", []string{}, false, false},
		c11Op{`[]string{"","‹"}`, []string{"", vS}, false, false},
		c11Op{`[]RedactableString{"‹a›","","b"}`, []RedactableString{RedactableString(vS + "a" + vE), "", "b"}, false, false},
		c11Op{`[][]byte{nil,{0xe2}}`, [][]byte{nil, {0xe2}}, false, false},
		c11Op{"[]error{nil,io.EOF}", []error{nil, io.EOF}, false, false},
		c11Op{"[]*int{nil}", []*int{nil}, false, false},
		c11Op{"[][]int{nil,{1}}", [][]int{nil, {1}}, false, false},
		c11Op{"[]struct{a int}{{1}}", []struct{ a int }{{1}}, false, false},
		c11Op{"[]SafeRune{-1,0xD800}", []SafeRune{-1, 0xD800}, false, false},
		c11Op{"[]reflect.Value{{}}", []reflect.Value{{}}, false, false},
	)
	delims := []RedactableString{"", ",", RedactableString(vS + "d" + vE), "\xe2", "\n"}
	states := c11States()
	cases, nontrivial := 0, 0
	for vi, val := range vals {
		rv := reflect.ValueOf(val.v)
		isSlice := rv.Kind() == reflect.Slice
		for di, delim := range delims {
			for kind := 0; kind < 2; kind++ {
				if rep.full() {
					return
				}
				st := states[(vi+di+kind)%len(states)]
				cases++
				if !isSlice {
					nontrivial++
				}
				var out string
				seq := func(w c11W) {
					st.do(w)
					JoinTo(w, delim, val.v)
					w.SafeString("|Z")
					w.UnsafeString("z")
				}
				call := fmt.Sprintf("{%s; JoinTo(w, %q, %s); SafeString(\"|Z\"); UnsafeString(\"z\")} on %s", st.name, string(delim), val.name, [...]string{"a StringBuilder", "the SafePrinter of Sprintfn"}[kind])
				pv, panicked := c11Try(func() {
					if kind == 0 {
						var b builder.StringBuilder
						seq(&b)
						out = string(b.RedactableString())
					} else {
						out = string(Sprintfn(func(w SafePrinter) { seq(w) }))
					}
				})
				if panicked {
					rep.fail(call, "panic: "+fmt.Sprint(pv), "JoinTo panicked")
					continue
				}
				// reference: the operand printed as is if it is not a slice, else the elements printed one by one
				var want string
				_, refPanicked := c11Try(func() {
					if !isSlice {
						want = c11Norm(string(Sprint(val.v)))
					} else {
						for k := 0; k < rv.Len(); k++ {
							if k > 0 {
								want += c11Norm(string(delim))
							}
							want += c11Norm(string(Sprint(rv.Index(k).Interface())))
						}
					}
				})
				if refPanicked {
					continue
				}
				got := c11Norm(out)
				okc := false
				for _, sa := range st.alts {
					if got == c11Norm(sa)+want+"|Zz" || got == c11Norm(sa+want)+"|Zz" {
						okc = true
					}
				}
				if !okc {
					rep.fail(call, out, "JoinTo does not write the buffer content, then the operand (as Print does) or its elements separated by the delimiter, then the rest; expected content "+c11Short(want))
				}
			}
		}
	}
	c11Bounded("JoinTo accepts non-slice, nil and slice operands of every kind: no panic, content before/after intact, a non-slice is printed once as Print does, a slice element by element",
		cases, nontrivial, "the operand is not a slice (nil, scalar, array, map, pointer, struct, func, chan, reflect.Value, panicking user type...)",
		fmt.Sprintf("%d operands (every operand kind of the directive sweep and []interface{}{v, v} of it, panicking user types, 11 typed slices) x %d delimiters x 2 writers, buffer state rotating over %d states", len(vals), len(delims), len(states)),
		rep.fails == 0)
}

// sweep G: the rest of the public API
type c11RegSafe struct{ r *c11Raise }

func (p c11RegSafe) String() string { p.r.f(); return "" }

func c11SweepMisc(rep *c11Rep) {
	thorough := c11Thorough()
	cases, nontrivial := 0, 0
	try := func(call string, nt bool, f func() string) {
		if rep.full() {
			return
		}
		cases++
		if nt {
			nontrivial++
		}
		var out string
		if pv, panicked := c11Try(func() { out = f() }); panicked {
			rep.fail(call, "panic: "+fmt.Sprint(pv), "a public entry point panicked")
		}
		_ = out
	}
	// MakeFormat with arbitrary fmt.State answers and verbs
	verbs := []rune{'v', 's', 'd', 'x', '%', 0, -1, 0xD800, 0x110000, math.MinInt32, math.MaxInt32, 0x2039, 'é', '\n'}
	nums := []int{0, 1, -1, 7, 3000, math.MaxInt64, math.MinInt64}
	for _, verb := range verbs {
		for _, fl := range c11FlagSets(true)[:32] {
			for _, wid := range nums {
				for _, prec := range nums {
					for m := 0; m < 4; m++ {
						st := &c11State{wid: wid, prec: prec, widOk: m&1 != 0, pOk: m&2 != 0, flags: fl}
						verb := verb
						try(fmt.Sprintf("MakeFormat(State{flags %q, width %d,%v, precision %d,%v}, %d)", fl, wid, st.widOk, prec, st.pOk, verb), !utf8.ValidRune(verb) || wid < 0 || prec < 0, func() string {
							_, f := MakeFormat(st, verb)
							if !strings.HasPrefix(f, "%") || !strings.HasSuffix(f, string(verb)) {
								panic("MakeFormat result " + f + " does not reproduce the verb")
							}
							// the reproduced format is accepted by the printer
							return string(Sprintf("A|"+f+"|Z", -42))
						})
					}
				}
			}
		}
	}
	// ManualBuffer: every sequence of operations up to a length (Grow with a negative count is outside the claim)
	type bop struct {
		name string
		f    func(b *ManualBuffer)
	}
	bops := []bop{
		{"SetMode(-1)", func(b *ManualBuffer) { b.SetMode(-1) }},
		{"SetMode(UnsafeEscaped)", func(b *ManualBuffer) { b.SetMode(0) }},
		{"SetMode(SafeEscaped)", func(b *ManualBuffer) { b.SetMode(1) }},
		{"SetMode(SafeRaw)", func(b *ManualBuffer) { b.SetMode(2) }},
		{"SetMode(7)", func(b *ManualBuffer) { b.SetMode(7) }},
		{`Write("x")`, func(b *ManualBuffer) { _, _ = b.Write([]byte("x")) }},
		{`Write(nil)`, func(b *ManualBuffer) { _, _ = b.Write(nil) }},
		{`WriteString("‹")`, func(b *ManualBuffer) { _, _ = b.WriteString(vS) }},
		{`WriteString("›\n")`, func(b *ManualBuffer) { _, _ = b.WriteString(vE + "\n") }},
		{`WriteString("\xe2\x80")`, func(b *ManualBuffer) { _, _ = b.WriteString("\xe2\x80") }},
		{"WriteByte(0xb9)", func(b *ManualBuffer) { _ = b.WriteByte(0xb9) }},
		{"WriteByte('a')", func(b *ManualBuffer) { _ = b.WriteByte('a') }},
		{"WriteRune(-1)", func(b *ManualBuffer) { _ = b.WriteRune(-1) }},
		{"WriteRune(0xDFFF)", func(b *ManualBuffer) { _ = b.WriteRune(0xDFFF) }},
		{"WriteRune(0x203A)", func(b *ManualBuffer) { _ = b.WriteRune(0x203A) }},
		{"Grow(0)", func(b *ManualBuffer) { b.Grow(0) }},
		{"Grow(70)", func(b *ManualBuffer) { b.Grow(70) }},
		{"Reset()", func(b *ManualBuffer) { b.Reset() }},
		{"Len();Cap();GetMode()", func(b *ManualBuffer) { _ = b.Len(); _ = b.Cap(); _ = b.GetMode() }},
		{"String();RedactableString();RedactableBytes()", func(b *ManualBuffer) { _ = b.String(); _ = b.RedactableString(); _ = b.RedactableBytes() }},
		{"TakeRedactableString()", func(b *ManualBuffer) { _ = b.TakeRedactableString() }},
		{"TakeRedactableBytes()", func(b *ManualBuffer) { _ = b.TakeRedactableBytes() }},
	}
	depth := 3
	if thorough {
		depth = 4
	}
	var seqs func(prefix []int, left int)
	seqs = func(prefix []int, left int) {
		if left == 0 {
			names := ""
			for _, k := range prefix {
				names += bops[k].name + "; "
			}
			try("ManualBuffer{"+names+"RedactableString()}", true, func() string {
				var b ManualBuffer
				for _, k := range prefix {
					bops[k].f(&b)
				}
				return string(b.RedactableString())
			})
			return
		}
		for k := range bops {
			if rep.full() {
				return
			}
			seqs(append(prefix, k), left-1)
		}
	}
	seqs(nil, depth)
	try("(*ManualBuffer)(nil).TakeRedactableString()", true, func() string { return string((*ManualBuffer)(nil).TakeRedactableString()) })
	// string-level entry points on arbitrary byte strings
	alpha := []string{"\xe2", "\x80", "\xb9", "\xba", "a", "\n", "\xff", vS, vE, "‹×›"}
	var strs []string
	var rec func(prefix string, left int)
	rec = func(prefix string, left int) {
		strs = append(strs, prefix)
		if left == 0 {
			return
		}
		for _, c := range alpha {
			rec(prefix+c, left-1)
		}
	}
	rec("", 3)
	for _, x := range strs {
		x := x
		try(fmt.Sprintf("EscapeBytes/EscapeMarkers/Redact/StripMarkers/ToBytes/ToString/Join/SortStrings/Sprint on %q", x), !utf8.ValidString(x), func() string {
			_ = EscapeBytes([]byte(x))
			_ = EscapeMarkers([]byte(x))
			R, B := RedactableString(x), RedactableBytes(x)
			_, _, _ = R.Redact(), R.StripMarkers(), R.ToBytes()
			_, _, _ = B.Redact(), B.StripMarkers(), B.ToString()
			rs := []RedactableString{R, "", R}
			SortStrings(rs)
			_ = Join(R, rs)
			_ = Sprintf("%v %s %q %x %d %10.2v %T %p", R, B, R, B, R, B, R, B)
			return string(Sprint(R, B, &R, &B, []RedactableString{R}, map[RedactableString]RedactableBytes{R: B}))
		})
	}
	try("EscapeBytes(nil); EscapeMarkers(nil); Join(\"\", nil); SortStrings(nil); StringWithoutMarkers(nil)", true, func() string {
		_, _ = EscapeBytes(nil), EscapeMarkers(nil)
		_ = Join("", nil)
		_ = Join(",", []RedactableString{})
		SortStrings(nil)
		_, _, _ = StartMarker(), EndMarker(), RedactedMarker()
		_ = RedactableBytes(nil).Redact()
		_ = RedactableBytes(nil).StripMarkers()
		_ = RedactableBytes(nil).ToString()
		return StringWithoutMarkers(nil) + StringWithoutMarkers(c11SFAll{}) + StringWithoutMarkers((*c11PSafeFormat)(nil))
	})
	try("Sprint(); Sprint(nil); Sprintf(\"\"); Sprintfn(func(SafePrinter){}); HelperForErrorf(\"\"); Fprint/Fprintf to a failing writer", true, func() string {
		_, _, _, _ = Sprint(), Sprint(nil), Sprint(nil, nil), Sprintf("")
		_ = Sprintfn(func(SafePrinter) {})
		_, _ = HelperForErrorf("")
		_, _ = HelperForErrorf("%w %w", io.EOF, io.EOF)
		_, _ = HelperForErrorf("%w", nil)
		_, _ = HelperForErrorf("%w", (*c11Err)(nil))
		_, _ = Fprint(&c11ErrWriter{0}, "x", 1, nil)
		_, _ = Fprintf(&c11ErrWriter{3}, "%1000d|%v", 1, nil)
		_, _ = Fprint(io.Discard)
		return ""
	})
	// a registered error-redaction function that panics after partial output
	boom := &c11Raise{name: `panic("boom")`, f: func() { panic("boom") }, text: "boom"}
	func() {
		defer RegisterRedactErrorFn(nil)
		RegisterRedactErrorFn(func(err error, p i.SafePrinter, verb rune) {
			c11Invoked++
			p.SafeString("es")
			p.UnsafeString(err.Error())
			panic("boom")
		})
		for _, format := range []string{"A|%v|M|%v|Z", "A|%+v|M|%v|Z", "A|%w|M|%v|Z", "A|%-40q|M|%v|Z", "A|%d|M|%v|Z"} {
			for ep := 0; ep < c11EpCount; ep++ {
				for _, e := range []c11Op{{"io.EOF", io.EOF, false, false}, {"(*c11ValErr)(nil)", (*c11ValErr)(nil), false, false}, {"[]error{io.EOF}", []error{io.EOF}, false, false}} {
					if rep.full() {
						return
					}
					cases++
					nontrivial++
					c11Invoked = 0
					out, ok := c11Run(rep, ep, format, []interface{}{e.v, "tail"}, e.name+", \"tail\"", false, false)
					if ok && e.name != "(*c11ValErr)(nil)" {
						c11CheckReport(rep, c11CallText(ep, format, e.name+", \"tail\"")+" with RegisterRedactErrorFn(fn that writes and panics)", out, c11Invoked, boom, c11Panicker{partial: "esEOF"}, false)
					}
				}
			}
		}
	}()
	// a registered safe type whose String method panics
	RegisterSafeType(reflect.TypeOf(c11RegSafe{}))
	for _, format := range []string{"A|%v|M|%v|Z", "A|%x|M|%v|Z", "A|%d|M|%v|Z", "A|%#v|M|%v|Z"} {
		cases++
		nontrivial++
		out, ok := c11Run(rep, cases%c11EpCount, format, []interface{}{c11RegSafe{boom}, "tail"}, "c11RegSafe{panic(\"boom\")} (registered safe type), \"tail\"", false, false)
		if ok {
			c11CheckReport(rep, c11CallText(cases%c11EpCount, format, "c11RegSafe{...}, \"tail\""), out, 0, nil, c11Panicker{}, true)
		}
	}
	c11Bounded("remaining public entry points never panic: MakeFormat with arbitrary State answers and verbs, ManualBuffer operation sequences (all modes, invalid runes, Take/Reset in any order), Escape*/Redact/StripMarkers/Join/SortStrings on arbitrary byte strings, empty/nil operands, failing writers, a panicking RegisterRedactErrorFn function (contained, partial output kept), a panicking registered safe type",
		cases, nontrivial, "the input is outside the usual domain (invalid verb, negative width/precision, buffer sequences, invalid UTF-8, nil, panicking callbacks)",
		fmt.Sprintf("14 verbs x 32 flag subsets x 7 widths x 7 precisions x 4 presence combinations; all sequences of %d of %d ManualBuffer operations; %d byte strings (length <= 3 over 10 pieces); 5 formats x 5 entry points x 3 error operands", depth, len(bops), len(strs)),
		rep.fails == 0)
}

func TestVerifBoundedC11(t *testing.T) {
	rep := &c11Rep{t: t}
	for _, sweep := range []func(*c11Rep){c11SweepIntegers, c11SweepPanics, c11SweepWriters, c11SweepJoin, c11SweepMisc, c11SweepIndexes, c11SweepDirectives} {
		if rep.full() {
			break
		}
		start := time.Now()
		sweep(rep)
		if os.Getenv("C11_TIMES") != "" {
			fmt.Printf("C11 sweep took %v\n", time.Since(start))
		}
	}
}
