package redact

// Replay and bounded harness for C14 (format forwarding reproduces the active directive exactly).
// Injected with `go test -overlay`; never written into /repo.
//
// Laws (all oracles come from the property statement; the standard fmt package is the reference where
// the statement compares with it):
//
//	L1 token level, under fmt: for a directive d and verb c, fmt.Sprintf(d+c, probe) calls probe.Format(s, c);
//	   the probe records what s reports (Flag of + - # space 0, Width, Precision, verb) and what
//	   MakeFormat(s, c) returns. The returned string, parsed by a reference parser of fmt's directive
//	   syntax, must denote exactly the recorded flags/width/precision/verb; justV must be true exactly for
//	   the bare %v; and feeding the returned string back to fmt must show the same state to a second probe.
//	L2 end to end, under fmt: fmt.Sprintf(d+c, Safe(x)) == fmt.Sprintf(d+c, x) == fmt.Sprintf(d+c, Unsafe(x)),
//	   and the same for a Formatter that forwards with MakeFormat (and with ReproducePrintf).
//	L3 redact's printer as fmt.State: a fmt.Formatter and a SafeFormatter printed by redact.Sprintf see the
//	   same flags/width/precision/verb that fmt shows for the same directive, and MakeFormat re-creates them.
//	L4 end to end, redact's printer: a SafeFormatter forwarding with MakeFormat + p.Printf prints exactly like
//	   the direct call redact.Sprintf(d+c, x); a fmt.Formatter forwarding with MakeFormat + fmt.Fprintf prints
//	   (markers stripped) exactly like fmt.Sprintf(d+c, x).
//
// The verbs T, p and w are excluded everywhere (the statement excludes them: fmt does not dispatch them).
//
// CORNER (see c14Dir.width0): a width of 0 can only be given through '*' ("%*d" with operand 0). The state then
// is "width present, 0", which no format string can denote; a width of 0 pads nothing, so leaving the width out
// is accepted there, but every flag must be re-created exactly (finding F6, fixed in /repo: MakeFormat used to
// render it as "%0d", which fmt parses as the FLAG '0'). An operand that is itself a Formatter printing its
// fmt.State still sees "width absent" instead of "width 0"; those operands are skipped on that corner.

import (
	"encoding/json"
	"errors"
	"fmt"
	"io"
	"math"
	"os"
	"strings"
	"sync"
	"sync/atomic"
	"testing"
	"unicode/utf8"

	"github.com/cockroachdb/redact/internal/fmtforward"
)

// ---------------------------------------------------------------------------------------------------
// state seen through a fmt.State

type c14State struct {
	Plus, Minus, Sharp, Space, Zero bool
	Wid                             int
	WidOK                           bool
	Prec                            int
	PrecOK                          bool
	Verb                            rune
}

func c14Capture(s fmt.State, verb rune) c14State {
	st := c14State{Plus: s.Flag('+'), Minus: s.Flag('-'), Sharp: s.Flag('#'), Space: s.Flag(' '), Zero: s.Flag('0'), Verb: verb}
	if w, ok := s.Width(); ok {
		st.Wid, st.WidOK = w, true
	}
	if p, ok := s.Precision(); ok {
		st.Prec, st.PrecOK = p, true
	}
	return st
}

func (st c14State) flags() string {
	s := ""
	for _, f := range []struct {
		on bool
		c  string
	}{{st.Plus, "+"}, {st.Minus, "-"}, {st.Sharp, "#"}, {st.Space, " "}, {st.Zero, "0"}} {
		if f.on {
			s += f.c
		}
	}
	return s
}

func (st c14State) String() string {
	w, p := "none", "none"
	if st.WidOK {
		w = fmt.Sprint(st.Wid)
	}
	if st.PrecOK {
		p = fmt.Sprint(st.Prec)
	}
	return fmt.Sprintf("[flags=%q width=%s prec=%s verb=%q]", st.flags(), w, p, string(st.Verb))
}

func (st c14State) noMods() bool {
	return !st.Plus && !st.Minus && !st.Sharp && !st.Space && !st.Zero && !st.WidOK && !st.PrecOK
}

// norm: the '0' flag is without effect when '-' is set; fmt before Go 1.22 (and redact's fork of it) clears
// it while parsing, fmt since Go 1.22 keeps it and ignores it while padding. States are compared across
// the two printers modulo that.
func (st c14State) norm() c14State {
	if st.Minus {
		st.Zero = false
	}
	return st
}

// c14Parse is the reference parser of fmt's directive syntax: '%' flags* width? ('.' prec?)? verb.
// A '0' directly after the flags is a flag (that is how fmt reads it), so a width never starts with 0.
func c14Parse(f string) (st c14State, ok bool) {
	if len(f) < 2 || f[0] != '%' {
		return st, false
	}
	j := 1
flags:
	for ; j < len(f); j++ {
		switch f[j] {
		case '+':
			st.Plus = true
		case '-':
			st.Minus = true
		case '#':
			st.Sharp = true
		case ' ':
			st.Space = true
		case '0':
			st.Zero = true
		default:
			break flags
		}
	}
	if j < len(f) && f[j] >= '1' && f[j] <= '9' {
		st.WidOK = true
		for ; j < len(f) && f[j] >= '0' && f[j] <= '9'; j++ {
			st.Wid = st.Wid*10 + int(f[j]-'0')
		}
	}
	if j < len(f) && f[j] == '.' {
		j++
		st.PrecOK = true
		for ; j < len(f) && f[j] >= '0' && f[j] <= '9'; j++ {
			st.Prec = st.Prec*10 + int(f[j]-'0')
		}
	}
	r, size := utf8.DecodeRuneInString(f[j:])
	if size == 0 || j+size != len(f) || (r == utf8.RuneError && size == 1) {
		return st, false
	}
	switch r {
	case '%', '*', '[', ']', '.', '+', '-', '#', ' ':
		return st, false
	}
	if r >= '0' && r <= '9' {
		return st, false
	}
	st.Verb = r
	return st, true
}

// ---------------------------------------------------------------------------------------------------
// probes and forwarders

type c14Rec struct {
	calls  int
	st     c14State
	justV  bool
	format string
}

func (r *c14Rec) record(s fmt.State, verb rune) {
	r.calls++
	r.st = c14Capture(s, verb)
	r.justV, r.format = MakeFormat(s, verb)
}

// c14Probe is a fmt.Formatter recording its fmt.State and MakeFormat's answer.
type c14Probe struct{ r *c14Rec }

func (p c14Probe) Format(s fmt.State, verb rune) { p.r.record(s, verb); _, _ = io.WriteString(s, "P") }

// c14SafeProbe is the same as a SafeFormatter (only redact's printer calls it).
type c14SafeProbe struct{ r *c14Rec }

func (p c14SafeProbe) SafeFormat(s SafePrinter, verb rune) { p.r.record(s, verb); s.SafeString("P") }

// c14Echo is an operand that prints the (normalized) state it is given: with it, output equality is as
// sharp as state equality.
type c14Echo struct{}

func (c14Echo) Format(s fmt.State, verb rune) {
	_, _ = io.WriteString(s, c14Capture(s, verb).norm().String())
}

type c14SafeEcho struct{}

func (c14SafeEcho) SafeFormat(s SafePrinter, verb rune) {
	s.SafeString(SafeString(c14Capture(s, verb).norm().String()))
}

// c14Fwd: a fmt.Formatter that forwards with the public MakeFormat.
type c14Fwd struct{ x interface{} }

func (f c14Fwd) Format(s fmt.State, verb rune) {
	justV, format := MakeFormat(s, verb)
	if justV {
		fmt.Fprint(s, f.x)
	} else {
		fmt.Fprintf(s, format, f.x)
	}
}

// c14Rp: a fmt.Formatter that forwards with ReproducePrintf.
type c14Rp struct{ x interface{} }

func (f c14Rp) Format(s fmt.State, verb rune) { fmtforward.ReproducePrintf(s, s, verb, f.x) }

// c14SafeFwd: a SafeFormatter that forwards with MakeFormat through the SafePrinter.
type c14SafeFwd struct{ x interface{} }

func (f c14SafeFwd) SafeFormat(p SafePrinter, verb rune) {
	justV, format := MakeFormat(p, verb)
	if justV {
		p.Print(f.x)
	} else {
		p.Printf(format, f.x)
	}
}

// ---------------------------------------------------------------------------------------------------
// directives and operands

type c14Part struct {
	text string
	arg  interface{} // operand consumed by '*', nil if none
}

type c14Dir struct {
	text   string        // the directive without its verb
	pre    []interface{} // operands consumed by '*'
	width0 bool          // the KNOWN CORNER: width 0 given through '*'
}

func (d c14Dir) args(x interface{}) []interface{} {
	a := make([]interface{}, 0, len(d.pre)+1)
	a = append(a, d.pre...)
	return append(a, x)
}

func (d c14Dir) call(fn string, verb rune, operand string) string {
	s := fmt.Sprintf("%s(%q", fn, d.text+string(verb))
	for _, a := range d.pre {
		s += fmt.Sprintf(", %d", a)
	}
	return s + ", " + operand + ")"
}

func c14Flags(reversedToo bool) []string {
	const fl = "+-# 0"
	seen := map[string]bool{}
	var out []string
	add := func(s string) {
		if !seen[s] {
			seen[s] = true
			out = append(out, s)
		}
	}
	for m := 0; m < 32; m++ {
		s, r := "", ""
		for k := 0; k < 5; k++ {
			if m&(1<<k) != 0 {
				s += fl[k : k+1]
				r = fl[k:k+1] + r
			}
		}
		add(s)
		if reversedToo {
			add(r)
		}
	}
	return out
}

func c14Dirs(flags []string, widths, precs []c14Part) []c14Dir {
	var out []c14Dir
	for _, f := range flags {
		for _, w := range widths {
			for _, p := range precs {
				d := c14Dir{text: "%" + f + w.text + p.text}
				if w.arg != nil {
					d.pre = append(d.pre, w.arg)
					d.width0 = w.arg.(int) == 0
				}
				if p.arg != nil {
					d.pre = append(d.pre, p.arg)
				}
				out = append(out, d)
			}
		}
	}
	return out
}

func c14Verbs(multibyte bool) []rune {
	vs := []rune("vdsxXq") // the common verbs first, so that the first failures reported are the telling ones
	for c := 'a'; c <= 'z'; c++ {
		if c != 'p' && c != 'w' && !strings.ContainsRune("vdsxq", c) {
			vs = append(vs, c)
		}
	}
	for c := 'A'; c <= 'Z'; c++ {
		if c != 'T' && c != 'X' {
			vs = append(vs, c)
		}
	}
	if multibyte {
		vs = append(vs, 'é', '世', '😀')
	}
	return vs
}

type c14Struct struct {
	A int
	B string
}

type c14Stringer int

func (c14Stringer) String() string { return "str!" }

type c14Operand struct {
	name string // Go-like text
	val  interface{}
	echo bool // a Formatter that prints its fmt.State
}

func c14Operands(more bool) []c14Operand {
	ops := []c14Operand{
		{"42", 42, false},
		{"-7", -7, false},
		{"uint(255)", uint(255), false},
		{"3.25", 3.25, false},
		{`"héllo"`, "héllo", false},
		{`[]byte("ab\x00")`, []byte("ab\x00"), false},
		{"true", true, false},
		{"'x'", 'x', false},
		{`c14Struct{A: -1, B: "b c"}`, c14Struct{-1, "b c"}, false},
		{"[]int{1, -2}", []int{1, -2}, false},
		{"error(nil)", nil, false},
		{"[2]bool{true, false}", [2]bool{true, false}, false},
		{"c14Echo{}", c14Echo{}, true},
	}
	if more {
		ops = append(ops,
			c14Operand{"math.Inf(-1)", math.Inf(-1), false},
			c14Operand{"math.NaN()", math.NaN(), false},
			c14Operand{"float32(-0.5)", float32(-0.5), false},
			c14Operand{"complex(1, -2)", complex(1, -2), false},
			c14Operand{"int8(-128)", int8(-128), false},
			c14Operand{"uint64(math.MaxUint64)", uint64(math.MaxUint64), false},
			c14Operand{`""`, "", false},
			c14Operand{`[]string{"a", "b c"}`, []string{"a", "b c"}, false},
			c14Operand{`map[string]int{"k": 1, "j": 2}`, map[string]int{"k": 1, "j": 2}, false},
			c14Operand{`errors.New("boom")`, errors.New("boom"), false},
			c14Operand{"c14Stringer(3)", c14Stringer(3), false},
			c14Operand{"rune(0x1F600)", rune(0x1F600), false},
		)
	}
	return ops
}

// ---------------------------------------------------------------------------------------------------
// the laws

type c14Run struct {
	t     *testing.T
	fails *int32 // shared by the workers of one test
	max   int

	tokCases, tokNontrivial, tokWidth0     int
	e2eCases, e2eNontrivial, e2eSkipped    int
	rstCases, rstNontrivial, rstNormalized int
	re2eCases, re2eNontrivial, re2eSkipped int
	bareFmt, bareRedact                    map[string]string
	withRp                                 bool
}

func c14NewRun(t *testing.T, max int) *c14Run {
	return &c14Run{t: t, fails: new(int32), max: max, bareFmt: map[string]string{}, bareRedact: map[string]string{}}
}

func (r *c14Run) failed() int { return int(atomic.LoadInt32(r.fails)) }

func (r *c14Run) full() bool { return r.failed() >= r.max }

var c14Mu sync.Mutex

func (r *c14Run) bad(call, out, why string) {
	atomic.AddInt32(r.fails, 1)
	c14Mu.Lock()
	defer c14Mu.Unlock()
	m, _ := json.Marshal(map[string]string{"property": "C14", "call": call, "output": fmt.Sprintf("%q", out), "why": why})
	fmt.Printf("REPLAY-FAIL: %s\n", m)
	r.t.Errorf("%s: %s: %q", call, why, out)
}

// c14CheckFormat: the tokens of the format returned by MakeFormat against the state it was computed from.
func (r *c14Run) checkFormat(call string, rec *c14Rec, d c14Dir) bool {
	st := rec.st
	got, ok := c14Parse(rec.format)
	if !ok {
		r.bad(call, rec.format, "MakeFormat returned a string that is not one directive of fmt's syntax; the active directive is "+st.String())
		return false
	}
	if st.WidOK && st.Wid == 0 {
		// CORNER (see the head of the file): no format string denotes "width present and 0". A width of 0 pads
		// nothing, exactly like an absent width, so the rebuilt directive may leave the width out; but it must
		// not turn it into something else: in particular the flags, the '0' flag included, must be re-created
		// exactly (finding F6: "%*d" with 0 was rebuilt as "%0d", which sets the zero-padding flag).
		if !got.WidOK || got.Wid == 0 {
			got.WidOK, got.Wid = st.WidOK, st.Wid
		}
	}
	if got != st {
		r.bad(call, rec.format, "MakeFormat returned a format denoting "+got.String()+" but the active directive is "+st.String())
		return false
	}
	if want := st.noMods() && st.Verb == 'v'; rec.justV != want {
		r.bad(call, rec.format, fmt.Sprintf("MakeFormat reported justV=%v for the active directive %s", rec.justV, st.String()))
		return false
	}
	return true
}

// c14Short quotes a reference output for the "why" text, abbreviating the long ones (width 1000).
func c14Short(s string) string {
	if len(s) <= 160 {
		return fmt.Sprintf("%q", s)
	}
	return fmt.Sprintf("%q...(%d bytes)...%q", s[:40], len(s), s[len(s)-60:])
}

// L1
func (r *c14Run) token(d c14Dir, verb rune) (c14State, bool) {
	rec := &c14Rec{}
	out := fmt.Sprintf(d.text+string(verb), d.args(c14Probe{rec})...)
	call := d.call("fmt.Sprintf", verb, "probe /* Format calls MakeFormat(s, verb) */")
	r.tokCases++
	if rec.calls != 1 {
		r.bad(call, out, "fmt did not dispatch the directive to the Format method exactly once")
		return rec.st, false
	}
	if !(rec.st.noMods() && verb == 'v') {
		r.tokNontrivial++
	}
	if rec.st.WidOK && rec.st.Wid == 0 {
		r.tokWidth0++
	}
	if !r.checkFormat(call, rec, d) {
		return rec.st, false
	}
	if !(rec.st.WidOK && rec.st.Wid == 0) { // KNOWN CORNER skipped: the round trip cannot give width 0 back
		rec2 := &c14Rec{}
		_ = fmt.Sprintf(rec.format, c14Probe{rec2})
		if rec2.calls != 1 || rec2.st != rec.st || rec2.format != rec.format {
			r.bad(call, rec.format, "feeding MakeFormat's format back to fmt shows "+rec2.st.String()+" (format "+rec2.format+") instead of "+rec.st.String())
			return rec.st, false
		}
	}
	return rec.st, true
}

// L2
func (r *c14Run) e2e(d c14Dir, verb rune, op c14Operand) {
	if d.width0 && op.echo {
		r.e2eSkipped++ // KNOWN CORNER: the operand would print the '0' flag instead of the width 0
		return
	}
	format := d.text + string(verb)
	want := fmt.Sprintf(format, d.args(op.val)...)
	r.e2eCases++
	key := string(verb) + "|" + op.name
	bare, ok := r.bareFmt[key]
	if !ok {
		bare = fmt.Sprintf("%"+string(verb), op.val)
		r.bareFmt[key] = bare
	}
	if want != bare {
		r.e2eNontrivial++
	}
	type form struct {
		name string
		val  interface{}
	}
	forms := []form{{"Safe(" + op.name + ")", Safe(op.val)}, {"Unsafe(" + op.name + ")", Unsafe(op.val)},
		{"c14Fwd{" + op.name + "} /* Format forwards with MakeFormat */", c14Fwd{op.val}}}
	if r.withRp {
		forms = append(forms, form{"c14Rp{" + op.name + "} /* Format forwards with ReproducePrintf */", c14Rp{op.val}})
	}
	for _, f := range forms {
		if got := fmt.Sprintf(format, d.args(f.val)...); got != want {
			r.bad(d.call("fmt.Sprintf", verb, f.name), got, "differs from the direct call "+d.call("fmt.Sprintf", verb, op.name)+" = "+c14Short(want))
			return
		}
	}
}

// L3
func (r *c14Run) redactState(d c14Dir, verb rune, ref c14State) {
	format := d.text + string(verb)
	r.rstCases++
	if !(ref.noMods() && verb == 'v') {
		r.rstNontrivial++
	}
	counted := false
	for k := 0; k < 2; k++ {
		rec := &c14Rec{}
		var out RedactableString
		var call string
		if k == 0 {
			out = Sprintf(format, d.args(c14Probe{rec})...)
			call = d.call("redact.Sprintf", verb, "probe /* fmt.Formatter recording Flag/Width/Precision, calling MakeFormat */")
		} else {
			out = Sprintf(format, d.args(c14SafeProbe{rec})...)
			call = d.call("redact.Sprintf", verb, "probe /* SafeFormatter recording Flag/Width/Precision, calling MakeFormat */")
		}
		if rec.calls != 1 {
			r.bad(call, string(out), "redact's printer did not dispatch the directive to the formatter exactly once")
			return
		}
		if rec.st.norm() != ref.norm() {
			r.bad(call, rec.st.String(), "redact's printer shows this state to the formatter but fmt shows "+ref.String()+" for the same directive")
			return
		}
		if rec.st != ref && !counted {
			counted = true
			r.rstNormalized++
		}
		if !r.checkFormat(call, rec, d) {
			return
		}
	}
}

// L4
func (r *c14Run) redactE2E(d c14Dir, verb rune, op c14Operand) {
	if d.width0 && op.echo {
		r.re2eSkipped++ // KNOWN CORNER
		return
	}
	format := d.text + string(verb)
	r.re2eCases++
	direct := string(Sprintf(format, d.args(op.val)...))
	key := string(verb) + "|" + op.name
	bare, ok := r.bareRedact[key]
	if !ok {
		bare = string(Sprintf("%"+string(verb), op.val))
		r.bareRedact[key] = bare
	}
	if direct != bare {
		r.re2eNontrivial++
	}
	if got := string(Sprintf(format, d.args(c14SafeFwd{op.val})...)); got != direct {
		r.bad(d.call("redact.Sprintf", verb, "c14SafeFwd{"+op.name+"} /* SafeFormat forwards with MakeFormat + p.Printf */"), got,
			"differs from the direct call "+d.call("redact.Sprintf", verb, op.name)+" = "+c14Short(direct))
		return
	}
	want := fmt.Sprintf(format, d.args(op.val)...)
	if got := Sprintf(format, d.args(c14Fwd{op.val})...).StripMarkers(); got != want {
		r.bad(d.call("redact.Sprintf", verb, "c14Fwd{"+op.name+"} /* Format forwards with MakeFormat + fmt.Fprintf */")+".StripMarkers()", got,
			"differs from the direct call "+d.call("fmt.Sprintf", verb, op.name)+" = "+c14Short(want))
		return
	}
}

func (r *c14Run) all(dirs []c14Dir, verbs []rune, ops []c14Operand, rops []c14Operand) {
	for _, d := range dirs {
		for _, v := range verbs {
			if r.full() {
				return
			}
			ref, ok := r.token(d, v)
			if ok {
				r.redactState(d, v, ref)
			}
			for _, op := range ops {
				if r.full() {
					return
				}
				r.e2e(d, v, op)
			}
			for _, op := range rops {
				if r.full() {
					return
				}
				r.redactE2E(d, v, op)
			}
		}
	}
}

// parallel: the same as all, the directives dealt out to a few workers (every case is independent of the
// others; the counters are summed).
func (r *c14Run) parallel(workers int, dirs []c14Dir, verbs []rune, ops []c14Operand, rops []c14Operand) {
	var wg sync.WaitGroup
	runs := make([]*c14Run, workers)
	for k := range runs {
		w := c14NewRun(r.t, r.max)
		w.fails, w.withRp = r.fails, r.withRp
		runs[k] = w
		var mine []c14Dir
		for j := k; j < len(dirs); j += workers {
			mine = append(mine, dirs[j])
		}
		wg.Add(1)
		go func() {
			defer wg.Done()
			w.all(mine, verbs, ops, rops)
		}()
	}
	wg.Wait()
	for _, w := range runs {
		r.tokCases += w.tokCases
		r.tokNontrivial += w.tokNontrivial
		r.tokWidth0 += w.tokWidth0
		r.e2eCases += w.e2eCases
		r.e2eNontrivial += w.e2eNontrivial
		r.e2eSkipped += w.e2eSkipped
		r.rstCases += w.rstCases
		r.rstNontrivial += w.rstNontrivial
		r.rstNormalized += w.rstNormalized
		r.re2eCases += w.re2eCases
		r.re2eNontrivial += w.re2eNontrivial
		r.re2eSkipped += w.re2eSkipped
	}
}

// ---------------------------------------------------------------------------------------------------
// replay

func c14HintBool(h map[string]interface{}, keys ...string) (bool, bool) {
	for _, k := range keys {
		switch v := h[k].(type) {
		case bool:
			return v, true
		case float64:
			return v != 0, true
		case string:
			return v == "true" || v == "1", true
		}
	}
	return false, false
}

func c14HintInt(h map[string]interface{}, keys ...string) (int, bool) {
	for _, k := range keys {
		switch v := h[k].(type) {
		case float64:
			return int(v), true
		case string:
			var n int
			if _, err := fmt.Sscanf(v, "%d", &n); err == nil {
				return n, true
			}
			if r, size := utf8.DecodeRuneInString(v); size == len(v) && size > 0 {
				return int(r), true
			}
		}
	}
	return 0, false
}

// c14HintDirs: the directive of a solver model (flags eplus.., width gw/gwp, precision gp/gpp, verb).
func c14HintDirs(h map[string]interface{}) ([]c14Dir, []rune) {
	if len(h) == 0 {
		return nil, nil
	}
	fl := ""
	for _, f := range []struct {
		c    string
		keys []string
	}{{"+", []string{"plus", "eplus", "s.Flag(43)"}}, {"-", []string{"minus", "eminus", "s.Flag(45)"}},
		{"#", []string{"hash", "sharp", "esharp", "s.Flag(35)"}}, {" ", []string{"sp", "space", "espace", "s.Flag(32)"}},
		{"0", []string{"z", "zero", "ezero", "s.Flag(48)"}}} {
		if b, ok := c14HintBool(h, f.keys...); ok && b {
			fl += f.c
		}
	}
	d := c14Dir{text: "%" + fl}
	w, wok := c14HintInt(h, "w", "gw", "ew", "width")
	if wp, ok := c14HintBool(h, "wp", "gwp", "ehasw"); ok {
		wok = wok && wp
	}
	if wok && w > -10000 && w < 10000 {
		d.text += "*"
		d.pre = append(d.pre, w)
		d.width0 = w == 0
	}
	p, pok := c14HintInt(h, "p", "gp", "ep", "prec", "precision")
	if pp, ok := c14HintBool(h, "pp", "gpp", "ehasp"); ok {
		pok = pok && pp
	}
	if pok && p > -10000 && p < 10000 {
		d.text += ".*"
		d.pre = append(d.pre, p)
	}
	var verbs []rune
	if v, ok := c14HintInt(h, "verb", "everb"); ok && utf8.ValidRune(rune(v)) && v != 'T' && v != 'p' && v != 'w' &&
		(v >= 0x80 || (v >= 'a' && v <= 'z') || (v >= 'A' && v <= 'Z')) {
		verbs = []rune{rune(v)}
	}
	return []c14Dir{d}, verbs
}

func TestVerifReplayC14(t *testing.T) {
	var hints map[string]interface{}
	_ = json.Unmarshal([]byte(os.Getenv("REPLAY_HINTS")), &hints)
	r := c14NewRun(t, 12)
	ops := c14Operands(false)
	if dirs, verbs := c14HintDirs(hints); dirs != nil {
		if verbs == nil {
			verbs = c14Verbs(true)
		}
		r.all(dirs, verbs, ops, ops)
		if r.failed() > 0 {
			return
		}
	}
	dirs := c14Dirs(c14Flags(false),
		[]c14Part{{"", nil}, {"7", nil}, {"*", 0}, {"*", -3}},
		[]c14Part{{"", nil}, {".0", nil}, {".1", nil}, {".*", 4}})
	r.all(dirs, c14Verbs(true), ops, ops[:0])
	if r.failed() > 0 {
		return
	}
	// a four-digit width on a thinner slice
	r.all(c14Dirs(c14Flags(false), []c14Part{{"1000", nil}}, []c14Part{{"", nil}, {".1", nil}}),
		[]rune{'v', 'd', 's', 'x', 'q', 'e', '世'}, ops, ops[:0])
	if r.failed() > 0 {
		return
	}
	// redact's own printer on a thinner slice
	r.all(c14Dirs(c14Flags(false), []c14Part{{"", nil}, {"7", nil}}, []c14Part{{"", nil}, {".0", nil}, {".1", nil}}),
		[]rune{'v', 'd', 's', 'x', 'X', 'q', 'f', 'e', 'g', 'c', 'U', 't', 'b', 'o', 'z', '世'}, ops[:0], ops)
}

// ---------------------------------------------------------------------------------------------------
// bounded

func TestVerifBoundedC14(t *testing.T) {
	thorough := os.Getenv("VERIF_TIER") == "thorough"
	r := c14NewRun(t, 8)
	flags := c14Flags(thorough)
	widths := []c14Part{{"", nil}, {"0", nil}, {"1", nil}, {"7", nil}, {"12", nil}, {"*", 0}}
	precs := []c14Part{{"", nil}, {".0", nil}, {".1", nil}, {".7", nil}}
	bound := "all 32 subsets of the flags + - # space 0 (canonical order) x widths {absent, literal 0, 1, 7, 12, * with 0} x precisions {absent, .0, .1, .7}"
	if thorough {
		r.withRp = true
		widths = append(widths, c14Part{"1000", nil}, c14Part{"*", 7}, c14Part{"*", -7})
		precs = append(precs, c14Part{".", nil}, c14Part{".5", nil}, c14Part{".*", 5}, c14Part{".*", -1})
		bound = "all 32 subsets of the flags + - # space 0 (in canonical and in reversed order) x widths {absent, literal 0, 1, 7, 12, 1000, * with 0, 7, -7} x precisions {absent, ., .0, .1, .5, .7, .* with 5, -1}"
	}
	verbs := c14Verbs(true)
	ops := c14Operands(thorough)
	bound += fmt.Sprintf(" x %d verbs (every ASCII letter but T, p, w, and the multi-byte verbs é 世 😀)", len(verbs))
	dirs := c14Dirs(flags, widths, precs)
	r.parallel(4, dirs, verbs, ops, ops)

	opb := fmt.Sprintf(" x %d operands (", len(ops))
	for k, op := range ops {
		if k > 0 {
			opb += "; "
		}
		opb += op.name
	}
	opb += ")"
	ok := r.failed() == 0
	emit := func(law string, cases, nontrivial int, rule, bound string) {
		m, _ := json.Marshal(map[string]interface{}{"property": "C14", "law": law, "cases": cases, "nontrivial": nontrivial,
			"nontrivial_rule": rule, "bound": bound, "exhaustive": ok})
		fmt.Printf("BOUNDED: %s\n", m)
	}
	emit(fmt.Sprintf("L1 under fmt, MakeFormat inside Format returns a directive whose flags/width/precision/verb (reference parser of fmt's syntax) equal what the fmt.State reports, justV exactly for the bare %%v, and fmt shows the same state again for the returned directive (the %d cases with a width of 0 given through '*' are compared without the width and the 0 flag: known corner)", r.tokWidth0),
		r.tokCases, r.tokNontrivial, "the directive has a flag, a width, a precision or a verb other than v (MakeFormat's slow path)", bound)
	emit(fmt.Sprintf("L2 fmt.Sprintf(d, Safe(x)) == fmt.Sprintf(d, x) == fmt.Sprintf(d, Unsafe(x)) == fmt.Sprintf(d, formatter forwarding x with MakeFormat%s) (%d cases skipped: state-printing operand under a '*' width of 0, known corner)",
		map[bool]string{true: " / with ReproducePrintf", false: ""}[r.withRp], r.e2eSkipped),
		r.e2eCases, r.e2eNontrivial, "fmt's output under the directive differs from its output under the bare verb (the flags/width/precision matter for the operand)", bound+opb)
	emit(fmt.Sprintf("L3 a fmt.Formatter and a SafeFormatter printed by redact.Sprintf see the flags/width/precision/verb that fmt shows for the same directive (modulo the 0 flag under -, which fmt since Go 1.22 keeps and redact's printer clears: %d directives), and MakeFormat re-creates them", r.rstNormalized),
		r.rstCases, r.rstNontrivial, "the directive has a flag, a width, a precision or a verb other than v", bound)
	emit(fmt.Sprintf("L4 redact.Sprintf(d, SafeFormatter forwarding x with MakeFormat+Printf) == redact.Sprintf(d, x), and redact.Sprintf(d, Formatter forwarding x with MakeFormat+fmt.Fprintf).StripMarkers() == fmt.Sprintf(d, x) (%d cases skipped: known corner)", r.re2eSkipped),
		r.re2eCases, r.re2eNontrivial, "redact's output under the directive differs from its output under the bare verb", bound+opb)
}
