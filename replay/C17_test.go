package redact

// Replay and bounded harness for C17 (a registered error hook renders every error operand, except
// under Unsafe). Injected with `go test -overlay`; never written into /repo.
//
// How the oracle is built (from the property statement, not from the printer):
//   - The hook installed by the harness records (error identity, verb) of every call and writes
//     SafeString("hook[") SafeRune(verb) SafeString("]:") UnsafeString(label); label comes from a table
//     keyed by the identity of the error, so that it never has to call a method of the error. For an
//     error with an inner error it then writes "(" Print(inner) ")" (the hook is re-entered through the
//     SafePrinter it was given).
//   - Every method of the harness' own error types (Error, Format, String, GoString, SafeFormat,
//     SafeMessage) records that it was called and returns a text that differs from the label, so "rendered
//     solely by the hook" is checked twice: on the recorded calls and on the output.
//   - The syntax around the operands (braces, field names, map[..], type names for %#v, <nil> for a nil
//     interface, ...) and the order of the operands is taken from the standard fmt package: the same
//     container is built with "mirror" errors (fmt.Formatter that writes \x01<index>\x02) and formatted
//     with fmt; each placeholder is then replaced by what the statement says about that operand (hook
//     rendering with the label in an envelope, or without envelope under Safe(); SafeFormat rendering for a
//     SafeFormatter; the SafeMessage string for a SafeMessager).
//   - Under Unsafe() the expected output is the whole fmt rendering of the real operand (markers escaped)
//     in one envelope, and the hook must not have been called.
// Only what the statement claims is asserted: errors in unexported fields (never formatted through method
// dispatch), wrappers stored in fields, pointers below the top level, %T/%p and operands printed by a
// bad-verb report are not part of the exact checks.

import (
	"math"
	"bytes"
	"encoding/json"
	"errors"
	"fmt"
	"os"
	"reflect"
	"regexp"
	"strconv"
	"strings"
	"testing"
)

// ---------------------------------------------------------------------------------------------------
// recording

type c17Call struct {
	err  error
	verb rune
}

var c17Calls []c17Call // hook calls
var c17Others []string // calls of the error types' own methods
var c17HookPanic int   // 0: normal hook; 1: panic(string); 2: panic(error); 3: nil map write (runtime error)

func c17Reset() { c17Calls, c17Others = nil, nil }

func c17Note(method, label string) { c17Others = append(c17Others, method+":"+label) }

// ---------------------------------------------------------------------------------------------------
// error types

type c17ValErr struct{ m string }

func (e c17ValErr) Error() string { c17Note("Error", e.m); return "E!" + e.m }

type c17PtrErr struct{ m string }

func (e *c17PtrErr) Error() string {
	if e == nil {
		c17Note("Error", "nilptr")
		return "E!nilptr"
	}
	c17Note("Error", e.m)
	return "E!" + e.m
}

type c17FmtErr struct{ m string }

func (e *c17FmtErr) Error() string { c17Note("Error", e.m); return "E!" + e.m }
func (e *c17FmtErr) Format(s fmt.State, verb rune) {
	c17Note("Format", e.m)
	fmt.Fprintf(s, "F!%c!%s", verb, e.m)
}

type c17StrErr struct{ m string }

func (e c17StrErr) Error() string    { c17Note("Error", e.m); return "E!" + e.m }
func (e c17StrErr) String() string   { c17Note("String", e.m); return "S!" + e.m }
func (e c17StrErr) GoString() string { c17Note("GoString", e.m); return "G!" + e.m }

type c17AllErr struct{ m string }

func (e *c17AllErr) Error() string    { c17Note("Error", e.m); return "E!" + e.m }
func (e *c17AllErr) String() string   { c17Note("String", e.m); return "S!" + e.m }
func (e *c17AllErr) GoString() string { c17Note("GoString", e.m); return "G!" + e.m }
func (e *c17AllErr) Format(s fmt.State, verb rune) {
	c17Note("Format", e.m)
	fmt.Fprintf(s, "F!%c!%s", verb, e.m)
}

type c17IntErr int

func (e c17IntErr) Error() string { c17Note("Error", "int"); return "E!int" + strconv.Itoa(int(e)) }

type c17StringErr string

func (e c17StringErr) Error() string { c17Note("Error", string(e)); return "E!" + string(e) }

type c17WrapErr struct {
	m     string
	Inner error
}

func (e *c17WrapErr) Error() string {
	c17Note("Error", e.m)
	return "E!" + e.m + ": " + e.Inner.Error()
}
func (e *c17WrapErr) Unwrap() error { return e.Inner }

// error that is also a SafeValue: formatted under a safe override, the hook is still used.
type c17SVErr struct{ m string }

func (e c17SVErr) Error() string { c17Note("Error", e.m); return "E!" + e.m }
func (e c17SVErr) SafeValue()    {}

// error whose type is registered with RegisterSafeType (type private to this file).
type c17RegErr struct{ m string }

func (e c17RegErr) Error() string { c17Note("Error", e.m); return "E!" + e.m }

// errors that are SafeFormatter / SafeMessager: the hook must NOT be used.
type c17SFErr struct{ m string }

func (e c17SFErr) Error() string { c17Note("Error", e.m); return "E!" + e.m }
func (e c17SFErr) SafeFormat(p SafePrinter, verb rune) {
	c17Note("SafeFormat", e.m)
	p.SafeString("sf[")
	p.SafeRune(SafeRune(verb))
	p.SafeString("]:")
	p.UnsafeString(e.m)
}

type c17SFPtrErr struct{ m string }

func (e *c17SFPtrErr) Error() string  { c17Note("Error", e.m); return "E!" + e.m }
func (e *c17SFPtrErr) String() string { c17Note("String", e.m); return "S!" + e.m }
func (e *c17SFPtrErr) Format(s fmt.State, verb rune) {
	c17Note("Format", e.m)
	fmt.Fprintf(s, "F!%c!%s", verb, e.m)
}
func (e *c17SFPtrErr) SafeMessage() string { c17Note("SafeMessage", e.m); return "SM!" + e.m }
func (e *c17SFPtrErr) SafeFormat(p SafePrinter, verb rune) {
	c17Note("SafeFormat", e.m)
	p.SafeString("sf[")
	p.SafeRune(SafeRune(verb))
	p.SafeString("]:")
	p.UnsafeString(e.m)
}

type c17SMErr struct{ m string }

func (e c17SMErr) Error() string       { c17Note("Error", e.m); return "E!" + e.m }
func (e c17SMErr) SafeMessage() string { c17Note("SafeMessage", e.m); return "SM!" + e.m }

// mirror: stands for operand number idx in the fmt reference run.
type c17Mirror struct {
	idx  int
	seen *[]rune
}

func (m *c17Mirror) Error() string { return "" }
func (m *c17Mirror) Format(s fmt.State, verb rune) {
	*m.seen = append(*m.seen, verb)
	fmt.Fprintf(s, "\x01%d\x02", m.idx)
}

// ---------------------------------------------------------------------------------------------------
// operands

const (
	c17KNil  = iota // nil error interface: no error value at all
	c17KHook        // must be rendered by the hook
	c17KSF          // SafeFormatter: rendered by SafeFormat
	c17KSM          // SafeMessager: rendered by SafeMessage
)

type c17Operand struct {
	name    string // Go-like text
	err     error
	kind    int
	label   string
	safeVal bool // the operand itself switches to safe rendering (SafeValue)
	anyMode bool // registered safe type: whether a safe override is active where the hook runs is a matter of
	// RegisterSafeType (a value reached through an interface is not looked up), not of this property
	inner *c17Operand // the hook prints this one through p.Print
}

var c17Table []c17Operand

func c17Same(a, b error) (same bool) {
	defer func() {
		if recover() != nil {
			same = false
		}
	}()
	return a == b
}

func c17Lookup(err error) *c17Operand {
	for k := range c17Table {
		if c17Table[k].kind != c17KNil && c17Same(c17Table[k].err, err) {
			return &c17Table[k]
		}
		if in := c17Table[k].inner; in != nil && c17Same(in.err, err) {
			return in
		}
	}
	return nil
}

func c17BuildOperands() []c17Operand {
	std := errors.New("E!std")
	inner := &c17PtrErr{"inner"}
	innerOp := &c17Operand{name: `&c17PtrErr{"inner"}`, err: inner, kind: c17KHook, label: "inner"}
	ops := []c17Operand{
		{name: `error(nil)`, err: nil, kind: c17KNil},
		{name: `errors.New("E!std")`, err: std, kind: c17KHook, label: "std"},
		{name: `fmt.Errorf("E!w: %w", errors.New("E!std"))`, err: fmt.Errorf("E!w: %w", std), kind: c17KHook, label: "wstd"},
		{name: `c17ValErr{"val"}`, err: c17ValErr{"val"}, kind: c17KHook, label: "val"},
		{name: `&c17PtrErr{"ptr"}`, err: &c17PtrErr{"ptr"}, kind: c17KHook, label: "ptr"},
		{name: `(*c17PtrErr)(nil)`, err: (*c17PtrErr)(nil), kind: c17KHook, label: "nilptr"},
		{name: `&c17FmtErr{"fmter"}`, err: &c17FmtErr{"fmter"}, kind: c17KHook, label: "fmter"},
		{name: `c17StrErr{"strer"}`, err: c17StrErr{"strer"}, kind: c17KHook, label: "strer"},
		{name: `&c17AllErr{"all"}`, err: &c17AllErr{"all"}, kind: c17KHook, label: "all"},
		{name: `c17IntErr(42)`, err: c17IntErr(42), kind: c17KHook, label: "int42"},
		{name: `c17StringErr("strk")`, err: c17StringErr("strk"), kind: c17KHook, label: "strk"},
		{name: `&c17PtrErr{"m‹x›y"}`, err: &c17PtrErr{"m‹x›y"}, kind: c17KHook, label: "m‹x›y"},
		{name: `&c17WrapErr{"outer", &c17PtrErr{"inner"}}`, err: &c17WrapErr{"outer", inner}, kind: c17KHook, label: "outer", inner: innerOp},
		{name: `c17SVErr{"sv"}`, err: c17SVErr{"sv"}, kind: c17KHook, label: "sv", safeVal: true},
		{name: `c17RegErr{"reg"} /*RegisterSafeType*/`, err: c17RegErr{"reg"}, kind: c17KHook, label: "reg", anyMode: true},
		{name: `c17SFErr{"sf"}`, err: c17SFErr{"sf"}, kind: c17KSF, label: "sf"},
		{name: `&c17SFPtrErr{"sfp"}`, err: &c17SFPtrErr{"sfp"}, kind: c17KSF, label: "sfp"},
		{name: `c17SMErr{"sm"}`, err: c17SMErr{"sm"}, kind: c17KSM, label: "sm"},
	}
	return ops
}

// ---------------------------------------------------------------------------------------------------
// the hook

func c17Hook(err error, p SafePrinter, verb rune) {
	c17Calls = append(c17Calls, c17Call{err, verb})
	label := "?unknown"
	var inner *c17Operand
	known := false
	if op := c17Lookup(err); op != nil {
		label, inner, known = op.label, op.inner, true
	}
	p.SafeString("hook[")
	p.SafeRune(SafeRune(verb))
	p.SafeString("]:")
	p.UnsafeString(label)
	if known {
		// (the panic value itself may be an error: it is then passed to the hook too, which must not
		// panic again, otherwise the printer rightly gives up, as fmt does for nested panics)
		c17Panic()
	}
	if inner != nil {
		p.SafeString("(")
		p.Print(inner.err)
		p.SafeString(")")
	}
}

func c17Panic() {
	switch c17HookPanic {
	case 1:
		panic("pv")
	case 2:
		panic(errors.New("perr"))
	case 3:
		var m map[string]int
		m["x"] = 1
	}
}

// c17Install installs the harness hook; the returned function removes it again (the library has no
// getter for the previous value: the initial state of the process is "no hook").
func c17Install() func() {
	RegisterSafeType(reflect.TypeOf(c17RegErr{}))
	c17Table = c17BuildOperands()
	c17HookPanic = 0
	RegisterRedactErrorFn(c17Hook)
	return func() {
		RegisterRedactErrorFn(nil)
		c17HookPanic = 0
	}
}

// ---------------------------------------------------------------------------------------------------
// shapes (positions)

type c17HoldErr struct{ Err error }
type c17HoldAny struct{ Any interface{} }
type c17Hold2 struct {
	A error
	B interface{}
}
type c17Unexp struct {
	err error
	any interface{}
}
type c17Conc struct {
	V c17ValErr
	P *c17PtrErr
	S c17StrErr
}

type c17Shape struct {
	name  string
	arity int
	top   bool // the operand itself (may be used with %w)
	ptr   bool // top-level pointer: cannot be nested
	build func(es []error) interface{}
	text  func(ns []string) string
}

// a float key type that is a SafeValue, so that the key of the NaN shape renders outside envelopes like the other keys
type c17SafeFloat float64

func (c17SafeFloat) SafeValue() {}

var c17BaseShapes = []c17Shape{
	{"top", 1, true, false, func(es []error) interface{} { return es[0] }, func(ns []string) string { return ns[0] }},
	{"field", 1, false, false, func(es []error) interface{} { return c17HoldErr{es[0]} }, func(ns []string) string { return "c17HoldErr{Err: " + ns[0] + "}" }},
	{"ifacefield", 1, false, false, func(es []error) interface{} { return c17HoldAny{es[0]} }, func(ns []string) string { return "c17HoldAny{Any: " + ns[0] + "}" }},
	{"ptrstruct", 1, false, true, func(es []error) interface{} { return &c17HoldErr{es[0]} }, func(ns []string) string { return "&c17HoldErr{Err: " + ns[0] + "}" }},
	{"slice2", 2, false, false, func(es []error) interface{} { return []error{es[0], es[1]} }, func(ns []string) string { return "[]error{" + ns[0] + ", " + ns[1] + "}" }},
	{"array", 1, false, false, func(es []error) interface{} { return [1]error{es[0]} }, func(ns []string) string { return "[1]error{" + ns[0] + "}" }},
	{"mapvalue", 1, false, false, func(es []error) interface{} { return map[SafeString]error{"k": es[0]} }, func(ns []string) string { return `map[SafeString]error{"k": ` + ns[0] + "}" }},
	// a key that is not equal to itself cannot be looked up: the entry must still be printed with its value (seed C17-8)
	{"nanmapvalue", 1, false, false, func(es []error) interface{} { return map[c17SafeFloat]error{c17SafeFloat(math.NaN()): es[0]} }, func(ns []string) string { return `map[c17SafeFloat]error{c17SafeFloat(math.NaN()): ` + ns[0] + "}" }},
	{"mapkey", 1, false, false, func(es []error) interface{} { return map[error]SafeString{es[0]: "val"} }, func(ns []string) string { return `map[error]SafeString{` + ns[0] + `: "val"}` }},
	{"struct2", 2, false, false, func(es []error) interface{} { return c17Hold2{es[0], es[1]} }, func(ns []string) string { return "c17Hold2{A: " + ns[0] + ", B: " + ns[1] + "}" }},
	{"ptrslice", 1, false, true, func(es []error) interface{} { return &[]error{es[0]} }, func(ns []string) string { return "&[]error{" + ns[0] + "}" }},
	{"ptrmap", 1, false, true, func(es []error) interface{} { return &map[SafeString]error{"k": es[0]} }, func(ns []string) string { return `&map[SafeString]error{"k": ` + ns[0] + "}" }},
}

type c17Outer struct {
	name string
	ptr  bool
	wrap func(x interface{}) interface{}
	text func(s string) string
}

var c17Outers = []c17Outer{
	{"inStruct", false, func(x interface{}) interface{} { return c17HoldAny{x} }, func(s string) string { return "c17HoldAny{Any: " + s + "}" }},
	{"inSlice", false, func(x interface{}) interface{} { return []interface{}{x} }, func(s string) string { return "[]interface{}{" + s + "}" }},
	{"inMap", false, func(x interface{}) interface{} { return map[SafeString]interface{}{"k": x} }, func(s string) string { return `map[SafeString]interface{}{"k": ` + s + "}" }},
	{"inArray", false, func(x interface{}) interface{} { return [1]interface{}{x} }, func(s string) string { return "[1]interface{}{" + s + "}" }},
	{"inPtrStruct", true, func(x interface{}) interface{} { return &c17HoldAny{x} }, func(s string) string { return "&c17HoldAny{Any: " + s + "}" }},
}

func c17Compose(o c17Outer, s c17Shape) c17Shape {
	return c17Shape{o.name + "(" + s.name + ")", s.arity, false, o.ptr,
		func(es []error) interface{} { return o.wrap(s.build(es)) },
		func(ns []string) string { return o.text(s.text(ns)) }}
}

// c17Shapes: all positions up to the given nesting depth (1: base shapes; 2: one container around; ...).
func c17Shapes(depth int) []c17Shape {
	all := append([]c17Shape{}, c17BaseShapes...)
	level := c17BaseShapes
	for d := 2; d <= depth; d++ {
		var next []c17Shape
		for _, o := range c17Outers {
			for _, s := range level {
				if s.ptr { // a pointer below the top level is printed as an address: nothing reached
					continue
				}
				next = append(next, c17Compose(o, s))
			}
		}
		all = append(all, next...)
		level = next
	}
	return all
}

// ---------------------------------------------------------------------------------------------------
// ways of calling the printer (contexts)

type c17SFWrap struct{ fn func(p SafePrinter) }

func (w c17SFWrap) SafeFormat(p SafePrinter, _ rune) { w.fn(p) }

type c17API struct {
	name      string
	vOnly     bool // no format: only for spec "v"
	helper    bool // HelperForErrorf: accepts %w
	forceSafe bool // everything is formatted inside a Safe(...)
	strip     bool // result has its markers stripped
	pre, post string
	rep       int
	run       func(format string, x interface{}) string
	text      func(format string, xs string) string
}

var c17APIs = []c17API{
	{name: "Sprintf", rep: 1,
		run:  func(f string, x interface{}) string { return string(Sprintf(f, x)) },
		text: func(f, xs string) string { return fmt.Sprintf("Sprintf(%q, %s)", f, xs) }},
	{name: "Sprintf-literal", rep: 1, pre: "pre ", post: " post",
		run:  func(f string, x interface{}) string { return string(Sprintf("pre "+f+" post", x)) },
		text: func(f, xs string) string { return fmt.Sprintf("Sprintf(%q, %s)", "pre "+f+" post", xs) }},
	{name: "Sprintf-twice", rep: 2,
		run:  func(f string, x interface{}) string { return string(Sprintf(f+"|"+f, x, x)) },
		text: func(f, xs string) string { return fmt.Sprintf("Sprintf(%q, %s, %s)", f+"|"+f, xs, xs) }},
	{name: "Sprint", rep: 1, vOnly: true,
		run:  func(f string, x interface{}) string { return string(Sprint(x)) },
		text: func(f, xs string) string { return fmt.Sprintf("Sprint(%s)", xs) }},
	{name: "HelperForErrorf", rep: 1, helper: true, pre: "wrap: ",
		run: func(f string, x interface{}) string {
			s, _ := HelperForErrorf("wrap: "+f, x)
			return string(s)
		},
		text: func(f, xs string) string { return fmt.Sprintf("HelperForErrorf(%q, %s)", "wrap: "+f, xs) }},
	{name: "Fprintf", rep: 1,
		run: func(f string, x interface{}) string {
			var b bytes.Buffer
			_, _ = Fprintf(&b, f, x)
			return b.String()
		},
		text: func(f, xs string) string { return fmt.Sprintf("Fprintf(&buf, %q, %s)", f, xs) }},
	{name: "Fprint", rep: 1, vOnly: true,
		run: func(f string, x interface{}) string {
			var b bytes.Buffer
			_, _ = Fprint(&b, x)
			return b.String()
		},
		text: func(f, xs string) string { return fmt.Sprintf("Fprint(&buf, %s)", xs) }},
	{name: "Sprintfn-Printf", rep: 1,
		run: func(f string, x interface{}) string {
			return string(Sprintfn(func(p SafePrinter) { p.Printf(f, x) }))
		},
		text: func(f, xs string) string {
			return fmt.Sprintf("Sprintfn(func(p SafePrinter) { p.Printf(%q, %s) })", f, xs)
		}},
	{name: "Sprintfn-Print", rep: 1, vOnly: true,
		run: func(f string, x interface{}) string {
			return string(Sprintfn(func(p SafePrinter) { p.Print(x) }))
		},
		text: func(f, xs string) string { return fmt.Sprintf("Sprintfn(func(p SafePrinter) { p.Print(%s) })", xs) }},
	{name: "StringBuilder-Printf", rep: 1, pre: "sb:",
		run: func(f string, x interface{}) string {
			var b StringBuilder
			b.SafeString("sb:")
			b.Printf(f, x)
			return string(b.RedactableString())
		},
		text: func(f, xs string) string {
			return fmt.Sprintf("StringBuilder{SafeString(\"sb:\"); Printf(%q, %s)}.RedactableString()", f, xs)
		}},
	{name: "StringBuilder-Print", rep: 1, vOnly: true,
		run: func(f string, x interface{}) string {
			var b StringBuilder
			b.Print(x)
			return string(b.RedactableString())
		},
		text: func(f, xs string) string { return fmt.Sprintf("StringBuilder{Print(%s)}.RedactableString()", xs) }},
	{name: "SafeFormatter-Printf", rep: 1, pre: "<", post: ">",
		run: func(f string, x interface{}) string {
			return string(Sprintf("<%v>", c17SFWrap{func(p SafePrinter) { p.Printf(f, x) }}))
		},
		text: func(f, xs string) string {
			return fmt.Sprintf("Sprintf(\"<%%v>\", c17SFWrap{func(p SafePrinter) { p.Printf(%q, %s) }})", f, xs)
		}},
	{name: "SafeFormatter-Print", rep: 1, vOnly: true,
		run: func(f string, x interface{}) string {
			return string(Sprint(c17SFWrap{func(p SafePrinter) { p.Print(x) }}))
		},
		text: func(f, xs string) string {
			return fmt.Sprintf("Sprint(c17SFWrap{func(p SafePrinter) { p.Print(%s) }})", xs)
		}},
	{name: "Safe(SafeFormatter)-Printf", rep: 1, forceSafe: true,
		run: func(f string, x interface{}) string {
			return string(Sprintf("%v", Safe(c17SFWrap{func(p SafePrinter) { p.Printf(f, x) }})))
		},
		text: func(f, xs string) string {
			return fmt.Sprintf("Sprintf(\"%%v\", Safe(c17SFWrap{func(p SafePrinter) { p.Printf(%q, %s) }}))", f, xs)
		}},
	{name: "SafeFormatter-in-field-Printf", rep: 1, pre: "{", post: "}",
		run: func(f string, x interface{}) string {
			return string(Sprintf("%v", c17HoldAny{c17SFWrap{func(p SafePrinter) { p.Printf(f, x) }}}))
		},
		text: func(f, xs string) string {
			return fmt.Sprintf("Sprintf(\"%%v\", c17HoldAny{c17SFWrap{func(p SafePrinter) { p.Printf(%q, %s) }}})", f, xs)
		}},
	{name: "StringWithoutMarkers", rep: 1, strip: true,
		run: func(f string, x interface{}) string {
			return StringWithoutMarkers(c17SFWrap{func(p SafePrinter) { p.Printf(f, x) }})
		},
		text: func(f, xs string) string {
			return fmt.Sprintf("StringWithoutMarkers(c17SFWrap{func(p SafePrinter) { p.Printf(%q, %s) }})", f, xs)
		}},
}

// ---------------------------------------------------------------------------------------------------
// reference functions (from the statement)

func c17Esc(s string) string {
	return strings.ReplaceAll(strings.ReplaceAll(s, vS, "?"), vE, "?")
}

func c17Strip(s string) string {
	return strings.ReplaceAll(strings.ReplaceAll(s, vS, ""), vE, "")
}

// c17Env: an unsafe part; inside an envelope, or bare when a Safe() is active.
func c17Env(s string, safe bool) string {
	if s == "" {
		return ""
	}
	if safe {
		return c17Esc(s)
	}
	return vS + c17Esc(s) + vE
}

const (
	c17CtxNone = iota
	c17CtxSafe
	c17CtxUnsafe
)

var c17CtxNames = []string{"plain", "Safe", "Unsafe"}

type c17Expect struct {
	want    string
	exact   bool // want is meaningful
	modulo  bool // compare with markers stripped
	calls   []c17Call
	others  []string
	checkOt bool
}

func c17Verb(spec string) rune { return rune(spec[len(spec)-1]) }

// c17Render: what the statement says operand op looks like.
func c17Render(op *c17Operand, verb rune, fmtSpec string, safe bool, ex *c17Expect) string {
	switch op.kind {
	case c17KHook:
		safe = safe || op.safeVal
		if op.anyMode {
			ex.modulo = true
		}
		ex.calls = append(ex.calls, c17Call{op.err, verb})
		s := "hook[" + string(verb) + "]:" + c17Env(op.label, safe)
		if op.inner != nil {
			s += "(" + c17Render(op.inner, 'v', "%v", safe, ex) + ")"
		}
		return s
	case c17KSF:
		ex.others = append(ex.others, "SafeFormat:"+op.label)
		return "sf[" + string(verb) + "]:" + c17Env(op.label, safe)
	case c17KSM:
		ex.others = append(ex.others, "SafeMessage:"+op.label)
		switch verb {
		case 'v', 's', 'q', 'x', 'X':
		default:
			ex.exact = false // the bad-verb report of a SafeMessager is not described by the statement
		}
		return c17Esc(fmt.Sprintf(fmtSpec, "SM!"+op.label))
	}
	return "?"
}

// c17Expected computes the expected output and calls for one case.
func c17Expected(t *testing.T, sh c17Shape, ops []*c17Operand, spec string, ctx int, api c17API) c17Expect {
	verb := c17Verb(spec)
	if verb == 'w' {
		verb = 'v'
	}
	fmtSpec := "%" + spec[:len(spec)-1] + string(verb)
	ex := c17Expect{exact: true}
	var one string
	if ctx == c17CtxUnsafe {
		es := make([]error, len(ops))
		for k, o := range ops {
			es[k] = o.err
		}
		one = c17Env(fmt.Sprintf(fmtSpec, sh.build(es)), api.forceSafe)
		for r := 0; r < api.rep; r++ {
			if r > 0 {
				ex.want += "|"
			}
			ex.want += one
		}
	} else {
		var seen []rune
		es := make([]error, len(ops))
		for k, o := range ops {
			if o.kind != c17KNil {
				es[k] = &c17Mirror{k, &seen}
			}
		}
		T := fmt.Sprintf(fmtSpec, sh.build(es))
		for _, v := range seen {
			if v != verb {
				t.Fatalf("oracle: fmt passes verb %q to a Formatter for %q", v, fmtSpec)
			}
		}
		safe := ctx == c17CtxSafe || api.forceSafe
		ex.checkOt = true
		for r := 0; r < api.rep; r++ {
			if r > 0 {
				ex.want += "|"
			}
			rest := T
			for {
				a := strings.IndexByte(rest, 1)
				if a < 0 {
					ex.want += rest
					break
				}
				b := strings.IndexByte(rest, 2)
				idx, _ := strconv.Atoi(rest[a+1 : b])
				ex.want += rest[:a] + c17Render(ops[idx], verb, fmtSpec, safe, &ex)
				rest = rest[b+1:]
			}
		}
	}
	ex.want = api.pre + ex.want + api.post
	if api.strip {
		ex.want = c17Strip(ex.want)
	}
	return ex
}

// ---------------------------------------------------------------------------------------------------
// one case

type c17Stats struct {
	cases, nontrivial int
	fails             int
	maxFails          int
}

func c17Fail(t *testing.T, st *c17Stats, call, out, why string) {
	st.fails++
	m, _ := json.Marshal(map[string]string{"property": "C17", "call": call, "output": fmt.Sprintf("%q", out), "why": why})
	fmt.Printf("REPLAY-FAIL: %s\n", m)
	t.Errorf("%s: %s: %q", call, why, out)
}

func c17CallsText(cs []c17Call) string {
	var b strings.Builder
	b.WriteString("[")
	for k, c := range cs {
		if k > 0 {
			b.WriteString(" ")
		}
		name := "?"
		if op := c17Lookup(c.err); op != nil {
			name = op.label
		}
		fmt.Fprintf(&b, "(%s,%q)", name, c.verb)
	}
	b.WriteString("]")
	return b.String()
}

// c17Run runs one case; which selects the law being counted: 0 all, 1 only hook-applies (plain/Safe),
// 2 only Unsafe.
func c17Run(t *testing.T, st *c17Stats, sh c17Shape, ops []*c17Operand, spec string, ctx int, api c17API) {
	if st.fails >= st.maxFails {
		return
	}
	verb := c17Verb(spec)
	if api.vOnly && spec != "v" {
		return
	}
	if verb == 'w' {
		// %w is claimed for an error operand of HelperForErrorf; one %w per format.
		if !api.helper || !sh.top || ops[0].kind == c17KNil || api.rep != 1 {
			return
		}
	}
	if api.forceSafe && ctx == c17CtxUnsafe {
		return // Unsafe() inside Safe(): which one wins is not part of the statement
	}
	es := make([]error, len(ops))
	ns := make([]string, len(ops))
	nontrivial := false
	for k, o := range ops {
		es[k], ns[k] = o.err, o.name
		if o.kind == c17KHook {
			nontrivial = true
		}
	}
	x := sh.build(es)
	xs := sh.text(ns)
	switch ctx {
	case c17CtxSafe:
		x, xs = Safe(x), "Safe("+xs+")"
	case c17CtxUnsafe:
		x, xs = Unsafe(x), "Unsafe("+xs+")"
	}
	ex := c17Expected(t, sh, ops, spec, ctx, api)
	call := "RegisterRedactErrorFn(hook); " + api.text("%"+spec, xs)
	st.cases++
	if nontrivial {
		st.nontrivial++
	}
	c17Reset()
	var got string
	var pv interface{}
	func() {
		defer func() { pv = recover() }()
		got = api.run("%"+spec, x)
	}()
	calls, others := c17Calls, c17Others
	c17Reset()
	if pv != nil {
		c17Fail(t, st, call, fmt.Sprint("panic: ", pv), "the call panics")
		return
	}
	// hook calls: identity, verb, count, order
	okCalls := len(calls) == len(ex.calls)
	if okCalls {
		for k := range calls {
			if !c17Same(calls[k].err, ex.calls[k].err) || calls[k].verb != ex.calls[k].verb {
				okCalls = false
			}
		}
	}
	if !okCalls {
		why := "hook calls are " + c17CallsText(calls) + ", expected " + c17CallsText(ex.calls)
		if ctx == c17CtxUnsafe {
			why += " (the hook must be bypassed under Unsafe)"
		} else {
			why += " (every dispatched error that is not a SafeFormatter/SafeMessager goes to the hook, exactly once, with the active verb; SafeFormatter/SafeMessager errors do not)"
		}
		c17Fail(t, st, call, got, why)
		return
	}
	if ex.checkOt && strings.Join(others, ",") != strings.Join(ex.others, ",") {
		c17Fail(t, st, call, got, "methods of the error operands that were called: ["+strings.Join(others, ",")+"], expected ["+strings.Join(ex.others, ",")+"]: the error is not rendered solely by the hook")
		return
	}
	if !api.strip && !vWellFormed(got) {
		c17Fail(t, st, call, got, "output is not well-formed")
		return
	}
	if ex.exact && ex.modulo && ctx != c17CtxUnsafe {
		got, ex.want = c17Strip(got), c17Strip(ex.want)
	}
	if ex.exact && got != ex.want {
		why := "expected " + fmt.Sprintf("%q", ex.want)
		if ctx == c17CtxUnsafe {
			why += ": under Unsafe the plain text (as fmt prints it) must be fully enveloped"
		} else {
			why += ": the hook's safe parts must be outside and its unsafe parts inside envelopes (no envelopes under Safe), nothing else may be printed for the error"
		}
		c17Fail(t, st, call, got, why)
		return
	}
}

// ---------------------------------------------------------------------------------------------------
// enumeration

var c17SpecsQuick = []string{"v", "+v", "s", "q", "d", "x", "w", "#v"}
var c17SpecsAll = []string{"v", "+v", "#v", "s", "q", "d", "x", "X", "w", "10s", "-8v", "+q", "#x", "c", "t"}

func c17Enumerate(t *testing.T, st *c17Stats, shapes []c17Shape, specs []string, apis []c17API, ctxs []int, allPairs bool) {
	n := len(c17Table)
	for _, sh := range shapes {
		for i := 0; i < n; i++ {
			var seconds []int
			if sh.arity == 2 {
				if allPairs {
					for j := 0; j < n; j++ {
						seconds = append(seconds, j)
					}
				} else {
					seconds = []int{(i + 1) % n, (i + 7) % n}
				}
			} else {
				seconds = []int{-1}
			}
			for _, j := range seconds {
				ops := []*c17Operand{&c17Table[i]}
				if j >= 0 {
					ops = append(ops, &c17Table[j])
				}
				for _, spec := range specs {
					for _, ctx := range ctxs {
						for _, api := range apis {
							c17Run(t, st, sh, ops, spec, ctx, api)
							if st.fails >= st.maxFails {
								return
							}
						}
					}
				}
			}
		}
	}
}

// c17Concrete: errors stored in fields of concrete (non-interface) exported types.
func c17Concrete(t *testing.T, st *c17Stats) {
	p := &c17PtrErr{"ptr"}
	c17Table = append(c17Table, c17Operand{name: "p", err: p, kind: c17KHook, label: "ptr2"})
	defer func() { c17Table = c17Table[:len(c17Table)-1] }()
	x := c17Conc{c17ValErr{"val"}, p, c17StrErr{"strer"}}
	xs := `c17Conc{V: c17ValErr{"val"}, P: &c17PtrErr{"ptr"}, S: c17StrErr{"strer"}}`
	for _, spec := range []string{"v", "+v", "#v", "d", "s", "q", "x"} {
		verb := string(c17Verb(spec))
		for ctx := c17CtxNone; ctx <= c17CtxSafe; ctx++ {
			safe := ctx == c17CtxSafe
			r := func(l string) string { return "hook[" + verb + "]:" + c17Env(l, safe) }
			var want string
			switch spec {
			case "+v":
				want = "{V:" + r("val") + " P:" + r("ptr2") + " S:" + r("strer") + "}"
			case "#v":
				want = "redact.c17Conc{V:" + r("val") + ", P:" + r("ptr2") + ", S:" + r("strer") + "}"
			default:
				want = "{" + r("val") + " " + r("ptr2") + " " + r("strer") + "}"
			}
			var arg interface{} = x
			as := xs
			if safe {
				arg, as = Safe(x), "Safe("+xs+")"
			}
			c17Reset()
			got := string(Sprintf("%"+spec, arg))
			calls, others := c17Calls, c17Others
			c17Reset()
			st.cases++
			st.nontrivial++
			call := fmt.Sprintf("RegisterRedactErrorFn(hook); Sprintf(%q, %s)", "%"+spec, as)
			if len(calls) != 3 || len(others) != 0 {
				c17Fail(t, st, call, got, fmt.Sprintf("hook calls %s, own methods called %v: expected three hook calls and no other method", c17CallsText(calls), others))
			} else if got != want {
				c17Fail(t, st, call, got, "expected "+fmt.Sprintf("%q", want)+": each error field is rendered solely by the hook")
			}
		}
	}
}

// c17UnexportedFields: nothing is claimed for errors in unexported fields (they are not formatted through
// method dispatch); only well-formedness and absence of panics are looked at, and that the hook, if it is
// called at all, gets the stored error and the active verb.
func c17UnexportedFields(t *testing.T, st *c17Stats) {
	for i := range c17Table {
		op := &c17Table[i]
		for _, spec := range []string{"v", "+v", "#v", "d", "s", "q", "x"} {
			for ctx := c17CtxNone; ctx <= c17CtxUnsafe; ctx++ {
				var x interface{} = c17Unexp{op.err, op.err}
				xs := "c17Unexp{err: " + op.name + ", any: " + op.name + "}"
				switch ctx {
				case c17CtxSafe:
					x, xs = Safe(x), "Safe("+xs+")"
				case c17CtxUnsafe:
					x, xs = Unsafe(x), "Unsafe("+xs+")"
				}
				call := fmt.Sprintf("RegisterRedactErrorFn(hook); Sprintf(%q, %s)", "%"+spec, xs)
				c17Reset()
				var got string
				var pv interface{}
				func() {
					defer func() { pv = recover() }()
					got = string(Sprintf("%"+spec, x))
				}()
				calls := c17Calls
				c17Reset()
				st.cases++
				if pv != nil {
					c17Fail(t, st, call, fmt.Sprint("panic: ", pv), "the call panics")
					continue
				}
				if !vWellFormed(got) {
					c17Fail(t, st, call, got, "output is not well-formed")
				}
				for _, c := range calls {
					if ctx == c17CtxUnsafe || !c17Same(c.err, op.err) || c.verb != c17Verb(spec) {
						c17Fail(t, st, call, got, "hook called with "+c17CallsText(calls))
						break
					}
				}
			}
		}
	}
}

// ---------------------------------------------------------------------------------------------------
// panics in the hook

type c17PanicSF struct{ m string }

func (e *c17PanicSF) SafeFormat(p SafePrinter, verb rune) {
	p.SafeString("hook[")
	p.SafeRune(SafeRune(verb))
	p.SafeString("]:")
	if e == nil {
		p.UnsafeString("nilptr")
	} else {
		p.UnsafeString(e.m)
	}
	c17Panic()
}

var c17MethodRe = regexp.MustCompile(`PANIC=[A-Za-z]+ method: `)

func c17PanicLaw(t *testing.T, st *c17Stats) {
	defer func() { c17HookPanic = 0 }()
	type pcase struct {
		name      string
		err       error
		sf        interface{}
		label     string
		nilRecv   bool
		fmtErrTxt string
	}
	pcs := []pcase{
		{`&c17PtrErr{"ptr"}`, c17Table[4].err, &c17PanicSF{"ptr"}, "ptr", false, "E!ptr"},
		{`errors.New("E!std")`, c17Table[1].err, &c17PanicSF{"std"}, "std", false, "E!std"},
		{`c17ValErr{"val"}`, c17Table[3].err, &c17PanicSF{"val"}, "val", false, "E!val"},
		{`&c17AllErr{"all"}`, c17Table[8].err, &c17PanicSF{"all"}, "all", false, ""},
		{`(*c17PtrErr)(nil)`, c17Table[5].err, (*c17PanicSF)(nil), "nilptr", true, "E!nilptr"},
	}
	type pshape struct {
		name  string
		build func(a interface{}) interface{}
		text  func(s string) string
	}
	pshapes := []pshape{
		{"top", func(a interface{}) interface{} { return a }, func(s string) string { return s }},
		{"field", func(a interface{}) interface{} { return c17HoldAny{a} }, func(s string) string { return "c17HoldAny{Any: " + s + "}" }},
		{"slice", func(a interface{}) interface{} { return []interface{}{a, a} }, func(s string) string { return "[]interface{}{" + s + ", " + s + "}" }},
		{"map", func(a interface{}) interface{} { return map[SafeString]interface{}{"k": a} }, func(s string) string { return `map[SafeString]interface{}{"k": ` + s + "}" }},
	}
	panicTexts := map[int]string{1: "pv", 2: "perr", 3: "assignment to entry in nil map"}
	for mode := 1; mode <= 3; mode++ {
		for _, pc := range pcs {
			for _, ps := range pshapes {
				for _, verb := range []string{"v", "+v", "s", "d", "q", "w"} {
					for ctx := c17CtxNone; ctx <= c17CtxUnsafe; ctx++ {
						if st.fails >= st.maxFails {
							return
						}
						if verb == "w" && ps.name != "top" {
							continue
						}
						wrapIt := func(a interface{}) (interface{}, string) {
							switch ctx {
							case c17CtxSafe:
								return Safe(a), "Safe(%s)"
							case c17CtxUnsafe:
								return Unsafe(a), "Unsafe(%s)"
							}
							return a, "%s"
						}
						x, xf := wrapIt(ps.build(pc.err))
						y, _ := wrapIt(ps.build(pc.sf))
						format := "a %" + verb + " b %d"
						call := fmt.Sprintf("RegisterRedactErrorFn(hook that panics with %q); HelperForErrorf(%q, %s, 7)", panicTexts[mode], format, fmt.Sprintf(xf, ps.text(pc.name)))
						run := func(a interface{}) (s string, pv interface{}) {
							defer func() { pv = recover() }()
							r, _ := HelperForErrorf(format, a, 7)
							return string(r), nil
						}
						c17HookPanic = mode
						c17Reset()
						got, pv := run(x)
						ncalls := len(c17Calls)
						c17Reset()
						st.cases++
						st.nontrivial++
						if pv != nil {
							c17Fail(t, st, call, fmt.Sprint("panic: ", pv), "the panic of the hook escapes from the printer")
							continue
						}
						if !vWellFormed(got) {
							c17Fail(t, st, call, got, "output is not well-formed after a contained panic")
							continue
						}
						seven := " b " + c17Env("7", false) // the second operand is outside the wrapper
						if !strings.HasPrefix(got, "a ") || !strings.HasSuffix(got, seven) {
							c17Fail(t, st, call, got, "the rest of the format is not printed normally after the contained panic")
							continue
						}
						if ctx == c17CtxUnsafe {
							if ncalls != 0 || strings.Contains(got, "PANIC") {
								c17Fail(t, st, call, got, "the hook must be bypassed under Unsafe")
							}
							continue
						}
						nOcc := 1
						if ps.name == "slice" {
							nOcc = 2
						}
						wantCalls := nOcc
						if mode != 1 && !pc.nilRecv {
							wantCalls = 2 * nOcc // the panic value is an error: it is rendered by the hook as well
						}
						if ncalls != wantCalls {
							c17Fail(t, st, call, got, fmt.Sprintf("hook called %d times, expected %d", ncalls, wantCalls))
							continue
						}
						hv := verb
						if hv == "w" {
							hv = "v"
						}
						hv = hv[len(hv)-1:]
						safe := ctx == c17CtxSafe
						// statement: contained like any other method panic: %!verb(PANIC=<method> method: <value>),
						// and <nil> for a nil receiver, after whatever the hook had printed.
						var one string
						pvText := c17Env("pv", safe)
						if mode != 1 {
							pvText = "hook[v]:" + c17Env("?unknown", safe) // an error value: goes to the hook
						}
						if pc.nilRecv {
							one = "hook[" + hv + "]:" + c17Env(pc.label, safe) + "<nil>"
						} else {
							one = "hook[" + hv + "]:" + c17Env(pc.label, safe) + "%!" + hv + "(PANIC=M method: " + pvText + ")"
						}
						var seen []rune
						fv := verb
						if fv == "w" {
							fv = "v"
						}
						want := strings.ReplaceAll(fmt.Sprintf("%"+fv, ps.build(&c17Mirror{0, &seen})), "\x010\x02", one)
						want = "a " + want + seven
						norm := c17MethodRe.ReplaceAllString(got, "PANIC=M method: ")
						if norm != want {
							c17Fail(t, st, call, got, "expected (method name replaced by M) "+fmt.Sprintf("%q", want)+": a panic in the hook is reported like any other method panic")
							continue
						}
						// differential: the same panic in a SafeFormat method
						if verb != "w" {
							ref, pv2 := run(y)
							refn := c17MethodRe.ReplaceAllString(ref, "PANIC=M method: ")
							if pv2 != nil || refn != norm {
								c17Fail(t, st, call, got, "differs from the same panic in a SafeFormat method: "+fmt.Sprintf("%q", ref))
								continue
							}
						}
						// the printer is usable afterwards
						c17HookPanic = 0
						if after := string(Sprintf("%v", pc.err)); after != "hook[v]:"+c17Env(pc.label, false) {
							c17Fail(t, st, fmt.Sprintf("(after a hook panic) Sprintf(\"%%v\", %s)", pc.name), after, "the hook does not render the error after an earlier contained panic")
						}
					}
				}
			}
		}
	}
}

// ---------------------------------------------------------------------------------------------------
// configurations: no hook; hook replaced; hook removed

func c17ConfigLaw(t *testing.T, st *c17Stats, shapes []c17Shape, specs []string) {
	// precondition: harness hook installed. Replace it by another one: the new one is used, alone.
	n2 := 0
	RegisterRedactErrorFn(func(err error, p SafePrinter, verb rune) {
		n2++
		p.SafeString("second[")
		p.SafeRune(SafeRune(verb))
		p.SafeString("]")
	})
	for i := range c17Table {
		op := &c17Table[i]
		if op.kind != c17KHook {
			continue
		}
		c17Reset()
		n2 = 0
		got := string(Sprintf("%s", c17HoldErr{op.err}))
		st.cases++
		st.nontrivial++
		if got != "{second[s]}" || n2 != 1 || len(c17Calls) != 0 || len(c17Others) != 0 {
			c17Fail(t, st, fmt.Sprintf("RegisterRedactErrorFn(hook); RegisterRedactErrorFn(second); Sprintf(\"%%s\", c17HoldErr{Err: %s})", op.name), got,
				fmt.Sprintf("expected \"{second[s]}\" from exactly one call of the most recently installed hook (second called %d times, first %d times, own methods %v)", n2, len(c17Calls), c17Others))
		}
	}
	// No hook: the error is rendered by fmt's rules as unsafe text; the previously installed hooks are not used.
	RegisterRedactErrorFn(nil)
	defer RegisterRedactErrorFn(c17Hook)
	for _, sh := range shapes {
		if sh.arity != 1 {
			continue
		}
		for i := range c17Table {
			op := &c17Table[i]
			if op.kind == c17KSF || op.kind == c17KSM {
				continue
			}
			for _, spec := range specs {
				if c17Verb(spec) == 'w' {
					continue
				}
				for ctx := c17CtxNone; ctx <= c17CtxUnsafe; ctx++ {
					if st.fails >= st.maxFails {
						return
					}
					var x interface{} = sh.build([]error{op.err})
					ref := c17Esc(fmt.Sprintf("%"+spec, x))
					xs := sh.text([]string{op.name})
					switch ctx {
					case c17CtxSafe:
						x, xs = Safe(x), "Safe("+xs+")"
					case c17CtxUnsafe:
						x, xs = Unsafe(x), "Unsafe("+xs+")"
					}
					c17Reset()
					n2 = 0
					got := string(Sprintf("%"+spec, x))
					st.cases++
					if op.kind == c17KHook {
						st.nontrivial++
					}
					call := fmt.Sprintf("RegisterRedactErrorFn(nil); Sprintf(%q, %s)", "%"+spec, xs)
					if n2 != 0 || len(c17Calls) != 0 {
						c17Fail(t, st, call, got, "a removed hook is still called")
					} else if !vWellFormed(got) {
						c17Fail(t, st, call, got, "output is not well-formed")
					} else if c17Strip(got) != ref {
						c17Fail(t, st, call, got, "without a hook the text (markers stripped) must be what fmt prints: "+fmt.Sprintf("%q", ref))
					} else if ctx == c17CtxUnsafe && got != c17Env(ref, false) {
						c17Fail(t, st, call, got, "under Unsafe the plain text must be fully enveloped")
					}
				}
			}
		}
	}
}

// ---------------------------------------------------------------------------------------------------
// tests

func c17Bounded(law string, st *c17Stats, rule, bound string) {
	m, _ := json.Marshal(map[string]interface{}{"property": "C17", "law": law, "cases": st.cases, "nontrivial": st.nontrivial,
		"nontrivial_rule": rule, "bound": bound, "exhaustive": st.fails == 0})
	fmt.Printf("BOUNDED: %s\n", m)
}

func c17HintRune(v interface{}) (rune, bool) {
	switch x := v.(type) {
	case float64:
		if x > 32 && x < 127 {
			return rune(x), true
		}
	case string:
		if len(x) == 1 {
			return rune(x[0]), true
		}
		if n, err := strconv.Atoi(x); err == nil && n > 32 && n < 127 {
			return rune(n), true
		}
	}
	return 0, false
}

// c17WrapperInside: "all positions and depths" also for the wrappers themselves. The reference is the same wrapper as a
// top-level operand (checked against the statement by laws 1 and 2); a container only adds fmt's punctuation.
func c17WrapperInside(t *testing.T, st *c17Stats) {
	type pos struct {
		name  string
		build func(a interface{}) interface{}
		text  func(s string) string
		wrap  func(top, verb string) string
	}
	poss := []pos{
		{"field", func(a interface{}) interface{} { return c17HoldAny{a} }, func(s string) string { return "c17HoldAny{Any: " + s + "}" }, func(x, verb string) string {
			if verb == "+v" {
				return "{Any:" + x + "}"
			}
			return "{" + x + "}"
		}},
		{"slice", func(a interface{}) interface{} { return []interface{}{a} }, func(s string) string { return "[]interface{}{" + s + "}" }, func(x, verb string) string { return "[" + x + "]" }},
		{"map", func(a interface{}) interface{} { return map[SafeString]interface{}{"k": a} }, func(s string) string { return `map[SafeString]interface{}{"k": ` + s + "}" }, func(x, verb string) string { return "map[" + string(Sprintf("%"+verb, SafeString("k"))) + ":" + x + "]" }},
		{"reflect", func(a interface{}) interface{} { return reflect.ValueOf(a) }, func(s string) string { return "reflect.ValueOf(" + s + ")" }, func(x, verb string) string { return x }},
	}
	for k := range c17Table {
		op := c17Table[k]
		if op.kind != c17KHook || op.err == nil {
			continue
		}
		for _, ps := range poss {
			for _, verb := range []string{"v", "+v", "s", "d", "q"} {
				for _, unsafe := range []bool{false, true} {
					if st.fails >= st.maxFails {
						return
					}
					var w interface{}
					wn := ""
					if unsafe {
						w, wn = Unsafe(op.err), "Unsafe("+op.name+")"
					} else {
						w, wn = Safe(op.err), "Safe("+op.name+")"
					}
					format := "%" + verb
					run := func(a interface{}) (s string, calls int, pv interface{}) {
						defer func() { pv = recover() }()
						c17Reset()
						s = string(Sprintf(format, a))
						calls = len(c17Calls)
						c17Reset()
						return
					}
					top, topCalls, pv0 := run(w)
					got, calls, pv := run(ps.build(w))
					call := fmt.Sprintf("Sprintf(%q, %s) /* hook installed */", format, ps.text(wn))
					st.cases++
					st.nontrivial++
					if pv0 != nil || pv != nil {
						c17Fail(t, st, call, fmt.Sprint("panic: ", pv0, pv), "panic")
						continue
					}
					if unsafe && calls != 0 {
						c17Fail(t, st, call, got, "the hook must be bypassed under Unsafe")
						continue
					}
					if !unsafe && calls != topCalls {
						c17Fail(t, st, call, got, fmt.Sprintf("the hook is called %d times, %d times for the same wrapper as a top-level operand", calls, topCalls))
						continue
					}
					if want := ps.wrap(top, verb); got != want {
						c17Fail(t, st, call, got, fmt.Sprintf("differs from the rendering of the same wrapper as a top-level operand (%q) inside the container's punctuation: want %q", top, want))
					}
				}
			}
		}
	}
}

// c17ByteErr: an error type of kind uint8. In a slice or array printed with %v or %d its elements are printed one by one
// (each goes to the hook); only the byte-string verbs s, q, x, X take such a slice as a whole, as fmt does.
type c17ByteErr uint8

func (e c17ByteErr) Error() string { c17Note("Error", "byteerr"); return "E!b" + strconv.Itoa(int(e)) }

func c17ByteKindElements(t *testing.T, st *c17Stats) {
	for _, tc := range []struct {
		txt   string
		v     interface{}
		calls int
	}{
		{"[]c17ByteErr{1, 2}", []c17ByteErr{1, 2}, 2},
		{"[2]c17ByteErr{1, 2}", [2]c17ByteErr{1, 2}, 2},
		{"struct{F []c17ByteErr}{{1, 2}}", struct{ F []c17ByteErr }{[]c17ByteErr{1, 2}}, 2},
		{"map[SafeString][]c17ByteErr{\"k\": {3}}", map[SafeString][]c17ByteErr{"k": {3}}, 1},
	} {
		for _, d := range []string{"%v", "%d", "%+v"} {
			c17Reset()
			out := string(Sprintf(d, tc.v))
			n := len(c17Calls)
			c17Reset()
			st.cases++
			st.nontrivial++
			if n != tc.calls {
				c17Fail(t, st, fmt.Sprintf("Sprintf(%q, %s) /* hook installed; type c17ByteErr uint8 with an Error method */", d, tc.txt), out,
					fmt.Sprintf("the hook is called %d times, want %d: every element is an error value reached through a slice", n, tc.calls))
			}
		}
	}
}

func TestVerifReplayC17(t *testing.T) {
	defer c17Install()()
	st := &c17Stats{maxFails: 12}
	// hints of a solver model: the verb (a code point) and the override mode (0 none, 1 safe, 2 unsafe)
	var hints map[string]interface{}
	_ = json.Unmarshal([]byte(os.Getenv("REPLAY_HINTS")), &hints)
	specs := append([]string{}, c17SpecsQuick...)
	ctxs := []int{c17CtxNone, c17CtxSafe, c17CtxUnsafe}
	for k, v := range hints {
		lk := strings.ToLower(k)
		if strings.HasPrefix(lk, "verb") {
			if r, ok := c17HintRune(v); ok && r != 'T' && r != 'p' && r != '%' {
				specs = append([]string{string(r), "+" + string(r)}, specs...)
			}
		}
		if strings.Contains(lk, "override") {
			if f, ok := v.(float64); ok && f >= 0 && f <= 2 {
				ctxs = append([]int{int(f)}, ctxs...)
			}
		}
	}
	var apis []c17API
	for _, a := range c17APIs {
		switch a.name {
		case "Sprintf", "Sprint", "HelperForErrorf", "SafeFormatter-Printf", "Safe(SafeFormatter)-Printf", "Sprintfn-Print", "StringBuilder-Printf":
			apis = append(apis, a)
		}
	}
	c17Enumerate(t, st, c17Shapes(1), specs, apis, ctxs, false)
	if st.fails == 0 {
		c17Concrete(t, st)
	}
	if st.fails == 0 {
		c17PanicLaw(t, st)
	}
	t.Logf("C17 replay: %d cases, %d failures", st.cases, st.fails)
}

func TestVerifBoundedC17(t *testing.T) {
	defer c17Install()()
	thorough := os.Getenv("VERIF_TIER") == "thorough"
	depth, specs, bound := 2, c17SpecsQuick, "quick"
	if thorough {
		depth, specs, bound = 3, c17SpecsAll, "thorough"
	}
	shapes := c17Shapes(depth)
	desc := fmt.Sprintf("%s: %d error operands (errors.New, %%w-wrapping, value/pointer receivers, typed nil pointer, Formatter/Stringer/GoStringer, int/string kinds, marker in text, nested error printed by the hook, SafeValue, registered safe type, SafeFormatter, SafeMessager, nil interface) x %d positions (11 base positions, containers nested to depth %d; two-operand positions with %s) x %d verb/flag specs %v x {plain, Safe, Unsafe}",
		bound, len(c17Table), len(shapes), depth, map[bool]string{false: "2 partners per operand", true: "all pairs"}[thorough], len(specs), specs)

	// law 1: hook applies (plain and Safe contexts)
	st1 := &c17Stats{maxFails: 8}
	c17Enumerate(t, st1, shapes, specs, c17APIs, []int{c17CtxNone, c17CtxSafe}, thorough)
	if st1.fails == 0 {
		c17Concrete(t, st1)
	}
	c17Bounded("hook installed, no Unsafe: every dispatched error that is not a SafeFormatter/SafeMessager is passed to the hook exactly once with its identity and the active verb ('v' for %w), no method of the error is called, output is exactly the hook's safe parts outside and unsafe parts inside envelopes (no envelopes under Safe) within fmt's container syntax; SafeFormatter/SafeMessager errors are rendered by their own method and never by the hook",
		st1, "at least one operand is a non-nil error that must go to the hook",
		desc+fmt.Sprintf(" x %d ways of calling the printer (Sprintf, with literals, twice, Sprint, HelperForErrorf, Fprintf, Fprint, Sprintfn, StringBuilder, inside a SafeFormatter's Print/Printf at top level, in a field and under Safe, StringWithoutMarkers)", len(c17APIs)))

	// law 2: Unsafe
	st2 := &c17Stats{maxFails: 8}
	c17Enumerate(t, st2, shapes, specs, c17APIs, []int{c17CtxUnsafe}, thorough)
	c17Bounded("hook installed, operand inside Unsafe(): the hook is never called and the output is fmt's text of the operand in one envelope",
		st2, "at least one operand is a non-nil error that would go to the hook without Unsafe", desc+" (Unsafe only), same ways of calling")

	// law 3: panics
	st3 := &c17Stats{maxFails: 8}
	c17PanicLaw(t, st3)
	c17Bounded("a panic in the hook (string, error value, runtime error) is contained: %!verb(PANIC=<method> method: <value>) after what the hook had printed, <nil> for a nil receiver, same as for a panicking SafeFormat method; rest of the format printed; hook works afterwards; bypassed under Unsafe",
		st3, "all cases: an error operand and a hook that panics whenever it is called for it", "3 panic values x 5 error operands x {top, field, slice of two, map value} x verbs {v,+v,s,d,q,w} x {plain, Safe, Unsafe} through HelperForErrorf")

	// law 4: configurations
	st4 := &c17Stats{maxFails: 8}
	c17ConfigLaw(t, st4, shapes, specs)
	c17Bounded("configurations: a second RegisterRedactErrorFn replaces the first hook; after RegisterRedactErrorFn(nil) no hook is called and the text (markers stripped) equals fmt's, fully enveloped under Unsafe",
		st4, "operand is a non-nil error that is not a SafeFormatter/SafeMessager", desc+" (one-operand positions, Sprintf)")

	// law 5: the wrapper sits INSIDE the position (field, interface-typed element, map value, reflect.Value operand)
	st6 := &c17Stats{maxFails: 8}
	c17WrapperInside(t, st6)
	c17Bounded("Safe(err)/Unsafe(err) held in an exported interface-typed field, a []interface{} element, a map value or a reflect.Value operand renders exactly like the same wrapper as a top-level operand inside fmt's container syntax: hook bypassed and plain text enveloped under Unsafe, rendered solely by the hook under Safe",
		st6, "all cases: a non-nil error that must go to the hook, wrapped, inside a container", fmt.Sprintf("%d operands x 4 positions x verbs {v,+v,s,d,q} x {Safe, Unsafe}", len(c17Table)))

	st7 := &c17Stats{maxFails: 8}
	c17ByteKindElements(t, st7)
	c17Bounded("error values of kind uint8 as elements of slices and arrays under %v, %d, %+v: each element is rendered by the hook (the byte-string shortcut applies to the verbs s, q, x, X only)",
		st7, "all", "4 container shapes x 3 directives")

	// not claimed: unexported fields
	st5 := &c17Stats{maxFails: 8}
	c17UnexportedFields(t, st5)
	c17Bounded("errors in unexported fields (nothing claimed by the statement: no method dispatch): no panic, well-formed output, the hook is at most called with the stored error and active verb and never under Unsafe",
		st5, "none counted: the statement does not cover this position", fmt.Sprintf("%d operands x 7 specs x {plain, Safe, Unsafe}", len(c17Table)))
}
