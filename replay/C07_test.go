package redact

// Replay and bounded harness for C07 (Redact / StripMarkers are exact, idempotent projections).
// Injected with `go test -overlay`; never written into /repo.
//
// TestVerifReplayC07 replays the strings of a solver counterexample (REPLAY_HINTS {"x":..,"y":..}) and a
// small neighbourhood against the real functions. TestVerifBoundedC07 is the BOUNDED stand-in for the
// laws the solver does not decide: it enumerates every string over the alphabet the two operations can
// distinguish up to a length bound (VERIF_TIER quick: 6, thorough: 7) and checks the laws of the
// property statement against reference implementations written from that statement.

import (
	"bytes"
	"encoding/json"
	"fmt"
	"os"
	"strings"
	"testing"
)

// the last three symbols are the bytes of the markers one by one: with them a string can contain a marker cut in
// two by another marker ("\xe2‹\x80\xb9"), which deleting the inner one puts together
// U+FFFD, validly encoded, is what a rune loop also reports for an invalid byte (seed C07-8)
var c07Alphabet = []string{"‹", "›", "×", "\n", "a", "\xe2", "\x80", "\xb9", "\xba", "\ufffd"}

func c07Fail(t *testing.T, call, out, why string) {
	m, _ := json.Marshal(map[string]string{"property": "C07", "call": call, "output": fmt.Sprintf("%q", out), "why": why})
	fmt.Printf("REPLAY-FAIL: %s\n", m)
	t.Errorf("%s: %s: %q", call, why, out)
}

// c07WF: markers strictly alternate, start first, closed at the end.
func c07WF(s string) bool {
	open := false
	for _, r := range s {
		switch r {
		case '‹':
			if open {
				return false
			}
			open = true
		case '›':
			if !open {
				return false
			}
			open = false
		}
	}
	return !open
}

// c07RefRedact: replace each envelope of a well-formed string by the redacted marker (byte level, so that
// invalid UTF-8 outside envelopes is preserved as is).
func c07RefRedact(s string) string {
	var b strings.Builder
	for {
		i := strings.Index(s, "‹")
		if i < 0 {
			b.WriteString(s)
			return b.String()
		}
		j := strings.Index(s[i:], "›")
		if j < 0 {
			b.WriteString(s)
			return b.String()
		}
		b.WriteString(s[:i])
		b.WriteString("‹×›")
		s = s[i+j+len("›"):]
	}
}

// c07RefStrip deletes the delimiters that occur in s, all at once (one left-to-right pass): what "removes exactly
// the delimiters and nothing else" means. The result can contain a marker put together from the bytes around a
// deleted one; the caller then does not apply the exactness law.
func c07RefStrip(s string) string {
	var b strings.Builder
	for i := 0; i < len(s); {
		if strings.HasPrefix(s[i:], "‹") || strings.HasPrefix(s[i:], "›") {
			i += len("‹")
			continue
		}
		b.WriteByte(s[i])
		i++
	}
	return b.String()
}

// safe text of a well-formed string: everything outside envelopes
func c07SafeText(s string) string {
	var b strings.Builder
	for {
		i := strings.Index(s, "‹")
		if i < 0 {
			b.WriteString(s)
			return b.String()
		}
		j := strings.Index(s[i:], "›")
		if j < 0 {
			b.WriteString(s)
			return b.String()
		}
		b.WriteString(s[:i])
		s = s[i+j+len("›"):]
	}
}

func c07Check(t *testing.T, s string) int {
	fails := 0
	bad := func(call, out, why string) {
		fails++
		c07Fail(t, call, out, why)
	}
	R := RedactableString(s)
	B := RedactableBytes(s)
	q := fmt.Sprintf("%q", s)
	red := string(R.Redact())
	strip := R.StripMarkers()
	// arbitrary strings
	if strings.Contains(strip, "‹") || strings.Contains(strip, "›") {
		bad("RedactableString("+q+").StripMarkers()", strip, "a marker character is left")
	}
	if again := string(RedactableString(red).Redact()); again != red {
		bad("RedactableString("+q+").Redact().Redact()", again, "Redact is not idempotent")
	}
	if bred := string(B.Redact()); bred != red {
		bad("RedactableBytes("+q+").Redact()", bred, "string and byte-slice variants of Redact disagree")
	}
	if bstrip := string(B.StripMarkers()); bstrip != strip {
		bad("RedactableBytes("+q+").StripMarkers()", bstrip, "string and byte-slice variants of StripMarkers disagree")
	}
	if !bytes.Equal([]byte(R.ToBytes()), []byte(s)) || string(B.ToString()) != s {
		bad("ToBytes/ToString("+q+")", s, "conversion changes the content")
	}
	if esc := string(EscapeMarkers([]byte(s))); strings.Contains(esc, "‹") || strings.Contains(esc, "›") ||
		esc != strings.ReplaceAll(strings.ReplaceAll(s, "‹", "?"), "›", "?") {
		bad("EscapeMarkers("+q+")", esc, "not the input with each marker replaced by '?'")
	}
	// "removes exactly the delimiters and nothing else" is claimed for well-formed strings; where deleting the
	// delimiters puts the bytes of a new marker together ("\xe2‹\x80\xb9x›") the two clauses cannot both hold
	// and "leaves no marker character" (checked above) wins
	if ref := c07RefStrip(s); c07WF(s) && !strings.Contains(ref, "‹") && !strings.Contains(ref, "›") && strip != ref {
		bad("RedactableString("+q+").StripMarkers()", strip, "does not remove exactly the delimiters")
	}
	// well-formed strings
	if c07WF(s) {
		if red != c07RefRedact(s) {
			bad("RedactableString("+q+").Redact()", red, "differs from replacing each envelope by the redacted marker")
		}
		if !c07WF(red) {
			bad("RedactableString("+q+").Redact()", red, "result is not well-formed")
		}
		if c07SafeText(red) != c07SafeText(s) {
			bad("RedactableString("+q+").Redact()", red, "safe text changed")
		}
		if strings.Count(red, "‹") != strings.Count(s, "‹") {
			bad("RedactableString("+q+").Redact()", red, "number of envelopes changed")
		}
	}
	return fails
}

func c07Enumerate(n int, visit func(string) bool) int {
	count := 0
	var rec func(prefix string, left int) bool
	rec = func(prefix string, left int) bool {
		count++
		if !visit(prefix) {
			return false
		}
		if left == 0 {
			return true
		}
		for _, a := range c07Alphabet {
			if !rec(prefix+a, left-1) {
				return false
			}
		}
		return true
	}
	rec("", n)
	return count
}

func TestVerifReplayC07(t *testing.T) {
	var hints map[string]string
	_ = json.Unmarshal([]byte(os.Getenv("REPLAY_HINTS")), &hints)
	var seeds []string
	for _, k := range []string{"x", "y"} {
		if v, ok := hints[k]; ok {
			seeds = append(seeds, v)
		}
	}
	if x, ok := hints["x"]; ok {
		seeds = append(seeds, x+hints["y"], "a"+x+"b", x+x, "‹"+x+"›")
	}
	fails := 0
	for _, s := range seeds {
		fails += c07Check(t, s)
	}
	if fails > 0 {
		return
	}
	c07Enumerate(4, func(s string) bool {
		fails += c07Check(t, s)
		return fails < 8
	})
}

func TestVerifBoundedC07(t *testing.T) {
	n := 6
	if os.Getenv("VERIF_TIER") == "thorough" {
		n = 7
	}
	fails := 0
	wf := 0
	cases := c07Enumerate(n, func(s string) bool {
		if c07WF(s) {
			wf++
		}
		fails += c07Check(t, s)
		return fails < 8
	})
	m, _ := json.Marshal(map[string]interface{}{"property": "C07", "law": "Redact/StripMarkers/EscapeMarkers laws against reference implementations (idempotence, projection, variant agreement)",
		"cases": cases, "nontrivial": wf, "nontrivial_rule": "well-formed strings (the projection laws apply to them)",
		"bound": fmt.Sprintf("all strings of at most %d symbols over {start, end, cross, LF, 'a', 0xE2, 0x80, 0xB9, 0xBA}", n), "exhaustive": fails == 0})
	fmt.Printf("BOUNDED: %s\n", m)
}
