package redact

// Replay and bounded harness for C16 (all entry points agree on what a given argument list prints as).
// Injected with `go test -overlay`; never written into /repo.
//
// Routes, print style: Sprint, Fprint, StringBuilder.Print, SafePrinter.Print inside Sprintfn,
// SafePrinter.Print inside a SafeFormat method. Printf style: Sprintf, Fprintf, StringBuilder.Printf,
// SafePrinter.Printf inside Sprintfn and inside a SafeFormat method.
//
// Oracle (from the statement): the S route is the reference text of an argument list. The F route must hand
// exactly these bytes to the writer in exactly one Write and return what the writer returned. The builder and
// nested-printer routes must give the same text up to merging of adjacent envelopes: c16Norm deletes every
// "end marker, start marker" pair and normal forms are compared. In a surrounding context (writes on the same
// builder / printer before and after the call) the text of the whole is, up to the same normal form, the text
// of the writes before, then the reference text, then the text of the writes after; the texts of the
// surrounding writes are literal constants below (they do not come from the code under test).

import (
	"encoding/json"
	"errors"
	"fmt"
	"io"
	"math"
	"math/rand"
	"os"
	"strconv"
	"strings"
	"testing"
	"time"
	"unicode/utf8"
)

// ---------------------------------------------------------------------------------------------------------
// operand types

type c16SafeStr string

func (c16SafeStr) SafeValue() {}

type c16SafeInt int

func (c16SafeInt) SafeValue() {}

// c16SF is a SafeFormatter with several behaviours.
type c16SF struct {
	mode   int
	safe   string
	unsafe string
	r      RedactableString
}

func (f c16SF) SafeFormat(p SafePrinter, verb rune) {
	switch f.mode {
	case 0: // prints nothing
	case 1:
		p.SafeString(SafeString(f.safe))
		p.UnsafeString(f.unsafe)
	case 2:
		p.Print(f.r)
	case 3:
		p.Printf("%c:%s/%v", verb, f.unsafe, f.r)
	case 4:
		p.UnsafeString(f.unsafe)
		panic(f.safe)
	case 5:
		p.UnsafeString(f.unsafe)
		p.SafeString(SafeString(f.safe))
		p.UnsafeString(f.unsafe)
	}
}

type c16Stringer struct{ s string }

func (s c16Stringer) String() string { return s.s }

type c16Formatter struct{ s string }

func (f c16Formatter) Format(st fmt.State, verb rune) { fmt.Fprintf(st, "F(%c)%s", verb, f.s) }

type c16Msg struct{ s string }

func (m *c16Msg) SafeMessage() string { return m.s }

type c16Err struct{ s string }

func (e *c16Err) Error() string { return e.s }

type c16Struct struct {
	A int
	B string
	C RedactableString
	D interface{}
}

type c16Inner struct {
	S c16SafeStr
	U string
}

type c16Val struct {
	name string
	v    interface{}
}

func c16q(s string) string { return strconv.Quote(s) }

// c16Core: the operands most likely to separate the routes (small; used for the longest lists).
func c16Core() []c16Val {
	return []c16Val{
		{`""`, ""},
		{c16q("a"), "a"},
		{c16q("\n"), "\n"},
		{c16q("x‹y›"), "x‹y›"},
		{c16q("t\xe2"), "t\xe2"},
		{c16q("\x80\xb9"), "\x80\xb9"},
		{"7", 7},
		{"nil", nil},
		{`errors.New("e‹")`, errors.New("e‹")},
		{`Safe("s")`, Safe("s")},
		{`Safe("s\xe2\x80")`, Safe("s\xe2\x80")},
		{`Unsafe(c16SafeStr("v"))`, Unsafe(c16SafeStr("v"))},
		{`c16SafeStr("v")`, c16SafeStr("v")},
		{`RedactableString("")`, RedactableString("")},
		{`RedactableString("‹u›")`, RedactableString("‹u›")},
		{`RedactableString("s ‹u› t")`, RedactableString("s ‹u› t")},
		{`RedactableString("t\xe2")`, RedactableString("t\xe2")},
		{`RedactableString("‹u›\xe2\x80")`, RedactableString("‹u›\xe2\x80")},
		{`RedactableString("\x80\xb9z")`, RedactableString("\x80\xb9z")},
		{`RedactableBytes("s ‹u›\xe2")`, RedactableBytes("s ‹u›\xe2")},
		{`c16SF{1,"s","u"}`, c16SF{mode: 1, safe: "s", unsafe: "u"}},
		{`c16SF{2,r:"‹u›\xe2"}`, c16SF{mode: 2, r: "‹u›\xe2"}},
		{`[]string{"a","›"}`, []string{"a", "›"}},
	}
}

// c16Tiny: a handful of operands of different kinds, for the longest lists with formats.
func c16Tiny() []c16Val {
	return []c16Val{
		{c16q("a"), "a"},
		{"7", 7},
		{"nil", nil},
		{`Safe("s\xe2")`, Safe("s\xe2")},
		{`RedactableString("‹u›\xe2")`, RedactableString("‹u›\xe2")},
		{`c16SF{5,"s","u"}`, c16SF{mode: 5, safe: "s", unsafe: "u"}},
	}
}

// c16Full: the broad value universe.
func c16Full() []c16Val {
	vals := c16Core()
	add := func(name string, v interface{}) { vals = append(vals, c16Val{name, v}) }
	for _, s := range []string{"a b", "a\nb", "\n\n", "‹", "›", "›‹", "‹›", "\xe2", "\xe2\x80", "a\xe2\x80", "\xb9", "\xba", "?", "é", "a\xc3", "\xf0\x9f\x98", "‹\n›"} {
		add(c16q(s), s)
	}
	add("0", 0)
	add("int64(-7)", int64(-7))
	add("uint8(200)", uint8(200))
	add("1.5", 1.5)
	add("math.NaN()", math.NaN())
	add("true", true)
	add("'‹'", '‹')
	add("complex(1,2)", complex(1, 2))
	add(`errors.New("boom\n")`, errors.New("boom\n"))
	add(`&c16Err{"e\xe2"}`, &c16Err{"e\xe2"})
	add(`(*c16Err)(nil)`, (*c16Err)(nil))
	add(`Safe("‹")`, Safe("‹"))
	add(`Safe(3)`, Safe(3))
	add(`Safe("a\nb")`, Safe("a\nb"))
	add(`Safe(errors.New("se"))`, Safe(errors.New("se")))
	add(`Safe(RedactableString("‹u›"))`, Safe(RedactableString("‹u›")))
	add(`Safe(nil)`, Safe(nil))
	add(`Unsafe("a")`, Unsafe("a"))
	add(`Unsafe("")`, Unsafe(""))
	add(`Unsafe(Safe("a"))`, Unsafe(Safe("a")))
	add(`Unsafe(RedactableString("s ‹u›"))`, Unsafe(RedactableString("s ‹u›")))
	add(`Unsafe(RedactableString("s\xe2"))`, Unsafe(RedactableString("s\xe2")))
	add(`Unsafe(5)`, Unsafe(5))
	add(`c16SafeStr("v\xe2")`, c16SafeStr("v\xe2"))
	add(`c16SafeStr("›")`, c16SafeStr("›"))
	add(`c16SafeInt(5)`, c16SafeInt(5))
	add(`SafeString("ss")`, SafeString("ss"))
	add(`SafeRune('›')`, SafeRune('›'))
	for _, s := range []string{"safe", "‹u›‹v›", "‹u› mid ‹v›", "‹a\nb›", "x\n", "t\xe2\x80", "t\xf0\x9f", "‹u›\xe2", "‹u\xe2›", "‹u", "u›", "›‹", "‹", "?"} {
		add("RedactableString("+c16q(s)+")", RedactableString(s))
	}
	for _, s := range []string{"", "‹u›", "t\xe2\x80", "‹u›t\xe2", "\xb9"} {
		add("RedactableBytes("+c16q(s)+")", RedactableBytes(s))
	}
	add(`c16SF{0}`, c16SF{mode: 0})
	add(`c16SF{1,"","u\xe2"}`, c16SF{mode: 1, unsafe: "u\xe2"})
	add(`c16SF{1,"s\xe2",""}`, c16SF{mode: 1, safe: "s\xe2"})
	add(`c16SF{2,r:"s ‹u›"}`, c16SF{mode: 2, r: "s ‹u›"})
	add(`c16SF{3,"","u",r:"‹r›"}`, c16SF{mode: 3, unsafe: "u", r: "‹r›"})
	add(`c16SF{4,"pan","u"}`, c16SF{mode: 4, safe: "pan", unsafe: "u"})
	add(`c16SF{5,"s","u"}`, c16SF{mode: 5, safe: "s", unsafe: "u"})
	add(`&c16SF{1,"s","u"}`, &c16SF{mode: 1, safe: "s", unsafe: "u"})
	add(`c16Stringer{"str‹"}`, c16Stringer{"str‹"})
	add(`c16Formatter{"f\xe2"}`, c16Formatter{"f\xe2"})
	add(`&c16Msg{"msg"}`, &c16Msg{"msg"})
	add(`c16Struct{1,"b","‹c›",Safe("d")}`, c16Struct{1, "b", "‹c›", Safe("d")})
	add(`&c16Struct{2,"b\xe2","c\xe2",nil}`, &c16Struct{2, "b\xe2", "c\xe2", nil})
	add(`c16Inner{"s","u"}`, c16Inner{"s", "u"})
	add(`[]interface{}{1,"a",Safe("b")}`, []interface{}{1, "a", Safe("b")})
	add(`[]byte("ab\xe2")`, []byte("ab\xe2"))
	add(`[]RedactableString{"‹u›","t\xe2"}`, []RedactableString{"‹u›", "t\xe2"})
	add(`[]int{}`, []int{})
	add(`map[string]int{"k":1,"j‹":2}`, map[string]int{"k": 1, "j‹": 2})
	add(`[2]c16SafeInt{1,2}`, [2]c16SafeInt{1, 2})
	add(`struct{}{}`, struct{}{})
	return vals
}

func c16CoreFormats() []string {
	return []string{"", "%v", "%s", "%d", "%q", "%x", "%+v", "%5s|", "%v %v", "%[2]v-%[1]v", "a\xe2%v", "%v\xe2\x80", "\x80\xb9%s", "‹%v›", "%v\n%v", "%", "%!", "%v%v%v"}
}

func c16FullFormats() []string {
	f := c16CoreFormats()
	return append(f, "lit", "%#v", "%-5v|", "%05d", "%.1f", "%.2s", "%T", "%t", "%c", "%U", "%%", "%z", "%w", "%*d", "%[1]v %[1]q", "%[3]v", "%[9]v", "%s‹%s›", "%v\xe2", "%v›‹%v", "\n%v\n", "%+q", "% x", "%X", "%e", "%6.2f|%-4d|", "%v \xe2\x80%v\xba", "%s%s%s%s", "%!v(%v)", "%.*s", "%v?", "\xb9%d")
}

// ---------------------------------------------------------------------------------------------------------
// surrounding contexts

type c16Op struct {
	name string
	do   func(w SafeWriter)
}

func c16US(s string) c16Op {
	return c16Op{"UnsafeString(" + c16q(s) + ")", func(w SafeWriter) { w.UnsafeString(s) }}
}
func c16SS(s string) c16Op {
	return c16Op{"SafeString(" + c16q(s) + ")", func(w SafeWriter) { w.SafeString(SafeString(s)) }}
}
func c16UB(b byte) c16Op {
	return c16Op{fmt.Sprintf("UnsafeByte(%#x)", b), func(w SafeWriter) { w.UnsafeByte(b) }}
}
func c16SR(r rune) c16Op {
	return c16Op{fmt.Sprintf("SafeRune(%q)", r), func(w SafeWriter) { w.SafeRune(SafeRune(r)) }}
}
func c16PR(r string) c16Op {
	return c16Op{"Print(RedactableString(" + c16q(r) + "))", func(w SafeWriter) { w.Print(RedactableString(r)) }}
}
func c16PF(f string, a string) c16Op {
	return c16Op{"Printf(" + c16q(f) + ", " + c16q(a) + ")", func(w SafeWriter) { w.Printf(f, a) }}
}

// c16Ctx: writes before and after the call under test, with the redactable text each group yields on its own
// (written by hand from the package's documented conventions: unsafe data is enclosed in markers, markers in
// the data become '?', a trailing truncated UTF-8 sequence is guarded by '?', line feeds are kept outside
// envelopes, empty envelopes are elided).
//
// The printer handed to a SafeFormat method is in "safe, to be escaped" mode between writes, and the buffer
// escapes a run of consecutive safe writes lazily, as ONE piece of safe text: a truncated UTF-8 sequence at the
// end of one safe write and the bytes of the next safe write are looked at together (SafeString("s\xe2") then
// SafeString("\x80\xb9") is the safe text "s" + start marker, escaped to "s?"), and the '?' guard of a
// truncated tail only appears where the run ends. Text-level concatenation is therefore not claimed on that
// route at a junction of two safe pieces one of which is a truncated sequence; preLazy / postSafe mark the
// contexts that have such a junction and check() leaves these (route, context, call) combinations out. The
// builder and Sprintfn routes always switch modes around the call and are checked in every context.
type c16Ctx struct {
	pre      []c16Op
	preText  string
	post     []c16Op
	postText string
	preLazy  bool // the last write before the call is a safe write ending in a truncated UTF-8 sequence
	postSafe bool // the first write after the call starts with safe text
}

func c16Contexts() []c16Ctx {
	return []c16Ctx{
		{pre: nil, preText: "", post: nil, postText: ""},
		{pre: []c16Op{c16US("u")}, preText: "‹u›", post: []c16Op{c16SS("s")}, postText: "s", postSafe: true},
		{pre: []c16Op{c16SS("s")}, preText: "s", post: []c16Op{c16US("w")}, postText: "‹w›"},
		{pre: []c16Op{c16US("u")}, preText: "‹u›", post: []c16Op{c16US("w")}, postText: "‹w›"},
		{pre: []c16Op{c16US("u\xe2\x80")}, preText: "‹u\xe2\x80?›", post: []c16Op{c16US("\xb9w")}, postText: "‹\xb9w›"},
		{pre: []c16Op{c16PR("r ‹q›\xe2")}, preText: "r ‹q›\xe2?", post: []c16Op{c16PF("\x80\xb9%s", "x")}, postText: "\x80\xb9?‹x›", postSafe: true},
		{pre: []c16Op{c16SS("s\xe2")}, preText: "s\xe2?", post: []c16Op{c16SS("\x80\xb9")}, postText: "\x80\xb9?", preLazy: true, postSafe: true},
		{pre: []c16Op{c16US("")}, preText: "", post: []c16Op{c16US("")}, postText: ""},
		{pre: []c16Op{c16US("a\n")}, preText: "‹a›\n", post: []c16Op{c16US("\nb")}, postText: "\n‹b›"},
		{pre: []c16Op{c16SR('‹'), c16UB(0xe2)}, preText: "?‹?›", post: []c16Op{c16UB('z'), c16SS("›")}, postText: "‹z›?"},
		{pre: []c16Op{c16SS("p"), c16US("u"), c16US("")}, preText: "p‹u›", post: []c16Op{c16US(""), c16SS("q"), c16US("w")}, postText: "q‹w›"},
	}
}

func c16OpsText(ops []c16Op) string {
	var n []string
	for _, o := range ops {
		n = append(n, o.name)
	}
	return strings.Join(n, "; ")
}

// c16Via runs a function on the SafePrinter handed to a SafeFormat method.
type c16Via struct{ f func(p SafePrinter) }

func (v c16Via) SafeFormat(p SafePrinter, _ rune) { v.f(p) }

// ---------------------------------------------------------------------------------------------------------
// oracle helpers

const c16Pair = vE + vS

// c16Norm merges adjacent envelopes: deletes every "end marker, start marker" pair.
func c16Norm(s string) string {
	for strings.Contains(s, c16Pair) {
		s = strings.ReplaceAll(s, c16Pair, "")
	}
	return s
}

var c16WriteErr = errors.New("c16: write failed")

// c16Writer records the Write calls it sees; kind 0 succeeds, 1 fails, 2 writes short with io.ErrShortWrite,
// 3 writes short without an error.
type c16Writer struct {
	kind  int
	calls int
	data  []byte
}

func (w *c16Writer) result(l int) (int, error) {
	switch w.kind {
	case 0:
		return l, nil
	case 1:
		return 0, c16WriteErr
	case 2:
		return l / 2, io.ErrShortWrite
	}
	return l / 2, nil
}

func (w *c16Writer) Write(p []byte) (int, error) {
	w.calls++
	w.data = append(w.data, p...)
	return w.result(len(p))
}

var c16WriterKinds = []string{"succeeding writer", "failing writer", "short writer (io.ErrShortWrite)", "short writer (nil error)"}

// ---------------------------------------------------------------------------------------------------------
// harness

type c16H struct {
	t        *testing.T
	fails    int
	maxFails int
	// measured
	sfCases, sfNontrivial   int // S/F law
	mrgCases, mrgNontrivial int // builder / nested law
	mrgActuallyMerged       int
	lazySkipped             int
	deadline                time.Time
	cut                     bool
}

func (h *c16H) stop() bool { return h.fails >= h.maxFails }

func (h *c16H) fail(call, out, why string) {
	h.fails++
	m, _ := json.Marshal(map[string]string{"property": "C16", "call": call, "output": fmt.Sprintf("%q", out), "why": why})
	fmt.Printf("REPLAY-FAIL: %s\n", m)
	h.t.Errorf("%s: %s: %q", call, why, out)
}

func c16ArgsText(vals []c16Val) string {
	var n []string
	for _, v := range vals {
		n = append(n, v.name)
	}
	return strings.Join(n, ", ")
}

// c16Spec is one call: print style (isf false) or printf style with a format.
type c16Spec struct {
	isf    bool
	format string
	vals   []c16Val
	args   []interface{}
}

func (s *c16Spec) callArgs() string {
	if s.isf {
		if len(s.vals) == 0 {
			return c16q(s.format)
		}
		return c16q(s.format) + ", " + c16ArgsText(s.vals)
	}
	return c16ArgsText(s.vals)
}

func (s *c16Spec) fn(pre string) string {
	n := "Print"
	if pre != "" {
		n = pre + "print"
	}
	if s.isf {
		n += "f"
	}
	return n
}

func (s *c16Spec) sprint() string {
	if s.isf {
		return string(Sprintf(s.format, s.args...))
	}
	return string(Sprint(s.args...))
}

func (s *c16Spec) fprint(w io.Writer) (int, error) {
	if s.isf {
		return Fprintf(w, s.format, s.args...)
	}
	return Fprint(w, s.args...)
}

func (s *c16Spec) on(w SafeWriter) {
	if s.isf {
		w.Printf(s.format, s.args...)
	} else {
		w.Print(s.args...)
	}
}

var c16RouteNames = []string{"StringBuilder", "Sprintfn", "SafeFormat"}

// route runs the call between the context's writes on route r and returns the text of the whole.
func (s *c16Spec) route(r int, c *c16Ctx) string {
	body := func(w SafeWriter) {
		for _, o := range c.pre {
			o.do(w)
		}
		s.on(w)
		for _, o := range c.post {
			o.do(w)
		}
	}
	switch r {
	case 0:
		var b StringBuilder
		body(&b)
		return string(b.RedactableString())
	case 1:
		return string(Sprintfn(func(p SafePrinter) { body(p) }))
	}
	return string(Sprint(c16Via{func(p SafePrinter) { body(p) }}))
}

func (s *c16Spec) routeCall(r int, c *c16Ctx) string {
	var parts []string
	if len(c.pre) > 0 {
		parts = append(parts, c16OpsText(c.pre))
	}
	parts = append(parts, s.fn("")+"("+s.callArgs()+")")
	if len(c.post) > 0 {
		parts = append(parts, c16OpsText(c.post))
	}
	body := "{" + strings.Join(parts, "; ") + "}"
	if len(parts) == 1 {
		body = parts[0]
	}
	switch r {
	case 0:
		return "var b StringBuilder; b." + body + "; b.RedactableString()"
	case 1:
		return "Sprintfn(func(p SafePrinter) { p." + body + " })"
	}
	return "Sprint(c16Via{func(p SafePrinter) { p." + body + " }})  // c16Via.SafeFormat(p, verb) calls the function"
}

// check runs every route for one call. wkinds: writer kinds to try on the F route.
func (h *c16H) check(s *c16Spec, ctxs []c16Ctx, wkinds []int) {
	ref := s.sprint()
	hasMarker := strings.Contains(ref, vS)
	// the text ends with the '?' guard of a truncated UTF-8 sequence
	guardedTail := false
	if strings.HasSuffix(ref, "?") {
		r, size := utf8.DecodeLastRuneInString(ref[:len(ref)-1])
		guardedTail = r == utf8.RuneError && size == 1
	}
	// S / F pair
	for _, k := range wkinds {
		if h.stop() {
			return
		}
		w := &c16Writer{kind: k}
		n, err := s.fprint(w)
		h.sfCases++
		if ref != "" {
			h.sfNontrivial++
		}
		call := s.fn("F") + "(w, " + s.callArgs() + ")  // w: " + c16WriterKinds[k]
		if s.callArgs() == "" {
			call = s.fn("F") + "(w)  // w: " + c16WriterKinds[k]
		}
		wn, werr := w.result(len(w.data))
		switch {
		case w.calls != 1:
			h.fail(call, string(w.data), fmt.Sprintf("the writer saw %d Write calls, not exactly one", w.calls))
		case string(w.data) != ref:
			h.fail(call, string(w.data), fmt.Sprintf("bytes written differ from %s(%s) = %q", s.fn("S"), s.callArgs(), ref))
		case n != wn || err != werr:
			h.fail(call, fmt.Sprintf("(%d, %v)", n, err), fmt.Sprintf("does not return what the writer's Write returned, (%d, %v)", wn, werr))
		case k == 0 && n != len(ref):
			h.fail(call, fmt.Sprintf("(%d, %v)", n, err), fmt.Sprintf("n is not the byte length %d of the text", len(ref)))
		}
	}
	// builder and nested routes
	for ci := range ctxs {
		c := &ctxs[ci]
		raw := c.preText + ref + c.postText
		want := c16Norm(raw)
		for r := 0; r < 3; r++ {
			if h.stop() {
				return
			}
			if r == 2 && ((c.preLazy && !strings.HasPrefix(ref, vS)) || (c.postSafe && guardedTail)) {
				h.lazySkipped++ // see the comment of c16Ctx
				continue
			}
			got := s.route(r, c)
			h.mrgCases++
			if hasMarker {
				h.mrgNontrivial++
			}
			if got != raw {
				h.mrgActuallyMerged++
			}
			if c16Norm(got) != want {
				why := fmt.Sprintf("differs (beyond merging of adjacent envelopes) from %s(%s) = %q", s.fn("S"), s.callArgs(), ref)
				if len(c.pre)+len(c.post) > 0 {
					why += fmt.Sprintf(" placed between the surrounding texts %q and %q; normal forms: got %q, want %q", c.preText, c.postText, c16Norm(got), want)
				}
				h.fail(s.routeCall(r, c), got, why)
			}
		}
	}
}

// c16Lists enumerates every list of length 0..maxLen over univ.
func c16Lists(univ []c16Val, minLen, maxLen int, visit func(vals []c16Val, args []interface{}) bool) {
	vals := make([]c16Val, 0, maxLen)
	args := make([]interface{}, 0, maxLen)
	var rec func() bool
	rec = func() bool {
		if len(vals) >= minLen {
			if !visit(vals, args) {
				return false
			}
		}
		if len(vals) == maxLen {
			return true
		}
		for _, v := range univ {
			vals = append(vals, v)
			args = append(args, v.v)
			ok := rec()
			vals = vals[:len(vals)-1]
			args = args[:len(args)-1]
			if !ok {
				return false
			}
		}
		return true
	}
	rec()
}

func (h *c16H) overTime() bool {
	if !h.deadline.IsZero() && time.Now().After(h.deadline) {
		h.cut = true
		return true
	}
	return false
}

// printLists / printfLists: one context at a time (the call alone first, so that the simplest failing calls are
// reported first); the F route is exercised during the first pass only.
func (h *c16H) printLists(univ []c16Val, minLen, maxLen int, ctxs []c16Ctx, wkinds []int) {
	for ci := range ctxs {
		wk := wkinds
		if ci > 0 {
			wk = nil
		}
		k := 0
		c16Lists(univ, minLen, maxLen, func(vals []c16Val, args []interface{}) bool {
			h.check(&c16Spec{vals: vals, args: args}, ctxs[ci:ci+1], wk)
			k++
			return !h.stop() && (k%512 != 0 || !h.overTime())
		})
		if h.stop() || h.cut {
			return
		}
	}
}

func (h *c16H) printfLists(formats []string, univ []c16Val, minLen, maxLen int, ctxs []c16Ctx, wkinds []int) {
	for ci := range ctxs {
		wk := wkinds
		if ci > 0 {
			wk = nil
		}
		k := 0
		c16Lists(univ, minLen, maxLen, func(vals []c16Val, args []interface{}) bool {
			for _, f := range formats {
				h.check(&c16Spec{isf: true, format: f, vals: vals, args: args}, ctxs[ci:ci+1], wk)
			}
			k++
			return !h.stop() && (k%64 != 0 || !h.overTime())
		})
		if h.stop() || h.cut {
			return
		}
	}
}

func c16Hints() (vals []c16Val, formats []string) {
	var hints map[string]interface{}
	_ = json.Unmarshal([]byte(os.Getenv("REPLAY_HINTS")), &hints)
	for k, v := range hints {
		s, ok := v.(string)
		if !ok {
			continue
		}
		if strings.Contains(strings.ToLower(k), "format") {
			formats = append(formats, s)
			continue
		}
		vals = append(vals,
			c16Val{c16q(s), s},
			c16Val{"RedactableString(" + c16q(s) + ")", RedactableString(s)},
			c16Val{"RedactableBytes(" + c16q(s) + ")", RedactableBytes(s)},
			c16Val{"Safe(" + c16q(s) + ")", Safe(s)})
	}
	return
}

var c16AllWriters = []int{0, 1, 2, 3}

func TestVerifReplayC16(t *testing.T) {
	h := &c16H{t: t, maxFails: 12}
	ctxs := c16Contexts()
	hv, hf := c16Hints()
	if len(hv)+len(hf) > 0 {
		// the hinted strings alone and next to the core operands, in every context
		univ := append(hv, c16Core()...)
		c16Lists(hv, 1, 2, func(vals []c16Val, args []interface{}) bool {
			h.check(&c16Spec{vals: vals, args: args}, ctxs, c16AllWriters)
			for _, f := range append(hf, c16CoreFormats()...) {
				h.check(&c16Spec{isf: true, format: f, vals: vals, args: args}, ctxs, c16AllWriters)
			}
			return !h.stop()
		})
		for _, a := range hv {
			for _, b := range univ {
				for _, p := range [][]c16Val{{a, b}, {b, a}} {
					args := []interface{}{p[0].v, p[1].v}
					h.check(&c16Spec{vals: p, args: args}, ctxs, []int{0})
					for _, f := range hf {
						h.check(&c16Spec{isf: true, format: f, vals: p, args: args}, ctxs, []int{0})
					}
				}
			}
		}
		if h.fails > 0 {
			return
		}
	}
	// every single operand of the full universe in every context, then pairs, then core triples
	full := c16Full()
	h.printLists(full, 0, 1, ctxs, c16AllWriters)
	h.printfLists(c16FullFormats(), full, 0, 1, ctxs, c16AllWriters)
	h.printLists(full, 2, 2, ctxs[:7], []int{0})
	h.printLists(c16Core(), 3, 3, ctxs[:4], []int{0})
	h.printfLists(c16CoreFormats(), c16Core(), 2, 2, ctxs[:4], []int{0})
	h.printfLists(c16CoreFormats(), c16Tiny(), 3, 3, ctxs[:4], []int{0})
	t.Logf("C16 replay: %d S/F cases, %d builder/nested cases", h.sfCases, h.mrgCases)
}

func c16Bounded(h *c16H, law1, law2, bound string) {
	for _, l := range []struct {
		law         string
		cases, nt   int
		rule, extra string
	}{
		{law1, h.sfCases, h.sfNontrivial, "the reference text is not empty (there are bytes to deliver)", ""},
		{law2, h.mrgCases, h.mrgNontrivial, "the reference text contains at least one envelope (so that envelope handling at the boundaries can differ between routes)",
			fmt.Sprintf("; in %d cases the route's bytes differ from the plain concatenation, i.e. merging really took place", h.mrgActuallyMerged)},
	} {
		b := bound
		if h.cut {
			b += " (CUT SHORT by the time budget)"
		}
		m, _ := json.Marshal(map[string]interface{}{"property": "C16", "law": l.law, "cases": l.cases, "nontrivial": l.nt,
			"nontrivial_rule": l.rule + l.extra, "bound": b, "exhaustive": h.fails == 0 && !h.cut})
		fmt.Printf("BOUNDED: %s\n", m)
	}
}

func TestVerifBoundedC16(t *testing.T) {
	thorough := os.Getenv("VERIF_TIER") == "thorough"
	ctxs := c16Contexts()
	full, core := c16Full(), c16Core()
	ff, cf := c16FullFormats(), c16CoreFormats()
	start := time.Now()

	// ---- print style
	hp := &c16H{t: t, maxFails: 8}
	var pb string
	if thorough {
		hp.deadline = start.Add(110 * time.Second)
		hp.printLists(full, 0, 2, ctxs, c16AllWriters)
		hp.printLists(core, 3, 3, ctxs, c16AllWriters)
		hp.printLists(full, 3, 3, ctxs[:5], []int{0})
		pb = fmt.Sprintf("all argument lists of length 0..2 over %d operand values in %d surrounding contexts and 4 writers; all lists of length 3 over %d core values in all contexts and writers and over all %d values in 5 contexts (1 writer); 3 builder/nested routes each",
			len(full), len(ctxs), len(core), len(full))
	} else {
		hp.deadline = start.Add(6 * time.Second)
		hp.printLists(full, 0, 2, ctxs, c16AllWriters)
		hp.printLists(core, 3, 3, ctxs[:7], []int{0})
		pb = fmt.Sprintf("all argument lists of length 0..2 over %d operand values in %d surrounding contexts and 4 writers; length 3 over %d core values in 7 contexts (1 writer); 3 builder/nested routes each",
			len(full), len(ctxs), len(core))
	}
	t.Logf("C16 print style: %v (%d lazily-escaped safe junctions left out on the SafeFormat route)", time.Since(start), hp.lazySkipped)
	c16Bounded(hp,
		"print style: Fprint hands the writer exactly the bytes of Sprint in exactly one Write and returns the writer's (n, err), n = byte length for a succeeding writer",
		"print style: StringBuilder.Print, SafePrinter.Print inside Sprintfn and inside a SafeFormat method yield the text of Sprint up to merging of adjacent envelopes, alone and between surrounding writes",
		pb)

	// ---- printf style
	hf := &c16H{t: t, maxFails: 8}
	var fb string
	start2 := time.Now()
	if thorough {
		hf.deadline = start2.Add(100 * time.Second)
		hf.printfLists(ff, full, 0, 1, ctxs, c16AllWriters)
		hf.printfLists(ff, full, 2, 2, ctxs[:7], []int{0})
		hf.printfLists(cf, core, 3, 3, ctxs[:4], []int{0})
		fb = fmt.Sprintf("%d formats x all argument lists of length 0..1 over %d operand values in %d contexts and 4 writers; x length 2 in 7 contexts (1 writer); %d core formats x lists of length 3 over %d core values in 4 contexts",
			len(ff), len(full), len(ctxs), len(cf), len(core))
	} else {
		hf.deadline = start2.Add(6 * time.Second)
		hf.printfLists(ff, full, 0, 1, ctxs, c16AllWriters)
		hf.printfLists(cf, core, 2, 2, ctxs[:7], []int{0})
		hf.printfLists(cf, full, 2, 2, ctxs[:1], []int{0})
		hf.printfLists(cf, c16Tiny(), 3, 3, ctxs[:7], []int{0})
		fb = fmt.Sprintf("%d formats x all argument lists of length 0..1 over %d operand values in %d contexts and 4 writers; %d core formats x lists of length 2 over %d core values in 7 contexts and over all values without context, x lists of length 3 over %d values in 7 contexts (1 writer)",
			len(ff), len(full), len(ctxs), len(cf), len(core), len(c16Tiny()))
	}
	t.Logf("C16 printf style: %v (%d lazily-escaped safe junctions left out on the SafeFormat route)", time.Since(start2), hf.lazySkipped)
	c16Bounded(hf,
		"printf style: Fprintf hands the writer exactly the bytes of Sprintf in exactly one Write and returns the writer's (n, err)",
		"printf style: StringBuilder.Printf, SafePrinter.Printf inside Sprintfn and inside a SafeFormat method yield the text of Sprintf up to merging of adjacent envelopes, alone and between surrounding writes",
		fb)

	// ---- sampled: longer lists, formats assembled from pieces, random context
	seed := int64(16)
	if s, err := strconv.ParseInt(os.Getenv("VERIF_SEED"), 10, 64); err == nil {
		seed = s
	}
	rng := rand.New(rand.NewSource(seed))
	hs := &c16H{t: t, maxFails: 8}
	samples := 20000
	if thorough {
		samples = 150000
	}
	pieces := []string{"%v", "%s", "%d", "%q", "%x", "%+v", "%#v", "%6v", "%-6s", "%.1s", "%[1]v", "%[2]s", "%%", " ", "x", "\n", "‹", "›", "\xe2", "\x80", "\xb9", "\xba", "?", "%", "%*d", "%T"}
	for k := 0; k < samples && !hs.stop(); k++ {
		n := 1 + rng.Intn(6)
		vals := make([]c16Val, n)
		args := make([]interface{}, n)
		for j := range vals {
			vals[j] = full[rng.Intn(len(full))]
			args[j] = vals[j].v
		}
		c := ctxs[rng.Intn(len(ctxs)):len(ctxs)][:1]
		wk := []int{rng.Intn(4)}
		if k%2 == 0 {
			hs.check(&c16Spec{vals: vals, args: args}, c, wk)
		} else {
			var f strings.Builder
			for j, m := 0, rng.Intn(7); j < m; j++ {
				f.WriteString(pieces[rng.Intn(len(pieces))])
			}
			hs.check(&c16Spec{isf: true, format: f.String(), vals: vals, args: args}, c, wk)
		}
	}
	m, _ := json.Marshal(map[string]interface{}{"property": "C16",
		"law":   "sampled: all ten routes agree (S/F bytes, single Write, (n, err); builder and nested routes up to merging of adjacent envelopes) for longer argument lists and assembled formats",
		"cases": hs.sfCases + hs.mrgCases, "nontrivial": hs.sfNontrivial + hs.mrgNontrivial,
		"nontrivial_rule": "S/F cases with a non-empty text plus builder/nested cases whose text contains an envelope",
		"bound": fmt.Sprintf("%d samples (seed %d): lists of 1..6 operands drawn from %d values, alternately print style and a format of 0..6 pieces drawn from %d pieces, one random context of %d, one random writer of 4",
			samples, seed, len(full), len(pieces), len(ctxs)),
		"exhaustive": false})
	fmt.Printf("BOUNDED: %s\n", m)
}
