package redact

// Replay/search and bounded harness for C15 (injected with -overlay, never written into /repo).
//
// TestVerifReplayC15: quick search. Formats are built from pieces so that the number of %w directives is
// known by construction; the expected error is taken from the property statement.
//
// TestVerifBoundedC15: systematic bounded check of the whole statement. Formats are all sequences of at
// most 4 (VERIF_TIER=quick) / 5 (thorough) pieces over c15Pieces; for every format and every operand-list
// length a family of operand lists is enumerated (see c15Lists). The oracle is written from the statement:
//   - which operand a directive designates follows the documented fmt rules (sequential operands, explicit
//     [n] indexes, missing operand, bad index): c15Slots;
//   - returned error = operand of %w iff the format has exactly one %w and that operand holds an error;
//   - text = Sprintf of the format in which the correctly used %w (the first %w, when its operand holds an
//     error) is replaced by the same directive with verb v; all other %w are bad verbs ("%!w(" count);
//   - for <= 1 %w: text with markers stripped and returned error = fmt.Errorf(...).Error() and its Unwrap();
//   - the error hook (RegisterRedactErrorFn) does not change the returned error.

import (
	"encoding/json"
	"errors"
	"fmt"
	"os"
	"runtime"
	"strings"
	"sync"
	"sync/atomic"
	"testing"
)

// ---------------------------------------------------------------------------------------------------
// reporting

func c15Fail(t *testing.T, call, text string, got error, why string) {
	out := fmt.Sprintf("(%q, %s)", text, c15ErrText(got))
	m, _ := json.Marshal(map[string]string{"property": "C15", "call": call, "output": out, "why": why})
	fmt.Printf("REPLAY-FAIL: %s\n", m)
	t.Errorf("%s: %s: %s", call, why, out)
}

func c15ErrText(e error) (s string) {
	if e == nil {
		return "error(nil)"
	}
	defer func() {
		if r := recover(); r != nil {
			s = fmt.Sprintf("%T(nil pointer)", e)
		}
	}()
	return fmt.Sprintf("%T(%q)", e, e.Error())
}

// ---------------------------------------------------------------------------------------------------
// operand values

// c15CustomErr: pointer error type with a cause; Error() on a nil receiver panics (as many real ones do).
type c15CustomErr struct {
	msg   string
	cause error
}

func (e *c15CustomErr) Error() string {
	if e.cause != nil {
		return e.msg + ": " + e.cause.Error()
	}
	return e.msg
}
func (e *c15CustomErr) Unwrap() error { return e.cause }

// c15SFErr: an error that is also a SafeFormatter (and a fmt.Formatter that prints the same characters, so
// that the comparison with fmt.Errorf is meaningful). It shows the verb and the '+' flag it was given.
type c15SFErr struct{ msg string }

func (e *c15SFErr) Error() string { return e.msg }
func (e *c15SFErr) SafeFormat(p SafePrinter, verb rune) {
	p.SafeString("sf[")
	p.SafeRune(SafeRune(verb))
	if p.Flag('+') {
		p.SafeRune('+')
	}
	p.SafeString("]")
	p.UnsafeString(e.msg)
}
func (e *c15SFErr) Format(s fmt.State, verb rune) {
	plus := ""
	if s.Flag('+') {
		plus = "+"
	}
	fmt.Fprintf(s, "sf[%c%s]%s", verb, plus, e.msg)
}

// c15ValErr: a non-pointer error type.
type c15ValErr string

func (e c15ValErr) Error() string { return string(e) }

type c15Val struct {
	name  string      // Go-like text of the operand
	v     interface{} // operand given to HelperForErrorf / Sprintf
	held  error       // the error the operand holds (directly or inside Safe/Unsafe), nil if none
	plain interface{} // the operand without its Safe/Unsafe wrapper (given to fmt.Errorf)
}

const (
	c15KErr = iota // errors.New
	c15KInt        // int
	c15KCustom
	c15KSF
	c15KTypedNil
	c15KValErr
	c15KSafeErr
	c15KUnsafeErr
	c15KNil
	c15KString
	c15KSafeInt
	c15KUnsafeCustom
	c15KSafeNil
	c15NumKinds
)

const c15MaxPos = 9

// c15Vals[pos][kind]: every position has its own error identities and texts.
var c15Vals = func() [][]c15Val {
	out := make([][]c15Val, c15MaxPos)
	for p := 0; p < c15MaxPos; p++ {
		vs := make([]c15Val, c15NumKinds)
		e := errors.New(fmt.Sprintf("n%d", p))
		vs[c15KErr] = c15Val{fmt.Sprintf("errors.New(\"n%d\")", p), e, e, e}
		vs[c15KInt] = c15Val{fmt.Sprintf("%d", 100+p), 100 + p, nil, 100 + p}
		ce := &c15CustomErr{msg: fmt.Sprintf("c%d", p), cause: errors.New(fmt.Sprintf("cause%d", p))}
		vs[c15KCustom] = c15Val{fmt.Sprintf("&c15CustomErr{\"c%d\", errors.New(\"cause%d\")}", p, p), ce, ce, ce}
		sf := &c15SFErr{fmt.Sprintf("f%d", p)}
		vs[c15KSF] = c15Val{fmt.Sprintf("&c15SFErr{\"f%d\"}", p), sf, sf, sf}
		var tn *c15CustomErr
		vs[c15KTypedNil] = c15Val{"(*c15CustomErr)(nil)", tn, tn, tn}
		ve := c15ValErr(fmt.Sprintf("v%d", p))
		vs[c15KValErr] = c15Val{fmt.Sprintf("c15ValErr(\"v%d\")", p), ve, ve, ve}
		se := errors.New(fmt.Sprintf("s%d", p))
		vs[c15KSafeErr] = c15Val{fmt.Sprintf("Safe(errors.New(\"s%d\"))", p), Safe(se), se, se}
		ue := errors.New(fmt.Sprintf("u%d", p))
		vs[c15KUnsafeErr] = c15Val{fmt.Sprintf("Unsafe(errors.New(\"u%d\"))", p), Unsafe(ue), ue, ue}
		vs[c15KNil] = c15Val{"nil", nil, nil, nil}
		vs[c15KString] = c15Val{fmt.Sprintf("\"str%d\"", p), fmt.Sprintf("str%d", p), nil, fmt.Sprintf("str%d", p)}
		vs[c15KSafeInt] = c15Val{fmt.Sprintf("Safe(%d)", 200+p), Safe(200 + p), nil, 200 + p}
		uc := &c15CustomErr{msg: fmt.Sprintf("uc%d", p)}
		vs[c15KUnsafeCustom] = c15Val{fmt.Sprintf("Unsafe(&c15CustomErr{\"uc%d\", nil})", p), Unsafe(uc), uc, uc}
		vs[c15KSafeNil] = c15Val{"Safe(nil)", Safe(nil), nil, nil}
		out[p] = vs
	}
	return out
}()

// ---------------------------------------------------------------------------------------------------
// format pieces

type c15Piece struct {
	text  string
	vText string // for a %w piece: the same directive with verb v
	isW   bool
	mode  int // 0: takes no operand, 1: takes the next operand, 2: explicit operand index idx (1-based)
	idx   int
}

var c15Pieces = []c15Piece{
	{"%w", "%v", true, 1, 0},
	{"%v", "", false, 1, 0},
	{"%d", "", false, 1, 0},
	{"%[1]w", "%[1]v", true, 2, 1},
	{"%[2]w", "%[2]v", true, 2, 2},
	{"%[3]w", "%[3]v", true, 2, 3},
	{"%[9]w", "%[9]v", true, 2, 9},
	{"%+w", "%+v", true, 1, 0},
	{"%10w", "%10v", true, 1, 0},
	{"lit", "", false, 0, 0},
	{"%%", "", false, 0, 0},
	{"%!", "", false, 1, 0}, // verb '!': a bad verb that still takes an operand
	// further flag/width/precision variants, enumerated only by the small "flag variants" law
	{"%#w", "%#v", true, 1, 0},
	{"% w", "% v", true, 1, 0},
	{"%-10w", "%-10v", true, 1, 0},
	{"%010w", "%010v", true, 1, 0},
	{"%.2w", "%.2v", true, 1, 0},
	{"%+[2]w", "%+[2]v", true, 2, 2},
}

// c15NumMain: the pieces of the main enumeration (the first twelve).
const c15NumMain = 12

const (
	c15SlotNone    = -1 // the piece takes no operand
	c15SlotMissing = -2 // no operand left
	c15SlotBadIdx  = -3 // explicit index out of range
)

// c15Slots: which operand each piece designates for an operand list of length n, by the rules documented for
// package fmt: directives take successive operands; [k] selects operand k and the following directives
// continue with k+1; an index outside 1..n is a bad index (the directive takes nothing); a directive with no
// operand left is reported as missing.
func c15Slots(seq []int, n int, slots []int) {
	arg := 0
	for j, pi := range seq {
		pc := &c15Pieces[pi]
		switch pc.mode {
		case 0:
			slots[j] = c15SlotNone
			continue
		case 2:
			if pc.idx < 1 || pc.idx > n {
				slots[j] = c15SlotBadIdx
				continue
			}
			arg = pc.idx - 1
		}
		if arg < n {
			slots[j] = arg
			arg++
		} else {
			slots[j] = c15SlotMissing
		}
	}
}

// ---------------------------------------------------------------------------------------------------
// the oracle for one call

type c15Stats struct {
	cases, withW          int // law 1 and 2
	errfCases, errfOneW   int // law 3
	errfSkipped           int // law 3: inputs skipped because of the known %+w / int divergence
	sharpSkipped          int // flag variants: inputs skipped because of the known %#w divergence
	hookCases, hookActive int // law 4
	manyW, manyWAllErr    int // law 5: formats with >= 3 %w; ... of which >= 3 %w operands hold errors
	captured              int // cases in which an error is expected back
	fails                 int
}

func (a *c15Stats) add(b *c15Stats) {
	a.cases += b.cases
	a.withW += b.withW
	a.errfCases += b.errfCases
	a.errfOneW += b.errfOneW
	a.errfSkipped += b.errfSkipped
	a.sharpSkipped += b.sharpSkipped
	a.hookCases += b.hookCases
	a.hookActive += b.hookActive
	a.manyW += b.manyW
	a.manyWAllErr += b.manyWAllErr
	a.captured += b.captured
}

type c15Checker struct {
	t       *testing.T
	st      *c15Stats
	hook    bool
	maxFail int32
	nfail   *int32 // shared by the workers
	np      int    // number of pieces of c15Pieces to enumerate (0: c15NumMain)
}

func (c *c15Checker) stop() bool { return atomic.LoadInt32(c.nfail) >= c.maxFail }

var c15HookCalls, c15HookDepth int
var c15HookInner = errors.New("inner")

// c15Hook is an error-printing hook in the style of an error library: it prints the error, its cause
// (through a nested Printf, which runs the hook again) and, at the outermost level, itself uses
// HelperForErrorf (which recycles printers) while the outer call is in progress.
func c15Hook(err error, p SafePrinter, verb rune) {
	c15HookCalls++
	c15HookDepth++
	defer func() { c15HookDepth-- }()
	if c15HookDepth == 1 {
		_, _ = HelperForErrorf("nested %w", c15HookInner)
	}
	p.SafeString("H<")
	p.SafeRune(SafeRune(verb))
	p.UnsafeString(err.Error())
	if c := errors.Unwrap(err); c != nil {
		p.Printf(" cause=%v", c)
	}
	p.SafeString(">")
}

func c15Call(format string, vals []c15Val) string {
	var b strings.Builder
	fmt.Fprintf(&b, "HelperForErrorf(%q", format)
	for _, v := range vals {
		b.WriteString(", ")
		b.WriteString(v.name)
	}
	b.WriteString(")")
	return b.String()
}

func c15StripRef(s string) string {
	return strings.ReplaceAll(strings.ReplaceAll(s, vS, ""), vE, "")
}

// check runs one call. seq/slots describe the format by construction; refFormat is the format in which the
// first %w piece is replaced by its %v twin (used when that %w is correctly used).
func (c *c15Checker) check(seq []int, slots []int, format, refFormat string, vals []c15Val) {
	if c.stop() {
		return
	}
	st := c.st
	nW, firstW, errW := 0, -1, 0
	for j, pi := range seq {
		if c15Pieces[pi].isW {
			if firstW < 0 {
				firstW = j
			}
			nW++
			if slots[j] >= 0 && vals[slots[j]].held != nil {
				errW++
			}
		}
	}
	// "correctly used": the first %w of the format, designating an operand that holds an error
	var firstHeld error
	if firstW >= 0 && slots[firstW] >= 0 {
		firstHeld = vals[slots[firstW]].held
	}
	var want error
	if nW == 1 {
		want = firstHeld
	}
	ref := format
	badW := nW
	if firstHeld != nil {
		ref = refFormat
		badW = nW - 1
	}
	args := make([]interface{}, len(vals))
	for k := range vals {
		args[k] = vals[k].v
	}

	hc := c15HookCalls
	s, err := HelperForErrorf(format, args...)
	hookRan := c15HookCalls > hc
	text := string(s)

	st.cases++
	if nW > 0 {
		st.withW++
	}
	if want != nil {
		st.captured++
	}
	if nW >= 3 {
		st.manyW++
		if errW >= 3 {
			st.manyWAllErr++
		}
	}
	if c.hook {
		st.hookCases++
		if hookRan && want != nil {
			st.hookActive++
		}
	}
	bad := func(why string) {
		if atomic.AddInt32(c.nfail, 1) > c.maxFail {
			return
		}
		call := c15Call(format, vals)
		if c.hook {
			call += " /* with RegisterRedactErrorFn(c15Hook) */"
		}
		c15Fail(c.t, call, text, err, why)
	}

	// law 1 (and 4, 5): the returned error
	if err != want {
		switch {
		case nW >= 3 && want == nil:
			bad(fmt.Sprintf("the format has %d %%w directives, so no error may be returned (want nil)", nW))
		case nW == 2 && want == nil:
			bad("the format has two %w directives, so no error may be returned (want nil)")
		case want == nil:
			bad("the only %w has no operand holding an error (or there is no %w), so no error may be returned (want nil)")
		default:
			bad("exactly one %w whose operand holds an error: that error must be returned, got another value; want " + c15ErrText(want))
		}
		return
	}
	// law 2: the text
	if n := strings.Count(text, "%!w("); n != badW {
		bad(fmt.Sprintf("%d uses of %%w are incorrect (not the first %%w, or no error operand) and must each be reported as a bad verb %%!w(...); the text has %d such reports", badW, n))
		return
	}
	sharpW := firstW >= 0 && c15Pieces[seq[firstW]].text == "%#w" && slots[firstW] >= 0 && vals[slots[firstW]].plain != nil
	if refText := string(Sprintf(ref, args...)); refText != text {
		bad(fmt.Sprintf("text differs from Sprintf(%q, same operands) = %q (a correctly used %%w renders like %%v, every other %%w is a bad verb)", ref, refText))
		return
	}
	// law 3: fmt.Errorf
	if !c.hook && nW <= 1 {
		// fmt.Errorf itself does not print a correctly used %#w like %#v when the error has no GoString method
		// (fmt.Errorf("%#w", errors.New("e")) is "&%!w(errors.errorString=errors.errorString{s:\"e\"})"): there the two
		// clauses of the statement cannot both hold; "renders exactly like %v" is checked by law 2, and the
		// comparison with fmt.Errorf leaves these inputs out.
		if sharpW && firstHeld != nil {
			st.sharpSkipped++
			return
		}
		st.errfCases++
		if nW == 1 {
			st.errfOneW++
		}
		plain := make([]interface{}, len(vals))
		for k := range vals {
			plain[k] = vals[k].plain
		}
		fe := fmt.Errorf(format, plain...)
		if msg := fe.Error(); msg != c15StripRef(text) || msg != s.StripMarkers() {
			bad(fmt.Sprintf("text with markers stripped differs from fmt.Errorf(same format, operands without Safe/Unsafe).Error() = %q", msg))
			return
		}
		if un := errors.Unwrap(fe); un != err {
			bad("returned error differs from errors.Unwrap(fmt.Errorf(...)) = " + c15ErrText(un))
			return
		}
	}
}

// ---------------------------------------------------------------------------------------------------
// enumeration

// c15Lists enumerates the operand lists for one format and one list length n (slots already computed):
//
//	A. every assignment of {errors.New error, int} to the positions designated by a %w, the other positions
//	   holding errors.New errors (all of distinct identity);
//	B. for every position designated by a %w, every other kind of operand (custom pointer error with a cause,
//	   error that is a SafeFormatter, typed nil error pointer, non-pointer error, Safe(err), Unsafe(err), nil,
//	   string, Safe(int), Unsafe(custom err), Safe(nil)) with the other %w positions holding (B1) errors and
//	   (B2, formats of at most 4 pieces only) ints;
//	C. the positions designated only by other directives all holding ints / all nil / all Safe(err), the %w
//	   positions holding errors.
func c15Lists(seq, slots []int, n int, kinds []int, visit func(vals []c15Val)) {
	var wPos, oPos []int
	isW := make([]bool, n)
	isO := make([]bool, n)
	for j, pi := range seq {
		if slots[j] >= 0 && c15Pieces[pi].isW {
			isW[slots[j]] = true
		}
	}
	for j, pi := range seq {
		if slots[j] >= 0 && !c15Pieces[pi].isW && !isW[slots[j]] {
			isO[slots[j]] = true
		}
	}
	for p := 0; p < n; p++ {
		if isW[p] {
			wPos = append(wPos, p)
		} else if isO[p] {
			oPos = append(oPos, p)
		}
	}
	vals := make([]c15Val, n)
	reset := func() {
		for p := 0; p < n; p++ {
			vals[p] = c15Vals[p][c15KErr]
		}
	}
	// A
	for m := 0; m < 1<<uint(len(wPos)); m++ {
		reset()
		for b, p := range wPos {
			if m&(1<<uint(b)) != 0 {
				vals[p] = c15Vals[p][c15KInt]
			}
		}
		visit(vals)
	}
	// B
	for _, p := range wPos {
		for _, k := range kinds {
			reset()
			vals[p] = c15Vals[p][k]
			visit(vals)
			if len(wPos) > 1 && len(seq) <= 4 {
				for _, q := range wPos {
					if q != p {
						vals[q] = c15Vals[q][c15KInt]
					}
				}
				visit(vals)
			}
		}
	}
	// C
	if len(oPos) > 0 {
		for _, k := range []int{c15KInt, c15KNil, c15KSafeErr} {
			reset()
			for _, p := range oPos {
				vals[p] = c15Vals[p][k]
			}
			visit(vals)
		}
	}
}

// c15Formats visits the sequence prefix and every extension of it up to maxLen pieces (indexes into
// c15Pieces); with only=true just the prefix itself.
func c15Formats(np int, prefix []int, maxLen int, only bool, visit func(seq []int)) int {
	count := 0
	seq := make([]int, len(prefix), maxLen+1)
	copy(seq, prefix)
	var rec func()
	rec = func() {
		count++
		visit(seq)
		if only || len(seq) >= maxLen {
			return
		}
		for pi := 0; pi < np; pi++ {
			seq = append(seq, pi)
			rec()
			seq = seq[:len(seq)-1]
		}
	}
	rec()
	return count
}

func c15Build(seq []int) (format, refFormat string) {
	var a, b strings.Builder
	first := true
	for _, pi := range seq {
		pc := &c15Pieces[pi]
		a.WriteString(pc.text)
		if pc.isW && first {
			first = false
			b.WriteString(pc.vText)
		} else {
			b.WriteString(pc.text)
		}
	}
	return a.String(), b.String()
}

func c15SameSlots(a, b []int) bool {
	for i := range a {
		if a[i] != b[i] {
			return false
		}
	}
	return true
}

// c15RunPrefix enumerates formats (prefix and its extensions) x list lengths x operand lists and returns the
// number of formats.
func c15RunPrefix(c *c15Checker, prefix []int, only bool, maxLen int, lengths []int, kinds []int) int {
	slots := make([]int, maxLen+1)
	prev := make([]int, maxLen+1)
	np := c.np
	if np == 0 {
		np = c15NumMain
	}
	return c15Formats(np, prefix, maxLen, only, func(seq []int) {
		if c.stop() {
			return
		}
		format, refFormat := c15Build(seq)
		sl, pv := slots[:len(seq)], prev[:len(seq)]
		for li, n := range lengths {
			c15Slots(seq, n, sl)
			// a longer list that designates exactly the same operands adds nothing (beyond n = 1, which
			// is kept for the "extra operands" report of formats that take no operand)
			if li > 0 && n > 1 && c15SameSlots(sl, pv) {
				continue
			}
			copy(pv, sl)
			c15Lists(seq, sl, n, kinds, func(vals []c15Val) { c.check(seq, sl, format, refFormat, vals) })
		}
	})
}

// c15Run enumerates all formats of at most maxLen pieces. Without a hook the work is split by the first two
// pieces over the available CPUs (HelperForErrorf is safe for concurrent use; every worker has its own
// counters); with the hook installed it runs on one goroutine (the hook counts its calls in a global).
func c15Run(t *testing.T, hook bool, maxLen int, lengths []int, kinds []int) (*c15Stats, int) {
	var nfail int32
	total := &c15Stats{}
	if hook || maxLen < 3 {
		c := &c15Checker{t: t, st: total, hook: hook, maxFail: 8, nfail: &nfail}
		n := c15RunPrefix(c, nil, false, maxLen, lengths, kinds)
		total.fails = int(nfail)
		return total, n
	}
	type task struct {
		prefix []int
		only   bool
	}
	var tasks []task
	tasks = append(tasks, task{nil, true})
	for a := 0; a < c15NumMain; a++ {
		tasks = append(tasks, task{[]int{a}, true})
		for b := 0; b < c15NumMain; b++ {
			tasks = append(tasks, task{[]int{a, b}, false})
		}
	}
	ch := make(chan task)
	var mu sync.Mutex
	var wg sync.WaitGroup
	nFormats := 0
	for w := 0; w < runtime.GOMAXPROCS(0); w++ {
		wg.Add(1)
		go func() {
			defer wg.Done()
			st := &c15Stats{}
			c := &c15Checker{t: t, st: st, maxFail: 8, nfail: &nfail}
			n := 0
			for tk := range ch {
				n += c15RunPrefix(c, tk.prefix, tk.only, maxLen, lengths, kinds)
			}
			mu.Lock()
			total.add(st)
			nFormats += n
			mu.Unlock()
		}()
	}
	for _, tk := range tasks {
		ch <- tk
	}
	close(ch)
	wg.Wait()
	total.fails = int(nfail)
	return total, nFormats
}

var c15AllKinds = []int{c15KCustom, c15KSF, c15KTypedNil, c15KValErr, c15KSafeErr, c15KUnsafeErr, c15KNil, c15KString,
	c15KSafeInt, c15KUnsafeCustom, c15KSafeNil}

func TestVerifBoundedC15(t *testing.T) {
	maxLen := 4
	if os.Getenv("VERIF_TIER") == "thorough" {
		maxLen = 5
	}
	lengths := []int{0, 1, 2, 3, 4, 5, 9}
	if maxLen == 4 {
		lengths = []int{0, 1, 2, 3, 4, 9}
	}
	defer RegisterRedactErrorFn(nil) // the test binary starts without a hook
	RegisterRedactErrorFn(nil)

	st, nFormats := c15Run(t, false, maxLen, lengths, c15AllKinds)

	// the same enumeration, one piece shorter, with an error hook installed
	hst := &c15Stats{}
	hFormats := 0
	if st.fails == 0 {
		RegisterRedactErrorFn(c15Hook)
		hst, hFormats = c15Run(t, true, maxLen-1, lengths, c15AllKinds)
		RegisterRedactErrorFn(nil)
	}
	ok := st.fails == 0 && hst.fails == 0

	// flag variants: all pieces (the twelve and the further flag/width/precision variants), at most 2 (quick) /
	// 3 (thorough) pieces
	fst := &c15Stats{}
	fFormats := 0
	if ok {
		var nf int32
		fFormats = c15RunPrefix(&c15Checker{t: t, st: fst, maxFail: 8, nfail: &nf, np: len(c15Pieces)}, nil, false, maxLen-2, []int{0, 1, 2, 3, 9}, c15AllKinds)
		fst.fails = int(nf)
	}
	okFlags := ok && fFormats > 0 && fst.fails == 0

	pieces := make([]string, c15NumMain)
	for k := range pieces {
		pieces[k] = c15Pieces[k].text
	}
	var extra []string
	for _, pc := range c15Pieces[c15NumMain:] {
		extra = append(extra, pc.text)
	}
	bound := fmt.Sprintf("all %d formats made of at most %d pieces over {%s}; operand lists of every length in %v that designates different operands; "+
		"per list: every error/int assignment to the positions designated by %%w, plus each of %d further operand kinds "+
		"(custom error with cause, error+SafeFormatter, typed nil error pointer, non-pointer error, Safe(err), Unsafe(err), nil, string, Safe(int), Unsafe(custom err), Safe(nil)) "+
		"at each %%w position with the other %%w positions all errors / (formats of at most 4 pieces) all ints, plus the non-%%w positions all int / all nil / all Safe(err)",
		nFormats, maxLen, strings.Join(pieces, " "), lengths, len(c15AllKinds))
	emit := func(law string, cases, nontrivial int, rule, bnd string, exhaustive bool) {
		m, _ := json.Marshal(map[string]interface{}{"property": "C15", "law": law, "cases": cases, "nontrivial": nontrivial,
			"nontrivial_rule": rule, "bound": bnd, "exhaustive": exhaustive})
		fmt.Printf("BOUNDED: %s\n", m)
	}
	emit("returned error = operand of %w iff exactly one %w and its operand (possibly inside Safe/Unsafe) holds an error, else nil (identity comparison)",
		st.cases, st.withW, fmt.Sprintf("the format contains at least one %%w (an error is expected back in %d of the cases)", st.captured), bound, ok)
	emit("text = Sprintf of the format with the correctly used %w replaced by the same directive with verb v; every other %w reported as bad verb (count of %!w( reports)",
		st.cases, st.withW, "the format contains at least one %w", bound, ok)
	emit("formats with three or more %w directives return nil and report every %w after a correctly used first one as a bad verb",
		st.manyW, st.manyWAllErr, "at least three of the %w directives designate operands that hold errors", bound, ok)
	emit("for at most one %w: text with markers stripped = fmt.Errorf(format, operands without Safe/Unsafe).Error() and returned error = its Unwrap()",
		st.errfCases, st.errfOneW, "the format contains exactly one %w",
		bound+"; restricted to formats with at most one %w", ok)
	emit("with an error hook registered (RegisterRedactErrorFn; the hook prints causes through a nested Printf and itself calls HelperForErrorf) the returned error and the text/Sprintf agreement are unchanged",
		hst.cases, hst.hookActive, "the hook ran during the call and an error is expected back",
		fmt.Sprintf("the same enumeration over the %d formats of at most %d pieces", hFormats, maxLen-1), ok && hFormats > 0)
	emit("flag, width and precision variants of %w: returned error, text vs Sprintf and vs fmt.Errorf as above",
		fst.cases, fst.withW, "the format contains at least one %w",
		fmt.Sprintf("the same enumeration over the %d formats of at most %d pieces over the twelve pieces and {%s}; %d inputs with a correctly used %%#w left out of the fmt.Errorf comparison only (fmt.Errorf itself does not print %%#w like %%#v for an error without GoString method)",
			fFormats, maxLen-2, strings.Join(extra, " "), fst.sharpSkipped), okFlags)
}

// ---------------------------------------------------------------------------------------------------
// replay / quick search

func TestVerifReplayC15(t *testing.T) {
	e1, e2 := errors.New("e1"), errors.New("e2")
	type operand struct {
		name  string
		v     interface{}
		isErr bool
		err   error
	}
	ops := []operand{
		{"err", e1, true, e1}, {"err2", e2, true, e2}, {"Safe(err)", Safe(e1), true, e1}, {"Unsafe(err)", Unsafe(e1), true, e1},
		{"int", 1, false, nil}, {"string", "s", false, nil}, {"nil", nil, false, nil}, {"struct", struct{ A int }{1}, false, nil},
	}
	type directive struct {
		text  string
		isW   bool
		takes int // operands consumed
	}
	dirs := []directive{{"%w", true, 1}, {"%v", false, 1}, {"%d", false, 1}, {"%5w", true, 1}, {"%-w", true, 1}}
	fails := 0
	fail := func(call string, got, want error, text string) {
		why := "exactly one %w with an operand holding an error returns that error; every other case returns nil"
		m, _ := json.Marshal(map[string]string{"property": "C15", "call": call, "returned_error": fmt.Sprint(got), "expected_error": fmt.Sprint(want), "text": text,
			"output": fmt.Sprintf("(%q, %s)", text, c15ErrText(got)), "why": why + "; expected " + c15ErrText(want)})
		fmt.Printf("REPLAY-FAIL: %s\n", m)
		t.Errorf("%s: returned %v, want %v", call, got, want)
		fails++
	}
	check := func(format string, args []interface{}, names []string, want error) {
		if fails >= 10 {
			return
		}
		s, err := HelperForErrorf(format, args...)
		if err != want {
			fail(fmt.Sprintf("HelperForErrorf(%q, %v)", format, names), err, want, string(s))
		}
	}
	// a format given by the solver model / the caller: REPLAY_HINTS {"format": "..."} is run through the
	// bounded oracle when it is made of known pieces (other keys are ignored)
	var hints map[string]interface{}
	_ = json.Unmarshal([]byte(os.Getenv("REPLAY_HINTS")), &hints)
	if f, ok := hints["format"].(string); ok {
		if seq, ok := c15Parse(f); ok {
			var nf int32
			c := &c15Checker{t: t, st: &c15Stats{}, maxFail: 10, nfail: &nf}
			slots := make([]int, len(seq))
			format, refFormat := c15Build(seq)
			for _, n := range []int{0, 1, 2, 3, 4, 5, 9} {
				c15Slots(seq, n, slots)
				c15Lists(seq, slots, n, c15AllKinds, func(vals []c15Val) { c.check(seq, slots, format, refFormat, vals) })
			}
			fails += int(nf)
		}
	}
	// one and two directives, all operand combinations
	for _, d1 := range dirs {
		for _, o1 := range ops {
			var want error
			if d1.isW && o1.isErr {
				want = o1.err
			}
			check(d1.text, []interface{}{o1.v}, []string{o1.name}, want)
			for _, d2 := range dirs {
				for _, o2 := range ops {
					nw := 0
					if d1.isW {
						nw++
					}
					if d2.isW {
						nw++
					}
					var want error
					if nw == 1 {
						if d1.isW && o1.isErr {
							want = o1.err
						}
						if d2.isW && o2.isErr {
							want = o2.err
						}
					}
					check(d1.text+" "+d2.text, []interface{}{o1.v, o2.v}, []string{o1.name, o2.name}, want)
				}
			}
		}
	}
	// three and four %w (with other directives in between): never an error
	wdirs := []string{"%w", "%5w", "%[1]w", "%[2]w", "%[3]w"}
	for _, a := range wdirs {
		for _, b := range wdirs {
			for _, c := range wdirs {
				for _, o1 := range ops[:5] {
					for _, o2 := range ops[:5] {
						for _, o3 := range ops[:5] {
							args := []interface{}{o1.v, o2.v, o3.v}
							names := []string{o1.name, o2.name, o3.name}
							check(a+"|"+b+"|"+c, args, names, nil)
						}
					}
				}
				check(a+" %v "+b+" %d "+c+" %w", []interface{}{e1, e2, e1, e2, e1, e2}, []string{"err", "err2", "err", "err2", "err", "err2"}, nil)
			}
		}
	}
	// missing operands and bad indexes
	check("%w %w", []interface{}{e1}, []string{"err"}, nil)
	check("%w %[5]w", []interface{}{e1}, []string{"err"}, nil)
	check("%[5]w %w", []interface{}{e1}, []string{"err"}, nil)
	check("%[1]w %[1]w", []interface{}{e1}, []string{"err"}, nil)
	check("%w", nil, nil, nil)
	// the bounded oracle (error, text, fmt.Errorf) on every format of at most 3 pieces
	if fails == 0 {
		var nf int32
		c15RunPrefix(&c15Checker{t: t, st: &c15Stats{}, maxFail: 10, nfail: &nf}, nil, false, 3, []int{0, 1, 2, 3, 9}, c15AllKinds)
	}
}

// c15Parse splits a format into pieces of c15Pieces (longest match first); ok is false for other formats.
func c15Parse(f string) (seq []int, ok bool) {
	for len(f) > 0 {
		best := -1
		for pi, pc := range c15Pieces {
			if strings.HasPrefix(f, pc.text) && (best < 0 || len(pc.text) > len(c15Pieces[best].text)) {
				best = pi
			}
		}
		if best < 0 {
			return nil, false
		}
		seq = append(seq, best)
		f = f[len(c15Pieces[best].text):]
	}
	return seq, true
}
