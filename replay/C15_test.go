package redact

// Replay/search harness for C15 (injected with -overlay, never written into /repo).
// Formats are built from pieces so that the number of %w directives is known by construction;
// the expected error is taken from the property statement.

import (
	"encoding/json"
	"errors"
	"fmt"
	"testing"
)

func TestVerifReplayC15(t *testing.T) {
	e1, e2 := errors.New("e1"), errors.New("e2")
	type operand struct {
		name  string
		v     interface{}
		isErr bool
		err   error
	}
	ops := []operand{
		{"err", e1, true, e1}, {"err2", e2, true, e2}, {"Safe(err)", Safe(e1), true, e1}, {"Unsafe(err)", Unsafe(e1), true, e1},
		{"int", 1, false, nil}, {"string", "s", false, nil}, {"nil", nil, false, nil}, {"struct", struct{ A int }{1}, false, nil},
	}
	type directive struct {
		text  string
		isW   bool
		takes int // operands consumed
	}
	dirs := []directive{{"%w", true, 1}, {"%v", false, 1}, {"%d", false, 1}, {"%5w", true, 1}, {"%-w", true, 1}}
	fails := 0
	fail := func(call string, got, want error, text string) {
		m, _ := json.Marshal(map[string]string{"property": "C15", "call": call, "returned_error": fmt.Sprint(got), "expected_error": fmt.Sprint(want), "text": text})
		fmt.Printf("REPLAY-FAIL: %s\n", m)
		t.Errorf("%s: returned %v, want %v", call, got, want)
		fails++
	}
	check := func(format string, args []interface{}, names []string, want error) {
		if fails >= 10 {
			return
		}
		s, err := HelperForErrorf(format, args...)
		if err != want {
			fail(fmt.Sprintf("HelperForErrorf(%q, %v)", format, names), err, want, string(s))
		}
	}
	// one and two directives, all operand combinations
	for _, d1 := range dirs {
		for _, o1 := range ops {
			var want error
			if d1.isW && o1.isErr {
				want = o1.err
			}
			check(d1.text, []interface{}{o1.v}, []string{o1.name}, want)
			for _, d2 := range dirs {
				for _, o2 := range ops {
					nw := 0
					if d1.isW {
						nw++
					}
					if d2.isW {
						nw++
					}
					var want error
					if nw == 1 {
						if d1.isW && o1.isErr {
							want = o1.err
						}
						if d2.isW && o2.isErr {
							want = o2.err
						}
					}
					check(d1.text+" "+d2.text, []interface{}{o1.v, o2.v}, []string{o1.name, o2.name}, want)
				}
			}
		}
	}
	// missing operands and bad indexes
	check("%w %w", []interface{}{e1}, []string{"err"}, nil)
	check("%w %[5]w", []interface{}{e1}, []string{"err"}, nil)
	check("%[5]w %w", []interface{}{e1}, []string{"err"}, nil)
	check("%[1]w %[1]w", []interface{}{e1}, []string{"err"}, nil)
	check("%w", nil, nil, nil)
}
