#!/bin/bash
# builds govc from source, offline, stdlib only
set -e
cd "$(dirname "$0")"
export GOFLAGS=-mod=mod GOPROXY=off GOSUMDB=off GOTOOLCHAIN=local
mkdir -p bin evidence replays
(cd govc && go build -o ../bin/govc .)
echo setup-ok
