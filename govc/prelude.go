package main

import (
	"fmt"
	"go/types"
	"sort"
	"strings"
)

// The prelude: vocabulary of the byte layer (DESIGN 2.5). Everything here is
// definitional except `dep`, which is declared and unfolded on ground
// applications (fuel 3), and the lemmas listed in lemmaAxioms, each of which
// is proved by explicit induction in `govc lemmas` (prelude_lemmas.go).
const preludeSMT = `
(declare-sort U 0)
(declare-fun nilU () U)
(declare-fun emptyArr () (Array Int Int))
(define-fun godiv ((a Int) (b Int)) Int (ite (>= a 0) (ite (> b 0) (div a b) (- (div a (- b)))) (ite (> b 0) (- (div (- a) b)) (div (- a) (- b)))))
(define-fun gorem ((a Int) (b Int)) Int (- a (* b (godiv a b))))
(declare-fun bitand (Int Int) Int)
(declare-fun bitor (Int Int) Int)
(declare-fun bitnot (Int) Int)
(declare-fun streq ((Array Int Int) Int Int (Array Int Int) Int Int) Bool)
(declare-fun shift ((Array Int Int) Int) (Array Int Int))
(declare-fun shiftU ((Array Int U) Int) (Array Int U))
(assert (forall ((a (Array Int U)) (o Int) (j Int)) (! (= (select (shiftU a o) j) (select a (+ o j))) :pattern ((select (shiftU a o) j)))))
(assert (forall ((a (Array Int Int)) (o Int) (j Int)) (! (= (select (shift a o) j) (select a (+ o j))) :pattern ((select (shift a o) j)))))
(define-fun isS ((a (Array Int Int)) (j Int)) Bool (and (= (select a j) 226) (= (select a (+ j 1)) 128) (= (select a (+ j 2)) 185)))
(define-fun isE ((a (Array Int Int)) (j Int)) Bool (and (= (select a j) 226) (= (select a (+ j 1)) 128) (= (select a (+ j 2)) 186)))
(define-fun isM ((a (Array Int Int)) (j Int)) Bool (and (= (select a j) 226) (= (select a (+ j 1)) 128) (or (= (select a (+ j 2)) 185) (= (select a (+ j 2)) 186))))
(declare-fun dep ((Array Int Int) Int) Int)
(define-fun depStep ((a (Array Int Int)) (j Int)) Int (ite (>= j 2) (ite (isS a (- j 2)) 1 (ite (isE a (- j 2)) (- 1) 0)) 0))
(define-fun clean ((a (Array Int Int)) (n Int)) Bool (and (not (and (>= n 1) (= (select a (- n 1)) 226))) (not (and (>= n 2) (= (select a (- n 2)) 226) (= (select a (- n 1)) 128)))))
(define-fun WFP ((a (Array Int Int)) (n Int)) Bool
  (and (forall ((j Int)) (=> (and (<= 0 j) (<= (+ j 3) n) (isS a j)) (= (dep a j) 0)))
       (forall ((j Int)) (=> (and (<= 0 j) (<= (+ j 3) n) (isE a j)) (= (dep a j) 1)))
       (<= 0 (dep a n)) (<= (dep a n) 1)))
(define-fun WF ((a (Array Int Int)) (n Int) (open Bool)) Bool
  (and (WFP a n) (= (dep a n) (ite open 1 0))))
(define-fun LS ((a (Array Int Int)) (n Int)) Bool
  (forall ((j Int)) (=> (and (<= 0 j) (< j n) (= (select a j) 10)) (= (dep a j) 0))))
(define-fun noMarker ((a (Array Int Int)) (lo Int) (hi Int)) Bool
  (forall ((j Int)) (=> (and (<= 0 j) (<= lo j) (<= (+ j 3) hi)) (not (isM a j)))))
(define-fun noNL ((a (Array Int Int)) (lo Int) (hi Int)) Bool
  (forall ((j Int)) (=> (and (<= lo j) (< j hi)) (not (= (select a j) 10)))))
(define-fun sameBytes ((a (Array Int Int)) (b (Array Int Int)) (n Int)) Bool
  (forall ((j Int)) (=> (and (<= 0 j) (< j n)) (= (select a j) (select b j)))))
(define-fun endsS ((a (Array Int Int)) (n Int)) Bool (and (>= n 3) (isS a (- n 3))))
(define-fun endsE ((a (Array Int Int)) (n Int)) Bool (and (>= n 3) (isE a (- n 3))))
(define-fun frag ((a (Array Int Int)) (n Int)) Bool (and (WF a n false) (LS a n)))
; a trailing start delimiter is preceded by clean text (so that removing it exposes no partial marker)
(define-fun CS ((a (Array Int Int)) (n Int)) Bool (=> (endsS a n) (clean a (- n 3))))
(define-fun sameView ((a (Array Int Int)) (b (Array Int Int))) Bool (= a b))
; badTail a n: the byte string a[0..n) ends in a byte sequence that is not a complete, valid UTF-8 encoding
; (uninterpreted: tied to utf8.DecodeLastRune by its assumed contract)
(declare-fun badTail ((Array Int Int) Int) Bool)
; dep is constant on [lo, hi]
(define-fun depConst ((a (Array Int Int)) (lo Int) (hi Int)) Bool
  (forall ((j Int)) (=> (and (<= lo j) (<= j hi)) (= (dep a j) (dep a lo)))))
`

func init() {
	seq := "seq"
	specFns["isS"] = specFn{"isS", []string{seq, "int"}, SBool}
	specFns["isE"] = specFn{"isE", []string{seq, "int"}, SBool}
	specFns["isM"] = specFn{"isM", []string{seq, "int"}, SBool}
	specFns["dep"] = specFn{"dep", []string{seq, "int"}, SInt}
	specFns["clean"] = specFn{"clean", []string{seq, "int"}, SBool}
	specFns["WF"] = specFn{"WF", []string{seq, "int", "bool"}, SBool}
	specFns["WFP"] = specFn{"WFP", []string{seq, "int"}, SBool}
	specFns["depConst"] = specFn{"depConst", []string{seq, "int", "int"}, SBool}
	specFns["depStep"] = specFn{"depStep", []string{seq, "int"}, SInt}
	specFns["LS"] = specFn{"LS", []string{seq, "int"}, SBool}
	specFns["noMarker"] = specFn{"noMarker", []string{seq, "int", "int"}, SBool}
	specFns["noNL"] = specFn{"noNL", []string{seq, "int", "int"}, SBool}
	specFns["sameBytes"] = specFn{"sameBytes", []string{seq, seq, "int"}, SBool}
	specFns["endsS"] = specFn{"endsS", []string{seq, "int"}, SBool}
	specFns["endsE"] = specFn{"endsE", []string{seq, "int"}, SBool}
	specFns["frag"] = specFn{"frag", []string{seq, "int"}, SBool}
	specFns["CS"] = specFn{"CS", []string{seq, "int"}, SBool}
	specFns["sameView"] = specFn{"sameView", []string{seq, seq}, SBool}
	specFns["badTail"] = specFn{"badTail", []string{seq, "int"}, SBool}

	// every array update that preserves a prefix instantiates DepCong (proved in prelude_lemmas.go)
	prefixFns = append(prefixFns, func(e *Env, oldA, newA, bound, cond *Term) {
		if !e.useDep {
			return
		}
		// LemmaDepCong (prelude_lemmas.go): the arrays agree below bound, so dep agrees on
		// every view lying below bound (offset-0 view, and every shifted view).
		j := Bound("j$", SInt)
		o := Bound("o$", SInt)
		e.assume(Implies(cond, Forall([]*Term{j}, Implies(And(Le(IntLit(0), j), Le(j, bound)),
			Eq(App("dep", SInt, newA, j), App("dep", SInt, oldA, j))))))
		e.assume(Implies(cond, Forall([]*Term{o, j}, Implies(And(Le(IntLit(0), o), Le(IntLit(0), j), Le(Add(o, j), bound)),
			Eq(App("dep", SInt, App("shift", SArr, newA, o), j), App("dep", SInt, App("shift", SArr, oldA, o), j))))))
	})
}

var preludeDefined = map[string]bool{
	"nilU": true, "emptyArr": true, "godiv": true, "gorem": true, "bitand": true, "bitor": true, "bitnot": true, "streq": true,
	"isS": true, "isE": true, "isM": true, "dep": true, "depStep": true, "clean": true, "WF": true, "LS": true,
	"WFP": true, "depConst": true, "shift": true, "shiftU": true, "CS": true, "sameView": true, "badTail": true, "noMarker": true, "noNL": true, "sameBytes": true, "endsS": true, "endsE": true, "frag": true,
}

// axiomsFor produces on-demand declarations and ground axiom instances for a query.
func (w *World) axiomsFor(terms []*Term) []string {
	type sig struct {
		args []Sort
		res  Sort
	}
	decls := map[string]sig{}
	var collect func(t *Term)
	collect = func(t *Term) {
		if t.Op == "app" && !preludeDefined[t.Name] && !strings.HasPrefix(t.Name, "L_") {
			var as []Sort
			for _, a := range t.Args {
				as = append(as, a.S)
			}
			decls[t.Name] = sig{as, t.S}
		}
		for _, a := range t.Args {
			collect(a)
		}
	}
	for _, t := range terms {
		collect(t)
	}
	var out []string
	names := make([]string, 0, len(decls))
	for n := range decls {
		names = append(names, n)
	}
	sort.Strings(names)
	for _, n := range names {
		s := decls[n]
		var as []string
		for _, a := range s.args {
			as = append(as, a.SMT())
		}
		out = append(out, fmt.Sprintf("(declare-fun %s (%s) %s)", smtName(n), strings.Join(as, " "), s.res.SMT()))
	}
	// dynamic-type predicates: a concrete dynamic type decides every interface test (method sets are
	// known statically), and two different concrete types exclude each other
	var tnames []string
	for _, n := range names {
		if _, ok := w.typeOfPred[n]; ok {
			tnames = append(tnames, n)
		}
	}
	for _, c := range names {
		// also for predicates that only occur in contracts: nil has no dynamic type
		if strings.HasPrefix(c, "hasType$") {
			out = append(out, fmt.Sprintf("(assert (not (%s nilU)))", smtName(c)))
		}
	}
	for _, c := range tnames {
		ct := w.typeOfPred[c]
		if types.IsInterface(ct) {
			continue
		}
		for _, o := range tnames {
			if o == c {
				continue
			}
			ot := w.typeOfPred[o]
			if it, ok := ot.Underlying().(*types.Interface); ok && types.IsInterface(ot) {
				impl := types.Implements(ct, it)
				out = append(out, fmt.Sprintf("(assert (forall ((v U)) (=> (%s v) (= (%s v) %v))))", smtName(c), smtName(o), impl))
			} else if c < o {
				out = append(out, fmt.Sprintf("(assert (forall ((v U)) (not (and (%s v) (%s v)))))", smtName(c), smtName(o)))
			}
		}
	}
	// abstract invariants hold for the zero value (proved in the defining package: obligations "#inv.zero")
	for _, n := range names {
		if strings.HasPrefix(n, "inv$") {
			sg := decls[n]
			var bvs, args []string
			for i, a := range sg.args {
				switch a {
				case SInt:
					args = append(args, "0")
				case SBool:
					args = append(args, "false")
				default:
					bv := fmt.Sprintf("z%d", i)
					bvs = append(bvs, fmt.Sprintf("(%s %s)", bv, a.SMT()))
					args = append(args, bv)
				}
			}
			body := fmt.Sprintf("(%s %s)", smtName(n), strings.Join(args, " "))
			if len(bvs) > 0 {
				body = fmt.Sprintf("(forall (%s) %s)", strings.Join(bvs, " "), body)
			}
			out = append(out, "(assert "+body+")")
		}
	}
	// string literal contents
	for _, n := range names {
		if content, ok := w.litByName[n]; ok {
			for i := 0; i < len(content); i++ {
				out = append(out, fmt.Sprintf("(assert (= (select %s %d) %d))", n, i, content[i]))
			}
		}
	}
	// sub-object ids: negative, injective, tagged
	subNames := map[string]bool{}
	var subList []string
	for _, n := range names {
		if strings.HasPrefix(n, "sub$") {
			subNames[n] = true
			subList = append(subList, n)
		}
	}
	if len(subNames) > 0 {
		out = append(out, "(declare-fun subinv (Int) Int)", "(declare-fun subtag (Int) Int)")
		ground := map[string]*Term{}
		for _, t := range terms {
			t.GroundApps(subNames, ground)
		}
		for _, k := range sortedKeys(ground) {
			g := ground[k]
			tag := sort.SearchStrings(subList, g.Name)
			out = append(out, fmt.Sprintf("(assert (and (< %s 0) (= (subinv %s) %s) (= (subtag %s) %d)))", k, k, g.Args[0].String(), k, tag))
		}
	}
	// inline-array storage: refs below every allocated and constant ref, injective per field
	arrNames := map[string]bool{}
	var arrList []string
	for _, n := range names {
		if strings.HasPrefix(n, "arrref$") {
			arrNames[n] = true
			arrList = append(arrList, n)
		}
	}
	if len(arrNames) > 0 {
		out = append(out, "(declare-fun arrinv (Int) Int)", "(declare-fun arrtag (Int) Int)")
		ground := map[string]*Term{}
		for _, t := range terms {
			t.GroundApps(arrNames, ground)
		}
		for _, k := range sortedKeys(ground) {
			g := ground[k]
			tag := sort.SearchStrings(arrList, g.Name)
			out = append(out, fmt.Sprintf("(assert (and (< %s (- 1000)) (= (arrinv %s) %s) (= (arrtag %s) %d)))", k, k, g.Args[0].String(), k, tag))
		}
	}
	// box/unbox
	boxGround := map[string]*Term{}
	for _, t := range terms {
		t.GroundApps(map[string]bool{"box$int": true, "box$bool": true, "box$obj": true}, boxGround)
	}
	for _, k := range sortedKeys(boxGround) {
		g := boxGround[k]
		switch g.Name {
		case "box$int":
			out = append(out, "(declare-fun unbox$int (U) Int)")
			out = append(out, fmt.Sprintf("(assert (= (unbox$int %s) %s))", k, g.Args[0].String()))
		}
	}
	out = dedupe(out)
	// every ground sameBytes(a2, a, n) instantiates LemmaDepCong
	sb := map[string]*Term{}
	for _, t := range terms {
		t.GroundApps(map[string]bool{"sameBytes": true}, sb)
	}
	for _, k := range sortedKeys(sb) {
		g := sb[k]
		out = append(out, fmt.Sprintf("(assert (=> %s (L_DepCong_post %s %s %s)))", k, g.Args[0].String(), g.Args[1].String(), g.Args[2].String()))
	}
	// dep unfolding, fuel 3
	seen := map[string]bool{}
	frontier := map[string]*Term{}
	for _, t := range terms {
		t.GroundApps(map[string]bool{"dep": true}, frontier)
	}
	// predicates whose definition mentions dep at ground points seed the unfolding too
	seeds := map[string]*Term{}
	for _, t := range terms {
		t.GroundApps(depSeedNames, seeds)
	}
	for _, k := range sortedKeys(seeds) {
		g := seeds[k]
		for _, d := range depSeeds[g.Name](g.Args) {
			frontier[d.String()] = d
		}
	}
	for round := 0; round < 3; round++ {
		next := map[string]*Term{}
		for _, k := range sortedKeys(frontier) {
			if seen[k] {
				continue
			}
			seen[k] = true
			g := frontier[k]
			a, t := g.Args[0], g.Args[1]
			prev := App("dep", SInt, a, Sub(t, IntLit(1)))
			out = append(out, fmt.Sprintf("(assert (=> (<= %s 0) (= %s 0)))", t.String(), k))
			out = append(out, fmt.Sprintf("(assert (=> (>= %s 1) (= %s (+ %s (depStep %s (- %s 1))))))", t.String(), k, prev.String(), a.String(), t.String()))
			next[prev.String()] = prev
		}
		frontier = next
	}
	return out
}

func dedupe(in []string) []string {
	seen := map[string]bool{}
	var out []string
	for _, s := range in {
		if !seen[s] {
			seen[s] = true
			out = append(out, s)
		}
	}
	return out
}


func fullPrelude() string { return preludeSMT + lemmaPrelude() }


func depAt(a, t *Term) *Term { return App("dep", SInt, a, t) }

// depSeeds: for a ground application of a prelude predicate, the ground dep terms its definition mentions.
var depSeeds = map[string]func(a []*Term) []*Term{
	"WF":                 func(a []*Term) []*Term { return []*Term{depAt(a[0], a[1])} },
	"WFP":                func(a []*Term) []*Term { return []*Term{depAt(a[0], a[1])} },
	"frag":               func(a []*Term) []*Term { return []*Term{depAt(a[0], a[1])} },
	"depConst":           func(a []*Term) []*Term { return []*Term{depAt(a[0], a[1]), depAt(a[0], a[2])} },
	"L_AppendPlain_pre":  func(a []*Term) []*Term { return []*Term{depAt(a[0], a[2])} },
	"L_AppendPlain_post": func(a []*Term) []*Term { return []*Term{depAt(a[0], a[2]), depAt(a[1], a[2]), depAt(a[1], a[3])} },
	"L_AppendPlainLS_pre": func(a []*Term) []*Term { return []*Term{depAt(a[0], a[2])} },
	"L_AppendDelim_pre":  func(a []*Term) []*Term { return []*Term{depAt(a[0], a[2])} },
	"L_AppendDelim_post": func(a []*Term) []*Term { return []*Term{depAt(a[1], Add(a[2], IntLit(3)))} },
	"L_CopyWF_post":      func(a []*Term) []*Term { return []*Term{depAt(a[0], a[2]), depAt(a[1], a[2])} },
	"L_ConcatWF_pre":     func(a []*Term) []*Term { return []*Term{depAt(a[0], a[3]), depAt(a[2], a[4])} },
	"L_ConcatWF_post":    func(a []*Term) []*Term { return []*Term{depAt(a[1], Add(a[3], a[4]))} },
}

var depSeedNames = func() map[string]bool {
	m := map[string]bool{}
	for k := range depSeeds {
		m[k] = true
	}
	return m
}()
