package main

// Shared mutable state scan (property C12, the "calls on other goroutines" half).
//
// Sequential contracts cannot speak about schedules, but they can establish what a race needs: state that two
// calls share. This scan goes over EVERY function of the module's non-test sources (also those without a
// contract, e.g. the fmt-derived formatters) and reports each place where a package-level variable is written,
// has its address taken, is sliced (an array: a mutable alias), is appended/copied into, or has a
// pointer-receiver method called on it. Each such use is an obligation "shared:<function>:<variable>"; it is
// discharged only if the variable is declared in a contract file with
//
//	shared <pkg>.<Var> "<why sharing it is safe>"
//
// The justification text is a trusted statement (listed in the evidence); an undeclared use is a violation.

import (
	"fmt"
	"go/ast"
	"go/token"
	"go/types"
	"sort"
	"strings"
)

type SharedDecl struct {
	Var  string // pkgshort.Name
	Why  string
	File string
	Line int
}

type sharedUse struct {
	fn, v, how, pos string
	pkgPath         string
	escape          bool // a mutable alias of the variable leaves the function (returned)
}

func (w *World) sharedUses() []sharedUse {
	var out []sharedUse
	for _, pk := range w.Pkgs {
		if pk.Types == nil || !inModule(pk.Types) {
			continue
		}
		for _, f := range pk.Files {
			fname := w.Fset.Position(f.Pos()).Filename
			if strings.HasSuffix(fname, "_test.go") {
				continue
			}
			for _, d := range f.Decls {
				fd, ok := d.(*ast.FuncDecl)
				if !ok || fd.Body == nil {
					continue
				}
				fn := fd.Name.Name
				if fd.Recv != nil && len(fd.Recv.List) == 1 {
					fn = "(" + exprString(fd.Recv.List[0].Type) + ")." + fn
				}
				fn = shortPkg(pk.Path) + "." + fn
				if fd.Name.Name == "init" {
					continue
				}
				pkgVar := func(e ast.Expr) *types.Var {
					for {
						switch x := ast.Unparen(e).(type) {
						case *ast.IndexExpr:
							e = x.X
							continue
						case *ast.SelectorExpr:
							if id, ok := x.X.(*ast.Ident); ok {
								if _, isPkg := pk.Info.Uses[id].(*types.PkgName); isPkg {
									if v, ok := pk.Info.Uses[x.Sel].(*types.Var); ok && v.Pkg() != nil && inModule(v.Pkg()) && v.Parent() == v.Pkg().Scope() {
										return v
									}
									return nil
								}
							}
							e = x.X
							continue
						case *ast.StarExpr:
							e = x.X
							continue
						case *ast.SliceExpr:
							e = x.X
							continue
						case *ast.Ident:
							if v, ok := pk.Info.Uses[x].(*types.Var); ok && v.Pkg() != nil && inModule(v.Pkg()) && v.Parent() == v.Pkg().Scope() {
								return v
							}
							return nil
						}
						return nil
					}
				}
				add := func(v *types.Var, how string, p token.Pos) {
					out = append(out, sharedUse{fn: fn, v: shortPkg(v.Pkg().Path()) + "." + v.Name(), how: how, pos: w.pos(p), pkgPath: pk.Path})
				}
				isRefType := func(t types.Type) bool {
					switch t.Underlying().(type) {
					case *types.Slice, *types.Map, *types.Pointer, *types.Chan:
						return true
					}
					return false
				}
				ast.Inspect(fd.Body, func(n ast.Node) bool {
					switch x := n.(type) {
					case *ast.AssignStmt:
						if x.Tok == token.DEFINE {
							return true
						}
						for _, l := range x.Lhs {
							if v := pkgVar(l); v != nil {
								add(v, "assigned", l.Pos())
							}
						}
					case *ast.ReturnStmt:
						// a package-level slice, map or pointer handed out as a result: the caller gets a
						// mutable alias of state that every later call reads
						for _, r := range x.Results {
							e := ast.Unparen(r)
							for {
								if c, ok := e.(*ast.CallExpr); ok && len(c.Args) == 1 {
									if tv, ok := pk.Info.Types[c.Fun]; ok && tv.IsType() && isRefType(tv.Type) {
										e = ast.Unparen(c.Args[0]) // a conversion between reference types keeps the alias
										continue
									}
								}
								break
							}
							if v := pkgVar(e); v != nil {
								if tv, ok := pk.Info.Types[e]; ok && isRefType(tv.Type) {
									out = append(out, sharedUse{fn: fn, v: shortPkg(v.Pkg().Path()) + "." + v.Name(), how: "returned as a mutable alias", pos: w.pos(r.Pos()), pkgPath: pk.Path, escape: true})
								}
							}
						}
					case *ast.IncDecStmt:
						if v := pkgVar(x.X); v != nil {
							add(v, "incremented", x.Pos())
						}
					case *ast.RangeStmt:
						if x.Tok == token.ASSIGN {
							for _, l := range []ast.Expr{x.Key, x.Value} {
								if l != nil {
									if v := pkgVar(l); v != nil {
										add(v, "assigned by range", l.Pos())
									}
								}
							}
						}
					case *ast.UnaryExpr:
						if x.Op == token.AND {
							if v := pkgVar(x.X); v != nil {
								add(v, "address taken", x.Pos())
							}
						}
					case *ast.SliceExpr:
						if v := pkgVar(x.X); v != nil {
							if _, isArr := v.Type().Underlying().(*types.Array); isArr {
								add(v, "array sliced (mutable alias)", x.Pos())
							}
						}
					case *ast.CallExpr:
						if id, ok := ast.Unparen(x.Fun).(*ast.Ident); ok && len(x.Args) > 0 {
							if _, isB := pk.Info.Uses[id].(*types.Builtin); isB && (id.Name == "append" || id.Name == "copy") {
								if v := pkgVar(x.Args[0]); v != nil {
									add(v, id.Name+" into", x.Pos())
								}
							}
						}
						if sel, ok := ast.Unparen(x.Fun).(*ast.SelectorExpr); ok {
							if s, ok := pk.Info.Selections[sel]; ok && s.Kind() == types.MethodVal {
								if sig, ok := s.Obj().Type().(*types.Signature); ok && sig.Recv() != nil {
									if _, ptrRecv := sig.Recv().Type().(*types.Pointer); ptrRecv {
										if v := pkgVar(sel.X); v != nil {
											if _, isPtr := v.Type().Underlying().(*types.Pointer); !isPtr {
												add(v, "pointer-receiver method "+sel.Sel.Name+" called", x.Pos())
											}
										}
									}
								}
							}
						}
					}
					return true
				})
			}
		}
	}
	sort.Slice(out, func(i, j int) bool {
		if out[i].fn != out[j].fn {
			return out[i].fn < out[j].fn
		}
		if out[i].v != out[j].v {
			return out[i].v < out[j].v
		}
		return out[i].pos < out[j].pos
	})
	return out
}

// sharedResults turns the scan into obligation results for property C12.
func (w *World) sharedResults() []*obResult {
	decl := map[string]*SharedDecl{}
	for _, d := range w.Cs.Shared {
		decl[d.Var] = d
	}
	var res []*obResult
	seen := map[string]int{}
	for _, u := range w.sharedUses() {
		name := "shared:" + u.fn + ":" + u.v
		seen[name]++
		if seen[name] > 1 {
			name = fmt.Sprintf("%s~%d", name, seen[name])
		}
		tags := []string{"C12"}
		if u.escape {
			// what the variable feeds (e.g. the replacement text of Redact) is the business of the package's own properties
			for _, t := range homeProps(u.pkgPath + ".x") {
				if t != "C12" {
					tags = append(tags, t)
				}
			}
		}
		ob := &Obligation{Name: name, Tags: tags, Func: u.fn, Kind: "shared-state", Pos: u.pos,
			Descr: fmt.Sprintf("package-level variable %s is %s in %s", u.v, u.how, u.fn)}
		r := &obResult{Ob: ob}
		if d, ok := decl[u.v]; ok {
			r.Status, r.By = "discharged", "scan"
			ob.Descr += " -- declared shared: " + d.Why
			w.trustedNote("shared state " + u.v + ": " + d.Why)
		} else {
			r.Status = "undeclared"
			ob.Descr += " -- not declared `shared` in any contract file: two calls (also on different goroutines) can interfere through it"
		}
		res = append(res, r)
	}
	return res
}


// Restricted calls. `restrict SetMode in rfmt [tags] to f1, f2 "why"`: in package <pkg> (all functions of its non-test
// sources, with or without contract) the method may be called only inside the listed functions, whose contracts tie the
// call to the state it must agree with (the mode of the printer's buffer and the Safe/Unsafe context). A call anywhere
// else is an obligation "restricted:<function>:<Method>" that nothing discharges.
type RestrictDecl struct {
	Method, Pkg, Why string
	Tags             []string
	Allowed          []string
	File             string
	Line             int
}

func (w *World) restrictResults() []*obResult {
	var res []*obResult
	for _, rd := range w.Cs.Restrict {
		allowed := map[string]bool{}
		for _, a := range rd.Allowed {
			allowed[a] = true
		}
		n := 0
		for _, pk := range w.Pkgs {
			if pk.Types == nil || !inModule(pk.Types) || shortPkg(pk.Path) != rd.Pkg {
				continue
			}
			// a helper that is reachable only from allowed functions is as good as they are (a piece of printArg moved
			// into an unexported function of its own): callers inside the package, exported functions never qualify
			fnName := func(fd *ast.FuncDecl) string {
				n := fd.Name.Name
				if fd.Recv != nil && len(fd.Recv.List) == 1 {
					n = strings.TrimPrefix(exprString(fd.Recv.List[0].Type), "*") + "." + n
				}
				return n
			}
			callers := map[string]map[string]bool{}
			exported := map[string]bool{}
			for _, f := range pk.Files {
				if strings.HasSuffix(w.Fset.Position(f.Pos()).Filename, "_test.go") {
					continue
				}
				for _, d := range f.Decls {
					fd, ok := d.(*ast.FuncDecl)
					if !ok || fd.Body == nil {
						continue
					}
					from := fnName(fd)
					exported[from] = fd.Name.IsExported()
					ast.Inspect(fd.Body, func(nd ast.Node) bool {
						id, ok := nd.(*ast.Ident)
						if !ok {
							return true
						}
						if fo, ok := pk.Info.Uses[id].(*types.Func); ok && fo.Pkg() == pk.Types {
							to := fo.Name()
							if sig, ok := fo.Type().(*types.Signature); ok && sig.Recv() != nil {
								rt := sig.Recv().Type()
								if pt, ok := rt.(*types.Pointer); ok {
									rt = pt.Elem()
								}
								if nt, ok := types.Unalias(rt).(*types.Named); ok {
									to = nt.Obj().Name() + "." + to
								}
							}
							if callers[to] == nil {
								callers[to] = map[string]bool{}
							}
							callers[to][from] = true // any mention counts (also as a function value)
						}
						return true
					})
				}
			}
			okFn := map[string]bool{}
			for a := range allowed {
				okFn[a] = true
			}
			for changed := true; changed; {
				changed = false
				for fn, cs := range callers {
					if okFn[fn] || exported[fn] || len(cs) == 0 {
						continue
					}
					all := true
					for c := range cs {
						if !okFn[c] && c != fn {
							all = false
						}
					}
					if all {
						okFn[fn], changed = true, true
					}
				}
			}
			for _, f := range pk.Files {
				if strings.HasSuffix(w.Fset.Position(f.Pos()).Filename, "_test.go") {
					continue
				}
				for _, d := range f.Decls {
					fd, ok := d.(*ast.FuncDecl)
					if !ok || fd.Body == nil {
						continue
					}
					fn := fd.Name.Name
					if fd.Recv != nil && len(fd.Recv.List) == 1 {
						fn = strings.TrimPrefix(exprString(fd.Recv.List[0].Type), "*") + "." + fn
					}
					ast.Inspect(fd.Body, func(nd ast.Node) bool {
						c, ok := nd.(*ast.CallExpr)
						if !ok {
							return true
						}
						sel, ok := ast.Unparen(c.Fun).(*ast.SelectorExpr)
						mname, recvName := rd.Method, ""
						if i := strings.Index(mname, "."); i > 0 {
							recvName, mname = mname[:i], mname[i+1:]
						}
						if !ok || sel.Sel.Name != mname {
							return true
						}
						selInfo, ok := pk.Info.Selections[sel]
						if !ok || selInfo.Kind() != types.MethodVal {
							return true
						}
						if recvName != "" {
							// "T.m": only the method m of the named type T (value or pointer receiver)
							fnObj, _ := selInfo.Obj().(*types.Func)
							if fnObj == nil {
								return true
							}
							rt := fnObj.Type().(*types.Signature).Recv().Type()
							if pt, ok := rt.(*types.Pointer); ok {
								rt = pt.Elem()
							}
							nt, ok := types.Unalias(rt).(*types.Named)
							if !ok || nt.Obj().Name() != recvName {
								return true
							}
						}
						n++
						name := fmt.Sprintf("restricted:%s.%s:%s", rd.Pkg, fn, rd.Method)
						ob := &Obligation{Name: name, Tags: rd.Tags, Func: rd.Pkg + "." + fn, Kind: "restricted-call", Pos: w.pos(c.Pos()),
							Descr: fmt.Sprintf("%s is called in %s.%s", rd.Method, rd.Pkg, fn)}
						r := &obResult{Ob: ob}
						if allowed[fn] || allowed[fd.Name.Name] || okFn[fn] {
							r.Status, r.By = "discharged", "scan"
							ob.Descr += " -- one of the functions the contracts allow to do so: " + rd.Why
						} else {
							r.Status = "undeclared"
							ob.Descr += " -- which is not among the functions allowed to call it (" + strings.Join(rd.Allowed, ", ") + "): " + rd.Why
						}
						res = append(res, r)
						return true
					})
				}
			}
		}
		if n > 0 {
			w.trustedNote("restricted call " + rd.Method + " in " + rd.Pkg + ": " + rd.Why)
		}
	}
	// unique names
	seen := map[string]int{}
	for _, r := range res {
		seen[r.Ob.Name]++
		if k := seen[r.Ob.Name]; k > 1 {
			r.Ob.Name = fmt.Sprintf("%s~%d", r.Ob.Name, k)
		}
	}
	return res
}
