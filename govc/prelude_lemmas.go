package main

import (
	"fmt"
	"sort"
	"strings"
)

// Engine-level lemmas about the vocabulary of the byte layer. Every lemma is a
// pair of prelude predicates L_<name>_pre / L_<name>_post over abstract view
// arrays; contracts apply a lemma with `lemma Name(args)` (premise becomes an
// obligation, conclusion is assumed). Each lemma is proved here, once, by
// solver queries that are run with every check that uses the vocabulary
// (obligations "prelude:<lemma>.<part>"):
//   - the two inductive ones (DepCong, DepPlain) by explicit induction on the
//     upper bound, with ground instances of dep's defining equations as hints;
//   - the others directly from their premise plus instances of already proved
//     lemmas (listed in Uses; the dependency order is acyclic by construction
//     of the slice below).
// dep's defining equations are never given to the solver as quantified axioms.

type lemma struct {
	Name   string
	Params [][2]string // (name, kind) kind: arr | int | bool
	Pre    string      // SMT over the parameter names
	Post   []string    // conjuncts
	Uses   []string    // instances of earlier lemmas, as "(Name arg arg ...)"
	Hints  []string    // extra sound hints: ground instances of dep's definition "(unfold a t)"
	Custom []lemmaQuery
}

func smtKind(k string) string {
	switch k {
	case "arr":
		return "(Array Int Int)"
	case "int":
		return "Int"
	}
	return "Bool"
}

func unfoldHint(a, t string) string {
	return fmt.Sprintf("(assert (=> (>= %s 1) (= (dep %s %s) (+ (dep %s (- %s 1)) (depStep %s (- %s 1))))))\n(assert (=> (<= %s 0) (= (dep %s %s) 0)))\n", t, a, t, a, t, a, t, t, a, t)
}

var lemmas = []lemma{
	{
		Name:   "DepCong",
		Params: [][2]string{{"a", "arr"}, {"b", "arr"}, {"n", "int"}},
		Pre:    "(sameBytes a b n)",
		Post:   []string{"(forall ((j Int)) (=> (and (<= 0 j) (<= j n)) (= (dep a j) (dep b j))))"},
	},
	{
		Name:   "DepPlain",
		Params: [][2]string{{"a", "arr"}, {"lo", "int"}, {"hi", "int"}},
		Pre:    "(noMarker a (- lo 2) hi)",
		Post:   []string{"(depConst a lo hi)"},
	},
	{
		// appending cells that complete no marker keeps well-formedness and depth
		Name:   "AppendPlain",
		Params: [][2]string{{"a", "arr"}, {"a2", "arr"}, {"L", "int"}, {"L2", "int"}},
		Pre:    "(and (<= 0 L) (<= L L2) (sameBytes a2 a L) (WFP a L) (noMarker a2 (- L 2) L2))",
		Post:   []string{"(= (dep a2 L2) (dep a L))", "(depConst a2 L L2)", "(WFP a2 L2)"},
		Uses:   []string{"(DepCong a2 a L)", "(DepPlain a2 L L2)"},
	},
	{
		// ... and line-safety, if the new cells contain no line feed or lie at depth 0
		Name:   "AppendPlainLS",
		Params: [][2]string{{"a", "arr"}, {"a2", "arr"}, {"L", "int"}, {"L2", "int"}},
		Pre:    "(and (<= 0 L) (<= L L2) (sameBytes a2 a L) (WFP a L) (noMarker a2 (- L 2) L2) (LS a L) (or (= (dep a L) 0) (noNL a2 L L2)))",
		Post:   []string{"(LS a2 L2)"},
		Uses:   []string{"(DepCong a2 a L)", "(DepPlain a2 L L2)"},
	},
	{
		// appending one delimiter at the right depth
		Name:   "AppendDelim",
		Params: [][2]string{{"a", "arr"}, {"a2", "arr"}, {"L", "int"}, {"st", "bool"}},
		Pre:    "(and (<= 0 L) (sameBytes a2 a L) (WFP a L) (ite st (and (isS a2 L) (= (dep a L) 0)) (and (isE a2 L) (= (dep a L) 1))))",
		Post:   []string{"(= (dep a2 (+ L 3)) (ite st 1 0))", "(WFP a2 (+ L 3))", "(=> (LS a L) (LS a2 (+ L 3)))"},
		Uses:   []string{"(DepCong a2 a L)"},
		Hints:  []string{"(unfold a2 (+ L 3))", "(unfold a2 (+ L 2))", "(unfold a2 (+ L 1))"},
	},
	{
		// a byte-wise copy has the same structure
		Name:   "CopyWF",
		Params: [][2]string{{"a", "arr"}, {"a2", "arr"}, {"n", "int"}},
		Pre:    "(and (<= 0 n) (sameBytes a2 a n))",
		Post:   []string{"(= (dep a2 n) (dep a n))", "(=> (WFP a n) (WFP a2 n))", "(=> (LS a n) (LS a2 n))"},
		Uses:   []string{"(DepCong a2 a n)"},
	},
}

func init() {
	cells := "(forall ((t Int)) (=> (and (<= 0 t) (< t m)) (= (select a2 (+ L t)) (select p t))))"
	straddle := "(=> (>= L 2) (not (isM a2 (- L 2)))) (=> (>= L 1) (not (isM a2 (- L 1))))"
	lemmas = append(lemmas,
		lemma{
			// depth over an appended sequence p adds up, if no marker straddles the junction
			Name:   "DepShift",
			Params: [][2]string{{"a2", "arr"}, {"p", "arr"}, {"L", "int"}, {"m", "int"}},
			Pre:    "(and (<= 0 L) (<= 0 m) " + cells + " " + straddle + ")",
			Post:   []string{"(forall ((j Int)) (=> (and (<= 0 j) (<= j m)) (= (dep a2 (+ L j)) (+ (dep a2 L) (dep p j)))))"},
		},
		lemma{
			// appending a closed well-formed fragment to a closed, clean-ended well-formed string
			Name:   "ConcatWF",
			Params: [][2]string{{"a", "arr"}, {"a2", "arr"}, {"p", "arr"}, {"L", "int"}, {"m", "int"}},
			Pre:    "(and (<= 0 L) (<= 0 m) (sameBytes a2 a L) " + cells + " (WFP a L) (= (dep a L) 0) (clean a L) (WFP p m) (= (dep p m) 0))",
			Post:   []string{"(= (dep a2 (+ L m)) 0)", "(WFP a2 (+ L m))", "(=> (and (LS a L) (LS p m)) (LS a2 (+ L m)))"},
		})
}

func lemmaByName(n string) *lemma {
	for i := range lemmas {
		if lemmas[i].Name == n {
			return &lemmas[i]
		}
	}
	return nil
}

// lemmaPrelude defines L_<name>_pre/post.
func lemmaPrelude() string {
	var sb strings.Builder
	for _, l := range lemmas {
		var ps []string
		for _, p := range l.Params {
			ps = append(ps, fmt.Sprintf("(%s %s)", p[0], smtKind(p[1])))
		}
		fmt.Fprintf(&sb, "(define-fun L_%s_pre (%s) Bool %s)\n", l.Name, strings.Join(ps, " "), l.Pre)
		fmt.Fprintf(&sb, "(define-fun L_%s_post (%s) Bool (and %s true))\n", l.Name, strings.Join(ps, " "), strings.Join(l.Post, " "))
	}
	return sb.String()
}

type lemmaQuery struct {
	Name string
	Text string
}

func inductionQueries() []lemmaQuery {
	congDecl := `
(declare-const a (Array Int Int)) (declare-const b (Array Int Int)) (declare-const n Int)
(define-fun pre ((m Int)) Bool (L_DepCong_pre a b m))
(define-fun post ((m Int)) Bool (L_DepCong_post a b m))
`
	plainDecl := `
(declare-const a (Array Int Int)) (declare-const lo Int) (declare-const hi Int)
(define-fun pre ((h Int)) Bool (L_DepPlain_pre a lo h))
(define-fun post ((h Int)) Bool (L_DepPlain_post a lo h))
`
	// Hints are ground instances of formulas that are asserted (or proved by a
	// sibling query) anyway; they only spare the solver the instantiation search.
	congGoal := "(declare-const j Int)\n(assert (and (<= 0 j) (<= j n)))\n(assert (not (= (dep a j) (dep b j))))\n" + unfoldHint("a", "j") + unfoldHint("b", "j")
	congCells := ""
	for _, d := range []string{"1", "2", "3"} {
		congCells += fmt.Sprintf("(assert (=> (and (<= 0 (- j %s)) (< (- j %s) n)) (= (select a (- j %s)) (select b (- j %s)))))\n", d, d, d, d)
	}
	congIH := "(assert (=> (and (<= 0 (- j 1)) (<= (- j 1) (- n 1))) (= (dep a (- j 1)) (dep b (- j 1)))))\n"
	plainGoal := "(declare-const j Int)\n(assert (and (<= lo j) (<= j hi)))\n(assert (not (= (dep a j) (dep a lo))))\n" + unfoldHint("a", "j") + unfoldHint("a", "lo")
	plainIH := "(assert (=> (and (<= lo (- j 1)) (<= (- j 1) (- hi 1))) (= (dep a (- j 1)) (dep a lo))))\n"
	plainCell := "(assert (=> (and (<= 0 (- j 3)) (<= (- lo 2) (- j 3)) (<= j hi)) (not (isM a (- j 3)))))\n"
	return []lemmaQuery{
		{"DepCong.base", congDecl + "(assert (<= n 0))\n(assert (pre n))\n" + congGoal},
		{"DepCong.mono", congDecl + "(assert (pre n))\n(assert (not (pre (- n 1))))\n"},
		{"DepCong.step", congDecl + "(assert (>= n 1))\n(assert (post (- n 1)))\n(assert (pre n))\n" + congGoal + congIH + congCells},
		{"DepPlain.base", plainDecl + "(assert (<= hi lo))\n(assert (pre hi))\n" + plainGoal},
		{"DepPlain.mono", plainDecl + "(assert (pre hi))\n(assert (not (pre (- hi 1))))\n"},
		{"DepPlain.step", plainDecl + "(assert (> hi lo))\n(assert (post (- hi 1)))\n(assert (pre hi))\n" + plainGoal + plainIH + plainCell},
	}
}

func customQueries() []lemmaQuery {
	// DepShift by induction on m (goal skolemised at j; hints: definitions at the two points,
	// the induction hypothesis at j-1, the three cells read by depStep).
	sh := `
(declare-const a2 (Array Int Int)) (declare-const p (Array Int Int)) (declare-const L Int) (declare-const m Int)
(define-fun pre ((k Int)) Bool (L_DepShift_pre a2 p L k))
(define-fun post ((k Int)) Bool (L_DepShift_post a2 p L k))
(declare-const j Int)
(assert (and (<= 0 j) (<= j m)))
(assert (not (= (dep a2 (+ L j)) (+ (dep a2 L) (dep p j)))))
` + unfoldHint("a2", "(+ L j)") + unfoldHint("p", "j")
	shCells := ""
	for _, d := range []string{"1", "2", "3"} {
		shCells += fmt.Sprintf("(assert (=> (and (<= 0 (- j %s)) (< (- j %s) m)) (= (select a2 (+ L (- j %s))) (select p (- j %s)))))\n", d, d, d, d)
	}
	shIH := "(assert (=> (and (<= 0 (- j 1)) (<= (- j 1) (- m 1))) (= (dep a2 (+ L (- j 1))) (+ (dep a2 L) (dep p (- j 1))))))\n"
	// ConcatWF: goals skolemised by hand, with the shifted instances of WFP(p)/LS(p) as hints
	cw := `
(declare-const a (Array Int Int)) (declare-const a2 (Array Int Int)) (declare-const p (Array Int Int)) (declare-const L Int) (declare-const m Int)
(assert (L_ConcatWF_pre a a2 p L m))
(assert (=> (L_DepCong_pre a2 a L) (L_DepCong_post a2 a L)))
(assert (=> (L_DepShift_pre a2 p L m) (L_DepShift_post a2 p L m)))
(declare-const j Int)
`
	cells3 := ""
	for _, d := range []string{"0", "1", "2"} {
		cells3 += fmt.Sprintf("(assert (=> (and (<= 0 (+ (- j L) %s)) (< (+ (- j L) %s) m)) (= (select a2 (+ L (+ (- j L) %s))) (select p (+ (- j L) %s)))))\n", d, d, d, d)
	}
	return []lemmaQuery{
		{"DepShift.base", "\n(declare-const a2 (Array Int Int)) (declare-const p (Array Int Int)) (declare-const L Int) (declare-const m Int)\n(assert (<= m 0))\n(assert (L_DepShift_pre a2 p L m))\n(declare-const j Int)\n(assert (and (<= 0 j) (<= j m)))\n(assert (not (= (dep a2 (+ L j)) (+ (dep a2 L) (dep p j)))))\n" + unfoldHint("p", "j")},
		{"DepShift.mono", "\n(declare-const a2 (Array Int Int)) (declare-const p (Array Int Int)) (declare-const L Int) (declare-const m Int)\n(assert (>= m 1))\n(assert (L_DepShift_pre a2 p L m))\n(assert (not (L_DepShift_pre a2 p L (- m 1))))\n"},
		{"DepShift.step", sh + "(assert (>= m 1))\n(assert (post (- m 1)))\n(assert (pre m))\n" + shIH + shCells},
		{"ConcatWF.post1", cw + "(assert (not (= (dep a2 (+ L m)) 0)))\n"},
		// a start marker at j: old region, straddling (excluded by clean), or inside p at j-L
		{"ConcatWF.post2a", cw + "(assert (and (<= 0 j) (<= (+ j 3) (+ L m)) (isS a2 j)))\n(assert (not (= (dep a2 j) 0)))\n(assert (=> (and (<= 0 (- j L)) (<= (+ (- j L) 3) m) (isS p (- j L))) (= (dep p (- j L)) 0)))\n" + cells3},
		{"ConcatWF.post2b", cw + "(assert (and (<= 0 j) (<= (+ j 3) (+ L m)) (isE a2 j)))\n(assert (not (= (dep a2 j) 1)))\n(assert (=> (and (<= 0 (- j L)) (<= (+ (- j L) 3) m) (isE p (- j L))) (= (dep p (- j L)) 1)))\n" + cells3},
		{"ConcatWF.post3", cw + "(assert (LS a L))\n(assert (LS p m))\n(assert (and (<= 0 j) (< j (+ L m)) (= (select a2 j) 10)))\n(assert (not (= (dep a2 j) 0)))\n(assert (=> (and (<= 0 (- j L)) (< (- j L) m) (= (select p (- j L)) 10)) (= (dep p (- j L)) 0)))\n" + cells3},
	}
}

func lemmaQueries() []lemmaQuery {
	out := append(inductionQueries(), customQueries()...)
	for _, l := range lemmas {
		if l.Name == "DepCong" || l.Name == "DepPlain" || l.Name == "DepShift" || l.Name == "ConcatWF" {
			continue
		}
		var decl strings.Builder
		var names []string
		for _, p := range l.Params {
			fmt.Fprintf(&decl, "(declare-const %s %s)\n", p[0], smtKind(p[1]))
			names = append(names, p[0])
		}
		fmt.Fprintf(&decl, "(assert (L_%s_pre %s))\n", l.Name, strings.Join(names, " "))
		for _, u := range l.Uses {
			u = u[1 : len(u)-1]
			f := strings.SplitN(u, " ", 2)
			fmt.Fprintf(&decl, "(assert (=> (L_%s_pre %s) (L_%s_post %s)))\n", f[0], f[1], f[0], f[1])
		}
		for _, h := range l.Hints {
			h = h[1 : len(h)-1]
			f := strings.SplitN(h, " ", 3)
			if f[0] == "unfold" {
				decl.WriteString(unfoldHint(f[1], f[2]))
			}
		}
		for i, p := range l.Post {
			out = append(out, lemmaQuery{fmt.Sprintf("%s.post%d", l.Name, i+1), decl.String() + "(assert (not " + p + "))\n"})
		}
	}
	return out
}

func lemmaObligations() []*Query {
	var out []*Query
	for _, l := range lemmaQueries() {
		parts := strings.SplitN(l.Name, ".", 2)
		ob := &Obligation{Name: "prelude:" + l.Name, Kind: "lemma", Func: "prelude", Descr: "proof of lemma " + parts[0] + " (" + parts[1] + ")"}
		text := l.Text
		out = append(out, &Query{Ob: ob, Text: text, Size: len(text)})
	}
	sort.SliceStable(out, func(i, j int) bool { return out[i].Ob.Name < out[j].Ob.Name })
	return out
}

func (e *Env) applyLemma(c *specCtx, cl *Clause) {
	def := lemmaByName(cl.Lemma)
	if def == nil {
		e.errorf("unknown lemma %s", cl.Lemma)
		return
	}
	if len(cl.LArgs) != len(def.Params) {
		e.errorf("lemma %s expects %d arguments", cl.Lemma, len(def.Params))
		return
	}
	var args []*Term
	for i, p := range def.Params {
		a := cl.LArgs[i]
		switch p[1] {
		case "arr":
			args = append(args, c.seqArgs(a))
		case "int":
			args = append(args, c.intTerm(a))
		default:
			args = append(args, c.boolTerm(a))
		}
	}
	var cond *Term = True
	if cl.Expr != nil {
		cond = c.boolTerm(cl.Expr)
	}
	e.assert(Implies(cond, App("L_"+def.Name+"_pre", SBool, args...)), "lemma", fmt.Sprintf("%s.%d.pre", cl.Lemma, cl.Ord), cl.Tags, "premise of lemma "+cl.Text, fmt.Sprintf("%s:%d", e.fc.File, cl.Line))
	e.assume(Implies(cond, App("L_"+def.Name+"_post", SBool, args...)))
	e.usesLemma = true
}
