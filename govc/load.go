package main

import (
	"fmt"
	"go/ast"
	"go/build/constraint"
	"go/importer"
	"go/parser"
	"go/token"
	"go/types"
	"os"
	"path/filepath"
	"sort"
	"strings"
)

const modulePath = "github.com/cockroachdb/redact"

type Pkg struct {
	Path  string
	Dir   string
	Files []*ast.File
	Names []string
	Types *types.Package
	Info  *types.Info
	Funcs map[string]*ast.FuncDecl // key -> decl
}

type World struct {
	Root  string
	Fset  *token.FileSet
	Pkgs  map[string]*Pkg
	std   types.Importer
	Cs    *Contracts
	errs  []string
	Files map[string][]byte

	lits        map[string]string
	litByName   map[string]string
	notes       map[string]bool
	constRefs   map[string]int
	constSlices map[*types.Var]*string
	pureResult  map[string]Sort
	opaqueInvs  map[string]bool
	typeOfPred  map[string]types.Type // hasType$... predicate -> Go type
}

func NewWorld(root string) *World {
	fset := token.NewFileSet()
	w := &World{Root: root, Fset: fset, Pkgs: map[string]*Pkg{}, Files: map[string][]byte{}, opaqueInvs: map[string]bool{}}
	w.std = importer.ForCompiler(fset, "source", nil)
	w.Cs = &Contracts{Funcs: map[string]*FuncContract{}, TypeInvs: map[string]*TypeInvariant{}, Ghosts: map[string]string{}, Lemmas: map[string]*FuncContract{}, Preds: map[string]*Pred{}, GhostFields: map[string]map[string]string{}}
	return w
}

func (w *World) Import(path string) (*types.Package, error) {
	if path == modulePath || strings.HasPrefix(path, modulePath+"/") {
		p, err := w.Load(path)
		if err != nil {
			return nil, err
		}
		return p.Types, nil
	}
	return w.std.Import(path)
}

func fileWanted(src []byte) bool {
	// honour //go:build lines with the tag "verif" set (plus the usual GOOS/GOARCH)
	for _, line := range strings.Split(string(src), "\n") {
		t := strings.TrimSpace(line)
		if strings.HasPrefix(t, "package ") {
			break
		}
		if constraint.IsGoBuild(t) {
			x, err := constraint.Parse(t)
			if err != nil {
				return true
			}
			return x.Eval(func(tag string) bool {
				return tag == "verif" || tag == "linux" || tag == "amd64" || tag == "gc" || strings.HasPrefix(tag, "go1.")
			})
		}
	}
	return true
}

func (w *World) Load(path string) (*Pkg, error) {
	if p, ok := w.Pkgs[path]; ok {
		if p == nil {
			return nil, fmt.Errorf("import cycle at %s", path)
		}
		return p, nil
	}
	w.Pkgs[path] = nil
	dir := filepath.Join(w.Root, strings.TrimPrefix(strings.TrimPrefix(path, modulePath), "/"))
	ents, err := os.ReadDir(dir)
	if err != nil {
		return nil, err
	}
	p := &Pkg{Path: path, Dir: dir, Funcs: map[string]*ast.FuncDecl{}}
	var names []string
	for _, e := range ents {
		n := e.Name()
		if e.IsDir() || !strings.HasSuffix(n, ".go") || strings.HasSuffix(n, "_test.go") {
			continue
		}
		names = append(names, n)
	}
	sort.Strings(names)
	for _, n := range names {
		full := filepath.Join(dir, n)
		src, err := os.ReadFile(full)
		if err != nil {
			return nil, err
		}
		if !fileWanted(src) {
			continue
		}
		f, err := parser.ParseFile(w.Fset, full, src, parser.ParseComments)
		if err != nil {
			return nil, fmt.Errorf("parse %s: %v", full, err)
		}
		w.Files[full] = src
		p.Files = append(p.Files, f)
		p.Names = append(p.Names, n)
		// contracts
		for _, cg := range f.Comments {
			for _, c := range cg.List {
				if strings.HasPrefix(c.Text, "/*@") && strings.HasSuffix(c.Text, "@*/") {
					body := c.Text[3 : len(c.Text)-3]
					line := w.Fset.Position(c.Pos()).Line
					w.Cs.parseContractText(path, strings.TrimPrefix(full, w.Root+"/"), body, line)
				}
			}
		}
	}
	conf := types.Config{Importer: w, Error: func(err error) {
		w.errs = append(w.errs, err.Error())
	}}
	p.Info = &types.Info{
		Types:      map[ast.Expr]types.TypeAndValue{},
		Defs:       map[*ast.Ident]types.Object{},
		Uses:       map[*ast.Ident]types.Object{},
		Selections: map[*ast.SelectorExpr]*types.Selection{},
		Implicits:  map[ast.Node]types.Object{},
		Scopes:     map[ast.Node]*types.Scope{},
	}
	tp, err := conf.Check(path, w.Fset, p.Files, p.Info)
	if err != nil {
		return nil, fmt.Errorf("type-check %s: %v", path, err)
	}
	p.Types = tp
	for _, f := range p.Files {
		for _, d := range f.Decls {
			fd, ok := d.(*ast.FuncDecl)
			if !ok || fd.Body == nil {
				continue
			}
			obj := p.Info.Defs[fd.Name].(*types.Func)
			p.Funcs[funcKey(obj)] = fd
		}
	}
	w.Pkgs[path] = p
	return p, nil
}

// funcKey returns the contract key of a function object:
// pkgpath.Name, pkgpath.(*T).Name, pkgpath.T.Name (value receiver or interface method).
func funcKey(f *types.Func) string {
	sig := f.Type().(*types.Signature)
	pkg := ""
	if f.Pkg() != nil {
		pkg = f.Pkg().Path()
	}
	if r := sig.Recv(); r != nil {
		t := r.Type()
		ptr := false
		if pt, ok := t.(*types.Pointer); ok {
			ptr = true
			t = pt.Elem()
		}
		name := "?"
		if nt, ok := t.(*types.Named); ok {
			name = nt.Obj().Name()
			if nt.Obj().Pkg() != nil {
				pkg = nt.Obj().Pkg().Path()
			}
		} else if _, ok := t.(*types.Interface); ok {
			name = "anon"
		}
		if ptr {
			return pkg + ".(*" + name + ")." + f.Name()
		}
		return pkg + "." + name + "." + f.Name()
	}
	return pkg + "." + f.Name()
}

func (w *World) pos(p token.Pos) string {
	ps := w.Fset.Position(p)
	return fmt.Sprintf("%s:%d", strings.TrimPrefix(ps.Filename, w.Root+"/"), ps.Line)
}
