module govc

go 1.23
