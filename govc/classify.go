package main

import (
	"strings"
	"go/ast"
	"go/token"
	"go/types"
)

// Payload classes for the site obligations of the classification layer
// (DESIGN 3.2): 0 = literal/punctuation/format text, 1 = type name or
// diagnostic word, 2 = operand-derived. The rule is syntactic and
// deliberately conservative: anything not recognised is an operand.

func (e *Env) classVar(name string) *Term {
	n := "$class$" + name
	if _, ok := e.proc.Sorts[n]; !ok {
		e.declare(n, SInt)
		e.classVars = append(e.classVars, n)
	}
	return Var(n, SInt)
}

func maxClass(a, b *Term) *Term {
	if la, ok := litInt(a); ok {
		if lb, ok := litInt(b); ok {
			if la >= lb {
				return a
			}
			return b
		}
		if la == 0 {
			return b
		}
		if la == 2 {
			return a
		}
	}
	if lb, ok := litInt(b); ok {
		if lb == 0 {
			return a
		}
		if lb == 2 {
			return b
		}
	}
	return Ite(Ge(a, b), a, b)
}

func isReflectType(t types.Type) bool {
	return t != nil && types.TypeString(t, nil) == "reflect.Type"
}

func (e *Env) classify(x ast.Expr) *Term {
	if e.forceClass >= 0 {
		return IntLit(int64(e.forceClass))
	}
	return e.classifyRec(x, map[types.Object]bool{})
}

func (e *Env) classifyRec(x ast.Expr, visiting map[types.Object]bool) *Term {
	if tv, ok := e.info().Types[x]; ok && tv.Value != nil {
		return IntLit(0)
	}
	switch x := ast.Unparen(x).(type) {
	case *ast.BasicLit:
		return IntLit(0)
	case *ast.Ident:
		obj := e.info().Uses[x]
		if obj == nil {
			obj = e.info().Defs[x]
		}
		switch o := obj.(type) {
		case *types.Const, *types.Nil:
			return IntLit(0)
		case *types.Var:
			if o.Pkg() != nil && o.Parent() == o.Pkg().Scope() {
				return IntLit(2)
			}
			// parameter of the function under verification?
			for i, po := range e.paramObjs {
				if po == obj {
					if e.fc != nil && i < len(e.fc.Params) {
						for _, pub := range e.fc.Public {
							if pub == e.fc.Params[i] {
								return IntLit(1)
							}
						}
						if e.classPoly(e.fc.Params[i]) {
							return e.classVar(e.fc.Params[i])
						}
					}
					return IntLit(2)
				}
			}
			if e.inline > 0 {
				if t, ok := e.inlineClass[obj]; ok {
					return t
				}
			}
			if visiting[obj] {
				return IntLit(0)
			}
			defs, ok := e.localDefs[obj]
			if !ok || len(defs) == 0 {
				return IntLit(2)
			}
			visiting[obj] = true
			var c *Term = IntLit(0)
			for _, d := range defs {
				if d == nil {
					c = IntLit(2)
					break
				}
				c = maxClass(c, e.classifyRec(d, visiting))
			}
			delete(visiting, obj)
			return c
		}
		return IntLit(2)
	case *ast.SliceExpr:
		return e.classifyRec(x.X, visiting)
	case *ast.IndexExpr:
		return e.classifyRec(x.X, visiting)
	case *ast.BinaryExpr:
		return maxClass(e.classifyRec(x.X, visiting), e.classifyRec(x.Y, visiting))
	case *ast.SelectorExpr:
		if sel, ok := e.info().Selections[x]; ok && sel.Kind() == types.FieldVal {
			if types.TypeString(e.info().Types[x.X].Type, nil) == "reflect.StructField" && x.Sel.Name == "Name" {
				return IntLit(1)
			}
			return IntLit(2)
		}
		return IntLit(2)
	case *ast.CallExpr:
		if ft, ok := e.info().Types[x.Fun]; ok && ft.IsType() && len(x.Args) == 1 {
			return e.classifyRec(x.Args[0], visiting)
		}
		if se, ok := ast.Unparen(x.Fun).(*ast.SelectorExpr); ok {
			if sel, ok := e.info().Selections[se]; ok && sel.Kind() == types.MethodVal {
				if isReflectType(e.info().Types[se.X].Type) && se.Sel.Name == "String" {
					return IntLit(1)
				}
				return IntLit(2)
			}
			// package-level function: pure data functions of unicode/utf8 keep the class of their arguments
			if fo, ok := e.info().Uses[se.Sel].(*types.Func); ok && fo.Pkg() != nil && fo.Pkg().Path() == "unicode/utf8" {
				var c *Term = IntLit(0)
				for _, a := range x.Args {
					c = maxClass(c, e.classifyRec(a, visiting))
				}
				return c
			}
		}
		return IntLit(2)
	}
	return IntLit(2)
}

// collectLocalDefs records, for every local variable, the expressions
// assigned to it (nil = an assignment whose source is not an expression we track).
func collectLocalDefs(info *types.Info, body *ast.BlockStmt) map[types.Object][]ast.Expr {
	out := map[types.Object][]ast.Expr{}
	obj := func(x ast.Expr) types.Object {
		if id, ok := ast.Unparen(x).(*ast.Ident); ok {
			if o := info.Defs[id]; o != nil {
				return o
			}
			return info.Uses[id]
		}
		return nil
	}
	ast.Inspect(body, func(n ast.Node) bool {
		switch s := n.(type) {
		case *ast.AssignStmt:
			if s.Tok != token.ASSIGN && s.Tok != token.DEFINE {
				if o := obj(s.Lhs[0]); o != nil {
					out[o] = append(out[o], s.Rhs[0])
				}
				return true
			}
			if len(s.Lhs) == len(s.Rhs) {
				for i, l := range s.Lhs {
					if o := obj(l); o != nil {
						out[o] = append(out[o], s.Rhs[i])
					}
				}
			} else {
				for _, l := range s.Lhs {
					if o := obj(l); o != nil {
						out[o] = append(out[o], s.Rhs[0])
					}
				}
			}
		case *ast.RangeStmt:
			if s.Key != nil {
				if o := obj(s.Key); o != nil {
					out[o] = append(out[o], &ast.BasicLit{Kind: token.INT, Value: "0"})
				}
			}
			if s.Value != nil {
				if o := obj(s.Value); o != nil {
					out[o] = append(out[o], s.X)
				}
			}
		case *ast.ValueSpec:
			for i, nm := range s.Names {
				if o := info.Defs[nm]; o != nil {
					if i < len(s.Values) {
						out[o] = append(out[o], s.Values[i])
					} else {
						out[o] = append(out[o], &ast.BasicLit{Kind: token.INT, Value: "0"})
					}
				}
			}
		case *ast.IncDecStmt:
			// keeps the class
		case *ast.TypeSwitchStmt:
			// implicit objects are handled as operands (no entry)
		}
		return true
	})
	return out
}


// classPoly: a parameter is class-polymorphic iff the contract speaks about $class(param).
func (e *Env) classPoly(param string) bool {
	if e.fc == nil {
		return false
	}
	for _, cl := range e.fc.Clauses {
		if strings.Contains(cl.Text, "$class("+param+")") {
			return true
		}
	}
	return false
}
