package main

import (
	"go/ast"
	"go/types"
)

func (e *Env) builtin(x *ast.CallExpr, name string, rt types.Type) Value {
	switch name {
	case "len", "cap":
		v := e.expr(x.Args[0])
		switch v.K {
		case VSlice:
			if name == "cap" {
				return Value{K: VInt, T: v.Cap, Typ: rt}
			}
			return Value{K: VInt, T: v.Len, Typ: rt}
		case VStr:
			return Value{K: VInt, T: v.Len, Typ: rt}
		}
		r := e.fresh("len", SInt)
		e.assume(And(Le(IntLit(0), r), Le(r, Lit(sizeBound, SInt))))
		return Value{K: VInt, T: r, Typ: rt}
	case "append":
		return e.appendCall(x, rt)
	case "copy":
		dst := e.freeze(e.expr(x.Args[0]))
		src := e.freeze(e.expr(x.Args[1]))
		return e.copyCall(dst, src, rt)
	case "make":
		t := e.info().Types[x.Args[0]].Type
		if _, ok := t.Underlying().(*types.Slice); !ok {
			return e.unknown(t, "make")
		}
		n := e.freeze(e.expr(x.Args[1])).T
		c := n
		if len(x.Args) > 2 {
			c = e.freeze(e.expr(x.Args[2])).T
		}
		e.panicCheck(And(Le(IntLit(0), n), Le(n, c)), "make", "make: 0 <= len <= cap in "+exprString(x), x.Pos())
		// allocation failure is outside the claims: sizes stay below the assumed bound
		e.assume(Le(c, Lit(sizeBound, SInt)))
		_, eu := kindOf(t)
		ref := e.allocRef()
		if !eu {
			e.setMemArr(ref, Lit("((as const (Array Int Int)) 0)", SArr))
		}
		return Value{K: VSlice, Ref: ref, Off: IntLit(0), Len: n, Cap: c, ElemU: eu, Typ: t}
	case "panic":
		e.expr(x.Args[0])
		e.explicitPanic(x)
		return Value{K: VNone}
	case "recover":
		// only meaningful in a deferred function while unwinding
		pv := e.panicVar()
		payload := e.fresh("panicval", SU)
		e.assume(Ne(payload, App("nilU", SU)))
		r := e.tmp(Ite(pv, payload, App("nilU", SU)))
		e.assign("$panic", SBool, False)
		return Value{K: VU, T: r, Typ: rt}
	case "real", "imag":
		// the two parts of a complex value: functions of it
		if len(x.Args) == 1 {
			if v := e.expr(x.Args[0]); v.K == VU {
				return Value{K: VU, T: App("cplx$"+name, SU, v.T), Typ: rt}
			}
			return e.unknown(rt, name)
		}
		fallthrough
	case "complex":
		for _, a := range x.Args {
			e.expr(a)
		}
		return e.unknown(rt, name)
	case "new":
		t := e.info().Types[x.Args[0]].Type
		if _, _, ok := structOf(t); ok {
			z := e.zero(t)
			return Value{K: VPtr, T: z.T, Typ: rt}
		}
		return e.unknown(rt, "new")
	}
	e.errorf("%s: unsupported builtin %s", e.w.pos(x.Pos()), name)
	if rt == nil {
		return Value{K: VNone}
	}
	return e.unknownOf(rt)
}

// explicitPanic: a panic statement. In functions that may panic by contract it
// starts unwinding; elsewhere reaching it is a violation of the C11 sweep.
func (e *Env) explicitPanic(x *ast.CallExpr) {
	modP := false
	if e.fc != nil {
		for _, m := range e.fc.Modifies {
			if m == "$panic" {
				modP = true
			}
		}
	}
	if e.fc != nil && (e.fc.MayPanic || modP) {
		e.assign("$panic", SBool, True)
		e.leave()
		e.dead()
		return
	}
	e.panicCheck(False, "explicit", "panic statement unreachable: "+exprString(x), x.Pos())
	e.assume(False)
}

// srcView gives the source of a copy as (view array, start within the view, length):
// element t of the source is select(view, rel+t).
func (e *Env) srcView(v Value) (view, rel, n *Term, ok bool) {
	var arr *Term
	switch v.K {
	case VSlice:
		if v.ElemU {
			return nil, nil, nil, false
		}
		arr = e.tmp(Select(e.mem(), v.Ref))
	case VStr:
		arr = v.Arr
	default:
		return nil, nil, nil, false
	}
	if v.Base != nil {
		return viewOf(arr, v.Base), v.Rel, v.Len, true
	}
	return viewOf(arr, v.Off), IntLit(0), v.Len, true
}

func (e *Env) appendCall(x *ast.CallExpr, rt types.Type) Value {
	s := e.freeze(e.coerce(e.expr(x.Args[0]), rt))
	if s.K != VSlice {
		e.errorf("%s: unsupported append", e.w.pos(x.Pos()))
		return e.unknown(rt, "append")
	}
	if s.ElemU {
		if x.Ellipsis.IsValid() {
			e.expr(x.Args[1])
			e.errorf("%s: append(s, t...) on slices of opaque elements not modelled", e.w.pos(x.Pos()))
			return e.unknown(rt, "append")
		}
		var elems []*Term
		et := rt.Underlying().(*types.Slice).Elem()
		for _, a := range x.Args[1:] {
			elems = append(elems, e.box(e.coerce(e.expr(a), et)))
		}
		return e.appendU(s, elems, rt)
	}
	var view, rel, n *Term
	if x.Ellipsis.IsValid() {
		t := e.freeze(e.expr(x.Args[1]))
		var ok bool
		view, rel, n, ok = e.srcView(t)
		if !ok {
			e.errorf("%s: unsupported append source", e.w.pos(x.Pos()))
			return e.unknown(rt, "append")
		}
	} else {
		// individual elements: build a temporary array
		arr := Lit("((as const (Array Int Int)) 0)", SArr)
		for i, a := range x.Args[1:] {
			v := e.expr(a)
			arr = Store(arr, IntLit(int64(i)), v.T)
		}
		view, rel, n = e.tmp(arr), IntLit(0), IntLit(int64(len(x.Args)-1))
	}
	return e.appendSeq(s, view, rel, n, rt)
}

// appendU implements append(s, x1, ..., xn) on the memory of opaque elements (MemU): in place when the capacity
// allows, else into a fresh array that starts with the old elements.
func (e *Env) appendU(s Value, elems []*Term, rt types.Type) Value {
	n := IntLit(int64(len(elems)))
	fits := e.tmp(Le(Add(s.Len, n), s.Cap))
	oldA := e.tmp(Select(e.memU(), s.Ref))
	newRef := e.tmp(Ite(fits, s.Ref, e.nextRef()))
	newOff := e.tmp(Ite(fits, s.Off, IntLit(0)))
	newCap := e.fresh("appcap", SInt)
	newLen := e.tmp(Add(s.Len, n))
	e.assume(Implies(fits, Eq(newCap, s.Cap)))
	e.assume(Implies(Not(fits), And(Ge(newCap, newLen), Le(newCap, Lit(sizeBound, SInt)))))
	e.assume(Le(newLen, Lit(sizeBound, SInt)))
	newA := e.fresh("apparrU", SArrU)
	k := Bound("k$", SInt)
	lo := e.tmp(Add(newOff, s.Len))
	inNew := And(Le(lo, k), Lt(k, Add(lo, n)))
	for i, el := range elems {
		e.assume(Eq(Select(newA, Add(lo, IntLit(int64(i)))), el))
	}
	e.assume(Forall([]*Term{k}, And(
		Implies(And(fits, Not(inNew)), Eq(Select(newA, k), Select(oldA, k))),
		Implies(And(Not(fits), Le(IntLit(0), k), Lt(k, s.Len)), Eq(Select(newA, k), Select(oldA, Add(s.Off, k)))))))
	// the same on the views through which elements are read (instantiation help only)
	{
		t := Bound("t$", SInt)
		nv, ov := App("shiftU", SArrU, newA, newOff), App("shiftU", SArrU, oldA, s.Off)
		e.assume(Forall([]*Term{t}, Implies(And(Le(IntLit(0), t), Lt(t, s.Len)), Eq(Select(nv, t), Select(ov, t)))))
		for i, el := range elems {
			e.assume(Eq(Select(nv, Add(s.Len, IntLit(int64(i)))), el))
		}
	}
	e.assign("MemU", SMemU, Store(e.memU(), newRef, newA))
	e.assign("$nextRef", SInt, Ite(fits, e.nextRef(), Add(e.nextRef(), IntLit(1))))
	return Value{K: VSlice, Ref: newRef, Off: newOff, Len: newLen, Cap: newCap, Typ: rt, ElemU: true}
}

// appendSeq implements append(s, t...) on the byte memory; the appended
// elements are select(view, rel+0..n-1).
func (e *Env) appendSeq(s Value, view, rel, n *Term, rt types.Type) Value {
	fits := e.tmp(Le(Add(s.Len, n), s.Cap))
	oldA := e.tmp(Select(e.mem(), s.Ref))
	newRef := e.tmp(Ite(fits, s.Ref, e.nextRef()))
	newOff := e.tmp(Ite(fits, s.Off, IntLit(0)))
	newCap := e.fresh("appcap", SInt)
	newLen := e.tmp(Add(s.Len, n))
	e.assume(Implies(fits, Eq(newCap, s.Cap)))
	e.assume(Implies(Not(fits), And(Ge(newCap, newLen), Le(newCap, Lit(sizeBound, SInt)))))
	e.assume(Le(newLen, Lit(sizeBound, SInt)))
	newA := e.fresh("apparr", SArr)
	k := Bound("k$", SInt)
	lo := Add(newOff, s.Len)
	inNew := And(Le(lo, k), Lt(k, Add(lo, n)))
	e.assume(Forall([]*Term{k}, And(
		Implies(inNew, Eq(Select(newA, k), Select(view, Add(rel, Sub(k, lo))))),
		Implies(And(fits, Not(inNew)), Eq(Select(newA, k), Select(oldA, k))),
		Implies(And(Not(fits), Le(IntLit(0), k), Lt(k, s.Len)), Eq(Select(newA, k), Select(oldA, Add(s.Off, k)))))))
	e.noteMemWrite(newRef)
	e.assign("Mem", SMem, Store(e.mem(), newRef, newA))
	e.assign("$nextRef", SInt, Ite(fits, e.nextRef(), Add(e.nextRef(), IntLit(1))))
	e.noteUpdate(oldA, newA, Ite(fits, lo, IntLit(0)), fits)
	// consequences of the definition above, stated on the views (instantiation help only):
	// the old elements are kept, the new elements are the source's.
	{
		t := Bound("t$", SInt)
		nv, ov := viewOf(newA, newOff), viewOf(oldA, s.Off)
		e.assume(Forall([]*Term{t}, Implies(And(Le(IntLit(0), t), Lt(t, s.Len)), Eq(Select(nv, t), Select(ov, t)))))
		e.assume(Forall([]*Term{t}, Implies(And(Le(s.Len, t), Lt(t, newLen)), Eq(Select(nv, t), Select(view, Add(rel, Sub(t, s.Len)))))))
	}
	if e.useDep {
		// LemmaDepCong between the new view and its sources: the old contents (when reallocated)
		// and, when the destination was empty, the appended sequence itself.
		j := Bound("j$", SInt)
		e.assume(Implies(Not(fits), Forall([]*Term{j}, Implies(And(Le(IntLit(0), j), Le(j, s.Len)),
			Eq(App("dep", SInt, newA, j), App("dep", SInt, viewOf(oldA, s.Off), j))))))
		e.assume(Implies(Eq(s.Len, IntLit(0)), Forall([]*Term{j}, Implies(And(Le(IntLit(0), j), Le(j, n)),
			Eq(App("dep", SInt, viewOf(newA, newOff), j), App("dep", SInt, viewOf(view, rel), j))))))
	}
	return Value{K: VSlice, Ref: newRef, Off: newOff, Len: newLen, Cap: newCap, Typ: rt}
}

// noteUpdate is a hook for prefix-preservation lemmas (see prelude): when an
// array update keeps the cells below bound, spec functions that depend on a
// prefix only are equal on both arrays.
func (e *Env) noteUpdate(oldA, newA, bound, cond *Term) {
	for _, f := range prefixFns {
		f(e, oldA, newA, bound, cond)
	}
}

var prefixFns []func(e *Env, oldA, newA, bound, cond *Term)

func (e *Env) copyCall(dst, src Value, rt types.Type) Value {
	sView, sRel, sLen, ok := e.srcView(src)
	if !ok || dst.K != VSlice || dst.ElemU {
		e.errorf("unsupported copy")
		return e.unknown(rt, "copy")
	}
	n := e.tmp(Ite(Le(dst.Len, sLen), dst.Len, sLen))
	oldA := e.tmp(Select(e.mem(), dst.Ref))
	newA := e.fresh("cparr", SArr)
	k := Bound("k$", SInt)
	in := And(Le(dst.Off, k), Lt(k, Add(dst.Off, n)))
	e.assume(Forall([]*Term{k}, And(
		Implies(in, Eq(Select(newA, k), Select(sView, Add(sRel, Sub(k, dst.Off))))),
		Implies(Not(in), Eq(Select(newA, k), Select(oldA, k))))))
	e.noteMemWrite(dst.Ref)
	e.assign("Mem", SMem, Store(e.mem(), dst.Ref, newA))
	e.noteUpdate(oldA, newA, dst.Off, True)
	return Value{K: VInt, T: n, Typ: rt}
}

// conversion lowers T(x).
func (e *Env) conversion(x *ast.CallExpr, to types.Type) Value {
	arg := x.Args[0]
	from := e.info().Types[arg].Type
	v := e.expr(arg)
	kt, eut := kindOf(to)
	switch {
	case kt == VU:
		return Value{K: VU, T: e.box(v), Typ: to}
	case kt == VInt && v.K == VInt:
		return Value{K: VInt, T: convInt(v.T, from, to), Typ: to}
	case kt == VInt:
		return e.unknown(to, "conv")
	case kt == VStr && v.K == VStr:
		v.Typ = to
		return v
	case kt == VStr && v.K == VSlice:
		return Value{K: VStr, Arr: e.tmp(Select(e.mem(), v.Ref)), Off: v.Off, Len: v.Len, Typ: to}
	case kt == VStr && v.K == VInt:
		return e.unknown(to, "runestr")
	case kt == VSlice && v.K == VSlice:
		v.Typ = to
		v.ElemU = eut
		return v
	case kt == VSlice && v.K == VStr:
		ref := e.allocRef()
		e.setMemArr(ref, v.Arr)
		return Value{K: VSlice, Ref: ref, Off: v.Off, Len: v.Len, Cap: v.Len, Typ: to}
	case kt == VSlice && v.K == VNone:
		return e.zero(to)
	case (kt == VPtr || kt == VStruct) && (v.K == VPtr || v.K == VStruct):
		v.K = kt
		v.Typ = to
		return v
	case kt == VBool && v.K == VBool:
		v.Typ = to
		return v
	}
	e.errorf("%s: unsupported conversion %s", e.w.pos(x.Pos()), exprString(x))
	return e.unknown(to, "conv")
}

func intBits(t types.Type) (bits int, signed bool, ok bool) {
	b, isB := t.Underlying().(*types.Basic)
	if !isB {
		return 0, false, false
	}
	switch b.Kind() {
	case types.Int8:
		return 8, true, true
	case types.Int16:
		return 16, true, true
	case types.Int32:
		return 32, true, true
	case types.Int, types.Int64:
		return 64, true, true
	case types.Uint8:
		return 8, false, true
	case types.Uint16:
		return 16, false, true
	case types.Uint32:
		return 32, false, true
	case types.Uint, types.Uint64, types.Uintptr:
		return 64, false, true
	}
	return 0, false, false
}

func convInt(x *Term, from, to types.Type) *Term {
	fb, fs, ok1 := intBits(from)
	tb, ts, ok2 := intBits(to)
	if !ok1 || !ok2 {
		return x
	}
	// range inclusion?
	if fs == ts && fb <= tb {
		return x
	}
	if !fs && ts && fb < tb {
		return x
	}
	m := Bi("mod", SInt, x, pow2(int64(tb)))
	if !ts {
		return m
	}
	return Ite(Ge(m, pow2(int64(tb-1))), Sub(m, pow2(int64(tb))), m)
}
