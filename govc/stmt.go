package main

import (
	"bytes"
	"fmt"
	"go/ast"
	"go/parser"
	"go/printer"
	"go/token"
	"go/types"
	"strings"
)

func (e *Env) stmtText(s ast.Stmt) string {
	var buf bytes.Buffer
	_ = printer.Fprint(&buf, e.w.Fset, s)
	t := strings.Join(strings.Fields(buf.String()), " ")
	switch s.(type) {
	case *ast.IfStmt, *ast.ForStmt, *ast.RangeStmt, *ast.SwitchStmt, *ast.TypeSwitchStmt, *ast.BlockStmt:
		if i := strings.Index(t, " {"); i >= 0 {
			t = t[:i]
		}
	}
	return t
}

// stmtShape abstracts a statement to its kind and the names of the functions it calls, in source order.
// Two statements of the same shape differ only in operands, variable names and the like.
func stmtShape(s ast.Node) string {
	kind := fmt.Sprintf("%T", s)
	var calls []string
	ast.Inspect(s, func(n ast.Node) bool {
		if _, ok := n.(*ast.FuncLit); ok {
			return false
		}
		if c, ok := n.(*ast.CallExpr); ok {
			switch f := ast.Unparen(c.Fun).(type) {
			case *ast.SelectorExpr:
				calls = append(calls, f.Sel.Name)
			case *ast.Ident:
				if !predeclaredType[f.Name] { // conversions are not calls
					calls = append(calls, f.Name)
				}
			case *ast.ArrayType, *ast.StarExpr, *ast.MapType, *ast.InterfaceType:
				// conversion to a composite type
			default:
				calls = append(calls, "?")
			}
		}
		return true
	})
	if len(calls) == 0 {
		return ""
	}
	return kind + ":" + strings.Join(calls, ",")
}

var predeclaredType = map[string]bool{"string": true, "byte": true, "rune": true, "int": true, "int8": true, "int16": true, "int32": true, "int64": true,
	"uint": true, "uint8": true, "uint16": true, "uint32": true, "uint64": true, "uintptr": true, "float32": true, "float64": true, "complex64": true, "complex128": true, "bool": true, "error": true}

// resolveAnchors makes anchored clauses robust against harmless edits of the statement they name: when the
// exact text of an anchor occurs nowhere in the function, but exactly one statement has the same shape (same
// kind of statement, same called functions in the same order) and no other anchor names it, the clause is
// attached to that statement (reported in the notes of the run). Anything else stays a structure violation.
func (e *Env) resolveAnchors(body *ast.BlockStmt) {
	if e.fc == nil || body == nil {
		return
	}
	texts := map[string]int{}
	shapes := map[string][]string{}
	heads := map[string][]string{}
	inits := map[string][]string{}
	ast.Inspect(body, func(n ast.Node) bool {
		st, ok := n.(ast.Stmt)
		if !ok {
			return true
		}
		switch st.(type) {
		case *ast.BlockStmt, *ast.LabeledStmt, *ast.CaseClause, *ast.CommClause:
			return true
		}
		t := e.stmtText(st)
		texts[t]++
		switch st.(type) {
		case *ast.IfStmt, *ast.ForStmt, *ast.RangeStmt, *ast.SwitchStmt, *ast.TypeSwitchStmt:
			if k := e.initKey(st); k != "" {
				inits[k] = append(inits[k], t)
			}
			return true // compound statements are anchored by their header only
		}
		if sh := stmtShape(st); sh != "" {
			shapes[sh] = append(shapes[sh], t)
		}
		if h := headCall(st); h != "" {
			heads[h] = append(heads[h], t)
		}
		return true
	})
	anchorTexts := map[string]bool{}
	for _, cl := range e.fc.Clauses {
		cl.Resolved = ""
		if cl.Anchor != "" {
			anchorTexts[cl.Anchor] = true
		}
	}
	for _, cl := range e.fc.Clauses {
		if cl.Anchor == "" || strings.HasPrefix(cl.Anchor, "$") || texts[cl.Anchor] > 0 || cl.Occ != 0 {
			continue
		}
		f, err := parser.ParseFile(token.NewFileSet(), "", "package p\nfunc _() {\n"+cl.Anchor+"\n}", 0)
		if err != nil {
			// the header of a compound statement: same kind of statement with the same init statement
			// ("if err, ok := arg.(error); ..."), unique and not named by another anchor
			if f2, err2 := parser.ParseFile(token.NewFileSet(), "", "package p\nfunc _() {\n"+cl.Anchor+" {}\n}", 0); err2 == nil && len(f2.Decls) == 1 {
				if fd, ok := f2.Decls[0].(*ast.FuncDecl); ok && fd.Body != nil && len(fd.Body.List) == 1 {
					if k := e.initKey(fd.Body.List[0]); k != "" {
						var cands []string
						seen := map[string]bool{}
						for _, t := range inits[k] {
							if !seen[t] && !anchorTexts[t] && texts[t] == 1 {
								seen[t] = true
								cands = append(cands, t)
							}
						}
						if len(cands) == 1 {
							cl.Resolved = cands[0]
							e.w.trustedNote(fmt.Sprintf("anchor drift in %s: the clause anchored at %q was attached to %q (same kind of statement, same init statement, unique)", e.short, cl.Anchor, cands[0]))
						}
					}
				}
			}
			continue
		}
		if len(f.Decls) != 1 {
			continue
		}
		fd, ok := f.Decls[0].(*ast.FuncDecl)
		if !ok || fd.Body == nil || len(fd.Body.List) != 1 {
			continue
		}
		sh := stmtShape(fd.Body.List[0])
		if sh == "" {
			continue
		}
		var cands []string
		seen := map[string]bool{}
		for _, t := range shapes[sh] {
			if !seen[t] && !anchorTexts[t] && texts[t] == 1 {
				seen[t] = true
				cands = append(cands, t)
			}
		}
		if len(cands) == 1 {
			cl.Resolved = cands[0]
			e.w.trustedNote(fmt.Sprintf("anchor drift in %s: the clause anchored at %q was attached to %q (same statement shape, unique)", e.short, cl.Anchor, cands[0]))
			continue
		}
		// second tier, for a call statement: the only call statement of the function with the same outermost
		// callee (an argument that used to be computed in place is now computed by an earlier statement)
		if h := headCall(fd.Body.List[0]); h != "" && len(cands) == 0 {
			seen = map[string]bool{}
			for _, t := range heads[h] {
				if !seen[t] && !anchorTexts[t] && texts[t] == 1 {
					seen[t] = true
					cands = append(cands, t)
				}
			}
			if len(cands) == 1 {
				cl.Resolved = cands[0]
				e.w.trustedNote(fmt.Sprintf("anchor drift in %s: the clause anchored at %q was attached to %q (the only call statement with the same callee)", e.short, cl.Anchor, cands[0]))
			}
		}
	}
}

// initKey identifies a compound statement by its kind and the text of its init statement ("" without one).
func (e *Env) initKey(s ast.Node) string {
	var init ast.Stmt
	switch x := s.(type) {
	case *ast.IfStmt:
		init = x.Init
	case *ast.SwitchStmt:
		init = x.Init
	case *ast.TypeSwitchStmt:
		init = x.Init
	}
	if init == nil {
		return ""
	}
	var buf bytes.Buffer
	_ = printer.Fprint(&buf, token.NewFileSet(), init)
	return fmt.Sprintf("%T:%s", s, strings.Join(strings.Fields(buf.String()), " "))
}

// headCall names the callee of a statement that consists of one call ("" otherwise).
func headCall(s ast.Node) string {
	es, ok := s.(*ast.ExprStmt)
	if !ok {
		return ""
	}
	c, ok := ast.Unparen(es.X).(*ast.CallExpr)
	if !ok {
		return ""
	}
	switch f := ast.Unparen(c.Fun).(type) {
	case *ast.SelectorExpr:
		return exprString(f)
	case *ast.Ident:
		return f.Name
	}
	return ""
}

// anchored runs the ghost clauses anchored before/after statement s.
func (e *Env) anchored(s ast.Stmt, before bool) {
	if e.inline > 0 {
		if len(e.inlFc) == 0 || e.inlFc[len(e.inlFc)-1] == nil {
			return
		}
		if _, ok := s.(*ast.LabeledStmt); ok {
			return
		}
		ic := e.inlFc[len(e.inlFc)-1]
		text := e.stmtText(s)
		occ := ic.anchors[text]
		if before {
			occ++
			ic.anchors[text] = occ
		}
		for _, cl := range ic.fc.Clauses {
			if cl.Kind != "ghost" || cl.Anchor == "" || cl.Before != before || (cl.Anchor != text && cl.Resolved != text) || (cl.Occ != 0 && cl.Occ != occ) {
				continue
			}
			e.ghostClause(cl)
		}
		return
	}
	if e.fc == nil {
		return
	}
	if _, ok := s.(*ast.LabeledStmt); ok {
		return
	}
	text := e.stmtText(s)
	occ := e.anchors[text]
	if before {
		occ++
		e.anchors[text] = occ
	}
	for _, cl := range e.fc.Clauses {
		if cl.Anchor == "" || cl.Before != before || (cl.Anchor != text && cl.Resolved != text) {
			continue
		}
		if cl.Occ != 0 && cl.Occ != occ {
			continue
		}
		e.usedCl[cl] = true
		e.ghostClause(cl)
	}
}

func (e *Env) ghostClause(cl *Clause) {
	c := e.bodyCtx()
	switch cl.Kind {
	case "assert":
		t := c.boolTerm(cl.Expr)
		e.assert(t, "assert", fmt.Sprintf("%d", cl.Ord), cl.Tags, cl.Text, fmt.Sprintf("%s:%d", e.fc.File, cl.Line))
		e.assume(t)
	case "class":
		e.forceClass = cl.Int
	case "assume-fresh":
		v := c.tr(cl.Expr)
		if v.K == VSlice {
			// storage nobody else references (or none at all)
			e.assume(Or(Eq(v.Ref, IntLit(0)), Ge(v.Ref, e.nextRef())))
			e.assign("$nextRef", SInt, Ite(Eq(v.Ref, IntLit(0)), e.nextRef(), Add(v.Ref, IntLit(1))))
			e.w.trustedNote("assumed in " + e.short + ": the storage of " + cl.Expr.String() + " is referenced by nobody else (sync.Pool contract)")
			return
		}
		if v.K != VPtr {
			e.errorf("assume-fresh: %s is not a pointer", cl.Expr.String())
			return
		}
		e.assume(And(Gt(v.T, IntLit(0)), Ge(v.T, e.nextObj())))
		e.assign("$nextObj", SInt, Add(v.T, IntLit(1)))
		e.w.trustedNote("assumed in " + e.short + ": the object obtained at \"" + cl.Anchor + "\" is held by nobody else (sync.Pool contract)")
	case "assume-at":
		e.assume(c.boolTerm(cl.Expr))
		e.w.trustedNote("assumed in " + e.short + " (" + e.fc.File + "): " + cl.Text)
	case "ghost":
		v := c.tr(cl.Expr)
		e.ghostAssign(c, cl.TExpr, v)
	case "lemma":
		e.applyLemma(c, cl)
	}
}

func (e *Env) ghostAssign(c *specCtx, target *SExpr, v Value) {
	if target.Kind == "id" {
		if k, ok := e.w.Cs.Ghosts[target.Name]; ok {
			n := "ghost$" + target.Name
			switch k {
			case "u":
				e.assign(n, SU, e.box(v))
			case "bool":
				e.assign(n, SBool, v.T)
			case "seq":
				switch v.K {
				case VSlice:
					e.assign(n, SArr, viewOf(Select(e.mem(), v.Ref), v.Off))
				case VStr:
					e.assign(n, SArr, viewOf(v.Arr, v.Off))
				default:
					e.errorf("ghost seq assignment from non-sequence")
				}
			default:
				e.assign(n, SInt, v.T)
			}
			return
		}
	}
	if target.Kind == "sel" {
		base := c.tr(target.Args[0])
		if base.K == VPtr || base.K == VStruct {
			t := base.Typ
			if base.K == VPtr {
				t = derefType(t)
			}
			if steps, lf, _, ok := findField(t, target.Name); ok && lf != nil {
				e.storeField(subID(base.T, steps), *lf, v)
				return
			}
		}
	}
	e.errorf("ghost assignment to unsupported target %s", target.String())
}

// bodyCtx is the spec context for invariants/asserts inside the body: names
// are the current values of parameters (under their contract names) and locals.
func (e *Env) bodyCtx() *specCtx {
	names := map[string]Value{}
	if e.inline > 0 && len(e.inlFc) > 0 && e.inlFc[len(e.inlFc)-1] != nil {
		ic := e.inlFc[len(e.inlFc)-1]
		for i, n := range ic.fc.Params {
			if i < len(ic.paramObjs) && n != "_" && ic.paramObjs[i] != nil {
				o := ic.paramObjs[i]
				names[n] = e.readVar(e.localName(o), o.Type())
			}
		}
		return &specCtx{e: e, names: names, bound: map[string]*Term{}, oldMap: e.entryOld, classOf: e.ownClass}
	}
	if e.fc != nil {
		for i, n := range e.fc.Params {
			if i < len(e.paramObjs) && n != "_" {
				o := e.paramObjs[i]
				names[n] = e.readVar(e.localName(o), o.Type())
			}
		}
		for i, n := range e.fc.Results {
			if i < len(e.resultObs) && n != "_" {
				names[n] = e.readVar(e.resultVs[i], e.resultObs[i].Type())
			}
		}
	}
	return &specCtx{e: e, names: names, bound: map[string]*Term{}, oldMap: e.entryOld, classOf: e.ownClass}
}

// ownClass is the payload class of a parameter of the function under verification.
func (e *Env) ownClass(param string) *Term {
	if e.fc != nil {
		for _, pub := range e.fc.Public {
			if pub == param {
				return IntLit(1)
			}
		}
	}
	if e.classPoly(param) {
		return e.classVar(param)
	}
	return IntLit(2)
}

// entryOld maps a program variable to its value at function entry.
func (e *Env) entryOld(name string, s Sort) *Term {
	if strings.HasPrefix(name, "old$") || strings.HasPrefix(name, "pre$") {
		return nil
	}
	e.oldNeeded[name] = s
	e.declare("old$"+name, s)
	return Var("old$"+name, s)
}

func (e *Env) block(list []ast.Stmt) { e.blockT(list, false) }

// blockT lowers a statement list; tail says that the function ends right after it, in
// which case the branches of a final if/switch end their paths separately (no merge).
func (e *Env) blockT(list []ast.Stmt, tail bool) {
	for i, s := range list {
		e.forceClass = -1
		e.anchored(s, true)
		e.tail = tail && i == len(list)-1 && e.inline == 0 && e.postB == nil
		e.stmt(s)
		e.tail = false
		e.forceClass = -1
		e.anchored(s, false)
	}
}

// endBranch finishes a branch body. When the function ends right after the enclosing
// statement (tail) and this branch armed deferred calls of its own, its path ends here,
// separately; otherwise control joins the other branches.
func (e *Env) endBranch(tail bool, join *Block, armedBefore map[*deferSite]bool) {
	if tail {
		e.leave()
		e.dead()
		return
	}
	e.jump(join)
}

func (e *Env) stmt(s ast.Stmt) {
	switch s := s.(type) {
	case *ast.BlockStmt:
		e.blockT(s.List, e.tail)
	case *ast.EmptyStmt:
	case *ast.ExprStmt:
		e.expr(s.X)
	case *ast.AssignStmt:
		e.assignStmt(s)
	case *ast.IncDecStmt:
		v := e.expr(s.X)
		var r *Term
		if s.Tok == token.INC {
			r = Add(v.T, IntLit(1))
		} else {
			r = Sub(v.T, IntLit(1))
		}
		if v.K == VInt && v.Typ != nil {
			e.overflowCheck(r, v.Typ, s.Pos())
		}
		e.storeTo(s.X, Value{K: VInt, T: r, Typ: v.Typ})
	case *ast.DeclStmt:
		gd, ok := s.Decl.(*ast.GenDecl)
		if !ok {
			e.errorf("%s: unsupported declaration", e.w.pos(s.Pos()))
			return
		}
		if gd.Tok == token.CONST || gd.Tok == token.TYPE {
			return
		}
		for _, sp := range gd.Specs {
			vs := sp.(*ast.ValueSpec)
			for i, n := range vs.Names {
				obj := e.info().Defs[n]
				if obj == nil {
					continue
				}
				var v Value
				if i < len(vs.Values) {
					v = e.expr(vs.Values[i])
				} else {
					v = e.zero(obj.Type())
				}
				e.writeVar(e.localName(obj), obj.Type(), v)
				e.noteConst(obj, v)
			}
		}
	case *ast.IfStmt:
		e.ifStmt(s)
	case *ast.ForStmt:
		e.forStmt(s)
	case *ast.RangeStmt:
		e.rangeStmt(s)
	case *ast.SwitchStmt:
		e.switchStmt(s)
	case *ast.TypeSwitchStmt:
		e.typeSwitchStmt(s)
	case *ast.ReturnStmt:
		e.returnStmt(s)
	case *ast.BranchStmt:
		e.branchStmt(s)
	case *ast.LabeledStmt:
		e.pendingLabel = s.Label.Name
		e.anchored(s.Stmt, true)
		e.stmt(s.Stmt)
		e.anchored(s.Stmt, false)
	case *ast.DeferStmt:
		e.deferStmt(s)
	default:
		e.errorf("%s: unsupported statement %T", e.w.pos(s.Pos()), s)
	}
}

func (e *Env) assignStmt(s *ast.AssignStmt) {
	if s.Tok != token.ASSIGN && s.Tok != token.DEFINE {
		// op-assign
		op := map[token.Token]token.Token{token.ADD_ASSIGN: token.ADD, token.SUB_ASSIGN: token.SUB, token.MUL_ASSIGN: token.MUL,
			token.QUO_ASSIGN: token.QUO, token.REM_ASSIGN: token.REM, token.SHR_ASSIGN: token.SHR, token.SHL_ASSIGN: token.SHL,
			token.AND_ASSIGN: token.AND, token.OR_ASSIGN: token.OR}[s.Tok]
		bx := &ast.BinaryExpr{X: s.Lhs[0], Op: op, Y: s.Rhs[0], OpPos: s.TokPos}
		t := e.info().Types[s.Lhs[0]].Type
		e.info().Types[bx] = types.TypeAndValue{Type: t}
		v := e.binary(bx, t)
		delete(e.info().Types, bx)
		e.storeTo(s.Lhs[0], v)
		return
	}
	if len(s.Lhs) > 1 && len(s.Rhs) == 1 {
		// tuple: call, type assertion, map index
		var vals []Value
		switch r := ast.Unparen(s.Rhs[0]).(type) {
		case *ast.TypeAssertExpr:
			v, ok := e.typeAssert(r, true)
			vals = []Value{v, {K: VBool, T: ok}}
		case *ast.CallExpr:
			v := e.call(r)
			if v.K != VTuple {
				e.errorf("%s: call does not return a tuple", e.w.pos(s.Pos()))
				return
			}
			vals = v.Elems
		case *ast.IndexExpr:
			v := e.expr(r)
			vals = []Value{v, {K: VBool, T: e.fresh("mapok", SBool)}}
		default:
			e.errorf("%s: unsupported tuple assignment", e.w.pos(s.Pos()))
			return
		}
		for i := range vals {
			vals[i] = e.freeze(vals[i])
		}
		for i, l := range s.Lhs {
			if i < len(vals) {
				e.storeTo(l, vals[i])
			}
		}
		return
	}
	var vals []Value
	for _, r := range s.Rhs {
		v := e.expr(r)
		if len(s.Rhs) > 1 {
			v = e.freeze(v)
		}
		vals = append(vals, v)
	}
	for i, l := range s.Lhs {
		e.storeTo(l, vals[i])
	}
}

// storeTo assigns v to the lvalue l.
func (e *Env) storeTo(l ast.Expr, v Value) {
	switch x := ast.Unparen(l).(type) {
	case *ast.Ident:
		if x.Name == "_" {
			return
		}
		obj := e.info().Defs[x]
		if obj == nil {
			obj = e.info().Uses[x]
		}
		vo, ok := obj.(*types.Var)
		if !ok {
			e.errorf("%s: assignment to non-variable %s", e.w.pos(x.Pos()), x.Name)
			return
		}
		if vo.Parent() == vo.Pkg().Scope() {
			key := vo.Pkg().Path() + "." + vo.Name()
			e.globalWrites = append(e.globalWrites, key)
			e.writeVar("G$"+key, vo.Type(), v)
			return
		}
		e.writeVar(e.localName(vo), vo.Type(), v)
		if e.info().Defs[x] != nil {
			e.noteConst(vo, v)
		}
	case *ast.SelectorExpr:
		sel, ok := e.info().Selections[x]
		if !ok {
			// qualified package variable
			e.storeTo(x.Sel, v)
			return
		}
		base := e.expr(x.X)
		id, lf, st := e.walkSelection(base, sel, x.Pos())
		if id == nil {
			return
		}
		if lf == nil {
			if v.K == VNone {
				v = e.zero(st)
			}
			e.copyStruct(id, v.T, st)
			return
		}
		if v.K == VNone {
			v = e.zero(lf.Typ)
		}
		e.storeField(id, *lf, v)
	case *ast.IndexExpr:
		b := e.expr(x.X)
		i := e.expr(x.Index)
		if b.K != VSlice {
			e.errorf("%s: unsupported indexed assignment", e.w.pos(x.Pos()))
			return
		}
		e.panicCheck(And(Le(IntLit(0), i.T), Lt(i.T, b.Len)), "index", "index in range: "+exprString(x), x.Pos())
		if b.ElemU {
			mu := e.memU()
			e.assign("MemU", SMemU, Store(mu, b.Ref, Store(Select(mu, b.Ref), Add(b.Off, i.T), e.box(v))))
			return
		}
		if v.K != VInt {
			e.errorf("%s: storing non-integer into byte slice", e.w.pos(x.Pos()))
			return
		}
		m := e.mem()
		oldA := e.tmp(Select(m, b.Ref))
		newA := e.tmp(Store(oldA, Add(b.Off, i.T), v.T))
		e.noteMemWrite(b.Ref)
		e.assign("Mem", SMem, Store(m, b.Ref, newA))
		e.noteUpdate(oldA, newA, Add(b.Off, i.T), True)
	case *ast.StarExpr:
		p := e.expr(x.X)
		if p.K == VPtr && (v.K == VStruct || v.K == VPtr) {
			e.copyStruct(p.T, v.T, derefType(p.Typ))
			return
		}
		e.errorf("%s: unsupported store through pointer", e.w.pos(x.Pos()))
	default:
		e.errorf("%s: unsupported lvalue %T", e.w.pos(l.Pos()), l)
	}
}

func (e *Env) cond(x ast.Expr) *Term {
	v := e.expr(x)
	if v.K != VBool {
		e.errorf("%s: condition is not boolean", e.w.pos(x.Pos()))
		return e.fresh("cond", SBool)
	}
	return v.T
}

func (e *Env) ifStmt(s *ast.IfStmt) {
	if s.Init != nil {
		e.stmt(s.Init)
	}
	c := e.cond(s.Cond)
	head := e.cur
	thenB := e.newBlock("then")
	elseB := e.newBlock("else")
	join := e.newBlock("endif")
	head.Succ = append(head.Succ, thenB, elseB)
	tail := e.tail
	armed0 := e.cloneArmed()
	e.cur = thenB
	e.assume(c)
	e.blockT(s.Body.List, tail)
	thenDead := e.isDead()
	e.endBranch(tail, join, armed0)
	armed1 := e.mayArmed
	if thenDead {
		armed1 = map[*deferSite]bool{}
	}
	e.mayArmed = armed0
	e.cur = elseB
	e.assume(Not(c))
	if s.Else != nil {
		e.tail = tail
		e.stmt(s.Else)
		e.tail = false
		e.endBranch(tail, join, armed0)
	} else {
		e.jump(join)
	}
	e.unionArmed(armed1)
	e.cur = join
}

func (e *Env) pushCtx(c loopCtx) {
	if e.pendingLabel != "" {
		c.label = e.pendingLabel
		e.pendingLabel = ""
	}
	e.ctxStack = append(e.ctxStack, c)
}
func (e *Env) popCtx() { e.ctxStack = e.ctxStack[:len(e.ctxStack)-1] }

func (e *Env) branchStmt(s *ast.BranchStmt) {
	label := ""
	if s.Label != nil {
		label = s.Label.Name
	}
	switch s.Tok {
	case token.BREAK:
		for i := len(e.ctxStack) - 1; i >= 0; i-- {
			c := e.ctxStack[i]
			if label == "" || c.label == label {
				e.jump(c.breakB)
				e.dead()
				return
			}
		}
	case token.CONTINUE:
		for i := len(e.ctxStack) - 1; i >= 0; i-- {
			c := e.ctxStack[i]
			if c.isLoop && (label == "" || c.label == label) {
				e.jump(c.contB)
				e.dead()
				return
			}
		}
	case token.FALLTHROUGH:
		if e.fallB != nil {
			e.jump(e.fallB)
			e.dead()
			return
		}
	}
	e.errorf("%s: unsupported branch statement %s", e.w.pos(s.Pos()), s.Tok)
}

// loopInvariants returns the invariant clauses for loop n of the current function.
func (e *Env) loopInvariants(n int) []*Clause {
	var out []*Clause
	if e.fc == nil || e.inline > 0 {
		return nil
	}
	for _, cl := range e.fc.Clauses {
		if cl.Kind == "invariant" && cl.Loop == n {
			out = append(out, cl)
			e.usedCl[cl] = true
		}
	}
	return out
}

// loop builds the cut-point structure shared by for and range loops.
func (e *Env) loop(pos token.Pos, cond func() *Term, body func(), post func(), auto func() *Term) {
	n := 0
	if e.inline == 0 {
		e.loopOrd++
		n = e.loopOrd
	}
	invs := e.loopInvariants(n)
	lname := fmt.Sprintf("loop%d", n)
	if e.inline > 0 {
		lname = fmt.Sprintf("inl%d.loop", e.inline)
	}
	// invariant on entry
	for _, cl := range invs {
		c := e.bodyCtx()
		e.assert(c.boolTerm(cl.Expr), lname+".entry", fmt.Sprintf("inv%d", cl.Ord), cl.Tags, cl.Text, fmt.Sprintf("%s:%d", e.fc.File, cl.Line))
	}
	// automatic invariant: ownership of byte storage (see callContract)
	var ownInv []*Term
	if e.ownAuto != nil && e.inline == 0 {
		ownInv = e.ownAuto()
		for i, t := range ownInv {
			e.assert(t, lname+".entry", fmt.Sprintf("own%d", i+1), nil, "automatic invariant: byte-slice fields stay on their old array, a fresh one or nil", e.w.pos(pos))
		}
	}
	pre := e.cur
	head := e.newBlock(lname + "-head")
	pre.Succ = append(pre.Succ, head)
	condB := e.newBlock(lname + "-cond")
	head.Succ = append(head.Succ, condB)
	savedAssigned := e.assigned
	e.assigned = map[string]bool{}
	e.cur = condB
	var c *Term
	if cond != nil {
		c = cond()
	} else {
		c = True
	}
	condEnd := e.cur
	bodyB := e.newBlock(lname + "-body")
	exitB := e.newBlock(lname + "-exit")
	afterB := e.newBlock(lname + "-after")
	contB := e.newBlock(lname + "-cont")
	condEnd.Succ = append(condEnd.Succ, bodyB, exitB)
	exitB.Cmds = append(exitB.Cmds, Cmd{Kind: CAssume, T: Not(c)})
	exitB.Succ = append(exitB.Succ, afterB)
	e.cur = bodyB
	e.assume(c)
	e.pushCtx(loopCtx{breakB: afterB, contB: contB, isLoop: true})
	body()
	e.popCtx()
	e.jump(contB)
	e.cur = contB
	if post != nil {
		post()
	}
	for _, cl := range invs {
		cc := e.bodyCtx()
		e.assert(cc.boolTerm(cl.Expr), lname+".preserve", fmt.Sprintf("inv%d", cl.Ord), cl.Tags, cl.Text, fmt.Sprintf("%s:%d", e.fc.File, cl.Line))
	}
	if auto != nil {
		e.assert(auto(), lname+".preserve", "auto", nil, "automatic range-loop invariant", e.w.pos(pos))
	}
	if e.ownAuto != nil && e.inline == 0 {
		for i, t := range e.ownAuto() {
			e.assert(t, lname+".preserve", fmt.Sprintf("own%d", i+1), nil, "automatic invariant: byte-slice fields stay on their old array, a fresh one or nil", e.w.pos(pos))
		}
	}
	// back edge is cut here
	loopAssigned := e.assigned
	if e.frOn && loopAssigned["$fok"] {
		e.assertFrame(lname+".preserve", "automatic frame invariant: only what the modifies clause allows is written", e.w.pos(pos))
		sc := e.cur
		e.cur = pre
		e.assertFrame(lname+".entry", "automatic frame invariant: only what the modifies clause allows is written", e.w.pos(pos))
		e.cur = sc
	}
	e.assigned = savedAssigned
	for k := range loopAssigned {
		e.assigned[k] = true
	}
	// fill the head: havoc loop targets, assume invariants
	saveCur := e.cur
	e.cur = head
	for _, v := range sortedKeys(loopAssigned) {
		s, ok := e.proc.Sorts[v]
		if !ok {
			continue
		}
		e.emit(Cmd{Kind: CHavoc, Var: v, VS: s})
	}
	if loopAssigned["Mem"] {
		e.reassumeConsts()
	}
	// typing facts of the havocked locals
	for _, base := range sortedKeys(e.localTypes) {
		t := e.localTypes[base]
		k, _ := kindOf(t)
		touched := false
		for _, c := range compsOf(k) {
			if loopAssigned[base+c.Suf] {
				touched = true
			}
		}
		if !touched {
			continue
		}
		v := e.readVar(base, t)
		switch k {
		case VInt:
			e.assume(rangeAssume(v.T, t))
		case VSlice:
			e.assume(e.wfSlice(v))
		case VStr:
			e.assume(e.wfStr(v))
		}
	}
	if loopAssigned["$nextRef"] {
		// allocation counters only grow
		pr := e.freshName("loopref")
		pre.Cmds = append(pre.Cmds, Cmd{Kind: CAssign, Var: pr, VS: SInt, T: e.nextRef()})
		e.declare(pr, SInt)
		e.assume(Ge(e.nextRef(), Var(pr, SInt)))
	}
	if loopAssigned["$nextObj"] {
		pr := e.freshName("loopobj")
		pre.Cmds = append(pre.Cmds, Cmd{Kind: CAssign, Var: pr, VS: SInt, T: e.nextObj()})
		e.declare(pr, SInt)
		e.assume(Ge(e.nextObj(), Var(pr, SInt)))
	}
	for _, cl := range invs {
		cc := e.bodyCtx()
		e.assume(cc.boolTerm(cl.Expr))
	}
	if auto != nil {
		e.assume(auto())
	}
	if e.ownAuto != nil && e.inline == 0 {
		for _, t := range e.ownAuto() {
			e.assume(t)
		}
	}
	if e.frOn && loopAssigned["$fok"] {
		e.assume(Var("$fok", SBool))
	}
	e.cur = saveCur
	_ = saveCur
	e.cur = afterB
}

func (e *Env) forStmt(s *ast.ForStmt) {
	if s.Init != nil {
		e.stmt(s.Init)
	}
	var cond func() *Term
	if s.Cond != nil {
		cond = func() *Term { return e.cond(s.Cond) }
	}
	var post func()
	if s.Post != nil {
		post = func() { e.stmt(s.Post) }
	}
	e.loop(s.Pos(), cond, func() { e.block(s.Body.List) }, post, nil)
}

func (e *Env) rangeStmt(s *ast.RangeStmt) {
	x := e.freeze(e.expr(s.X))
	idx := e.freshName("ri")
	e.assign(idx, SInt, IntLit(0))
	iv := Var(idx, SInt)
	var n *Term
	isStr := false
	switch x.K {
	case VSlice:
		n = x.Len
	case VStr:
		n = x.Len
		isStr = true
	default:
		e.errorf("%s: unsupported range operand", e.w.pos(s.Pos()))
		return
	}
	define := func(id ast.Expr, v Value) {
		if id == nil {
			return
		}
		if ident, ok := id.(*ast.Ident); ok && ident.Name == "_" {
			return
		}
		e.storeTo(id, v)
	}
	auto := func() *Term { return And(Le(IntLit(0), iv), Le(iv, n)) }
	e.loop(s.Pos(),
		func() *Term { return Lt(iv, n) },
		func() {
			define(s.Key, Value{K: VInt, T: iv, Typ: types.Typ[types.Int]})
			if s.Value != nil {
				if isStr {
					define(s.Value, e.unknown(types.Typ[types.Rune], "rune"))
				} else {
					et := e.info().Types[s.X].Type.Underlying()
					var elt types.Type
					switch t := et.(type) {
					case *types.Slice:
						elt = t.Elem()
					case *types.Array:
						elt = t.Elem()
					}
					define(s.Value, e.readElem(x, iv, elt))
				}
			}
			e.block(s.Body.List)
		},
		func() {
			if isStr {
				w := e.fresh("runew", SInt)
				e.assume(And(Le(IntLit(1), w), Le(Add(iv, w), n)))
				e.assign(idx, SInt, Add(iv, w))
			} else {
				e.assign(idx, SInt, Add(iv, IntLit(1)))
			}
		}, auto)
}

func (e *Env) switchStmt(s *ast.SwitchStmt) {
	tail := e.tail
	e.tail = false
	if s.Init != nil {
		e.stmt(s.Init)
	}
	var tag Value
	hasTag := s.Tag != nil
	if hasTag {
		tag = e.freeze(e.expr(s.Tag))
	}
	after := e.newBlock("endswitch")
	e.pushCtx(loopCtx{breakB: after})
	clauses := s.Body.List
	bodies := make([]*Block, len(clauses))
	for i := range clauses {
		bodies[i] = e.newBlock("case-body")
	}
	var defaultIdx = -1
	// tests in order
	for i, c := range clauses {
		cc := c.(*ast.CaseClause)
		if cc.List == nil {
			defaultIdx = i
			continue
		}
		// any of the expressions matches
		var match *Term = False
		for _, x := range cc.List {
			var m *Term
			if hasTag {
				v := e.expr(x)
				m = e.equal(tag, v, x.Pos())
			} else {
				m = e.cond(x)
			}
			match = Or(match, m)
		}
		head := e.cur
		hit := e.newBlock("case-hit")
		miss := e.newBlock("case-miss")
		head.Succ = append(head.Succ, hit, miss)
		hit.Cmds = append(hit.Cmds, Cmd{Kind: CAssume, T: match})
		hit.Succ = append(hit.Succ, bodies[i])
		miss.Cmds = append(miss.Cmds, Cmd{Kind: CAssume, T: Not(match)})
		e.cur = miss
	}
	if defaultIdx >= 0 {
		e.jump(bodies[defaultIdx])
	} else {
		e.jump(after)
	}
	savedFall := e.fallB
	armed0 := e.cloneArmed()
	acc := e.cloneArmed()
	for i, c := range clauses {
		cc := c.(*ast.CaseClause)
		e.cur = bodies[i]
		if i+1 < len(clauses) {
			e.fallB = bodies[i+1]
		} else {
			e.fallB = nil
		}
		// a case body may be entered by fallthrough from the previous one: keep what that one armed
		if i == 0 || !endsInFallthrough(clauses[i-1].(*ast.CaseClause)) {
			e.mayArmed = cloneArmedMap(armed0)
		}
		e.blockT(cc.Body, tail)
		caseDead := e.isDead()
		e.endBranch(tail, after, armed0)
		for k, v := range e.mayArmed {
			if v && !caseDead {
				acc[k] = true
			}
		}
	}
	e.mayArmed = acc
	e.fallB = savedFall
	e.popCtx()
	e.cur = after
}

func (e *Env) typeSwitchStmt(s *ast.TypeSwitchStmt) {
	tail := e.tail
	e.tail = false
	if s.Init != nil {
		e.stmt(s.Init)
	}
	var x ast.Expr
	var bind *ast.Ident
	switch a := s.Assign.(type) {
	case *ast.ExprStmt:
		x = a.X.(*ast.TypeAssertExpr).X
	case *ast.AssignStmt:
		x = a.Rhs[0].(*ast.TypeAssertExpr).X
		bind = a.Lhs[0].(*ast.Ident)
	}
	_ = bind
	v := e.freeze(e.expr(x))
	tsArmed0 := e.cloneArmed()
	tsAcc := e.cloneArmed()
	after := e.newBlock("endtypeswitch")
	e.pushCtx(loopCtx{breakB: after})
	var defaultClause *ast.CaseClause
	for _, c := range s.Body.List {
		cc := c.(*ast.CaseClause)
		if cc.List == nil {
			defaultClause = cc
			continue
		}
		var match *Term = False
		var single types.Type
		for _, tx := range cc.List {
			tt := e.info().Types[tx]
			if tt.IsNil() {
				match = Or(match, Eq(e.box(v), App("nilU", SU)))
				continue
			}
			match = Or(match, e.hasType(v, tt.Type))
			if len(cc.List) == 1 {
				single = tt.Type
			}
		}
		head := e.cur
		hit := e.newBlock("tcase-hit")
		miss := e.newBlock("tcase-miss")
		head.Succ = append(head.Succ, hit, miss)
		e.cur = hit
		e.mayArmed = cloneArmedMap(tsArmed0)
		e.assume(match)
		if obj := e.info().Implicits[cc]; obj != nil {
			var bv Value
			if single != nil {
				bv = e.extract(v, single)
			} else {
				bv = v
			}
			e.writeVar(e.localName(obj), obj.Type(), bv)
		}
		e.blockT(cc.Body, tail)
		tcDead := e.isDead()
		e.endBranch(tail, after, tsArmed0)
		for k, v := range e.mayArmed {
			if v && !tcDead {
				tsAcc[k] = true
			}
		}
		e.cur = miss
		e.assume(Not(match))
	}
	e.mayArmed = cloneArmedMap(tsArmed0)
	if defaultClause != nil {
		if obj := e.info().Implicits[defaultClause]; obj != nil {
			e.writeVar(e.localName(obj), obj.Type(), v)
		}
		e.blockT(defaultClause.Body, tail)
		e.endBranch(tail, after, tsArmed0)
	} else {
		e.jump(after)
	}
	e.unionArmed(tsAcc)
	e.popCtx()
	e.cur = after
}

func (e *Env) returnStmt(s *ast.ReturnStmt) {
	var resultVs []string
	var resultObs []types.Object
	var retB *Block
	if n := len(e.inlineRet); n > 0 {
		fr := e.inlineRet[n-1]
		resultVs, resultObs, retB = fr.results, fr.resObs, fr.retB
	} else {
		resultVs, resultObs = e.resultVs, e.resultObs
	}
	if len(s.Results) == 1 && len(resultVs) > 1 {
		v := e.expr(s.Results[0])
		if v.K == VTuple {
			for i, rv := range resultVs {
				e.writeVar(rv, resultObs[i].Type(), v.Elems[i])
			}
		}
	} else if len(s.Results) > 0 {
		var vals []Value
		for _, r := range s.Results {
			vals = append(vals, e.freeze(e.expr(r)))
		}
		for i, rv := range resultVs {
			if i < len(vals) {
				e.writeVar(rv, resultObs[i].Type(), vals[i])
			}
		}
	}
	if retB != nil {
		e.jump(retB)
	} else {
		e.leave()
	}
	e.dead()
}

func allLit(ts ...*Term) bool {
	for _, t := range ts {
		if t == nil || t.Op != "lit" {
			return false
		}
	}
	return true
}

// noteConst records the value of a single-assignment local that is a
// compile-time constant (propagated so that constant operands stay visible).
func (e *Env) noteConst(obj types.Object, v Value) {
	if e.assignCount[obj] != 1 || e.inline > 0 {
		return
	}
	k, _ := kindOf(obj.Type())
	if v.K != k {
		return
	}
	switch v.K {
	case VInt, VBool:
		if allLit(v.T) {
			v.Typ = obj.Type()
			e.constVals[obj] = v
		}
	case VSlice:
		if allLit(v.Ref, v.Off, v.Len, v.Cap) {
			v.Typ = obj.Type()
			e.constVals[obj] = v
		}
	}
}

// countAssignments counts, per local variable, the statements that assign it.
func countAssignments(info *types.Info, body *ast.BlockStmt) map[types.Object]int {
	out := map[types.Object]int{}
	note := func(x ast.Expr) {
		if id, ok := ast.Unparen(x).(*ast.Ident); ok {
			if o := info.Defs[id]; o != nil {
				out[o]++
			} else if o := info.Uses[id]; o != nil {
				out[o]++
			}
		}
	}
	ast.Inspect(body, func(n ast.Node) bool {
		switch s := n.(type) {
		case *ast.AssignStmt:
			for _, l := range s.Lhs {
				note(l)
			}
		case *ast.IncDecStmt:
			note(s.X)
		case *ast.RangeStmt:
			if s.Key != nil {
				note(s.Key)
			}
			if s.Value != nil {
				note(s.Value)
			}
		case *ast.ValueSpec:
			for _, nm := range s.Names {
				note(nm)
			}
		case *ast.UnaryExpr:
			if s.Op == token.AND {
				note(s.X)
				note(s.X) // address taken: never treat as constant
			}
		}
		return true
	})
	return out
}

func cloneArmedMap(m map[*deferSite]bool) map[*deferSite]bool {
	out := map[*deferSite]bool{}
	for k, v := range m {
		out[k] = v
	}
	return out
}

func (e *Env) cloneArmed() map[*deferSite]bool { return cloneArmedMap(e.mayArmed) }

func (e *Env) isDead() bool { return strings.HasPrefix(e.cur.Note, "dead") && len(e.cur.Cmds) == 0 }

func (e *Env) unionArmed(o map[*deferSite]bool) {
	for k, v := range o {
		if v {
			e.mayArmed[k] = true
		}
	}
}

func endsInFallthrough(cc *ast.CaseClause) bool {
	if len(cc.Body) == 0 {
		return false
	}
	bs, ok := cc.Body[len(cc.Body)-1].(*ast.BranchStmt)
	return ok && bs.Tok == token.FALLTHROUGH
}
