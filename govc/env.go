package main

import (
	"fmt"
	"go/ast"
	"go/types"
	"strings"
)

type deferSite struct {
	idx   int
	armed string // Bool program variable
	call  *ast.CallExpr
	recv  Value // evaluated receiver (for x.f().g(): value of x.f())
	hasRV bool
	args  []Value
	argExprs []ast.Expr
	fn    *types.Func
	lit   *ast.FuncLit // a deferred parameterless function literal (runs inline, sees the variables it captures)
	pkg   *Pkg
}

type loopCtx struct {
	label     string
	breakB    *Block
	contB     *Block
	isLoop    bool // false for switch (break only)
}

type Env struct {
	w     *World
	pkg   *Pkg // package of the code currently being lowered (changes while inlining)
	fd    *ast.FuncDecl
	fn    *types.Func
	fc    *FuncContract
	proc  *Proc
	cur   *Block
	short string // obligation prefix, e.g. buffer.(*Buffer).Write

	locals    map[types.Object]string
	nlocal    int
	nfresh    int
	assigned  map[string]bool
	callOrd   map[string]int
	loopOrd   int
	ctxStack  []loopCtx
	postB     *Block // where every path ends after its deferred calls; the contract is checked here
	unwindTo  *Block // set while a deferred call runs: where a panic in it continues
	mayArmed  map[*deferSite]bool
	postFn    func()
	pathTag   string
	tail      bool
	ownAssume []*Term
	ownAuto   func() []*Term
	frOn      bool
	unsafeCasts []*Term // refs of byte arrays that were reinterpreted as strings (see aliasObligations)
	frObjs    []*Term
	frLeaves  map[string][]*Term
	frRefs    []*Term
	frRefConds []*Term // parallel to frRefs: the array may be written only if this held at entry (nil: always)
	key       string
	noSplit   bool
	fnPkg     string // package of the function under verification (invariants of its types are concrete)
	forceConcreteInv bool
	unwindChains map[string]*Block
	resultObs []types.Object
	resultVs  []string // base names of result variables
	defers    []*deferSite
	oldNeeded map[string]Sort
	snapB     *Block
	strLits   map[string]string // content -> symbol
	inline    int
	anchors   map[string]int // statement text -> occurrences seen
	usedCl    map[*Clause]bool
	trusted   map[string]bool // assumed contracts / unmodelled calls used
	errors    []string
	specLocals map[string]types.Object // name -> most recent local object (for invariants)
	retOrd    int
	panicOrd  map[string]int
	constGlobals map[string]string // ref literal -> strlit symbol, re-assumed after each Mem change
	ghostParams map[string]Value
	inlineRet []*inlineFrame
	sweep     bool
	hasMayPanicCall bool
	pendingLabel string
	paramObjs    []types.Object
	inlFc        []*inlCtx
	globalWrites []string
	nonNil       map[string]bool
	fallB        *Block
	deferInit    []string
	useDep       bool
	usesDep      bool
	usesLemma    bool
	constVals    map[types.Object]Value
	assignCount  map[types.Object]int
	localTypes   map[string]types.Type
	classVars    []string
	forceClass   int
	localDefs    map[types.Object][]ast.Expr
	inlineClass  map[types.Object]*Term
	curCallArgs  []ast.Expr
	curCallHasRecv bool
}

type inlineFrame struct {
	lit     bool
	retB    *Block
	key     string
	results []string
	resObs  []types.Object
	sig     *types.Signature
}

func (e *Env) errorf(format string, a ...interface{}) {
	e.errors = append(e.errors, fmt.Sprintf(format, a...))
}

func (e *Env) info() *types.Info { return e.pkg.Info }

func (e *Env) declare(name string, s Sort) { e.proc.declare(name, s) }

func (e *Env) emit(c Cmd) { e.cur.Cmds = append(e.cur.Cmds, c) }

func (e *Env) assume(t *Term) {
	if t == nil || isTrue(t) {
		return
	}
	e.emit(Cmd{Kind: CAssume, T: t})
}

func (e *Env) assign(name string, s Sort, t *Term) {
	e.declare(name, s)
	e.assigned[name] = true
	e.emit(Cmd{Kind: CAssign, Var: name, VS: s, T: t})
	if name == "Mem" {
		e.reassumeConsts()
	}
}

func (e *Env) havoc(name string, s Sort) {
	e.declare(name, s)
	e.assigned[name] = true
	e.emit(Cmd{Kind: CHavoc, Var: name, VS: s})
	if name == "Mem" {
		e.reassumeConsts()
	}
}

func (e *Env) reassumeConsts() {
	for _, ref := range sortedKeys(e.constGlobals) {
		e.emit(Cmd{Kind: CAssume, T: Eq(Select(e.mem(), Lit(ref, SInt)), App(e.constGlobals[ref], SArr))})
	}
}

// assert emits a named obligation.
func (e *Env) assert(t *Term, kind, detail string, tags []string, descr string, pos string) {
	// conjunctions are proved conjunct by conjunct (smaller queries, precise diagnostics)
	if false && t.Op == "and" && len(t.Args) > 1 && !e.noSplit {
		for i, c := range t.Args {
			e.assert(c, kind, fmt.Sprintf("%s.c%d", detail, i+1), tags, descr+" [conjunct "+fmt.Sprint(i+1)+": "+abbrev(c.String())+"]", pos)
			e.assume(c)
		}
		return
	}
	name := e.short + "#" + kind
	if detail != "" {
		name += "." + detail
	}
	name += e.pathTag
	ob := &Obligation{Name: name, Tags: tags, Func: e.short, Kind: kind, Descr: descr, Pos: pos}
	e.emit(Cmd{Kind: CAssert, T: t, Ob: ob})
}

func (e *Env) fresh(prefix string, s Sort) *Term {
	e.nfresh++
	name := fmt.Sprintf("%s$%d", prefix, e.nfresh)
	e.havoc(name, s)
	return Var(name, s)
}

func (e *Env) freshName(prefix string) string {
	e.nfresh++
	return fmt.Sprintf("%s$%d", prefix, e.nfresh)
}

func (e *Env) newBlock(note string) *Block { return e.proc.NewBlock(note) }

func (e *Env) jump(to *Block) {
	e.cur.Succ = append(e.cur.Succ, to)
}

// dead starts an unreachable continuation block (after return/break/...).
func (e *Env) dead() {
	e.cur = e.newBlock("dead")
}

// global state variables
func (e *Env) mem() *Term     { e.declare("Mem", SMem); return Var("Mem", SMem) }
func (e *Env) memU() *Term    { e.declare("MemU", SMemU); return Var("MemU", SMemU) }
func (e *Env) nextRef() *Term { e.declare("$nextRef", SInt); return Var("$nextRef", SInt) }
func (e *Env) nextObj() *Term { e.declare("$nextObj", SInt); return Var("$nextObj", SInt) }
func (e *Env) panicVar() *Term {
	e.declare("$panic", SBool)
	return Var("$panic", SBool)
}

// ---------------------------------------------------------------------
// local variables

func compsOf(k VK) []struct {
	Suf string
	S   Sort
} {
	type c = struct {
		Suf string
		S   Sort
	}
	switch k {
	case VInt, VPtr, VStruct:
		return []c{{"", SInt}}
	case VBool:
		return []c{{"", SBool}}
	case VU:
		return []c{{"", SU}}
	case VSlice:
		return []c{{".ref", SInt}, {".off", SInt}, {".len", SInt}, {".cap", SInt}}
	case VStr:
		return []c{{".arr", SArr}, {".off", SInt}, {".len", SInt}}
	}
	panic(fmt.Sprintf("compsOf %v", k))
}

func (e *Env) localName(obj types.Object) string {
	if n, ok := e.locals[obj]; ok {
		return n
	}
	e.nlocal++
	n := fmt.Sprintf("%s~%d", obj.Name(), e.nlocal)
	e.locals[obj] = n
	e.localTypes[n] = obj.Type()
	k, _ := kindOf(obj.Type())
	for _, c := range compsOf(k) {
		e.declare(n+c.Suf, c.S)
	}
	if obj.Name() != "_" && e.inline == 0 {
		e.specLocals[obj.Name()] = obj
	}
	if obj.Name() != "_" && e.inline > 0 && len(e.inlFc) > 0 && e.inlFc[len(e.inlFc)-1] != nil {
		e.inlFc[len(e.inlFc)-1].locals[obj.Name()] = obj
	}
	return n
}

// readVar builds the value stored in program variable(s) base of Go type t.
func (e *Env) readVar(base string, t types.Type) Value {
	k, eu := kindOf(t)
	for _, c := range compsOf(k) {
		e.declare(base+c.Suf, c.S)
	}
	switch k {
	case VInt:
		return Value{K: VInt, T: Var(base, SInt), Typ: t}
	case VBool:
		return Value{K: VBool, T: Var(base, SBool), Typ: t}
	case VU:
		return Value{K: VU, T: Var(base, SU), Typ: t}
	case VPtr, VStruct:
		return Value{K: k, T: Var(base, SInt), Typ: t}
	case VSlice:
		return Value{K: VSlice, Ref: Var(base+".ref", SInt), Off: Var(base+".off", SInt), Len: Var(base+".len", SInt), Cap: Var(base+".cap", SInt), ElemU: eu, Typ: t}
	case VStr:
		return Value{K: VStr, Arr: Var(base+".arr", SArr), Off: Var(base+".off", SInt), Len: Var(base+".len", SInt), Typ: t}
	}
	panic("readVar")
}

// writeVar assigns v to the variable(s) base of type t. Struct values are
// copied field-wise into the variable's own object.
func (e *Env) writeVar(base string, t types.Type, v Value) {
	k, _ := kindOf(t)
	v = e.coerce(v, t)
	switch k {
	case VInt, VPtr:
		e.assign(base, SInt, v.T)
	case VBool:
		e.assign(base, SBool, v.T)
	case VU:
		e.assign(base, SU, v.T)
	case VStruct:
		// allocate own object lazily: the variable always holds a fresh object id
		id := e.allocObj()
		e.assign(base, SInt, id)
		e.copyStruct(Var(base, SInt), v.T, t)
	case VSlice:
		// evaluate all components before assigning any (x = x[1:])
		r, o, l, c := v.Ref, v.Off, v.Len, v.Cap
		tr, to, tl, tc := e.tmp(r), e.tmp(o), e.tmp(l), e.tmp(c)
		e.assign(base+".ref", SInt, tr)
		e.assign(base+".off", SInt, to)
		e.assign(base+".len", SInt, tl)
		e.assign(base+".cap", SInt, tc)
	case VStr:
		ta, to, tl := e.tmp(v.Arr), e.tmp(v.Off), e.tmp(v.Len)
		e.assign(base+".arr", SArr, ta)
		e.assign(base+".off", SInt, to)
		e.assign(base+".len", SInt, tl)
	default:
		panic("writeVar")
	}
}

// tmp freezes a term in a fresh variable unless it is a literal or plain variable.
func (e *Env) tmp(t *Term) *Term {
	if t.Op == "lit" {
		return t
	}
	e.nfresh++
	name := fmt.Sprintf("t$%d", e.nfresh)
	e.assign(name, t.S, t)
	return Var(name, t.S)
}

func (e *Env) freeze(v Value) Value {
	if v.Base != nil {
		v.Base, v.Rel = e.tmp(v.Base), e.tmp(v.Rel)
	}
	switch v.K {
	case VInt, VBool, VU, VPtr, VStruct:
		v.T = e.tmp(v.T)
	case VSlice:
		v.Ref, v.Off, v.Len, v.Cap = e.tmp(v.Ref), e.tmp(v.Off), e.tmp(v.Len), e.tmp(v.Cap)
	case VStr:
		v.Arr, v.Off, v.Len = e.tmp(v.Arr), e.tmp(v.Off), e.tmp(v.Len)
	case VTuple:
		for i := range v.Elems {
			v.Elems[i] = e.freeze(v.Elems[i])
		}
	}
	return v
}

// coerce adapts a value to the representation of type t (e.g. concrete -> interface).
func (e *Env) coerce(v Value, t types.Type) Value {
	k, eu := kindOf(t)
	if v.K == k {
		if k == VSlice {
			v.ElemU = eu
		}
		v.Typ = t
		return v
	}
	if k == VU {
		r := Value{K: VU, T: e.box(v), Typ: t}
		if v.K == VPtr || v.K == VStruct {
			d := v
			r.Dyn = &d
		}
		if v.K == VStruct && v.Typ != nil {
			// a struct value of (named) type T stored in an interface has dynamic type T
			if _, ok := types.Unalias(v.Typ).(*types.Named); ok {
				e.assume(e.hasType(r, v.Typ))
			}
		}
		return r
	}
	if v.K == VU {
		// unboxing an opaque value into a modelled kind: unconstrained
		return e.unknown(t, "unbox")
	}
	if v.K == VNone {
		return e.zero(t)
	}
	if k == VStruct && v.K == VPtr || k == VPtr && v.K == VStruct {
		v.K = k
		v.Typ = t
		return v
	}
	e.errorf("cannot coerce value of kind %d to %s", v.K, t)
	return e.unknown(t, "coerce")
}

// box turns a modelled value into an opaque one (interface conversion).
func (e *Env) box(v Value) *Term {
	switch v.K {
	case VU:
		return v.T
	case VInt:
		return App("box$int", SU, v.T)
	case VBool:
		return App("box$bool", SU, v.T)
	case VPtr, VStruct:
		return App("box$obj", SU, v.T)
	case VStr:
		return App("box$str", SU, v.Arr, v.Off, v.Len)
	case VSlice:
		return App("box$slice", SU, v.Ref, v.Off, v.Len)
	}
	return e.fresh("box", SU)
}

// unknown returns an unconstrained value of type t (with its type invariant).
func (e *Env) unknown(t types.Type, why string) Value {
	k, eu := kindOf(t)
	switch k {
	case VInt:
		x := e.fresh(why, SInt)
		e.assume(rangeAssume(x, t))
		return Value{K: VInt, T: x, Typ: t}
	case VBool:
		return Value{K: VBool, T: e.fresh(why, SBool), Typ: t}
	case VU:
		return Value{K: VU, T: e.fresh(why, SU), Typ: t}
	case VPtr, VStruct:
		return Value{K: k, T: e.fresh(why, SInt), Typ: t}
	case VSlice:
		v := Value{K: VSlice, Ref: e.fresh(why+".ref", SInt), Off: e.fresh(why+".off", SInt), Len: e.fresh(why+".len", SInt), Cap: e.fresh(why+".cap", SInt), ElemU: eu, Typ: t}
		e.assume(e.wfSlice(v))
		return v
	case VStr:
		v := Value{K: VStr, Arr: e.fresh(why+".arr", SArr), Off: e.fresh(why+".off", SInt), Len: e.fresh(why+".len", SInt), Typ: t}
		e.assume(e.wfStr(v))
		return v
	}
	panic("unknown")
}

func (e *Env) wfSlice(v Value) *Term {
	sb := Lit(sizeBound, SInt)
	zero := IntLit(0)
	c := And(Le(zero, v.Off), Le(v.Off, sb), Le(zero, v.Len), Le(v.Len, v.Cap), Le(v.Cap, sb),
		Lt(v.Ref, e.nextRef()),
		Implies(Eq(v.Ref, zero), And(Eq(v.Cap, zero), Eq(v.Off, zero))))
	if v.Typ != nil {
		if at, ok := v.Typ.Underlying().(*types.Array); ok {
			return And(c, Eq(v.Len, IntLit(at.Len())), Eq(v.Cap, IntLit(at.Len())))
		}
	}
	// refs of slices: allocated (> 0), nil (0) or one of the constant byte slices (small negative)
	return And(c, Gt(v.Ref, IntLit(-1000)))
}

func (e *Env) wfStr(v Value) *Term {
	sb := Lit(sizeBound, SInt)
	return And(Le(IntLit(0), v.Off), Le(v.Off, sb), Le(IntLit(0), v.Len), Le(v.Len, sb))
}

func (e *Env) zero(t types.Type) Value {
	k, eu := kindOf(t)
	z := IntLit(0)
	switch k {
	case VInt, VPtr:
		return Value{K: k, T: z, Typ: t}
	case VBool:
		return Value{K: VBool, T: False, Typ: t}
	case VU:
		return Value{K: VU, T: App("nilU", SU), Typ: t}
	case VSlice:
		if at, ok := t.Underlying().(*types.Array); ok {
			// zero array: fresh zeroed storage
			n := IntLit(at.Len())
			ref := e.allocRef()
			e.setMemArr(ref, Lit("((as const (Array Int Int)) 0)", SArr))
			return Value{K: VSlice, Ref: ref, Off: z, Len: n, Cap: n, ElemU: eu, Typ: t}
		}
		return Value{K: VSlice, Ref: z, Off: z, Len: z, Cap: z, ElemU: eu, Typ: t}
	case VStr:
		return Value{K: VStr, Arr: App("emptyArr", SArr), Off: z, Len: z, Typ: t}
	case VStruct:
		id := e.allocObj()
		e.zeroStruct(id, t)
		return Value{K: VStruct, T: id, Typ: t}
	}
	panic("zero")
}

func (e *Env) allocObj() *Term {
	id := e.tmp(e.nextObj())
	e.assign("$nextObj", SInt, Add(e.nextObj(), IntLit(1)))
	return id
}

func (e *Env) allocRef() *Term {
	r := e.tmp(e.nextRef())
	e.assign("$nextRef", SInt, Add(e.nextRef(), IntLit(1)))
	return r
}

func (e *Env) setMemArr(ref, arr *Term) {
	e.noteMemWrite(ref)
	e.assign("Mem", SMem, Store(e.mem(), ref, arr))
}

// ---------------------------------------------------------------------
// heap fields

func (e *Env) hmap(owner, field, suf string, s Sort) *Term {
	n := heapMap(owner, field) + suf
	e.declare(n, s)
	return Var(n, s)
}

// loadField reads field lf of object id.
func (e *Env) loadField(id *Term, lf leaf) Value {
	get := func(suf string, s Sort) *Term { return Select(e.hmap(lf.Owner, lf.Field, suf, s), id) }
	switch lf.K {
	case VInt:
		return Value{K: VInt, T: get("", SArr), Typ: lf.Typ}
	case VPtr:
		return Value{K: VPtr, T: get("", SArr), Typ: lf.Typ}
	case VBool:
		return Value{K: VBool, T: get("", SArrB), Typ: lf.Typ}
	case VU:
		return Value{K: VU, T: get("", SArrU), Typ: lf.Typ}
	case VSlice:
		if at, ok := lf.Typ.Underlying().(*types.Array); ok {
			// inline array: storage owned by the object (distinct from every allocated or constant array)
			n := IntLit(at.Len())
			return Value{K: VSlice, Ref: App("arrref$"+lf.Owner+"$"+lf.Field, SInt, id), Off: IntLit(0), Len: n, Cap: n, ElemU: lf.ElemU, Typ: lf.Typ}
		}
		return Value{K: VSlice, Ref: get(".ref", SArr), Off: get(".off", SArr), Len: get(".len", SArr), Cap: get(".cap", SArr), ElemU: lf.ElemU, Typ: lf.Typ}
	case VStr:
		return Value{K: VStr, Arr: get(".arr", SArrA), Off: get(".off", SArr), Len: get(".len", SArr), Typ: lf.Typ}
	}
	panic("loadField")
}

func (e *Env) storeField(id *Term, lf leaf, v Value) {
	if _, isArr := lf.Typ.Underlying().(*types.Array); !isArr {
		e.noteObjWrite(id, &lf)
	}
	v = e.coerce(v, lf.Typ)
	put := func(suf string, s Sort, t *Term) {
		n := heapMap(lf.Owner, lf.Field) + suf
		e.declare(n, s)
		e.assign(n, s, Store(Var(n, s), id, t))
	}
	switch lf.K {
	case VInt, VPtr:
		put("", SArr, v.T)
	case VBool:
		put("", SArrB, v.T)
	case VU:
		put("", SArrU, v.T)
	case VSlice:
		if _, ok := lf.Typ.Underlying().(*types.Array); ok {
			e.errorf("assignment of whole arrays is not modelled (%s.%s)", lf.Owner, lf.Field)
			return
		}
		r, o, l, c := e.tmp(v.Ref), e.tmp(v.Off), e.tmp(v.Len), e.tmp(v.Cap)
		put(".ref", SArr, r)
		put(".off", SArr, o)
		put(".len", SArr, l)
		put(".cap", SArr, c)
	case VStr:
		a, o, l := e.tmp(v.Arr), e.tmp(v.Off), e.tmp(v.Len)
		put(".arr", SArrA, a)
		put(".off", SArr, o)
		put(".len", SArr, l)
	default:
		panic("storeField")
	}
}

func subID(id *Term, steps []subStep) *Term {
	for _, s := range steps {
		id = App(subFn(s.Owner, s.Field), SInt, id)
	}
	return id
}

func (e *Env) copyStruct(dst, src *Term, t types.Type) {
	src = e.tmp(src)
	walkLeaves(t, nil, func(steps []subStep, lf leaf) {
		if _, isArr := lf.Typ.Underlying().(*types.Array); isArr {
			// copy the cells of an inline array
			sv := e.loadField(subID(src, steps), lf)
			dv := e.loadField(subID(dst, steps), lf)
			e.setMemArr(dv.Ref, Select(e.mem(), sv.Ref))
			return
		}
		v := e.loadField(subID(src, steps), lf)
		e.storeField(subID(dst, steps), lf, e.freeze(v))
	})
}

func (e *Env) zeroStruct(id *Term, t types.Type) {
	walkLeaves(t, nil, func(steps []subStep, lf leaf) {
		if lf.K == VSlice {
			if _, ok := lf.Typ.Underlying().(*types.Array); ok {
				// inline array: its storage is tied to the object; contents zeroed
				return
			}
		}
		e.storeField(subID(id, steps), lf, e.zero(lf.Typ))
	})
}

// wfLoaded returns the typing facts that hold for any value read from the heap.
func (e *Env) wfLoaded(v Value) *Term {
	switch v.K {
	case VInt:
		return rangeAssume(v.T, v.Typ)
	case VSlice:
		return e.wfSlice(v)
	case VStr:
		return e.wfStr(v)
	}
	return True
}

// findField finds a field by name in struct type t, looking through embedded
// structs regardless of visibility (specs may mention unexported fields).
func findField(t types.Type, name string) (steps []subStep, lf *leaf, sub types.Type, ok bool) {
	st, key, isS := structOf(t)
	if !isS {
		return nil, nil, nil, false
	}
	for i := 0; i < st.NumFields(); i++ {
		f := st.Field(i)
		if f.Name() == name {
			k, eu := kindOf(f.Type())
			if k == VStruct {
				return []subStep{{key, name}}, nil, f.Type(), true
			}
			return nil, &leaf{Owner: key, Field: name, Typ: f.Type(), K: k, ElemU: eu}, nil, true
		}
	}
	if kind, ok := ghostFieldTable[key][name]; ok {
		gl := ghostLeaf(key, name, kind)
		return nil, &gl, nil, true
	}
	for i := 0; i < st.NumFields(); i++ {
		f := st.Field(i)
		if !f.Embedded() {
			continue
		}
		k, _ := kindOf(f.Type())
		if k != VStruct {
			continue
		}
		s2, lf2, sub2, ok2 := findField(f.Type(), name)
		if ok2 {
			return append([]subStep{{key, f.Name()}}, s2...), lf2, sub2, true
		}
	}
	return nil, nil, nil, false
}

func shortPkg(path string) string {
	if i := strings.LastIndex(path, "/"); i >= 0 {
		return path[i+1:]
	}
	return path
}


// assumeTyping assumes the typing facts (integer ranges, well-formed slice and
// string headers) of every leaf field reachable by value from object v.
func (e *Env) assumeTyping(v Value) {
	if v.K != VPtr && v.K != VStruct {
		return
	}
	t := v.Typ
	if v.K == VPtr {
		t = derefType(t)
	}
	walkLeaves(t, nil, func(steps []subStep, lf leaf) {
		switch lf.K {
		case VInt, VSlice, VStr:
			e.assume(e.wfLoaded(e.loadField(subID(v.T, steps), lf)))
		case VPtr:
			// one level through pointer fields (e.g. fmt.buf)
			pv := e.loadField(subID(v.T, steps), lf)
			walkLeaves(derefType(lf.Typ), nil, func(st2 []subStep, l2 leaf) {
				switch l2.K {
				case VInt, VSlice, VStr:
					e.assume(e.wfLoaded(e.loadField(subID(pv.T, st2), l2)))
				}
			})
		}
	})
}


func abbrev(s string) string {
	s = strings.ReplaceAll(s, "H$buffer.Buffer$", "")
	s = strings.ReplaceAll(s, "H$rfmt.", "")
	if len(s) > 160 {
		return s[:160] + "..."
	}
	return s
}
