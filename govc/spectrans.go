package main

import (
	"fmt"
	"go/constant"
	"go/types"
	"strings"
)

var _ = fmt.Sprintf

// specFn describes a prelude function visible in specifications.
type specFn struct {
	SMT    string
	Params []string // int | bool | seq (slice or string: array + offset)
	Res    Sort
}

var specFns = map[string]specFn{}

// specCtx translates spec expressions in the context of an Env.
type specCtx struct {
	e      *Env
	names  map[string]Value // parameters, results, special names
	bound  map[string]*Term
	oldMap func(name string, s Sort) *Term // program variable -> its value in the old state
	self   string                          // for type invariants
	pkg    *Pkg                            // package whose scope resolves constants
	errs   *[]string
	inPure  int // nesting depth of pure-contract instantiation (the clauses of a pure contract may themselves apply pure functions)
	classOf func(param string) *Term // payload class of a parameter (0 literal, 1 type/diagnostic, 2 operand)
}

func (c *specCtx) errorf(format string, a ...interface{}) {
	msg := fmt.Sprintf(format, a...)
	if c.errs != nil {
		*c.errs = append(*c.errs, msg)
	} else {
		c.e.errorf("%s", msg)
	}
}

func (c *specCtx) toOld(v Value) Value {
	if c.oldMap == nil {
		c.errorf("old() used where no old state exists")
		return v
	}
	m := func(t *Term) *Term {
		if t == nil {
			return nil
		}
		return t.Subst(c.oldMap)
	}
	v.T, v.Ref, v.Arr, v.Off, v.Len, v.Cap = m(v.T), m(v.Ref), m(v.Arr), m(v.Off), m(v.Len), m(v.Cap)
	return v
}

func (c *specCtx) boolTerm(x *SExpr) *Term {
	v := c.tr(x)
	if v.K != VBool {
		c.errorf("spec expression %s is not boolean", x.String())
		return True
	}
	return v.T
}

func (c *specCtx) intTerm(x *SExpr) *Term {
	v := c.tr(x)
	if v.K != VInt && v.K != VPtr && v.K != VStruct {
		c.errorf("spec expression %s is not an integer", x.String())
		return IntLit(0)
	}
	return v.T
}

func (c *specCtx) tr(x *SExpr) Value {
	e := c.e
	switch x.Kind {
	case "int":
		return intV(Lit(x.Int, SInt))
	case "bool":
		return boolV(BoolLit(x.Name == "true"))
	case "str":
		return e.strValue(x.Name, types.Typ[types.String])
	case "nil":
		return Value{K: VNone}
	case "id":
		return c.ident(x.Name)
	case "old":
		return c.toOld(c.tr(x.Args[0]))
	case "sel":
		// package-qualified constant?
		if x.Args[0].Kind == "id" {
			if v, ok := c.qualified(x.Args[0].Name, x.Name); ok {
				return v
			}
		}
		base := c.tr(x.Args[0])
		return c.field(base, x.Name, x)
	case "index":
		if inner := x.Args[0]; inner.Kind != "old" {
			// m[k] on a map with boolean elements (the safe-type registry): the same uninterpreted lookup the code uses
			if b := c.tr(inner); b.K == VU && b.Typ != nil {
				if mt, ok := b.Typ.Underlying().(*types.Map); ok {
					if kk, _ := kindOf(mt.Elem()); kk == VBool {
						k := c.tr(x.Args[1])
						return boolV(App("mapidx$bool", SBool, b.T, e.box(k)))
					}
				}
			}
		}
		i := c.intTerm(x.Args[1])
		if inner := x.Args[0]; inner.Kind != "old" {
			if b := c.tr(inner); b.K == VSlice && b.ElemU {
				// read through a view, so that quantified facts about "element t" have a trigger free of arithmetic
				return uV(Select(App("shiftU", SArrU, Select(e.memU(), b.Ref), b.Off), i))
			}
		}
		return intV(Select(c.seqArgs(x.Args[0]), i))
	case "un":
		switch x.Name {
		case "!":
			return boolV(Not(c.boolTerm(x.Args[0])))
		case "-":
			return intV(Sub(IntLit(0), c.intTerm(x.Args[0])))
		}
	case "cond":
		cnd := c.boolTerm(x.Args[0])
		a, b := c.tr(x.Args[1]), c.tr(x.Args[2])
		if a.K == VNone {
			a = uV(App("nilU", SU))
		}
		if b.K == VNone {
			b = uV(App("nilU", SU))
		}
		if a.K == VBool {
			return boolV(Ite(cnd, a.T, b.T))
		}
		if a.K == VU || b.K == VU {
			return uV(Ite(cnd, c.e.box(a), c.e.box(b)))
		}
		return intV(Ite(cnd, a.T, b.T))
	case "forall", "exists":
		saved := map[string]*Term{}
		var bvs []*Term
		for _, v := range x.Vars {
			saved[v] = c.bound[v]
			bv := Bound(v, SInt)
			c.bound[v] = bv
			bvs = append(bvs, bv)
		}
		body := c.boolTerm(x.Args[0])
		for _, v := range x.Vars {
			if saved[v] == nil {
				delete(c.bound, v)
			} else {
				c.bound[v] = saved[v]
			}
		}
		if x.Kind == "forall" {
			return boolV(Forall(bvs, body))
		}
		return boolV(Exists(bvs, body))
	case "bin":
		return c.bin(x)
	case "call":
		return c.call(x)
	}
	c.errorf("spec: unsupported expression %s", x.String())
	return boolV(True)
}

func (c *specCtx) bin(x *SExpr) Value {
	switch x.Name {
	case "&&":
		return boolV(And(c.boolTerm(x.Args[0]), c.boolTerm(x.Args[1])))
	case "||":
		return boolV(Or(c.boolTerm(x.Args[0]), c.boolTerm(x.Args[1])))
	case "==>":
		return boolV(Implies(c.boolTerm(x.Args[0]), c.boolTerm(x.Args[1])))
	case "<==>":
		return boolV(Eq(c.boolTerm(x.Args[0]), c.boolTerm(x.Args[1])))
	case "==", "!=":
		l, r := c.tr(x.Args[0]), c.tr(x.Args[1])
		var eq *Term
		switch {
		case l.K == VNone || r.K == VNone:
			if l.K == VNone {
				l = r
			}
			switch l.K {
			case VPtr:
				eq = Eq(l.T, IntLit(0))
			case VSlice:
				eq = Eq(l.Ref, IntLit(0))
			case VU:
				eq = Eq(l.T, App("nilU", SU))
			default:
				c.errorf("spec: bad nil comparison in %s", x.String())
				eq = True
			}
		case l.K == VBool && r.K == VBool:
			eq = Eq(l.T, r.T)
		case l.K == VU && r.K == VU:
			eq = Eq(l.T, r.T)
		case (l.K == VInt || l.K == VPtr || l.K == VStruct) && (r.K == VInt || r.K == VPtr || r.K == VStruct):
			eq = Eq(l.T, r.T)
		case l.K == VSlice && r.K == VSlice:
			eq = And(Eq(l.Ref, r.Ref), Eq(l.Off, r.Off), Eq(l.Len, r.Len), Eq(l.Cap, r.Cap))
		case l.K == VStr && r.K == VStr:
			eq = App("streq", SBool, l.Arr, l.Off, l.Len, r.Arr, r.Off, r.Len)
		case l.K == VU && r.K == VStr, l.K == VStr && r.K == VU:
			// an interface value against a string: it holds (the boxing of) that very string
			eq = Eq(c.e.box(l), c.e.box(r))
		default:
			c.errorf("spec: cannot compare %s", x.String())
			eq = True
		}
		if x.Name == "!=" {
			eq = Not(eq)
		}
		return boolV(eq)
	}
	a, b := c.intTerm(x.Args[0]), c.intTerm(x.Args[1])
	switch x.Name {
	case "<":
		return boolV(Lt(a, b))
	case "<=":
		return boolV(Le(a, b))
	case ">":
		return boolV(Gt(a, b))
	case ">=":
		return boolV(Ge(a, b))
	case "+":
		return intV(Add(a, b))
	case "-":
		return intV(Sub(a, b))
	case "*":
		return intV(Mul(a, b))
	case "/":
		return intV(Bi("div", SInt, a, b))
	case "%":
		return intV(Bi("mod", SInt, a, b))
	}
	c.errorf("spec: unsupported operator %s", x.Name)
	return intV(IntLit(0))
}

func (c *specCtx) ident(name string) Value {
	e := c.e
	if bv, ok := c.bound[name]; ok {
		return intV(bv)
	}
	if v, ok := c.names[name]; ok {
		return v
	}
	if k, ok := e.w.Cs.Ghosts[name]; ok {
		return e.ghostVar(name, k)
	}
	if e.inline > 0 && len(e.inlFc) > 0 && e.inlFc[len(e.inlFc)-1] != nil {
		if obj, ok := e.inlFc[len(e.inlFc)-1].locals[name]; ok {
			return e.readVar(e.localName(obj), obj.Type())
		}
	}
	if obj, ok := e.specLocals[name]; ok {
		return e.readVar(e.localName(obj), obj.Type())
	}
	if name == "$panic" {
		return boolV(e.panicVar())
	}
	if name == "$nextRef" {
		return intV(e.nextRef())
	}
	// package scope
	pkg := c.pkg
	if pkg == nil {
		pkg = e.pkg
	}
	if obj := pkg.Types.Scope().Lookup(name); obj != nil {
		if v, ok := c.object(obj); ok {
			return v
		}
	}
	for _, ip := range pkg.Types.Imports() {
		if obj, ok := ip.Scope().Lookup(name).(*types.Const); ok && obj.Exported() {
			if v, ok := c.object(obj); ok {
				return v
			}
		}
	}
	c.errorf("spec: unknown identifier %q", name)
	return intV(IntLit(0))
}

func (c *specCtx) object(obj types.Object) (Value, bool) {
	switch o := obj.(type) {
	case *types.Const:
		switch o.Val().Kind() {
		case constant.Int:
			return intV(bigLit(o.Val())), true
		case constant.Bool:
			return boolV(BoolLit(constant.BoolVal(o.Val()))), true
		case constant.String:
			return c.e.strValue(constant.StringVal(o.Val()), o.Type()), true
		}
	case *types.Var:
		return c.e.globalVar(o), true
	}
	return Value{}, false
}

func (c *specCtx) qualified(q, name string) (Value, bool) {
	pkg := c.pkg
	if pkg == nil {
		pkg = c.e.pkg
	}
	if _, isLocal := c.names[q]; isLocal {
		return Value{}, false
	}
	if _, isLocal := c.e.specLocals[q]; isLocal {
		return Value{}, false
	}
	for _, f := range pkg.Files {
		for _, imp := range f.Imports {
			path := strings.Trim(imp.Path.Value, "\"")
			n := shortPkg(path)
			if imp.Name != nil {
				n = imp.Name.Name
			}
			if n != q {
				continue
			}
			for _, ip := range pkg.Types.Imports() {
				if ip.Path() == path {
					if obj := ip.Scope().Lookup(name); obj != nil {
						return c.object(obj)
					}
				}
			}
		}
	}
	return Value{}, false
}

func (c *specCtx) field(base Value, name string, x *SExpr) Value {
	e := c.e
	if base.K != VPtr && base.K != VStruct {
		c.errorf("spec: field %s of non-struct in %s", name, x.String())
		return intV(IntLit(0))
	}
	t := base.Typ
	if base.K == VPtr {
		t = derefType(t)
	}
	steps, lf, sub, ok := findField(t, name)
	if !ok {
		c.errorf("spec: no field %s in %s", name, t)
		return intV(IntLit(0))
	}
	id := subID(base.T, steps)
	if lf == nil {
		return Value{K: VStruct, T: id, Typ: sub}
	}
	return e.loadField(id, *lf)
}

// viewOf is the offset-free content array of a slice/string: cell j of the view is element j.
func viewOf(arr, off *Term) *Term {
	if off.Op == "lit" && off.Name == "0" {
		return arr
	}
	return App("shift", SArr, arr, off)
}

// seqArgs translates a byte-sequence argument to its view array.
func (c *specCtx) seqArgs(x *SExpr) *Term {
	if x.Kind == "old" {
		a := c.seqArgs(x.Args[0])
		if c.oldMap == nil {
			c.errorf("old() used where no old state exists")
			return a
		}
		return a.Subst(c.oldMap)
	}
	v := c.tr(x)
	switch v.K {
	case VSlice:
		return viewOf(Select(c.e.mem(), v.Ref), v.Off)
	case VStr:
		return viewOf(v.Arr, v.Off)
	}
	c.errorf("spec: %s is not a byte sequence", x.String())
	return App("emptyArr", SArr)
}

func (c *specCtx) call(x *SExpr) Value {
	e := c.e
	switch x.Name {
	case "len", "cap":
		if len(x.Args) != 1 {
			break
		}
		v := c.tr(x.Args[0])
		switch v.K {
		case VSlice:
			if x.Name == "cap" {
				return intV(v.Cap)
			}
			return intV(v.Len)
		case VStr:
			return intV(v.Len)
		}
		c.errorf("spec: len of non-sequence %s", x.Args[0].String())
		return intV(IntLit(0))
	case "ref":
		v := c.tr(x.Args[0])
		if v.K == VSlice {
			return intV(v.Ref)
		}
		c.errorf("spec: ref of non-slice")
		return intV(IntLit(0))
	case "off":
		v := c.tr(x.Args[0])
		if v.K == VSlice || v.K == VStr {
			return intV(v.Off)
		}
	case "inv":
		v := c.tr(x.Args[0])
		return boolV(e.typeInvTerm(v, c.oldMap))
	case "memAt":
		v := c.tr(x.Args[0])
		if v.K == VSlice {
			return intV(Select(Select(e.mem(), v.Ref), c.intTerm(x.Args[1])))
		}
		c.errorf("spec: memAt of non-slice")
		return intV(IntLit(0))
	case "kept":
		// kept(x): the bytes visible through slice x before the call are still there (in x's old array)
		if c.oldMap == nil {
			c.errorf("kept() needs an old state")
			return boolV(True)
		}
		v := c.toOld(c.tr(x.Args[0]))
		if v.K != VSlice {
			c.errorf("spec: kept of non-slice")
			return boolV(True)
		}
		j := Bound("j$", SInt)
		oldMem := e.mem().Subst(c.oldMap)
		return boolV(Forall([]*Term{j}, Implies(And(Le(IntLit(0), j), Lt(j, Add(v.Off, v.Len))),
			Eq(Select(Select(e.mem(), v.Ref), j), Select(Select(oldMem, v.Ref), j)))))
	case "memOf":
		// memOf(r): the byte array stored at ref r (an Int)
		r := c.intTerm(x.Args[0])
		_ = r
	case "fresh":
		// fresh(x): object/ref allocated during the call
		v := c.tr(x.Args[0])
		if c.oldMap == nil {
			c.errorf("fresh() needs an old state")
			return boolV(True)
		}
		switch v.K {
		case VPtr, VStruct:
			return boolV(And(Ge(v.T, e.nextObj().Subst(c.oldMap)), Lt(v.T, e.nextObj())))
		case VSlice:
			return boolV(And(Ge(v.Ref, e.nextRef().Subst(c.oldMap)), Lt(v.Ref, e.nextRef())))
		}
	case "memKeptExcept":
		// memKeptExcept(x, ...): every pre-existing byte array other than those of the listed slices is unchanged
		if c.oldMap == nil {
			return boolV(True)
		}
		r := Bound("r$", SInt)
		oldMem := e.mem().Subst(c.oldMap)
		conds := []*Term{Lt(r, e.nextRef().Subst(c.oldMap))}
		for _, a := range x.Args {
			v := c.tr(a)
			if v.K != VSlice {
				c.errorf("memKeptExcept: %s is not a slice", a.String())
				continue
			}
			conds = append(conds, Ne(r, v.Ref))
		}
		return boolV(Forall([]*Term{r}, Implies(And(conds...), Eq(Select(e.mem(), r), Select(oldMem, r)))))
	case "memUnchanged":
		// memUnchanged(): no pre-existing byte array was written
		if c.oldMap == nil {
			return boolV(True)
		}
		r := Bound("r$", SInt)
		oldMem := e.mem().Subst(c.oldMap)
		return boolV(Forall([]*Term{r}, Implies(Lt(r, e.nextRef().Subst(c.oldMap)), Eq(Select(e.mem(), r), Select(oldMem, r)))))
	case "hasType":
		// hasType(x, "typestring")
		v := c.tr(x.Args[0])
		if x.Args[1].Kind == "str" && v.K == VU {
			return boolV(App("hasType$"+x.Args[1].Name, SBool, v.T))
		}
	case "real", "imag":
		if len(x.Args) == 1 {
			if v := c.tr(x.Args[0]); v.K == VU {
				return uV(App("cplx$"+x.Name, SU, v.T))
			}
		}
	case "feq":
		// IEEE equality of two floating-point values (the == of the language on floats)
		if len(x.Args) == 2 {
			return boolV(App("feq", SBool, e.box(c.tr(x.Args[0])), e.box(c.tr(x.Args[1]))))
		}
	case "isnil":
		v := c.tr(x.Args[0])
		switch v.K {
		case VU:
			return boolV(Eq(v.T, App("nilU", SU)))
		case VPtr:
			return boolV(Eq(v.T, IntLit(0)))
		case VSlice:
			return boolV(Eq(v.Ref, IntLit(0)))
		}
	}
	if pd, ok := e.w.Cs.Preds[x.Name]; ok {
		if len(pd.Params) != len(x.Args) {
			c.errorf("spec: pred %s expects %d arguments", pd.Name, len(pd.Params))
			return boolV(True)
		}
		names := map[string]Value{}
		for i, p := range pd.Params {
			names[p] = c.tr(x.Args[i])
		}
		sub := &specCtx{e: e, names: names, bound: c.bound, oldMap: c.oldMap, pkg: e.w.Pkgs[pd.Pkg], errs: c.errs, classOf: c.classOf}
		return sub.tr(pd.Body)
	}
	if x.Name == "$class" && len(x.Args) == 1 && x.Args[0].Kind == "id" {
		if c.classOf != nil {
			return intV(c.classOf(x.Args[0].Name))
		}
		c.errorf("$class used outside a call contract")
		return intV(IntLit(2))
	}
	if fn, ok := specFns[x.Name]; ok {
		var args []*Term
		ai := 0
		for _, pk := range fn.Params {
			if ai >= len(x.Args) {
				c.errorf("spec: too few arguments to %s", x.Name)
				return boolV(True)
			}
			a := x.Args[ai]
			ai++
			switch pk {
			case "seq":
				args = append(args, c.seqArgs(a))
			case "int":
				args = append(args, c.intTerm(a))
			case "bool":
				args = append(args, c.boolTerm(a))
			case "u":
				args = append(args, c.tr(a).T)
			}
		}
		if ai != len(x.Args) {
			c.errorf("spec: too many arguments to %s", x.Name)
		}
		t := App(fn.SMT, fn.Res, args...)
		if fn.Res == SBool {
			return boolV(t)
		}
		if fn.Res == SU {
			return uV(t)
		}
		return intV(t)
	}
	// pure function of the module/foreign code (uninterpreted)
	if v, ok := c.pureCall(x); ok {
		return v
	}
	c.errorf("spec: unknown function %s", x.Name)
	return boolV(True)
}

// pureCall handles calls to functions declared "pure" in the contracts:
// written in specs as Name(args) or recv.Name(args) is not supported; use pkg.Name or T.Name.
func (c *specCtx) pureCall(x *SExpr) (Value, bool) {
	// method call on a value: recv.Name(args) -- either ".Name" with the receiver
	// as first argument, or "a.Name" where a is a local name
	var recvX *SExpr
	mname := ""
	args := x.Args
	if strings.HasPrefix(x.Name, ".") {
		recvX, mname, args = x.Args[0], x.Name[1:], x.Args[1:]
	} else if i := strings.Index(x.Name, "."); i > 0 {
		q := x.Name[:i]
		_, isName := c.names[q]
		_, isLocal := c.e.specLocals[q]
		_, isBound := c.bound[q]
		isGlobal := false
		if !isName && !isLocal && !isBound {
			pkg := c.pkg
			if pkg == nil {
				pkg = c.e.pkg
			}
			if pkg != nil && pkg.Types != nil {
				_, isGlobal = pkg.Types.Scope().Lookup(q).(*types.Var) // a package-level variable as receiver
			}
		}
		if isName || isLocal || isBound || isGlobal {
			recvX, mname = &SExpr{Kind: "id", Name: q}, x.Name[i+1:]
		}
	}
	if recvX != nil {
		rv := c.tr(recvX)
		if rv.Typ == nil {
			return Value{}, false
		}
		t := types.Unalias(rv.Typ)
		ptr := false
		if pt, ok := t.(*types.Pointer); ok {
			ptr, t = true, types.Unalias(pt.Elem())
		}
		nt, ok := t.(*types.Named)
		if !ok || nt.Obj().Pkg() == nil {
			return Value{}, false
		}
		base := nt.Obj().Pkg().Path() + "."
		cands := []string{base + nt.Obj().Name() + "." + mname, base + "(*" + nt.Obj().Name() + ")." + mname}
		_ = ptr
		for _, key := range cands {
			fc, ok := c.e.w.Cs.Funcs[key]
			if !ok || !fc.Pure {
				continue
			}
			ts := []*Term{c.e.box(rv)}
			for _, a := range args {
				ts = append(ts, c.e.box(c.tr(a)))
			}
			return c.pureValue(key, ts), true
		}
		return Value{}, false
	}
	for key, fc := range c.e.w.Cs.Funcs {
		if !fc.Pure {
			continue
		}
		short := key[strings.LastIndex(key, "/")+1:]
		// an unqualified name is looked up in the package the clause was written in (a callee's postcondition used at
		// a call site in another package), then in the package being verified
		own := short == x.Name || strings.TrimPrefix(short, shortPkg(c.e.pkg.Path)+".") == x.Name
		if !own && c.pkg != nil {
			own = strings.TrimPrefix(short, shortPkg(c.pkg.Path)+".") == x.Name
		}
		if own {
			var args []*Term
			for _, a := range x.Args {
				v := c.tr(a)
				args = append(args, c.e.box(v))
			}
			return c.pureValue(key, args), true
		}
	}
	return Value{}, false
}

func (c *specCtx) pureValue(key string, args []*Term) Value {
	v := c.pureValue0(key, args)
	// the assumed postconditions of a pure function hold for every ground application
	fc := c.e.w.Cs.Funcs[key]
	ground := true
	for _, a := range args {
		if a.hasBound() {
			ground = false
		}
	}
	if fc != nil && ground && c.inPure < 2 {
		names := map[string]Value{}
		for i, n := range fc.Params {
			if i < len(args) && n != "_" {
				// arguments were boxed; unbox integers for use in the clauses
				if args[i].Op == "app" && args[i].Name == "box$int" {
					names[n] = intV(args[i].Args[0])
				} else {
					nv := uV(args[i])
					if i < len(fc.ParamTypes) {
						nv.Typ = c.e.w.specType(fc.ParamTypes[i]) // so that methods can be called on it in the clauses
					}
					names[n] = nv
				}
			}
		}
		if v.K == VU && v.Typ == nil && fc.ResultType != "" {
			v.Typ = c.e.w.specType(fc.ResultType)
		}
		names["result"] = v
		if len(fc.Results) == 1 && fc.Results[0] != "_" {
			names[fc.Results[0]] = v
		}
		subPkg := c.pkg
		if dp, ok := c.e.w.Pkgs[fc.DeclPkg]; ok {
			subPkg = dp // the clauses of a pure contract may name variables of the package that declares it
		}
		sub := &specCtx{e: c.e, names: names, bound: map[string]*Term{}, pkg: subPkg, inPure: c.inPure + 1}
		for _, cl := range fc.Clauses {
			if cl.Kind == "ensures" {
				c.e.assume(sub.boolTerm(cl.Expr))
			}
		}
	}
	return v
}

// specType resolves a type written in a contract header ("reflect.Value", "*strings.Builder") for named types
// of imported packages; nil when it cannot.
func (w *World) specType(text string) types.Type {
	ptr := strings.HasPrefix(text, "*")
	text = strings.TrimPrefix(text, "*")
	i := strings.LastIndex(text, ".")
	if i < 0 {
		return nil
	}
	pp, name := text[:i], text[i+1:]
	if a, ok := importAlias[pp]; ok {
		pp = a
	}
	var scope *types.Scope
	if pk, ok := w.Pkgs[pp]; ok && pk.Types != nil {
		scope = pk.Types.Scope()
	} else if ip, err := w.std.Import(pp); err == nil {
		scope = ip.Scope()
	}
	if scope == nil {
		return nil
	}
	obj := scope.Lookup(name)
	if obj == nil {
		return nil
	}
	if ptr {
		return types.NewPointer(obj.Type())
	}
	return obj.Type()
}

func (c *specCtx) pureValue0(key string, args []*Term) Value {
	res, ok := c.e.w.pureResult[key]
	if !ok {
		res = c.e.w.pureSortOf(key)
	}
	switch res {
	case SBool:
		return boolV(App("pure$"+key, SBool, args...))
	case SInt:
		return intV(App("pure$"+key, SInt, args...))
	}
	if fc := c.e.w.Cs.Funcs[key]; fc != nil && strings.HasSuffix(strings.TrimSpace(fc.Header), "[]byte") {
		return Value{K: VSlice, Ref: App("pure$"+key+".ref", SInt, args...), Off: App("pure$"+key+".off", SInt, args...), Len: App("pure$"+key+".len", SInt, args...), Cap: App("pure$"+key+".cap", SInt, args...)}
	}
	u := App("pure$"+key, SU, args...)
	if fc := c.e.w.Cs.Funcs[key]; fc != nil && strings.HasSuffix(strings.TrimSpace(fc.Header), "string") {
		return Value{K: VStr, Arr: App("unbox$str.arr", SArr, u), Off: App("unbox$str.off", SInt, u), Len: App("unbox$str.len", SInt, u)}
	}
	r := uV(u)
	if fc := c.e.w.Cs.Funcs[key]; fc != nil && fc.ResultType != "" {
		r.Typ = c.e.w.specType(fc.ResultType)
	}
	return r
}

// pureSortOf derives the result sort of a pure function from its contract header.
func (w *World) pureSortOf(key string) Sort {
	fc := w.Cs.Funcs[key]
	if fc == nil {
		return SU
	}
	h := fc.Header
	i := strings.LastIndex(h, ")")
	tail := strings.TrimSpace(h[i+1:])
	if tail == "" {
		// results in parentheses: take the last word before ')'
		j := strings.LastIndex(h[:i], "(")
		f := strings.Fields(h[j+1 : i])
		if len(f) > 0 {
			tail = f[len(f)-1]
		}
	}
	switch tail {
	case "int", "rune", "byte", "reflect.Kind", "Kind", "int64", "uint64", "uintptr":
		return SInt
	case "bool":
		return SBool
	}
	return SU
}

func (e *Env) ghostVar(name, kind string) Value {
	n := "ghost$" + name
	switch kind {
	case "bool":
		e.declare(n, SBool)
		return boolV(Var(n, SBool))
	case "seq":
		e.declare(n, SArr)
		return Value{K: VStr, Arr: Var(n, SArr), Off: IntLit(0), Len: IntLit(0)}
	case "u":
		e.declare(n, SU)
		return uV(Var(n, SU))
	}
	e.declare(n, SInt)
	return intV(Var(n, SInt))
}

// typeInvTerm expands the type invariant of v's static type (true if none).
func (e *Env) typeInvTerm(v Value, oldMap func(string, Sort) *Term) *Term {
	var out []*Term
	e.collectInv(v, oldMap, func(cl *Clause, t *Term) { out = append(out, t) })
	return And(out...)
}

// collectInv visits the invariant clauses of v's type and of its by-value sub-objects.
func (e *Env) collectInv(v Value, oldMap func(string, Sort) *Term, visit func(cl *Clause, t *Term)) {
	t := v.Typ
	if t == nil {
		return
	}
	if v.K == VPtr {
		t = derefType(t)
	}
	key := ""
	if nt, ok := types.Unalias(t).(*types.Named); ok && nt.Obj().Pkg() != nil {
		key = nt.Obj().Pkg().Path() + "." + nt.Obj().Name()
	}
	if ti, ok := e.w.Cs.TypeInvs[key]; ok {
		var op *Term
		if v.K == VPtr || v.K == VStruct {
			op = e.opaqueInv(v, t, key, oldMap)
		}
		if op != nil {
			visit(&Clause{Kind: "typeinv", Text: "inv [abstract]"}, op)
		} else {
			pkg := e.w.Pkgs[key[:strings.LastIndex(key, ".")]]
			self := v
			if self.K == VPtr {
				self.K = VStruct
				self.Typ = t
			}
			c := &specCtx{e: e, names: map[string]Value{ti.Self: self}, bound: map[string]*Term{}, oldMap: oldMap, pkg: pkg}
			for _, cl := range ti.Clauses {
				visit(cl, c.boolTerm(cl.Expr))
			}
		}
	}
	if v.K == VPtr || v.K == VStruct {
		st, skey, ok := structOf(t)
		if !ok {
			return
		}
		for i := 0; i < st.NumFields(); i++ {
			f := st.Field(i)
			k, _ := kindOf(f.Type())
			if k == VStruct {
				e.collectInv(Value{K: VStruct, T: App(subFn(skey, f.Name()), SInt, v.T), Typ: f.Type()}, oldMap, visit)
			}
		}
	}
}

// assumeTypeInv assumes the value invariant of named non-struct types
// (e.g. RedactableString: well-formed by the property statements).
func (e *Env) assumeTypeInv(v Value, t types.Type) {
	v.Typ = t
	if v.K == VPtr || v.K == VStruct {
		return
	}
	inv := e.typeInvTerm(v, nil)
	if !isTrue(inv) {
		e.assume(inv)
		e.w.trustedNote("values of type " + types.TypeString(t, nil) + " supplied by callers satisfy the declared type invariant")
	}
}
