package main

import (
	"fmt"
	"go/ast"
	"go/constant"
	"go/token"
	"go/types"
	"math/big"
	"strings"
)

// strLit registers a constant byte string and returns its array symbol.
func (w *World) strLit(s string) string {
	if w.lits == nil {
		w.lits = map[string]string{}
		w.litByName = map[string]string{}
	}
	if n, ok := w.lits[s]; ok {
		return n
	}
	n := fmt.Sprintf("strlit_%d", len(w.lits))
	w.lits[s] = n
	w.litByName[n] = s
	return n
}

func (e *Env) strValue(s string, t types.Type) Value {
	return Value{K: VStr, Arr: App(e.w.strLit(s), SArr), Off: IntLit(0), Len: IntLit(int64(len(s))), Typ: t}
}

func (e *Env) constValue(tv types.TypeAndValue, t types.Type) (Value, bool) {
	if tv.Value == nil {
		return Value{}, false
	}
	k, _ := kindOf(t)
	switch tv.Value.Kind() {
	case constant.Int:
		if k == VInt {
			return Value{K: VInt, T: bigLit(tv.Value), Typ: t}, true
		}
		if k == VU { // constant converted to interface / float
			return Value{K: VU, T: App("box$int", SU, bigLit(tv.Value)), Typ: t}, true
		}
	case constant.Bool:
		if k == VBool {
			return Value{K: VBool, T: BoolLit(constant.BoolVal(tv.Value)), Typ: t}, true
		}
	case constant.String:
		if k == VStr {
			return e.strValue(constant.StringVal(tv.Value), t), true
		}
	case constant.Float:
		if k == VInt {
			if i, ok := constant.Int64Val(constant.ToInt(tv.Value)); ok {
				return Value{K: VInt, T: IntLit(i), Typ: t}, true
			}
		}
	}
	return Value{}, false
}

func bigLit(v constant.Value) *Term {
	s := v.ExactString()
	if strings.HasPrefix(s, "-") {
		return Lit("(- "+s[1:]+")", SInt)
	}
	return Lit(s, SInt)
}

func pow2(k int64) *Term {
	return Lit(new(big.Int).Lsh(big.NewInt(1), uint(k)).String(), SInt)
}

// expr lowers a Go expression to a symbolic value, emitting the run-time
// panic obligations it entails.
func (e *Env) expr(x ast.Expr) Value {
	tv, hasTV := e.info().Types[x]
	if hasTV && tv.Value != nil {
		if v, ok := e.constValue(tv, tv.Type); ok {
			return v
		}
	}
	switch x := x.(type) {
	case *ast.ParenExpr:
		return e.expr(x.X)
	case *ast.BasicLit:
		e.errorf("%s: non-constant literal %s", e.w.pos(x.Pos()), x.Value)
		return e.unknown(tv.Type, "lit")
	case *ast.Ident:
		return e.ident(x)
	case *ast.SelectorExpr:
		return e.selector(x)
	case *ast.StarExpr:
		if sv, ok := e.unsafeStringCast(x); ok {
			return sv
		}
		v := e.expr(x.X)
		if v.K == VPtr {
			e.assertNonNil(v, x.Pos(), "deref")
			return Value{K: VStruct, T: v.T, Typ: tv.Type}
		}
		e.errorf("%s: unsupported dereference", e.w.pos(x.Pos()))
		return e.unknown(tv.Type, "deref")
	case *ast.UnaryExpr:
		return e.unary(x, tv.Type)
	case *ast.BinaryExpr:
		return e.binary(x, tv.Type)
	case *ast.IndexExpr:
		return e.index(x, tv.Type)
	case *ast.SliceExpr:
		return e.sliceExpr(x, tv.Type)
	case *ast.CallExpr:
		return e.call(x)
	case *ast.TypeAssertExpr:
		v, _ := e.typeAssert(x, false)
		return v
	case *ast.CompositeLit:
		return e.compositeLit(x, tv.Type)
	case *ast.FuncLit:
		return e.unknown(tv.Type, "funclit")
	}
	e.errorf("%s: unsupported expression %T", e.w.pos(x.Pos()), x)
	if hasTV {
		return e.unknown(tv.Type, "unsupported")
	}
	return Value{K: VNone}
}

func (e *Env) assertNonNil(v Value, pos token.Pos, what string) {
	if v.T.Op == "var" && e.nonNil[v.T.Name] {
		return
	}
	e.panicCheck(Ne(v.T, IntLit(0)), "nil", what+" of nil pointer", pos)
}

// panicCheck emits a run-time panic obligation (part of the C11 sweep).
func (e *Env) panicCheck(cond *Term, kind, descr string, pos token.Pos) {
	if isTrue(cond) {
		return
	}
	if !e.sweep {
		e.assume(cond)
		return
	}
	e.panicOrd[kind]++
	e.assert(cond, "panic", fmt.Sprintf("%s%d", kind, e.panicOrd[kind]), []string{"C11"}, descr, e.w.pos(pos))
}

func (e *Env) ident(x *ast.Ident) Value {
	obj := e.info().Uses[x]
	if obj == nil {
		obj = e.info().Defs[x]
	}
	switch o := obj.(type) {
	case *types.Nil:
		t := e.info().Types[x].Type
		return Value{K: VNone, Typ: t}
	case *types.Const:
		v, ok := e.constValue(types.TypeAndValue{Value: o.Val()}, o.Type())
		if ok {
			return v
		}
	case *types.Var:
		if o.Parent() == o.Pkg().Scope() {
			return e.globalVar(o)
		}
		if gv, ok := e.ghostParams[o.Name()]; ok && e.locals[o] == "" {
			_ = gv
		}
		if cv, ok := e.constVals[o]; ok {
			return cv
		}
		return e.readVar(e.localName(o), o.Type())
	}
	if x.Name == "_" {
		return Value{K: VNone}
	}
	e.errorf("%s: unsupported identifier %s", e.w.pos(x.Pos()), x.Name)
	return e.unknown(e.info().Types[x].Type, "ident")
}

// globalVar models a package-level variable. Byte slices initialised from a
// constant string are immutable constants (checked: never assigned in the module).
func (e *Env) globalVar(o *types.Var) Value {
	key := o.Pkg().Path() + "." + o.Name()
	if content, ok := e.w.constSlice(o); ok {
		sym := e.w.strLit(content)
		refLit := e.w.constRef(key)
		if _, seen := e.constGlobals[refLit]; !seen {
			e.constGlobals[refLit] = sym
			e.assume(Eq(Select(e.mem(), Lit(refLit, SInt)), App(sym, SArr)))
			e.w.trustedNote("package variable " + key + " is never modified (constant byte slice)")
		}
		n := IntLit(int64(len(content)))
		return Value{K: VSlice, Ref: Lit(refLit, SInt), Off: IntLit(0), Len: n, Cap: n, Typ: o.Type()}
	}
	base := "G$" + key
	return e.readVar(base, o.Type())
}

func (w *World) trustedNote(s string) {
	if w.notes == nil {
		w.notes = map[string]bool{}
	}
	w.notes[s] = true
}

func (w *World) constRef(key string) string {
	if w.constRefs == nil {
		w.constRefs = map[string]int{}
	}
	if _, ok := w.constRefs[key]; !ok {
		w.constRefs[key] = len(w.constRefs) + 1
	}
	return fmt.Sprintf("(- %d)", w.constRefs[key])
}

// constSlice reports the constant content of a package-level []byte variable
// whose initialiser is []byte(<constant string>).
func (w *World) constSlice(o *types.Var) (string, bool) {
	if w.constSlices == nil {
		w.constSlices = map[*types.Var]*string{}
	}
	if p, ok := w.constSlices[o]; ok {
		if p == nil {
			return "", false
		}
		return *p, true
	}
	w.constSlices[o] = nil
	pkg := w.Pkgs[o.Pkg().Path()]
	if pkg == nil {
		return "", false
	}
	for _, f := range pkg.Files {
		for _, d := range f.Decls {
			gd, ok := d.(*ast.GenDecl)
			if !ok || gd.Tok != token.VAR {
				continue
			}
			for _, sp := range gd.Specs {
				vs := sp.(*ast.ValueSpec)
				for i, n := range vs.Names {
					if pkg.Info.Defs[n] != o || i >= len(vs.Values) {
						continue
					}
					ce, ok := vs.Values[i].(*ast.CallExpr)
					if !ok || len(ce.Args) != 1 {
						continue
					}
					ft := pkg.Info.Types[ce.Fun]
					if !ft.IsType() {
						continue
					}
					at := pkg.Info.Types[ce.Args[0]]
					if at.Value != nil && at.Value.Kind() == constant.String {
						s := constant.StringVal(at.Value)
						w.constSlices[o] = &s
						return s, true
					}
				}
			}
		}
	}
	return "", false
}

func (e *Env) selector(x *ast.SelectorExpr) Value {
	if sel, ok := e.info().Selections[x]; ok {
		if sel.Kind() != types.FieldVal {
			e.errorf("%s: method value not supported", e.w.pos(x.Pos()))
			return e.unknown(e.info().Types[x].Type, "methodvalue")
		}
		base := e.expr(x.X)
		if base.K == VU {
			// field of a foreign struct value (e.g. reflect.StructField.Name): unconstrained
			e.w.trustedNote("fields of foreign struct values are unconstrained (" + exprString(x) + ")")
			return e.unknown(e.info().Types[x].Type, "ffield")
		}
		return e.fieldPath(base, sel, x)
	}
	// qualified identifier
	return e.ident(x.Sel)
}

// fieldLoc walks a selection path and returns (object id, leaf) for a leaf field
// or (sub-object id, nil, type) for a struct-valued field.
func (e *Env) walkSelection(base Value, sel *types.Selection, pos token.Pos) (id *Term, lf *leaf, st types.Type) {
	if base.K != VPtr && base.K != VStruct {
		e.errorf("%s: field access on unmodelled value (kind %d)", e.w.pos(pos), base.K)
		return nil, nil, nil
	}
	id = base.T
	cur := base.Typ
	if base.K == VPtr {
		e.assertNonNil(base, pos, "field access")
		cur = derefType(cur)
	}
	idx := sel.Index()
	for n, i := range idx {
		stt, key, ok := structOf(cur)
		if !ok {
			e.errorf("%s: field path through unmodelled type %s", e.w.pos(pos), cur)
			return nil, nil, nil
		}
		f := stt.Field(i)
		k, eu := kindOf(f.Type())
		last := n == len(idx)-1
		if k == VStruct {
			id = App(subFn(key, f.Name()), SInt, id)
			cur = f.Type()
			if last {
				return id, nil, cur
			}
			continue
		}
		l := &leaf{Owner: key, Field: f.Name(), Typ: f.Type(), K: k, ElemU: eu}
		if last {
			return id, l, nil
		}
		if k == VPtr {
			pv := e.loadField(id, *l)
			e.assertNonNil(pv, pos, "field access")
			id = pv.T
			cur = derefType(f.Type())
			continue
		}
		e.errorf("%s: field path through non-struct field %s", e.w.pos(pos), f.Name())
		return nil, nil, nil
	}
	return id, nil, cur
}

func derefType(t types.Type) types.Type {
	if p, ok := types.Unalias(t).Underlying().(*types.Pointer); ok {
		return p.Elem()
	}
	return t
}

func (e *Env) fieldPath(base Value, sel *types.Selection, x *ast.SelectorExpr) Value {
	id, lf, st := e.walkSelection(base, sel, x.Pos())
	if id == nil {
		return e.unknown(e.info().Types[x].Type, "field")
	}
	if lf == nil {
		return Value{K: VStruct, T: id, Typ: st}
	}
	v := e.loadField(id, *lf)
	e.assume(e.wfLoaded(v))
	return v
}

func (e *Env) unary(x *ast.UnaryExpr, t types.Type) Value {
	switch x.Op {
	case token.NOT:
		v := e.expr(x.X)
		return Value{K: VBool, T: Not(v.T), Typ: t}
	case token.SUB:
		v := e.expr(x.X)
		if v.K != VInt {
			return e.unknown(t, "neg")
		}
		r := Sub(IntLit(0), v.T)
		if lo, _, ok := intRange(t); ok && !isUnsigned(t) {
			// integers are mathematical in the model: the one negation that wraps in the machine must not occur
			e.panicCheck(Gt(v.T, Lit(lo, SInt)), "negoverflow", "negation of the most negative value (wraps to itself)", x.Pos())
		}
		if isUnsigned(t) {
			_, hi, _ := intRange(t)
			m := Add(Lit(hi, SInt), IntLit(1))
			r = Bi("mod", SInt, r, m)
		}
		return Value{K: VInt, T: r, Typ: t}
	case token.ADD:
		return e.expr(x.X)
	case token.AND:
		// &x : address of a struct variable / field / composite literal
		v := e.expr(x.X)
		if v.K == VStruct {
			return Value{K: VPtr, T: v.T, Typ: t}
		}
		e.errorf("%s: unsupported address-of", e.w.pos(x.Pos()))
		return e.unknown(t, "addr")
	case token.XOR:
		v := e.expr(x.X)
		if v.K == VInt {
			return Value{K: VInt, T: App("bitnot", SInt, v.T), Typ: t}
		}
	}
	e.errorf("%s: unsupported unary %s", e.w.pos(x.Pos()), x.Op)
	return e.unknown(t, "unary")
}

func (e *Env) wrap(r *Term, t types.Type) *Term {
	b, ok := t.Underlying().(*types.Basic)
	if !ok {
		return r
	}
	switch b.Kind() {
	case types.Uint8:
		return Bi("mod", SInt, r, IntLit(256))
	case types.Uint16:
		return Bi("mod", SInt, r, IntLit(65536))
	case types.Uint32:
		return Bi("mod", SInt, r, pow2(32))
	}
	return r
}

func (e *Env) binary(x *ast.BinaryExpr, t types.Type) Value {
	switch x.Op {
	case token.LAND, token.LOR:
		return e.shortCircuit(x, t)
	}
	l := e.expr(x.X)
	r := e.expr(x.Y)
	switch x.Op {
	case token.EQL, token.NEQ:
		eq := e.equal(l, r, x.Pos())
		if isFloatType(e.info().Types[x.X].Type) || isFloatType(e.info().Types[x.Y].Type) {
			// IEEE equality is not the identity of the value (a NaN differs from itself)
			eq = App("feq", SBool, e.box(l), e.box(r))
		}
		if x.Op == token.NEQ {
			eq = Not(eq)
		}
		return Value{K: VBool, T: eq, Typ: t}
	}
	if l.K == VStr && r.K == VStr && x.Op == token.ADD {
		return e.concat(l, r, t)
	}
	if l.K != VInt || r.K != VInt {
		switch x.Op {
		case token.LSS, token.LEQ, token.GTR, token.GEQ:
			if v, ok := e.orderCmp(x.Op, l, r, e.info().Types[x.X].Type); ok {
				return Value{K: VBool, T: v, Typ: t}
			}
			return Value{K: VBool, T: e.fresh("cmp", SBool), Typ: t}
		}
		return e.unknown(t, "binop")
	}
	a, b := l.T, r.T
	switch x.Op {
	case token.LSS:
		return Value{K: VBool, T: Lt(a, b), Typ: t}
	case token.LEQ:
		return Value{K: VBool, T: Le(a, b), Typ: t}
	case token.GTR:
		return Value{K: VBool, T: Gt(a, b), Typ: t}
	case token.GEQ:
		return Value{K: VBool, T: Ge(a, b), Typ: t}
	case token.ADD:
		e.overflowCheck(Add(a, b), t, x.Pos())
		return Value{K: VInt, T: e.wrap(Add(a, b), t), Typ: t}
	case token.SUB:
		e.overflowCheck(Sub(a, b), t, x.Pos())
		return Value{K: VInt, T: e.wrap(Sub(a, b), t), Typ: t}
	case token.MUL:
		e.overflowCheck(Mul(a, b), t, x.Pos())
		return Value{K: VInt, T: e.wrap(Mul(a, b), t), Typ: t}
	case token.QUO:
		e.panicCheck(Ne(b, IntLit(0)), "div", "division by zero", x.Pos())
		return Value{K: VInt, T: App("godiv", SInt, a, b), Typ: t}
	case token.REM:
		e.panicCheck(Ne(b, IntLit(0)), "div", "division by zero", x.Pos())
		return Value{K: VInt, T: App("gorem", SInt, a, b), Typ: t}
	case token.SHR, token.SHL:
		if k, ok := litInt(b); ok && k >= 0 && k < 64 {
			if x.Op == token.SHR {
				return Value{K: VInt, T: Bi("div", SInt, a, pow2(k)), Typ: t}
			}
			return Value{K: VInt, T: e.wrap(Mul(a, pow2(k)), t), Typ: t}
		}
	case token.AND:
		if k, ok := litInt(b); ok && k >= 0 && (k+1)&k == 0 {
			return Value{K: VInt, T: Bi("mod", SInt, a, IntLit(k+1)), Typ: t}
		}
		return Value{K: VInt, T: App("bitand", SInt, a, b), Typ: t}
	case token.OR:
		return Value{K: VInt, T: App("bitor", SInt, a, b), Typ: t}
	}
	v := e.unknown(t, "binop")
	return v
}

func litInt(t *Term) (int64, bool) {
	if t.Op != "lit" {
		return 0, false
	}
	var n int64
	if _, err := fmt.Sscanf(t.Name, "%d", &n); err != nil {
		return 0, false
	}
	if fmt.Sprintf("%d", n) != t.Name {
		return 0, false
	}
	return n, true
}

func (e *Env) equal(l, r Value, pos token.Pos) *Term {
	// nil comparisons
	if l.K == VNone && r.K != VNone {
		l, r = r, l
	}
	if r.K == VNone {
		switch l.K {
		case VPtr:
			return Eq(l.T, IntLit(0))
		case VSlice:
			return Eq(l.Ref, IntLit(0))
		case VU:
			return Eq(l.T, App("nilU", SU))
		}
		return e.fresh("eqnil", SBool)
	}
	switch {
	case l.K == VInt && r.K == VInt, l.K == VBool && r.K == VBool, l.K == VPtr && r.K == VPtr:
		return Eq(l.T, r.T)
	case l.K == VU || r.K == VU:
		return Eq(e.box(l), e.box(r))
	case l.K == VStr && r.K == VStr:
		if lit, ok := litInt(r.Len); ok && lit == 0 {
			return Eq(l.Len, IntLit(0))
		}
		if lit, ok := litInt(l.Len); ok && lit == 0 {
			return Eq(r.Len, IntLit(0))
		}
		return App("streq", SBool, l.Arr, l.Off, l.Len, r.Arr, r.Off, r.Len)
	}
	return e.fresh("eq", SBool)
}

func (e *Env) concat(l, r Value, t types.Type) Value {
	arr := e.fresh("cat.arr", SArr)
	j := Bound("j", SInt)
	n := Add(l.Len, r.Len)
	e.assume(Forall([]*Term{j}, And(
		Implies(And(Le(IntLit(0), j), Lt(j, l.Len)), Eq(Select(arr, j), Select(l.Arr, Add(l.Off, j)))),
		Implies(And(Le(l.Len, j), Lt(j, n)), Eq(Select(arr, j), Select(r.Arr, Add(r.Off, Sub(j, l.Len))))))))
	return Value{K: VStr, Arr: arr, Off: IntLit(0), Len: n, Typ: t}
}

// shortCircuit lowers a && b / a || b; if b has side effects (obligations or
// calls) control flow is made explicit.
func (e *Env) shortCircuit(x *ast.BinaryExpr, t types.Type) Value {
	l := e.expr(x.X)
	// lower rhs into a scratch block to see whether it emits commands
	save := e.cur
	rb := e.newBlock("sc-rhs")
	e.cur = rb
	if x.Op == token.LAND {
		e.assume(l.T)
	} else {
		e.assume(Not(l.T))
	}
	nBefore := len(rb.Cmds)
	r := e.expr(x.Y)
	if e.cur == rb && len(rb.Cmds) == nBefore {
		// pure: drop the scratch block
		e.cur = save
		rb.Cmds = nil
		if x.Op == token.LAND {
			return Value{K: VBool, T: And(l.T, r.T), Typ: t}
		}
		return Value{K: VBool, T: Or(l.T, r.T), Typ: t}
	}
	// explicit control flow
	res := e.freshName("sc")
	e.declare(res, SBool)
	e.assign(res, SBool, r.T)
	end := e.cur
	skip := e.newBlock("sc-skip")
	join := e.newBlock("sc-join")
	save.Succ = append(save.Succ, rb, skip)
	e.cur = skip
	if x.Op == token.LAND {
		e.assume(Not(l.T))
		e.assign(res, SBool, False)
	} else {
		e.assume(l.T)
		e.assign(res, SBool, True)
	}
	skip.Succ = append(skip.Succ, join)
	end.Succ = append(end.Succ, join)
	e.cur = join
	return Value{K: VBool, T: Var(res, SBool), Typ: t}
}

func (e *Env) index(x *ast.IndexExpr, t types.Type) Value {
	bt := e.info().Types[x.X].Type
	if _, isMap := bt.Underlying().(*types.Map); isMap {
		m := e.expr(x.X)
		k := e.expr(x.Index)
		kk, _ := kindOf(t)
		switch kk {
		case VBool:
			return Value{K: VBool, T: App("mapidx$bool", SBool, m.T, e.box(k)), Typ: t}
		case VU:
			return Value{K: VU, T: App("mapidx$u", SU, m.T, e.box(k)), Typ: t}
		}
		return e.unknown(t, "mapidx")
	}
	b := e.expr(x.X)
	i := e.expr(x.Index)
	switch b.K {
	case VSlice:
		e.panicCheck(And(Le(IntLit(0), i.T), Lt(i.T, b.Len)), "index", "index in range: "+exprString(x), x.Pos())
		return e.readElem(b, i.T, t)
	case VStr:
		e.panicCheck(And(Le(IntLit(0), i.T), Lt(i.T, b.Len)), "index", "index in range: "+exprString(x), x.Pos())
		v := e.tmp(Select(b.Arr, Add(b.Off, i.T)))
		e.assume(And(Le(IntLit(0), v), Le(v, IntLit(255))))
		return Value{K: VInt, T: v, Typ: t}
	}
	e.errorf("%s: unsupported index expression", e.w.pos(x.Pos()))
	return e.unknown(t, "index")
}

func (e *Env) readElem(b Value, i *Term, t types.Type) Value {
	if b.ElemU {
		v := Select(App("shiftU", SArrU, Select(e.memU(), b.Ref), b.Off), i)
		k, _ := kindOf(t)
		if k == VU {
			return Value{K: VU, T: v, Typ: t}
		}
		return e.unknown(t, "elem")
	}
	v := e.tmp(Select(Select(e.mem(), b.Ref), Add(b.Off, i)))
	e.assume(rangeAssume(v, t))
	return Value{K: VInt, T: v, Typ: t}
}

func (e *Env) sliceExpr(x *ast.SliceExpr, t types.Type) Value {
	b := e.expr(x.X)
	if b.K == VPtr || b.K == VStruct {
		e.errorf("%s: unsupported slice base", e.w.pos(x.Pos()))
		return e.unknown(t, "slice")
	}
	lo := IntLit(0)
	if x.Low != nil {
		lo = e.expr(x.Low).T
	}
	var hi *Term
	if x.High != nil {
		hi = e.expr(x.High).T
	} else {
		hi = b.Len
	}
	switch b.K {
	case VSlice:
		limit := b.Cap
		if _, isArr := e.info().Types[x.X].Type.Underlying().(*types.Array); isArr {
			limit = b.Len
		}
		newCap := Sub(b.Cap, lo)
		if x.Slice3 && x.Max != nil {
			// full slice expression s[lo:hi:max]: the capacity of the result is max-lo
			mx := e.expr(x.Max).T
			e.panicCheck(And(Le(IntLit(0), lo), Le(lo, hi), Le(hi, mx), Le(mx, limit)), "slice", "slice bounds: "+exprString(x), x.Pos())
			newCap = Sub(mx, lo)
		} else {
			e.panicCheck(And(Le(IntLit(0), lo), Le(lo, hi), Le(hi, limit)), "slice", "slice bounds: "+exprString(x), x.Pos())
		}
		base, rel := b.Off, lo
		if b.Base != nil {
			base, rel = b.Base, Add(b.Rel, lo)
		}
		return Value{K: VSlice, Ref: b.Ref, Off: Add(b.Off, lo), Len: Sub(hi, lo), Cap: newCap, ElemU: b.ElemU, Typ: t, Base: base, Rel: rel}
	case VStr:
		e.panicCheck(And(Le(IntLit(0), lo), Le(lo, hi), Le(hi, b.Len)), "slice", "slice bounds: "+exprString(x), x.Pos())
		base, rel := b.Off, lo
		if b.Base != nil {
			base, rel = b.Base, Add(b.Rel, lo)
		}
		return Value{K: VStr, Arr: b.Arr, Off: Add(b.Off, lo), Len: Sub(hi, lo), Typ: t, Base: base, Rel: rel}
	}
	e.errorf("%s: unsupported slice expression", e.w.pos(x.Pos()))
	return e.unknown(t, "slice")
}

func (e *Env) compositeLit(x *ast.CompositeLit, t types.Type) Value {
	st, _, ok := structOf(t)
	if !ok {
		return e.unknown(t, "complit")
	}
	// evaluate field values first
	vals := map[int]Value{}
	for i, el := range x.Elts {
		if kv, ok := el.(*ast.KeyValueExpr); ok {
			name := kv.Key.(*ast.Ident).Name
			for j := 0; j < st.NumFields(); j++ {
				if st.Field(j).Name() == name {
					vals[j] = e.freeze(e.expr(kv.Value))
				}
			}
		} else {
			vals[i] = e.freeze(e.expr(el))
		}
	}
	z := e.zero(t)
	for j, v := range vals {
		f := st.Field(j)
		k, eu := kindOf(f.Type())
		if k == VStruct {
			e.copyStruct(App(subFn(typeKey(t), f.Name()), SInt, z.T), v.T, f.Type())
			continue
		}
		e.storeField(z.T, leaf{Owner: typeKey(t), Field: f.Name(), Typ: f.Type(), K: k, ElemU: eu}, v)
	}
	return z
}

// typeAssert lowers x.(T). With commaOk the boolean is returned separately and
// no panic obligation is emitted.
func (e *Env) typeAssert(x *ast.TypeAssertExpr, commaOk bool) (Value, *Term) {
	v := e.expr(x.X)
	t := e.info().Types[x.Type].Type
	ok := e.hasType(v, t)
	if !commaOk {
		e.panicCheck(ok, "typeassert", "type assertion "+exprString(x), x.Pos())
	}
	return e.extract(v, t), ok
}

// hasType is the dynamic type test "v's dynamic type is/implements t".
func (e *Env) hasType(v Value, t types.Type) *Term {
	if v.K != VU {
		return e.fresh("hastype", SBool)
	}
	name := "hasType$" + typeString(t)
	if e.w.typeOfPred == nil {
		e.w.typeOfPred = map[string]types.Type{}
	}
	e.w.typeOfPred[name] = types.Unalias(t)
	return App(name, SBool, v.T)
}

func typeString(t types.Type) string {
	t = types.Unalias(t)
	s := types.TypeString(t, func(p *types.Package) string { return shortPkg(p.Path()) })
	r := strings.NewReplacer(" ", "_", "{", "(", "}", ")", "*", "ptr_", "[", "(", "]", ")", ";", ",", "|", "/")
	return r.Replace(s)
}

// extract gives the payload of an opaque value at a concrete type.
func (e *Env) extract(v Value, t types.Type) Value {
	k, _ := kindOf(t)
	if k == VU {
		return Value{K: VU, T: v.T, Typ: t}
	}
	if v.K != VU {
		return e.coerce(v, t)
	}
	switch k {
	case VInt:
		x := e.tmp(App("unbox$int", SInt, v.T))
		e.assume(rangeAssume(x, t))
		return Value{K: VInt, T: x, Typ: t}
	case VBool:
		return Value{K: VBool, T: App("unbox$bool", SBool, v.T), Typ: t}
	case VStr:
		r := Value{K: VStr, Arr: App("unbox$str.arr", SArr, v.T), Off: App("unbox$str.off", SInt, v.T), Len: App("unbox$str.len", SInt, v.T), Typ: t}
		r = e.freeze(r)
		e.assume(e.wfStr(r))
		e.assumeTypeInv(r, t)
		return r
	case VSlice:
		r := e.unknown(t, "unbox")
		e.assumeTypeInv(r, t)
		return r
	}
	return e.unknown(t, "unbox")
}

func exprString(x ast.Expr) string {
	return types.ExprString(x)
}


// unsafeStringCast recognises *(*T)(unsafe.Pointer(&s)) with s a byte slice and
// T a string type: the result is a string sharing s's bytes.
func (e *Env) unsafeStringCast(x *ast.StarExpr) (Value, bool) {
	c1, ok := ast.Unparen(x.X).(*ast.CallExpr)
	if !ok || len(c1.Args) != 1 {
		return Value{}, false
	}
	c2, ok := ast.Unparen(c1.Args[0]).(*ast.CallExpr)
	if !ok || len(c2.Args) != 1 {
		return Value{}, false
	}
	if t, ok := e.info().Types[c2.Fun]; !ok || !t.IsType() || t.Type.String() != "unsafe.Pointer" {
		return Value{}, false
	}
	u, ok := ast.Unparen(c2.Args[0]).(*ast.UnaryExpr)
	if !ok || u.Op != token.AND {
		return Value{}, false
	}
	rt := e.info().Types[x].Type
	if k, _ := kindOf(rt); k != VStr {
		return Value{}, false
	}
	s := e.expr(u.X)
	if s.K != VSlice || s.ElemU {
		return Value{}, false
	}
	e.w.trustedNote("unsafe cast of a byte slice to a string modelled as a string over the same bytes; the slice header layout is trusted")
	if e.inline == 0 {
		e.unsafeCasts = append(e.unsafeCasts, e.tmp(s.Ref))
	}
	return Value{K: VStr, Arr: e.tmp(Select(e.mem(), s.Ref)), Off: s.Off, Len: s.Len, Typ: rt}, true
}

func isFloatType(t types.Type) bool {
	if t == nil {
		return false
	}
	b, ok := t.Underlying().(*types.Basic)
	return ok && b.Info()&(types.IsFloat|types.IsComplex) != 0
}

// orderCmp: the ordering of strings (a strict total order: exactly one of a < b, a == b, b < a) and of floats
// (a strict partial order; two values that both equal themselves, i.e. are not NaN, are equal or ordered). The
// relations are uninterpreted; these instances of their laws are assumed at each comparison.
func (e *Env) orderCmp(op token.Token, l, r Value, t types.Type) (*Term, bool) {
	switch {
	case l.K == VStr && r.K == VStr:
		lt := func(a, b Value) *Term { return App("strlt", SBool, a.Arr, a.Off, a.Len, b.Arr, b.Off, b.Len) }
		eq := App("streq", SBool, l.Arr, l.Off, l.Len, r.Arr, r.Off, r.Len)
		ab, ba := lt(l, r), lt(r, l)
		e.assume(Or(eq, ab, ba))
		e.assume(Not(And(ab, ba)))
		e.assume(Not(And(eq, ab)))
		e.assume(Not(And(eq, ba)))
		switch op {
		case token.LSS:
			return ab, true
		case token.GTR:
			return ba, true
		case token.LEQ:
			return Not(ba), true
		case token.GEQ:
			return Not(ab), true
		}
	case isFloatType(t) && (op == token.LSS || op == token.GTR):
		a, b := e.box(l), e.box(r)
		ab, ba := App("flt", SBool, a, b), App("flt", SBool, b, a)
		e.assume(Implies(And(App("feq", SBool, a, a), App("feq", SBool, b, b), Not(ab), Not(ba)), App("feq", SBool, a, b)))
		e.assume(Not(And(ab, ba)))
		if op == token.LSS {
			return ab, true
		}
		return ba, true
	}
	return nil, false
}

// overflowCheck: signed integers are mathematical in the model; the machine result is the same only if it is in
// the range of the type. Checked where the no-panic sweep runs (C11), assumed elsewhere.
func (e *Env) overflowCheck(r *Term, t types.Type, pos token.Pos) {
	lo, hi, ok := intRange(t)
	if !ok || isUnsigned(t) {
		return
	}
	e.panicCheck(And(Le(Lit(lo, SInt), r), Le(r, Lit(hi, SInt))), "overflow", "signed arithmetic stays in the range of its type", pos)
}
