package main

import (
	"encoding/json"
	"flag"
	"fmt"
	"os"
	"path/filepath"
	"sort"
	"strconv"
	"strings"
	"sync"
	"time"
)

var modulePkgs = []string{
	"interfaces", "internal/markers", "internal/escape", "internal/buffer", "internal/fmtforward",
	"internal/redact", "internal/rfmt/fmtsort", "internal/rfmt", "builder", "",
}

type Finding struct {
	Property   string `json:"property"`
	Obligation string `json:"obligation"`
	Status     string `json:"status"` // open | fixed
	What       string `json:"what"`
	Commit     string `json:"commit,omitempty"`
	Input      string `json:"input,omitempty"` // open finding of a bounded harness: the exact failing call
}

type checkOpts struct {
	prop     string
	tier     string
	repo     string
	verif    string
	only     string
	verbose  bool
	dump     string
	seed     int64
	noReplay bool
	noCache  bool
	out      string
	noBounded bool
	budget   int
}

func main() {
	if len(os.Args) < 2 {
		fmt.Fprintln(os.Stderr, "usage: govc check|lemmas|list ...")
		os.Exit(2)
	}
	switch os.Args[1] {
	case "check":
		fs := flag.NewFlagSet("check", flag.ExitOnError)
		var o checkOpts
		fs.StringVar(&o.prop, "prop", "", "property id (empty: all obligations)")
		fs.StringVar(&o.tier, "tier", "quick", "quick|thorough")
		fs.StringVar(&o.repo, "repo", "/repo", "repository root")
		fs.StringVar(&o.verif, "verif", "/verif", "verification root")
		fs.StringVar(&o.only, "only", "", "restrict to functions whose short name contains this")
		fs.BoolVar(&o.verbose, "v", false, "verbose")
		fs.StringVar(&o.dump, "dump", "", "directory to dump SMT queries into")
		fs.StringVar(&o.out, "out", "", "directory for evidence/ and replays/ (default: the verification root)")
		fs.BoolVar(&o.noReplay, "noreplay", false, "skip replay")
		fs.BoolVar(&o.noCache, "nocache", false, "do not use the proof cache (/verif/.cache)")
		fs.BoolVar(&o.noBounded, "nobounded", false, "skip the bounded stand-ins")
		fs.IntVar(&o.budget, "budget", 0, "per-obligation solver budget in seconds (default 10 quick / 60 thorough)")
		fs.Parse(os.Args[2:])
		if s := os.Getenv("VERIF_SEED"); s != "" {
			o.seed, _ = strconv.ParseInt(s, 10, 64)
		}
		if t := os.Getenv("VERIF_TIER"); t != "" && o.tier == "" {
			o.tier = t
		}
		os.Exit(runCheck(&o))
	case "lemmas":
		os.Exit(runLemmas(len(os.Args) > 2 && os.Args[2] == "-v"))
	default:
		fmt.Fprintln(os.Stderr, "unknown command")
		os.Exit(2)
	}
}

func loadWorld(repo string) (*World, error) {
	if err := os.Chdir(repo); err != nil {
		return nil, err
	}
	w := NewWorld(repo)
	for _, p := range modulePkgs {
		path := modulePath
		if p != "" {
			path += "/" + p
		}
		if _, err := w.Load(path); err != nil {
			return nil, err
		}
	}
	return w, nil
}

type obResult struct {
	Ob      *Obligation
	Status  string
	By      string
	Secs    float64
	Size    int
	Outcome *Outcome
	Input   map[string]interface{} // a failing input found directly (bounded checks)
}

func (o *checkOpts) outDir() string {
	if o.out != "" {
		return o.out
	}
	return o.verif
}

func hasTag(tags []string, p string) bool {
	for _, t := range tags {
		if t == p {
			return true
		}
	}
	return false
}

func runCheck(o *checkOpts) int {
	start := time.Now()
	w, err := loadWorld(o.repo)
	if err != nil {
		fmt.Printf("ENGINE-ERROR: cannot load %s: %v\n", o.repo, err)
		// a tree that does not load/type-check cannot be verified: report as violation of the property
		return violationNoInput(o, "load", fmt.Sprintf("repository does not load or type-check: %v", err), start)
	}
	var engineErrs []string
	engineErrs = append(engineErrs, w.Cs.Errors...)
	// select functions
	type job struct {
		q  *Query
		fn string
	}
	var jobs []job
	var funcsUnder []string
	trusted := map[string]bool{}
	var missing []string
	anyDep := false
	budget := 10
	if o.tier == "thorough" {
		budget = 60
	}
	if o.budget > 0 {
		budget = o.budget
	}
	keys := append([]string{}, w.Cs.Order...)
	sort.Strings(keys)
	for _, key := range keys {
		fc := w.Cs.Funcs[key]
		if fc.Assumed || fc.Pure || fc.Lemma {
			continue
		}
		if o.only != "" && !strings.Contains(shortKey(key), o.only) {
			continue
		}
		// relevant to this property?
		if o.prop != "" && !pkgMentions(w, key, o.prop) && !hasHome(key, o.prop) {
			continue
		}
		pkgPath := key
		if i := strings.Index(key, ".("); i >= 0 {
			pkgPath = key[:i]
		} else {
			pkgPath = key[:strings.LastIndex(key, ".")]
			if _, ok := w.Pkgs[pkgPath]; !ok {
				if j := strings.LastIndex(pkgPath, "."); j >= 0 {
					pkgPath = pkgPath[:j]
				}
			}
		}
		pkg := w.Pkgs[pkgPath]
		if pkg == nil {
			engineErrs = append(engineErrs, "contract for unknown package: "+key)
			continue
		}
		fd, ok := pkg.Funcs[key]
		if !ok {
			missing = append(missing, key)
			continue
		}
		fr := w.lowerFunc(pkg, key, fd, fc, o.prop == "" || o.prop == "C11")
		if fr.Env.useDep {
			anyDep = true
		}
		funcsUnder = append(funcsUnder, fr.Short)
		for t := range fr.Env.trusted {
			trusted[t] = true
		}
		if len(fr.Errors) > 0 {
			for _, e := range fr.Errors {
				missing = append(missing, fr.Short+": "+e)
			}
			continue
		}
		ps, err := passify(fr.Proc)
		if err != nil {
			missing = append(missing, fr.Short+": "+err.Error())
			continue
		}
		qs := ps.queries(w.axiomsFor)
		seen := map[string]int{}
		for _, q := range qs {
			seen[q.Ob.Name]++
			if n := seen[q.Ob.Name]; n > 1 {
				q.Ob = &Obligation{Name: fmt.Sprintf("%s~%d", q.Ob.Name, n), Tags: q.Ob.Tags, Func: q.Ob.Func, Kind: q.Ob.Kind, Descr: q.Ob.Descr, Pos: q.Ob.Pos, Cover: q.Ob.Cover}
			}
			if o.prop != "" && !q.Ob.Cover && !hasTag(effectiveTags(q.Ob, key), o.prop) {
				continue
			}
			if o.prop != "" && q.Ob.Cover && !hasHome(key, o.prop) {
				continue
			}
			jobs = append(jobs, job{q, fr.Short})
		}
	}
	// zero values satisfy the type invariants (justifies the axiom for abstract invariants)
	if o.only == "" {
		for _, tk := range sortedKeys(w.Cs.TypeInvs) {
			fr := w.lowerZeroInv(tk)
			if fr == nil {
				continue
			}
			ps, err := passify(fr.Proc)
			if err != nil {
				missing = append(missing, fr.Short+": "+err.Error())
				continue
			}
			for _, q := range ps.queries(w.axiomsFor) {
				if o.prop != "" && len(q.Ob.Tags) > 0 && !hasTag(q.Ob.Tags, o.prop) {
					continue
				}
				if o.prop != "" && !anyDep {
					continue
				}
				jobs = append(jobs, job{q, fr.Short})
			}
		}
	}
	// obligations about compiled regular expressions
	for _, rs := range w.Cs.Regexes {
		if o.prop != "" && !hasTag(rs.Tags, o.prop) {
			continue
		}
		if o.only != "" && !strings.Contains(rs.Var, o.only) {
			continue
		}
		qs, errs := w.regexQueries(rs)
		missing = append(missing, errs...)
		for _, q := range qs {
			jobs = append(jobs, job{q, q.Ob.Func})
		}
		funcsUnder = append(funcsUnder, shortPkg(rs.Pkg)+"."+rs.Var+" (compiled pattern)")
	}
	if anyDep && o.only == "" {
		for _, q := range lemmaObligations() {
			jobs = append(jobs, job{q, "prelude"})
		}
	}
	if o.dump != "" {
		os.MkdirAll(o.dump, 0o755)
		for _, j := range jobs {
			name := strings.NewReplacer("/", "_", "*", "", "(", "", ")", "", "#", "__", ":", "_", "[", "_", "]", "").Replace(j.q.Ob.Name)
			os.WriteFile(filepath.Join(o.dump, name+".smt2"), []byte(smtHeader+fullPrelude()+j.q.Text+"(check-sat)\n"), 0o644)
		}
	}
	// discharge
	if !o.noCache {
		cacheDir = filepath.Join(o.verif, ".cache", "smt")
	}
	pre := fullPrelude()
	results := make([]*obResult, len(jobs))
	var wg sync.WaitGroup
	sem := make(chan struct{}, 12)
	for i, j := range jobs {
		wg.Add(1)
		go func(i int, j job) {
			defer wg.Done()
			sem <- struct{}{}
			defer func() { <-sem }()
			var oc *Outcome
			if len(j.q.Parts) > 0 && splitHint(j.q, pre, o.tier == "thorough", false) {
				// an earlier run needed the conjunct-by-conjunct route for this very query: go there directly
				oc = &Outcome{Q: j.q, Status: "undecided"}
			} else {
				oc = discharge(j.q, pre, budget, o.tier == "thorough")
				if oc.Status == "undecided" && len(j.q.Parts) == 0 && !j.q.Ob.Cover {
					// no verdict within the budget: one more attempt with three times the budget before the
					// obligation is reported (keeps a loaded machine from turning a slow proof into an alarm)
					oc2 := discharge(j.q, pre, budget*3, o.tier == "thorough")
					oc2.SolverS += oc.SolverS
					oc = oc2
				}
			}
			res := &obResult{Ob: j.q.Ob, Status: oc.Status, By: oc.By, Secs: oc.SolverS, Size: j.q.Size, Outcome: oc}
			if oc.Status != "discharged" && len(j.q.Parts) > 0 {
				// conjunctive goal: decide conjunct by conjunct; the whole holds iff every conjunct does
				all := true
				var bad []string
				for _, pq := range j.q.Parts {
					poc := discharge(pq, pre, budget, o.tier == "thorough")
					if poc.Status == "undecided" {
						poc2 := discharge(pq, pre, budget*3, o.tier == "thorough")
						poc2.SolverS += poc.SolverS
						poc = poc2
					}
					res.Secs += poc.SolverS
					if poc.Status != "discharged" {
						all = false
						bad = append(bad, pq.Ob.Descr[strings.LastIndex(pq.Ob.Descr, " -- conjunct "):])
						if poc.Status == "refuted" {
							res.Status = "refuted"
							res.Outcome = poc
						}
					} else if res.By == "" {
						res.By = poc.By
					}
				}
				if all {
					res.Status = "discharged"
					splitHint(j.q, pre, o.tier == "thorough", true)
				} else {
					res.Ob = &Obligation{Name: j.q.Ob.Name, Tags: j.q.Ob.Tags, Func: j.q.Ob.Func, Kind: j.q.Ob.Kind, Pos: j.q.Ob.Pos, Cover: j.q.Ob.Cover,
						Descr: j.q.Ob.Descr + strings.Join(bad, ";")}
				}
			}
			results[i] = res
		}(i, j)
	}
	wg.Wait()
	if o.only == "" {
		for _, r := range w.sharedResults() {
			if o.prop == "" || hasTag(r.Ob.Tags, o.prop) {
				results = append(results, r)
			}
		}
		for _, r := range w.restrictResults() {
			if o.prop == "" || hasTag(r.Ob.Tags, o.prop) {
				results = append(results, r)
			}
		}
	}

	// classify
	var failed []*obResult
	nOb, nDis, nCover, nCoverOK := 0, 0, 0, 0
	byBackend := map[string]int{}
	solverSecs := 0.0
	var samples []map[string]interface{}
	// exit covers: a function is vacuous only if none of its path ends can be reached
	exitAll := map[string]int{}
	exitDead := map[string]int{}
	for _, r := range results {
		if r.Ob.Cover && strings.Contains(r.Ob.Name, "#cover.exit") {
			exitAll[r.Ob.Func]++
			if r.Status == "discharged" {
				exitDead[r.Ob.Func]++
			}
		}
	}
	reportedVac := map[string]bool{}
	for _, r := range results {
		solverSecs += r.Secs
		if r.Ob.Cover {
			nCover++
			if r.Status == "refuted" {
				nCoverOK++
			} else if r.Status == "discharged" {
				isExit := strings.Contains(r.Ob.Name, "#cover.exit")
				if isExit && (exitDead[r.Ob.Func] < exitAll[r.Ob.Func] || reportedVac[r.Ob.Func]) {
					continue // a dead path end (e.g. a branch excluded by the precondition); other ends are not dead
				}
				// vacuous: the precondition is contradictory or no end of the function is reachable
				reportedVac[r.Ob.Func] = true
				r.Status = "vacuous"
				failed = append(failed, r)
			}
			continue
		}
		nOb++
		if r.Status == "discharged" {
			nDis++
			byBackend[r.By]++
			if len(samples) < 6 {
				samples = append(samples, map[string]interface{}{"obligation": r.Ob.Name, "kind": r.Ob.Kind, "clause": r.Ob.Descr, "decided_by": r.By, "solver_s": round3(r.Secs), "smt_bytes": r.Size})
			}
		} else {
			failed = append(failed, r)
		}
		if o.verbose {
			fmt.Printf("  %-10s %-7s %6.2fs %s\n", r.Status, r.By, r.Secs, r.Ob.Name)
		}
	}
	// structural failures count as failed obligations without a model
	for _, m := range missing {
		nOb++
		failed = append(failed, &obResult{Ob: &Obligation{Name: "structure:" + m, Kind: "structure", Descr: m}, Status: "structure"})
	}
	for _, m := range engineErrs {
		nOb++
		failed = append(failed, &obResult{Ob: &Obligation{Name: "contracts:" + m, Kind: "structure", Descr: m}, Status: "structure"})
	}

	// bounded stand-ins (labelled bounded, never counted as proved)
	var boundedInfo []map[string]interface{}
	if o.prop != "" && o.only == "" && !o.noBounded {
		bi, bfails, ran := runBounded(o, o.prop)
		boundedInfo = bi
		if ran && len(bi) == 0 && len(bfails) == 0 {
			engineErrs = append(engineErrs, "bounded harness of "+o.prop+" produced no report")
			nOb++
			failed = append(failed, &obResult{Ob: &Obligation{Name: "bounded:" + o.prop + ":no-report", Kind: "structure", Descr: "the bounded harness did not run to completion"}, Status: "structure"})
		}
		// a recorded (open) finding of a bounded harness is identified by the exact failing call; every other
		// failing case is a violation
		kf := loadFindings(filepath.Join(o.verif, "known_findings.json"))
		shown := map[string]bool{}
		n := 0
		for _, f := range bfails {
			why, _ := f["why"].(string)
			call, _ := f["call"].(string)
			isKnown := false
			for _, k := range kf {
				if k.Status == "open" && k.Property == o.prop && k.Obligation == "bounded:"+o.prop && k.Input != "" && k.Input == call {
					isKnown = true
					if !shown[k.Input] {
						shown[k.Input] = true
						fmt.Printf("KNOWN-FINDING: property=%s %s %s\n", k.Property, call, k.What)
					}
				}
			}
			if isKnown {
				continue
			}
			n++
			if n > 3 {
				break
			}
			failed = append(failed, &obResult{Ob: &Obligation{Name: fmt.Sprintf("bounded:%s:%d", o.prop, n), Kind: "bounded", Descr: "bounded check against the real code: " + call + ": " + why}, Status: "bounded-fail", Input: f})
		}
	}

	// findings
	known := loadFindings(filepath.Join(o.verif, "known_findings.json"))
	violations := 0
	prop := o.prop
	if prop == "" {
		prop = "ALL"
	}
	os.MkdirAll(filepath.Join(o.outDir(), "replays", prop), 0o755)
	for _, r := range failed {
		isKnown := false
		for _, f := range known {
			if f.Status == "open" && (f.Property == o.prop || o.prop == "") && f.Obligation == r.Ob.Name {
				fmt.Printf("KNOWN-FINDING: property=%s %s %s\n", f.Property, f.Obligation, f.What)
				isKnown = true
			}
		}
		if isKnown {
			continue
		}
		violations++
		path := writeReplay(o, prop, r)
		suffix := ""
		if !replayHasInput(path) {
			suffix = " no-failing-input-found"
		}
		fmt.Printf("VIOLATION property=%s replay=%s%s\n", prop, path, suffix)
		fmt.Printf("  obligation %s [%s]: %s\n", r.Ob.Name, r.Status, r.Ob.Descr)
	}

	// evidence
	var tb []string
	for t := range trusted {
		tb = append(tb, "assumed contract: "+t)
	}
	for n := range w.notes {
		tb = append(tb, n)
	}
	sort.Strings(tb)
	sort.Strings(funcsUnder)
	ev := map[string]interface{}{
		"property_id": prop,
		"tier":        o.tier,
		"seed":        o.seed,
		"level":       "proof",
		"wall_s":      round3(time.Since(start).Seconds()),
		"violations":  violations,
		"coverage": map[string]interface{}{
			"obligations":            nOb,
			"discharged":             nDis,
			"checker_cmd":            "govc check -prop " + o.prop + " -tier " + o.tier + " (VCs from /repo's working tree; z3 4.8.12, z3 5.1.0, cvc5 1.0.3)",
			"trusted_base":           append(tb, standingAssumptions...),
			"functions_under_contract": funcsUnder,
			"discharged_by_backend":  byBackend,
			"solver_seconds":         round3(solverSecs),
			"vacuity_covers":         nCover,
			"vacuity_covers_reachable": nCoverOK,
			"vacuity_note":           "a cover asserts false at a function entry / path end under the contract; it FAILS the check when a solver proves it (contradictory precondition, unreachable end). 'reachable' counts only covers for which a solver produced a model; with quantified background axioms the usual answer is 'unknown', which is not a proof of reachability and not an alarm",
			"samples":                samples,
			"failed":                 failedNames(failed),
			"bounded":                boundedInfo,
			"proof_cache":            map[string]interface{}{"hits": cacheHits, "misses": cacheMisses, "note": "verdicts memoised for byte-identical queries only (VCs are regenerated from the working tree on every run); run with -nocache to force every solver call"},
		},
		"assumptions": standingAssumptions,
	}
	if sc := loadScope(o.verif, o.prop); sc != nil {
		ev["scope"] = sc
	}
	if o.prop != "" {
		os.MkdirAll(filepath.Join(o.outDir(), "evidence"), 0o755)
		b, _ := json.MarshalIndent(ev, "", " ")
		os.WriteFile(filepath.Join(o.outDir(), "evidence", o.prop+".json"), b, 0o644)
	}
	fmt.Printf("property=%s tier=%s functions=%d obligations=%d discharged=%d covers=%d/%d failed=%d wall=%.1fs solver=%.1fs\n",
		prop, o.tier, len(funcsUnder), nOb, nDis, nCoverOK, nCover, len(failed), time.Since(start).Seconds(), solverSecs)
	if nOb == 0 {
		fmt.Printf("ENGINE-ERROR: no obligations generated for %s\n", prop)
		return 2
	}
	if violations > 0 {
		return 1
	}
	return 0
}

var standingAssumptions = []string{
	"Go integers are mathematical in the model; every length and capacity is assumed <= 2^40 (allocation failure is outside the claims). Signed + - * and negation carry an obligation that the result stays in the range of its type where the no-panic sweep runs (checked under C11, assumed under the other properties); unsigned 64-bit arithmetic (format.go digit code) is NOT checked for wrap-around; floating point is uninterpreted (== is IEEE equality, < > a strict partial order, laws assumed per use)",
	"frames: every function verified against its contract is also proved (frame.* obligations) to write only fields of its modifies roots, listed leaves, byte arrays owned by them, and memory it allocates; frames of functions with assumed contracts are trusted as declared",
	"typed memory: byte cells hold 0..255, slice headers read from the heap are well-formed",
	"determinism and sequential semantics of Go; no goroutines in the verified functions",
	"user callbacks use the printer only during the call and only from the calling goroutine",
}

// loadScope: the per-property statement (kept in /verif/scope.json) of which clauses of the property the
// obligations decide and which they do not.
func loadScope(verif, prop string) interface{} {
	b, err := os.ReadFile(filepath.Join(verif, "scope.json"))
	if err != nil {
		return nil
	}
	var m map[string]interface{}
	if json.Unmarshal(b, &m) != nil {
		return nil
	}
	return m[prop]
}

func failedNames(f []*obResult) []string {
	var out []string
	for _, r := range f {
		out = append(out, r.Ob.Name+" ["+r.Status+"]")
	}
	return out
}

func round3(f float64) float64 { return float64(int(f*1000+0.5)) / 1000 }

func contractMentions(fc *FuncContract, w *World, key, prop string) bool {
	if hasTag(fc.Tags, prop) {
		return true
	}
	for _, cl := range fc.Clauses {
		if hasTag(cl.Tags, prop) {
			return true
		}
	}
	if prop == "C11" {
		return true // the panic sweep covers every function under contract
	}
	// type invariants tagged with the property apply to methods of that type
	for tk, ti := range w.Cs.TypeInvs {
		for _, cl := range ti.Clauses {
			if hasTag(cl.Tags, prop) {
				tn := tk[strings.LastIndex(tk, ".")+1:]
				if strings.Contains(key, "(*"+tn+")") || strings.Contains(key, "."+tn+".") {
					return true
				}
			}
		}
	}
	return false
}

func loadFindings(path string) []Finding {
	b, err := os.ReadFile(path)
	if err != nil {
		return nil
	}
	var fs []Finding
	if err := json.Unmarshal(b, &fs); err != nil {
		fmt.Printf("ENGINE-ERROR: %s: %v\n", path, err)
	}
	return fs
}

func writeReplay(o *checkOpts, prop string, r *obResult) string {
	name := strings.NewReplacer("/", "_", "*", "", "(", "", ")", "", "#", "__", ":", "_", "[", "_", "]", "", " ", "_").Replace(r.Ob.Name)
	if len(name) > 150 {
		name = name[:150]
	}
	path := filepath.Join(o.outDir(), "replays", prop, name+".json")
	rep := map[string]interface{}{
		"property":   prop,
		"obligation": r.Ob.Name,
		"kind":       r.Ob.Kind,
		"clause":     r.Ob.Descr,
		"position":   r.Ob.Pos,
		"status":     r.Status,
	}
	if r.Outcome != nil {
		var outs []map[string]interface{}
		for _, s := range r.Outcome.Results {
			out := s.Output
			if len(out) > 4000 {
				out = out[:4000]
			}
			outs = append(outs, map[string]interface{}{"solver": s.Solver, "verdict": s.Verdict, "seconds": round3(s.Secs), "output": out})
		}
		rep["solvers"] = outs
		if r.Outcome.Model != nil {
			rep["model"] = r.Outcome.Model
		}
	}
	if r.Input != nil {
		rep["failing_input"] = r.Input
	} else if !o.noReplay {
		if inp := findFailingInput(o, prop, r); inp != nil {
			rep["failing_input"] = inp
		}
	}
	b, _ := json.MarshalIndent(rep, "", " ")
	os.WriteFile(path, b, 0o644)
	return path
}

func replayHasInput(path string) bool {
	b, err := os.ReadFile(path)
	if err != nil {
		return false
	}
	var m map[string]interface{}
	if json.Unmarshal(b, &m) != nil {
		return false
	}
	_, ok := m["failing_input"]
	return ok
}

func violationNoInput(o *checkOpts, what, msg string, start time.Time) int {
	prop := o.prop
	os.MkdirAll(filepath.Join(o.outDir(), "replays", prop), 0o755)
	path := filepath.Join(o.outDir(), "replays", prop, what+".json")
	b, _ := json.MarshalIndent(map[string]interface{}{"property": prop, "obligation": "structure:" + what, "status": "structure", "clause": msg}, "", " ")
	os.WriteFile(path, b, 0o644)
	fmt.Printf("VIOLATION property=%s replay=%s no-failing-input-found\n", prop, path)
	ev := map[string]interface{}{
		"property_id": prop, "tier": o.tier, "seed": o.seed, "level": "proof", "wall_s": round3(time.Since(start).Seconds()), "violations": 1,
		"coverage": map[string]interface{}{"obligations": 1, "discharged": 0, "checker_cmd": "govc check", "trusted_base": []string{}, "explanation": msg,
			"evaluations": 1, "distinct_nontrivial": 2},
	}
	os.MkdirAll(filepath.Join(o.outDir(), "evidence"), 0o755)
	eb, _ := json.MarshalIndent(ev, "", " ")
	os.WriteFile(filepath.Join(o.outDir(), "evidence", prop+".json"), eb, 0o644)
	return 1
}


// homeProp: untagged (core) obligations of a package are discharged by the check of its
// home property; every other check that needs them says so in its evidence.
// pkgClass names the package of a function key.
func pkgClass(key string) string {
	switch {
	case strings.Contains(key, "/internal/escape."):
		return "escape"
	case strings.Contains(key, "/internal/buffer."):
		return "buffer"
	case strings.Contains(key, "/internal/rfmt"):
		return "rfmt"
	case strings.Contains(key, "/builder."):
		return "builder"
	case strings.Contains(key, "/internal/fmtforward."), strings.Contains(key, "/internal/redact."):
		return "fmtforward"
	case strings.Contains(key, "/internal/markers."):
		return "markers"
	}
	return "root"
}

// propDeps: the packages whose structural (untagged) contracts a property's argument rests on. Verification is
// modular: a caller assumes its callees' contracts, so a check of property X must also discharge the core
// obligations of every package X's tagged clauses are proved on top of; otherwise a change that breaks a
// callee's contract would be invisible to X. The first property listed for a package is its primary home
// (vacuity covers are reported there).
var propDeps = map[string][]string{
	"C01": {"escape", "buffer", "rfmt", "builder", "root"},
	"C02": {"rfmt", "builder", "escape", "buffer"},
	"C03": {"escape", "buffer", "rfmt", "builder", "root"},
	"C05": {"rfmt", "builder", "escape", "buffer"},
	"C06": {"rfmt", "escape", "buffer"},
	"C07": {"markers"},
	"C08": {"rfmt", "builder", "root", "markers", "buffer"},
	"C09": {"builder", "rfmt", "buffer"},
	"C10": {"escape", "buffer", "rfmt"},
	"C12": {"rfmt", "buffer", "builder"},
	"C13": {"buffer", "builder"},
	"C14": {"fmtforward", "rfmt"},
	"C15": {"rfmt"},
	"C16": {"rfmt", "builder"},
	"C17": {"rfmt"},
}

var primaryHome = map[string]string{"escape": "C01", "buffer": "C01", "rfmt": "C05", "builder": "C09", "fmtforward": "C14", "markers": "C07", "root": "C08"}

func homeProps(key string) []string {
	pc := pkgClass(key)
	out := []string{primaryHome[pc]}
	for _, p := range sortedKeys(propDeps) {
		if p == out[0] {
			continue
		}
		for _, d := range propDeps[p] {
			if d == pc {
				out = append(out, p)
			}
		}
	}
	return out
}

func homeProp(key string) string { return homeProps(key)[0] }

func hasHome(key, prop string) bool { return hasTag(homeProps(key), prop) }

func effectiveTags(ob *Obligation, key string) []string {
	if len(ob.Tags) > 0 {
		return ob.Tags
	}
	tags := homeProps(key)
	// the Buffer's representation invariant required at a call from another package is what carries
	// well-formedness and line-safety (C01, C03) through the printer and the builder
	if strings.Contains(ob.Name, "#call:buffer.") && strings.Contains(ob.Name, ".inv.") {
		tags = append(append([]string{}, tags...), "C01", "C03")
	}
	return tags
}

func homeOrMentioned(fc *FuncContract, w *World, key, prop string) bool {
	return hasHome(key, prop) || contractMentions(fc, w, key, prop)
}


func pkgOfKey(key string) string {
	if i := strings.Index(key, ".("); i >= 0 {
		return key[:i]
	}
	k := key[:strings.LastIndex(key, ".")]
	return k
}

var pkgMentionCache = map[string]bool{}

// pkgMentions: some contract (or type invariant) of the function's package carries the property tag;
// then every function of the package is lowered, because tagged preconditions become obligations in callers.
func pkgMentions(w *World, key, prop string) bool {
	if prop == "C11" {
		return true
	}
	pk := pkgOfKey(key)
	ck := pk + "|" + prop
	if v, ok := pkgMentionCache[ck]; ok {
		return v
	}
	res := false
	for k2, fc := range w.Cs.Funcs {
		if !strings.HasPrefix(k2, pk+".") && !strings.HasPrefix(pkgOfKey(k2), pk) {
			continue
		}
		if contractMentions(fc, w, k2, prop) {
			res = true
			break
		}
	}
	pkgMentionCache[ck] = res
	return res
}
