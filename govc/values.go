package main

import (
	"fmt"
	"go/types"
	"strings"
)

type VK int

const (
	VNone VK = iota
	VInt
	VBool
	VU
	VSlice
	VStr
	VPtr    // pointer to a module struct: T = object id (0 = nil)
	VStruct // struct value living in the heap: T = object id
	VTuple
)

// Value is the symbolic value of a Go expression.
type Value struct {
	K     VK
	T     *Term // VInt, VBool, VU, VPtr, VStruct
	Ref   *Term // VSlice
	Arr   *Term // VStr: contents
	Off   *Term
	Len   *Term
	Cap   *Term
	ElemU bool
	Typ   types.Type
	Elems []Value
	// Base/Rel: for a slice expression x[lo:hi] used directly, Off = Base + Rel where Base is
	// the offset of x's own view; lets copies be stated relative to x's view (matching-friendly).
	Base *Term
	Rel  *Term
	// Dyn: the concrete value inside an interface value, when statically known (devirtualisation)
	Dyn *Value
}

func intV(t *Term) Value  { return Value{K: VInt, T: t} }
func boolV(t *Term) Value { return Value{K: VBool, T: t} }
func uV(t *Term) Value    { return Value{K: VU, T: t} }

func inModule(pkg *types.Package) bool {
	return pkg != nil && (pkg.Path() == modulePath || strings.HasPrefix(pkg.Path(), modulePath+"/"))
}

// structOf returns the struct type if t is a struct modelled field-wise.
func structOf(t types.Type) (*types.Struct, string, bool) {
	switch x := t.(type) {
	case *types.Named:
		if st, ok := x.Underlying().(*types.Struct); ok {
			if inModule(x.Obj().Pkg()) {
				return st, shortPkg(x.Obj().Pkg().Path()) + "." + x.Obj().Name(), true
			}
			return nil, "", false
		}
	case *types.Alias:
		return structOf(types.Unalias(x))
	case *types.Struct:
		return x, "anon", true
	}
	return nil, "", false
}

func kindOf(t types.Type) (VK, bool) {
	t = types.Unalias(t)
	if _, _, ok := structOf(t); ok {
		return VStruct, false
	}
	switch x := t.Underlying().(type) {
	case *types.Basic:
		info := x.Info()
		switch {
		case info&types.IsInteger != 0:
			return VInt, false
		case info&types.IsBoolean != 0:
			return VBool, false
		case info&types.IsString != 0:
			return VStr, false
		}
		return VU, false
	case *types.Pointer:
		if _, _, ok := structOf(x.Elem()); ok {
			return VPtr, false
		}
		return VU, false
	case *types.Slice:
		k, _ := kindOf(x.Elem())
		return VSlice, k != VInt
	case *types.Array:
		k, _ := kindOf(x.Elem())
		return VSlice, k != VInt
	}
	return VU, false
}

// intRange returns the value range of an integer type as SMT literals.
func intRange(t types.Type) (lo, hi string, ok bool) {
	b, isB := t.Underlying().(*types.Basic)
	if !isB {
		return "", "", false
	}
	switch b.Kind() {
	case types.Int8:
		return "(- 128)", "127", true
	case types.Int16:
		return "(- 32768)", "32767", true
	case types.Int32:
		return "(- 2147483648)", "2147483647", true
	case types.Int, types.Int64:
		return "(- 9223372036854775808)", "9223372036854775807", true
	case types.Uint8:
		return "0", "255", true
	case types.Uint16:
		return "0", "65535", true
	case types.Uint32:
		return "0", "4294967295", true
	case types.Uint, types.Uint64, types.Uintptr:
		return "0", "18446744073709551615", true
	case types.UntypedInt, types.UntypedRune:
		return "", "", false
	}
	return "", "", false
}

func isUnsigned(t types.Type) bool {
	b, ok := t.Underlying().(*types.Basic)
	return ok && b.Info()&types.IsUnsigned != 0
}

func rangeAssume(t *Term, typ types.Type) *Term {
	lo, hi, ok := intRange(typ)
	if !ok {
		return True
	}
	return And(Le(Lit(lo, SInt), t), Le(t, Lit(hi, SInt)))
}

// sizeBound is the assumed upper bound on every length and capacity
// (allocation failure is outside the claims; see DESIGN 2.10).
const sizeBound = "1099511627776" // 2^40

// ---------------------------------------------------------------------
// Heap naming

type leaf struct {
	Path  []string // field names from the root struct
	Owner string   // type key of the struct that directly contains the field
	Field string
	Typ   types.Type
	K     VK
	ElemU bool
}

func heapMap(owner, field string) string { return "H$" + owner + "$" + field }
func subFn(owner, field string) string   { return "sub$" + owner + "$" + field }

// components of a leaf field in the heap: suffix -> sort
func leafComps(k VK, elemU bool) []struct {
	Suf string
	S   Sort
} {
	type c = struct {
		Suf string
		S   Sort
	}
	switch k {
	case VInt, VPtr:
		return []c{{"", SArr}}
	case VBool:
		return []c{{"", SArrB}}
	case VU:
		return []c{{"", SArrU}}
	case VSlice:
		return []c{{".ref", SArr}, {".off", SArr}, {".len", SArr}, {".cap", SArr}}
	case VStr:
		return []c{{".arr", SArrA}, {".off", SArr}, {".len", SArr}}
	}
	panic(fmt.Sprintf("leafComps %v", k))
}

// walkLeaves enumerates the leaf fields reachable by value from struct type t.
// visit gets the id-transformer chain as list of (owner, field) sub-object steps.
type subStep struct{ Owner, Field string }

func walkLeaves(t types.Type, steps []subStep, visit func(steps []subStep, lf leaf)) {
	st, key, ok := structOf(t)
	if !ok {
		return
	}
	for i := 0; i < st.NumFields(); i++ {
		f := st.Field(i)
		k, eu := kindOf(f.Type())
		if k == VStruct {
			walkLeaves(f.Type(), append(append([]subStep{}, steps...), subStep{key, f.Name()}), visit)
			continue
		}
		visit(steps, leaf{Owner: key, Field: f.Name(), Typ: f.Type(), K: k, ElemU: eu})
	}
	for _, name := range sortedKeys(ghostFieldTable[key]) {
		visit(steps, ghostLeaf(key, name, ghostFieldTable[key][name]))
	}
}

func ghostLeaf(owner, name, kind string) leaf {
	if kind == "bool" {
		return leaf{Owner: owner, Field: name, Typ: types.Typ[types.Bool], K: VBool}
	}
	if kind == "u" {
		return leaf{Owner: owner, Field: name, Typ: types.NewInterfaceType(nil, nil), K: VU}
	}
	if kind == "str" {
		return leaf{Owner: owner, Field: name, Typ: types.Typ[types.String], K: VStr}
	}
	return leaf{Owner: owner, Field: name, Typ: types.Typ[types.Int], K: VInt}
}

func typeKey(t types.Type) string {
	_, key, ok := structOf(t)
	if !ok {
		return "?"
	}
	return key
}
