package main

// Obligations about compiled regular expressions (property C07).
//
// A contract line
//
//	regex VarName [tags] language "<go regexp>" prefix-free nonempty
//
// names a package-level variable initialised with regexp.MustCompile(<constant expression>). The
// pattern is taken from the type checker's constant folding of that expression in /repo's working
// tree (so it is the pattern the code compiles), parsed with regexp/syntax exactly as MustCompile
// does (syntax.Perl), and translated to an SMT-LIB regular expression over code points. The spec
// pattern of the contract is translated the same way. Obligations, for ALL strings:
//
//	language:    L(code) == L(spec)
//	prefix-free: no match is a proper prefix of another match (so leftmost-first matching, which
//	             regexp implements, has exactly one candidate at each start position and lazy/greedy
//	             operators cannot change what ReplaceAll replaces)
//	nonempty:    the empty string does not match
//
// Code points above U+2FFFF (the solvers' limit) are folded: a class boundary inside
// (U+2FFFF, U+10FFFF) is reported as unsupported rather than approximated.

import (
	"fmt"
	"go/ast"
	"go/constant"
	"regexp/syntax"
	"strings"
)

type RegexSpec struct {
	Pkg        string
	Var        string
	Tags       []string
	Language   string
	PrefixFree bool
	NonEmpty   bool
	File       string
	Line       int
}

const maxSMTChar = 0x2FFFF

func smtChar(r rune) string { return fmt.Sprintf("\"\\u{%x}\"", r) }

func reToSMT(re *syntax.Regexp) (string, error) {
	switch re.Op {
	case syntax.OpEmptyMatch:
		return "(str.to_re \"\")", nil
	case syntax.OpNoMatch:
		return "re.none", nil
	case syntax.OpLiteral:
		if re.Flags&syntax.FoldCase != 0 {
			return "", fmt.Errorf("case folding is not supported")
		}
		var sb strings.Builder
		sb.WriteString("(str.to_re \"")
		for _, r := range re.Rune {
			if r > maxSMTChar {
				return "", fmt.Errorf("literal above U+2FFFF")
			}
			fmt.Fprintf(&sb, "\\u{%x}", r)
		}
		sb.WriteString("\")")
		return sb.String(), nil
	case syntax.OpCharClass:
		var parts []string
		for i := 0; i+1 < len(re.Rune); i += 2 {
			lo, hi := re.Rune[i], re.Rune[i+1]
			if lo > maxSMTChar {
				if lo != hi || true {
					// entirely above the limit: only acceptable when it is the tail of a range starting at or below it
					return "", fmt.Errorf("character class boundary above U+2FFFF")
				}
			}
			if hi > maxSMTChar {
				if hi != 0x10FFFF {
					return "", fmt.Errorf("character class boundary above U+2FFFF")
				}
				hi = maxSMTChar
			}
			parts = append(parts, fmt.Sprintf("(re.range %s %s)", smtChar(lo), smtChar(hi)))
		}
		switch len(parts) {
		case 0:
			return "re.none", nil
		case 1:
			return parts[0], nil
		}
		return "(re.union " + strings.Join(parts, " ") + ")", nil
	case syntax.OpAnyChar:
		return fmt.Sprintf("(re.range %s %s)", smtChar(0), smtChar(maxSMTChar)), nil
	case syntax.OpAnyCharNotNL:
		return fmt.Sprintf("(re.union (re.range %s %s) (re.range %s %s))", smtChar(0), smtChar(9), smtChar(11), smtChar(maxSMTChar)), nil
	case syntax.OpCapture:
		return reToSMT(re.Sub[0])
	case syntax.OpStar, syntax.OpPlus, syntax.OpQuest:
		s, err := reToSMT(re.Sub[0])
		if err != nil {
			return "", err
		}
		switch re.Op {
		case syntax.OpStar:
			return "(re.* " + s + ")", nil
		case syntax.OpPlus:
			return "(re.+ " + s + ")", nil
		}
		return "(re.opt " + s + ")", nil
	case syntax.OpRepeat:
		s, err := reToSMT(re.Sub[0])
		if err != nil {
			return "", err
		}
		if re.Max < 0 {
			return fmt.Sprintf("(re.++ ((_ re.^ %d) %s) (re.* %s))", re.Min, s, s), nil
		}
		return fmt.Sprintf("((_ re.loop %d %d) %s)", re.Min, re.Max, s), nil
	case syntax.OpConcat, syntax.OpAlternate:
		var parts []string
		for _, sub := range re.Sub {
			s, err := reToSMT(sub)
			if err != nil {
				return "", err
			}
			parts = append(parts, s)
		}
		if len(parts) == 1 {
			return parts[0], nil
		}
		op := "re.++"
		if re.Op == syntax.OpAlternate {
			op = "re.union"
		}
		return "(" + op + " " + strings.Join(parts, " ") + ")", nil
	}
	return "", fmt.Errorf("regexp operator %v (anchors, word boundaries) is outside the supported subset", re.Op)
}

func patternToSMT(pat string) (string, error) {
	re, err := syntax.Parse(pat, syntax.Perl)
	if err != nil {
		return "", err
	}
	return reToSMT(re.Simplify())
}

// compiledPattern finds `var name = regexp.MustCompile(<const>)` in the package and returns the constant.
func (w *World) compiledPattern(pkg *Pkg, name string) (string, bool) {
	for _, f := range pkg.Files {
		for _, d := range f.Decls {
			gd, ok := d.(*ast.GenDecl)
			if !ok {
				continue
			}
			for _, sp := range gd.Specs {
				vs, ok := sp.(*ast.ValueSpec)
				if !ok {
					continue
				}
				for i, n := range vs.Names {
					if n.Name != name || i >= len(vs.Values) {
						continue
					}
					call, ok := vs.Values[i].(*ast.CallExpr)
					if !ok || len(call.Args) != 1 {
						return "", false
					}
					sel, ok := call.Fun.(*ast.SelectorExpr)
					if !ok || (sel.Sel.Name != "MustCompile") {
						return "", false
					}
					if x, ok := sel.X.(*ast.Ident); !ok || x.Name != "regexp" {
						return "", false
					}
					tv, ok := pkg.Info.Types[call.Args[0]]
					if !ok || tv.Value == nil || tv.Value.Kind() != constant.String {
						return "", false
					}
					return constant.StringVal(tv.Value), true
				}
			}
		}
	}
	return "", false
}

// regexQueries builds the obligations of one regex contract; errs are structural failures.
func (w *World) regexQueries(rs *RegexSpec) (qs []*Query, errs []string) {
	pkg := w.Pkgs[rs.Pkg]
	short := shortPkg(rs.Pkg) + "." + rs.Var
	if pkg == nil {
		return nil, []string{"regex contract for unknown package " + rs.Pkg}
	}
	pat, ok := w.compiledPattern(pkg, rs.Var)
	if !ok {
		return nil, []string{short + ": not a package variable initialised with regexp.MustCompile(<constant>)"}
	}
	code, err := patternToSMT(pat)
	if err != nil {
		return nil, []string{fmt.Sprintf("%s: pattern %q: %v", short, pat, err)}
	}
	head := "(declare-fun |x!0| () String)\n(declare-fun |y!0| () String)\n" +
		fmt.Sprintf("(define-fun rxU () RegLan (re.* (re.range %s %s)))\n", smtChar(0), smtChar(maxSMTChar)) +
		"(define-fun rxCode () RegLan " + code + ")\n" +
		"(assert (str.in_re |x!0| rxU))\n(assert (str.in_re |y!0| rxU))\n"
	mk := func(kind, descr, body string) {
		ob := &Obligation{Name: short + "#regex." + kind, Tags: rs.Tags, Func: short, Kind: "regex", Descr: descr + fmt.Sprintf(" [pattern in the source: %q]", pat), Pos: fmt.Sprintf("%s:%d", rs.File, rs.Line)}
		text := head + body
		qs = append(qs, &Query{Ob: ob, Text: text, Size: len(text), Raw: true})
	}
	if rs.Language != "" {
		spec, err := patternToSMT(rs.Language)
		if err != nil {
			errs = append(errs, fmt.Sprintf("%s: spec pattern %q: %v", short, rs.Language, err))
		} else {
			mk("language", fmt.Sprintf("the compiled pattern denotes exactly the language of %q", rs.Language),
				"(define-fun rxSpec () RegLan "+spec+")\n(assert (xor (str.in_re |x!0| rxCode) (str.in_re |x!0| rxSpec)))\n")
		}
	}
	if rs.PrefixFree {
		mk("prefix-free", "no match is a proper prefix of another match (leftmost-first matching has a unique candidate)",
			"(assert (not (= |y!0| \"\")))\n(assert (str.in_re |x!0| rxCode))\n(assert (str.in_re (str.++ |x!0| |y!0|) rxCode))\n")
	}
	if rs.NonEmpty {
		mk("nonempty", "the empty string does not match", "(assert (= |x!0| \"\"))\n(assert (str.in_re |x!0| rxCode))\n")
	}
	return qs, errs
}

// smtStringValue extracts the value of a String constant from a get-value answer and decodes \u{..} escapes.
func smtStringValue(out, name string) (string, bool) {
	i := strings.Index(out, "("+name+" \"")
	if i < 0 {
		return "", false
	}
	s := out[i+len(name)+3:]
	var raw strings.Builder
	for j := 0; j < len(s); j++ {
		if s[j] == '"' {
			if j+1 < len(s) && s[j+1] == '"' {
				raw.WriteByte('"')
				j++
				continue
			}
			break
		}
		raw.WriteByte(s[j])
	}
	r := raw.String()
	var dec strings.Builder
	for j := 0; j < len(r); {
		if strings.HasPrefix(r[j:], "\\u{") {
			if k := strings.Index(r[j:], "}"); k > 0 {
				var cp int
				if _, err := fmt.Sscanf(r[j+3:j+k], "%x", &cp); err == nil {
					dec.WriteRune(rune(cp))
					j += k + 1
					continue
				}
			}
		}
		dec.WriteByte(r[j])
		j++
	}
	return dec.String(), true
}
