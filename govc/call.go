package main

import (
	"fmt"
	"go/ast"
	"go/token"
	"go/types"
	"strings"
)

func shortKey(key string) string {
	// github.com/cockroachdb/redact/internal/buffer.(*Buffer).Write -> buffer.(*Buffer).Write
	if i := strings.LastIndex(key, "/"); i >= 0 {
		return key[i+1:]
	}
	return key
}

func (e *Env) call(x *ast.CallExpr) Value {
	tv := e.info().Types[x]
	// conversion?
	if ft, ok := e.info().Types[x.Fun]; ok && ft.IsType() {
		if len(x.Args) != 1 {
			return e.unknown(tv.Type, "conv")
		}
		return e.conversion(x, ft.Type)
	}
	// builtin?
	if id, ok := ast.Unparen(x.Fun).(*ast.Ident); ok {
		if b, ok := e.info().Uses[id].(*types.Builtin); ok {
			return e.builtin(x, b.Name(), tv.Type)
		}
	}
	// immediately invoked function literal
	if fl, ok := ast.Unparen(x.Fun).(*ast.FuncLit); ok {
		return e.inlineLit(x, fl)
	}
	// static callee
	var fn *types.Func
	var recv *Value
	var recvExpr ast.Expr
	switch f := ast.Unparen(x.Fun).(type) {
	case *ast.Ident:
		switch o := e.info().Uses[f].(type) {
		case *types.Func:
			fn = o
		case *types.Var:
			return e.callFuncValue(x, o, tv.Type)
		}
	case *ast.SelectorExpr:
		if sel, ok := e.info().Selections[f]; ok {
			switch sel.Kind() {
			case types.MethodVal:
				fn = sel.Obj().(*types.Func)
				rv := e.methodRecv(f, sel)
				recv = &rv
				recvExpr = f.X
				if rv.K == VU && isReflectType(sel.Recv()) {
					// a method call on a nil reflect.Type (reflect.TypeOf(nil)) is a nil dereference
					e.panicCheck(Ne(rv.T, App("nilU", SU)), "niltype", "method call on a nil reflect.Type", f.Pos())
				}
				if rv.Dyn != nil && types.IsInterface(sel.Recv()) {
					// statically known concrete receiver: call the concrete method
					ms := types.NewMethodSet(rv.Dyn.Typ)
					if m := ms.Lookup(fn.Pkg(), fn.Name()); m != nil {
						if cf, ok := m.Obj().(*types.Func); ok {
							fn = cf
							d := *rv.Dyn
							recv = &d
						}
					}
				}
			case types.FieldVal:
				// call of a func-typed field
				return e.unknownCall(x, "func-typed field "+exprString(f), tv.Type)
			}
		} else {
			switch o := e.info().Uses[f.Sel].(type) {
			case *types.Func:
				fn = o
			case *types.Var:
				return e.callFuncValue(x, o, tv.Type)
			}
		}
	}
	if fn == nil {
		return e.unknownCall(x, "dynamic call "+exprString(x.Fun), tv.Type)
	}
	_ = recvExpr
	sig := fn.Type().(*types.Signature)
	args := e.evalArgs(x, sig)
	key := funcKey(fn)
	if v, ok := e.bytesBuiltin(key, x, args, tv.Type); ok {
		return v
	}
	if fc, ok := e.w.Cs.Funcs[key]; ok {
		if fc.Inline && inModule(fn.Pkg()) {
			if pkg := e.w.Pkgs[fn.Pkg().Path()]; pkg != nil {
				if fd, ok := pkg.Funcs[key]; ok && e.inline < 3 && inlinable(fd) {
					e.curCallArgs = x.Args
					defer func() { e.curCallArgs = nil }()
					return e.inlineCall(pkg, fd, fn, sig, recv, args, tv.Type)
				}
			}
		}
		e.curCallArgs = x.Args
		r := e.callContract(fc, key, sig, recv, args, x.Pos(), tv.Type)
		e.curCallArgs = nil
		return r
	}
	// module function without contract: inline small bodies
	if inModule(fn.Pkg()) {
		if pkg := e.w.Pkgs[fn.Pkg().Path()]; pkg != nil {
			if fd, ok := pkg.Funcs[key]; ok && e.inline < 3 && inlinable(fd) {
				e.curCallArgs = x.Args
				defer func() { e.curCallArgs = nil }()
				return e.inlineCall(pkg, fd, fn, sig, recv, args, tv.Type)
			}
		}
		e.errorf("%s: call to %s which has no contract and cannot be inlined", e.w.pos(x.Pos()), shortKey(key))
		return e.unknown(tv.Type, "nocontract")
	}
	e.w.trustedNote("unmodelled foreign call " + key + ": result unconstrained, no side effects assumed")
	return e.unknownResult(sig, tv.Type)
}

func (e *Env) unknownCall(x *ast.CallExpr, what string, t types.Type) Value {
	for _, a := range x.Args {
		e.expr(a)
	}
	e.errorf("%s: unsupported %s", e.w.pos(x.Pos()), what)
	if t == nil {
		return Value{K: VNone}
	}
	return e.unknownOf(t)
}

func (e *Env) unknownOf(t types.Type) Value {
	if tup, ok := t.(*types.Tuple); ok {
		v := Value{K: VTuple}
		for i := 0; i < tup.Len(); i++ {
			v.Elems = append(v.Elems, e.unknown(tup.At(i).Type(), "res"))
		}
		return v
	}
	if t == nil {
		return Value{K: VNone}
	}
	if b, ok := t.(*types.Basic); ok && b.Kind() == types.Invalid {
		return Value{K: VNone}
	}
	return e.unknown(t, "res")
}

func (e *Env) unknownResult(sig *types.Signature, t types.Type) Value {
	if sig.Results().Len() == 0 {
		return Value{K: VNone}
	}
	if sig.Results().Len() == 1 {
		return e.unknown(sig.Results().At(0).Type(), "res")
	}
	return e.unknownOf(sig.Results())
}

// methodRecv evaluates the receiver of a method call, walking embedded fields.
func (e *Env) methodRecv(f *ast.SelectorExpr, sel *types.Selection) Value {
	base := e.expr(f.X)
	idx := sel.Index()
	if len(idx) == 1 {
		return base
	}
	if base.K != VPtr && base.K != VStruct {
		return base
	}
	id := base.T
	cur := base.Typ
	if base.K == VPtr {
		e.assertNonNil(base, f.Pos(), "method call")
		cur = derefType(cur)
	}
	for _, i := range idx[:len(idx)-1] {
		st, key, ok := structOf(cur)
		if !ok {
			e.errorf("%s: embedded path through unmodelled type", e.w.pos(f.Pos()))
			return base
		}
		fl := st.Field(i)
		k, eu := kindOf(fl.Type())
		switch k {
		case VStruct:
			id = App(subFn(key, fl.Name()), SInt, id)
			cur = fl.Type()
		case VPtr:
			pv := e.loadField(id, leaf{Owner: key, Field: fl.Name(), Typ: fl.Type(), K: k, ElemU: eu})
			id = pv.T
			cur = derefType(fl.Type())
		default:
			// embedded interface etc.
			return e.loadField(id, leaf{Owner: key, Field: fl.Name(), Typ: fl.Type(), K: k, ElemU: eu})
		}
	}
	return Value{K: VStruct, T: id, Typ: cur}
}

func (e *Env) evalArgs(x *ast.CallExpr, sig *types.Signature) []Value {
	var args []Value
	np := sig.Params().Len()
	if len(x.Args) == 1 && np > 1 {
		// f(g()) with tuple result
		v := e.expr(x.Args[0])
		if v.K == VTuple {
			return v.Elems
		}
	}
	for i, a := range x.Args {
		if sig.Variadic() && i >= np-1 && !x.Ellipsis.IsValid() {
			break
		}
		v := e.expr(a)
		if i < np {
			v = e.coerce(v, sig.Params().At(i).Type())
		}
		args = append(args, e.freeze(v))
	}
	if sig.Variadic() && !x.Ellipsis.IsValid() {
		// pack the remaining arguments into a fresh slice
		st := sig.Params().At(np - 1).Type().(*types.Slice)
		rest := x.Args[np-1:]
		k, _ := kindOf(st.Elem())
		n := IntLit(int64(len(rest)))
		if len(rest) == 0 {
			args = append(args, e.zero(sig.Params().At(np-1).Type()))
		} else {
			ref := e.allocRef()
			elemU := k != VInt
			for j, a := range rest {
				v := e.freeze(e.expr(a))
				if elemU {
					mu := e.memU()
					e.assign("MemU", SMemU, Store(mu, ref, Store(Select(mu, ref), IntLit(int64(j)), e.box(e.coerce(v, st.Elem())))))
				} else {
					m := e.mem()
					e.noteMemWrite(ref)
					e.assign("Mem", SMem, Store(m, ref, Store(Select(m, ref), IntLit(int64(j)), v.T)))
				}
			}
			args = append(args, Value{K: VSlice, Ref: ref, Off: IntLit(0), Len: n, Cap: n, ElemU: elemU, Typ: sig.Params().At(np - 1).Type()})
		}
	}
	return args
}

func inlinable(fd *ast.FuncDecl) bool {
	if fd.Body == nil || len(fd.Body.List) > 6 {
		return false
	}
	ok := true
	ast.Inspect(fd.Body, func(n ast.Node) bool {
		switch n.(type) {
		case *ast.DeferStmt, *ast.GoStmt, *ast.ForStmt, *ast.RangeStmt, *ast.FuncLit:
			ok = false
		}
		return ok
	})
	return ok
}

func (e *Env) inlineCall(pkg *Pkg, fd *ast.FuncDecl, fn *types.Func, sig *types.Signature, recv *Value, args []Value, rt types.Type) Value {
	savedPkg := e.pkg
	e.pkg = pkg
	e.inline++
	defer func() { e.pkg = savedPkg; e.inline-- }()
	// bind receiver and parameters
	if fd.Recv != nil && len(fd.Recv.List) == 1 && len(fd.Recv.List[0].Names) == 1 && recv != nil {
		obj := pkg.Info.Defs[fd.Recv.List[0].Names[0]]
		if obj != nil {
			e.writeVar(e.localName(obj), obj.Type(), e.adaptRecv(*recv, obj.Type()))
		}
	}
	i := 0
	callArgs := e.curCallArgs
	e.curCallArgs = nil
	counts := countAssignments(pkg.Info, fd.Body)
	for _, p := range fd.Type.Params.List {
		for _, n := range p.Names {
			if obj := pkg.Info.Defs[n]; obj != nil && i < len(args) {
				e.writeVar(e.localName(obj), obj.Type(), args[i])
				if args[i].Dyn != nil && counts[obj] == 0 {
					e.constVals[obj] = args[i]
				}
				if i < len(callArgs) && (!sig.Variadic() || i < sig.Params().Len()-1) {
					// class of the actual, judged in the caller's package context
					save := e.pkg
					e.pkg = savedPkg
					e.inline--
					e.inlineClass[obj] = e.classify(callArgs[i])
					e.inline++
					e.pkg = save
				}
			}
			i++
		}
		if len(p.Names) == 0 {
			i++
		}
	}
	// ghost clauses of an inlined callee's own contract run at their anchors inside the inlined body
	if cfc := e.w.Cs.Funcs[funcKey(fn)]; cfc != nil {
		ic := &inlCtx{fc: cfc, anchors: map[string]int{}, locals: map[string]types.Object{}}
		if fd.Recv != nil && len(fd.Recv.List) == 1 {
			if len(fd.Recv.List[0].Names) == 1 {
				ic.paramObjs = append(ic.paramObjs, pkg.Info.Defs[fd.Recv.List[0].Names[0]])
			} else {
				ic.paramObjs = append(ic.paramObjs, nil)
			}
		}
		for _, p := range fd.Type.Params.List {
			for _, n := range p.Names {
				ic.paramObjs = append(ic.paramObjs, pkg.Info.Defs[n])
			}
			if len(p.Names) == 0 {
				ic.paramObjs = append(ic.paramObjs, nil)
			}
		}
		e.inlFc = append(e.inlFc, ic)
		defer func() { e.inlFc = e.inlFc[:len(e.inlFc)-1] }()
	} else {
		e.inlFc = append(e.inlFc, nil)
		defer func() { e.inlFc = e.inlFc[:len(e.inlFc)-1] }()
	}
	fr := &inlineFrame{retB: e.newBlock("inline-ret"), sig: sig}
	for j := 0; j < sig.Results().Len(); j++ {
		ro := types.Object(sig.Results().At(j))
		name := e.freshName("inlres")
		if fd.Type.Results != nil {
			// named results are ordinary locals
			k := 0
			for _, r := range fd.Type.Results.List {
				for _, n := range r.Names {
					if k == j {
						if obj := pkg.Info.Defs[n]; obj != nil {
							ro = obj
							name = e.localName(obj)
							e.writeVar(name, obj.Type(), e.zero(obj.Type()))
						}
					}
					k++
				}
			}
		}
		kk, _ := kindOf(ro.Type())
		for _, c := range compsOf(kk) {
			e.declare(name+c.Suf, c.S)
		}
		fr.results = append(fr.results, name)
		fr.resObs = append(fr.resObs, ro)
	}
	e.inlineRet = append(e.inlineRet, fr)
	savedCtx := e.ctxStack
	e.ctxStack = nil
	e.block(fd.Body.List)
	e.ctxStack = savedCtx
	e.inlineRet = e.inlineRet[:len(e.inlineRet)-1]
	e.jump(fr.retB)
	e.cur = fr.retB
	switch len(fr.results) {
	case 0:
		return Value{K: VNone}
	case 1:
		return e.readVar(fr.results[0], fr.resObs[0].Type())
	}
	v := Value{K: VTuple}
	for j := range fr.results {
		v.Elems = append(v.Elems, e.readVar(fr.results[j], fr.resObs[j].Type()))
	}
	return v
}

func (e *Env) adaptRecv(v Value, t types.Type) Value {
	k, _ := kindOf(t)
	if k == VPtr && v.K == VStruct {
		v.K = VPtr
		v.Typ = t
	} else if k == VStruct && v.K == VPtr {
		v.K = VStruct
		v.Typ = t
	}
	return v
}

func (e *Env) inlineLit(x *ast.CallExpr, fl *ast.FuncLit) Value {
	return e.inlineLitArgs(x, fl, nil, false)
}

// inlineLitArgs: with preEvaluated, args are the values the arguments had earlier (a deferred call).
func (e *Env) inlineLitArgs(x *ast.CallExpr, fl *ast.FuncLit, args []Value, preEvaluated bool) Value {
	sig := e.info().Types[fl].Type.(*types.Signature)
	if !preEvaluated {
		args = e.evalArgs(x, sig)
	}
	e.inline++
	defer func() { e.inline-- }()
	i := 0
	for _, p := range fl.Type.Params.List {
		for _, n := range p.Names {
			if obj := e.info().Defs[n]; obj != nil && i < len(args) {
				e.writeVar(e.localName(obj), obj.Type(), args[i])
			}
			i++
		}
	}
	// defers inside the literal run when the literal returns; a panic raised inside it runs
	// them too and then continues unwinding in the enclosing function
	savedDefers, savedArmed, savedPost, savedUnw := e.defers, e.mayArmed, e.postB, e.unwindTo
	e.defers, e.mayArmed = nil, map[*deferSite]bool{}
	litPost := e.newBlock("lit-post")
	e.postB = litPost
	e.unwindTo = nil
	fr := &inlineFrame{retB: nil, sig: sig, lit: true}
	e.inlineRet = append(e.inlineRet, fr)
	savedCtx := e.ctxStack
	e.ctxStack = nil
	e.block(fl.Body.List)
	e.ctxStack = savedCtx
	e.inlineRet = e.inlineRet[:len(e.inlineRet)-1]
	e.leave()
	e.defers, e.mayArmed, e.postB, e.unwindTo = savedDefers, savedArmed, savedPost, savedUnw
	e.cur = litPost
	if e.hasMayPanicCall {
		cont := e.newBlock("lit-cont")
		unw := e.newBlock("lit-unwind")
		e.cur.Succ = append(e.cur.Succ, cont, unw)
		unw.Cmds = append(unw.Cmds, Cmd{Kind: CAssume, T: e.panicVar()})
		e.unwindFrom(unw)
		cont.Cmds = append(cont.Cmds, Cmd{Kind: CAssume, T: Not(e.panicVar())})
		e.cur = cont
	}
	if sig.Results().Len() == 0 {
		return Value{K: VNone}
	}
	return e.unknownResult(sig, nil)
}

// callFuncValue: call of a func-typed variable (parameter or package variable).
func (e *Env) callFuncValue(x *ast.CallExpr, o *types.Var, rt types.Type) Value {
	sig, ok := o.Type().Underlying().(*types.Signature)
	if !ok {
		return e.unknownCall(x, "call of non-function", rt)
	}
	args := e.evalArgs(x, sig)
	key := ""
	if o.Parent() == o.Pkg().Scope() {
		key = o.Pkg().Path() + "." + o.Name()
	} else {
		key = o.Pkg().Path() + "." + e.fn.Name() + "_" + o.Name()
	}
	if fc, ok := e.w.Cs.Funcs[key]; ok {
		return e.callContract(fc, key, sig, nil, args, x.Pos(), rt)
	}
	e.errorf("%s: call of function value %s without contract (%s)", e.w.pos(x.Pos()), o.Name(), key)
	return e.unknownResult(sig, rt)
}

// ---------------------------------------------------------------------
// Calls by contract

// inlCtx: the contract of a callee being inlined (only its anchored ghost assignments are run)
type inlCtx struct {
	fc        *FuncContract
	paramObjs []types.Object
	anchors   map[string]int
	locals    map[string]types.Object
}

type ptrLeaf struct {
	id *Term
	lf leaf
}

type modSpec struct {
	ptrs   []ptrLeaf
	roots  []Value // objects whose by-value leaves may change
	refs   []*Term // byte arrays that may be written (refs, pre-state)
	conds  []*Term // parallel to refs: the array is written only if this holds in the pre-state (nil: unconditionally)
	ghosts []string
	panic  bool
	globals []string
	memU   bool
}

func (e *Env) callContract(fc *FuncContract, key string, sig *types.Signature, recv *Value, args []Value, pos token.Pos, rt types.Type) Value {
	if fc.Assumed {
		e.trusted[shortKey(key)] = true
	}
	short := shortKey(key)
	ord := e.callOrd[short]
	e.callOrd[short] = ord + 1
	cname := fmt.Sprintf("call:%s[%d]", short, ord)
	if e.inline > 0 {
		cname = fmt.Sprintf("inl.call:%s[%d]", short, ord)
	}

	// bind names
	names := map[string]Value{}
	var actuals []Value
	if recv != nil {
		rvT := sig.Recv().Type()
		actuals = append(actuals, e.freeze(e.adaptRecv(*recv, rvT)))
		actuals[0].Typ = rvT
	}
	for i, a := range args {
		if i < sig.Params().Len() {
			a.Typ = sig.Params().At(i).Type()
		}
		actuals = append(actuals, a)
	}
	for i, n := range fc.Params {
		if i < len(actuals) && n != "_" {
			names[n] = actuals[i]
			if actuals[i].Dyn != nil {
				names[n] = *actuals[i].Dyn
			}
		}
	}
	if len(fc.Params) != len(actuals) {
		e.errorf("%s: contract %s has %d parameters, call has %d", e.w.pos(pos), short, len(fc.Params), len(actuals))
	}
	calleePkg := e.w.Pkgs[key[:strings.LastIndex(key, ".")]]
	if i := strings.Index(key, ".("); i >= 0 {
		calleePkg = e.w.Pkgs[key[:i]]
	} else if calleePkg == nil {
		// pkg.T.M
		k2 := key[:strings.LastIndex(key, ".")]
		if j := strings.LastIndex(k2, "."); j >= 0 {
			calleePkg = e.w.Pkgs[k2[:j]]
		}
	}

	callArgs := e.curCallArgs
	e.curCallArgs = nil
	classOf := func(param string) *Term {
		off := 0
		if recv != nil {
			off = 1
		}
		for i, n := range fc.Params {
			if n == param && i-off >= 0 && i-off < len(callArgs) && (!sig.Variadic() || i-off < sig.Params().Len()-1) {
				return e.classify(callArgs[i-off])
			}
		}
		return IntLit(2)
	}
	for _, pub := range fc.Public {
		if pub == "nilable" {
			continue
		}
		e.assert(Le(classOf(pub), IntLit(1)), cname, "public."+pub, []string{"C02", "C05"}, "argument for parameter "+pub+" of "+short+" is not derived from operand data", e.w.pos(pos))
	}
	pctx := &specCtx{e: e, names: names, bound: map[string]*Term{}, pkg: calleePkg, classOf: classOf}
	// preconditions
	for _, cl := range fc.Clauses {
		if cl.Kind != "requires" {
			continue
		}
		t := pctx.boolTerm(cl.Expr)
		e.assert(t, cname, fmt.Sprintf("requires%d", cl.Ord), cl.Tags, "precondition of "+short+": "+cl.Text, e.w.pos(pos))
	}
	// implicit invariants of the callee's parameters
	e.autoInv(key, sig, actuals, nil, func(cl *Clause, t *Term, what string) {
		e.assert(t, cname, fmt.Sprintf("inv.%s.%d", what, cl.Ord), cl.Tags, "type invariant on entry of "+short+": "+cl.Text, e.w.pos(pos))
	})

	if fc.Pure {
		var ts []*Term
		for _, a := range actuals {
			ts = append(ts, e.box(a))
		}
		res := e.pureApp(key, sig, ts)
		pn := map[string]Value{}
		for n, v := range names {
			pn[n] = v
		}
		pn["result"] = res
		if len(fc.Results) == 1 && fc.Results[0] != "_" {
			pn[fc.Results[0]] = res
		}
		qc := &specCtx{e: e, names: pn, bound: map[string]*Term{}, pkg: calleePkg}
		for _, cl := range fc.Clauses {
			if cl.Kind == "ensures" {
				e.assume(qc.boolTerm(cl.Expr))
			}
		}
		return res
	}

	// effects
	ms := e.modSpecOf(fc, key, sig, actuals, pctx)
	snap := map[string]string{} // program var -> snapshot var
	k := e.freshName("pre")
	snapshot := func(v string, s Sort) {
		if _, ok := snap[v]; ok {
			return
		}
		n := k + "$" + v
		e.assign(n, s, Var(v, s))
		snap[v] = n
	}
	oldMap := func(name string, s Sort) *Term {
		if n, ok := snap[name]; ok {
			return Var(n, s)
		}
		return nil
	}
	// freeze actuals against havoc: they are temps already (frozen), except heap-dependent terms
	// heap leaves
	type hv struct {
		name string
		s    Sort
		id   *Term
	}
	var havocs []hv
	for _, r := range ms.roots {
		t := r.Typ
		if r.K == VPtr {
			t = derefType(t)
		}
		walkLeaves(t, nil, func(steps []subStep, lf leaf) {
			if lf.K == VPtr {
				return
			}
			if _, isArr := lf.Typ.Underlying().(*types.Array); isArr {
				return // inline arrays have no header in the heap; their cells live in Mem
			}
			if _, isGhost := ghostFieldTable[lf.Owner][lf.Field]; isGhost && stableGhost[lf.Field] && !assignsGhost(fc, lf.Field) {
				return // stable ghost field: this callee has no ghost clause assigning it
			}
			for _, c := range leafComps(lf.K, lf.ElemU) {
				havocs = append(havocs, hv{heapMap(lf.Owner, lf.Field) + c.Suf, c.S, subID(r.T, steps)})
			}
		})
	}
	for _, pl := range ms.ptrs {
		for _, c := range leafComps(pl.lf.K, pl.lf.ElemU) {
			havocs = append(havocs, hv{heapMap(pl.lf.Owner, pl.lf.Field) + c.Suf, c.S, pl.id})
		}
	}
	for _, h := range havocs {
		e.declare(h.name, h.s)
		snapshot(h.name, h.s)
	}
	modMem := len(ms.refs) > 0 || !fc.ModSet
	if !fc.ModSet && fc.Assumed && !strings.HasPrefix(key, modulePath) {
		modMem = false // foreign functions touch no memory we model unless their contract says so
	}
	if fc.ModSet {
		for _, m := range fc.Modifies {
			if m == "mem" || m == "alloc" {
				modMem = true
			}
		}
	}
	if modMem {
		e.mem()
		e.nextRef()
		e.nextObj()
		snapshot("Mem", SMem)
		snapshot("$nextRef", SInt)
		snapshot("$nextObj", SInt)
	}
	if ms.memU {
		e.memU()
		snapshot("MemU", SMemU)
	}
	for _, g := range ms.ghosts {
		kind := e.w.Cs.Ghosts[g]
		s := SInt
		if kind == "bool" {
			s = SBool
		} else if kind == "seq" {
			s = SArr
		} else if kind == "u" {
			s = SU
		}
		e.declare("ghost$"+g, s)
		snapshot("ghost$"+g, s)
	}
	for _, g := range ms.globals {
		if s, ok := e.proc.Sorts[g]; ok {
			snapshot(g, s)
		}
	}
	mayPanic := fc.MayPanic
	if mayPanic || ms.panic {
		e.panicVar()
		snapshot("$panic", SBool)
	}
	// what the callee may write must be something this function may write
	for _, r := range ms.roots {
		e.noteObjWrite(r.T, nil)
	}
	for _, pl := range ms.ptrs {
		lf := pl.lf
		e.noteObjWrite(pl.id, &lf)
	}
	for i, rf := range ms.refs {
		e.noteMemWriteIf(rf, ms.conds[i])
	}
	// havoc
	for _, h := range havocs {
		id := h.id.Subst(oldMap)
		nv := e.fresh("hv", elemSort(h.s))
		e.assign(h.name, h.s, Store(Var(h.name, h.s), id, nv))
	}
	for _, r := range ms.roots {
		e.assumeTyping(r)
	}
	// ownership discipline: a byte-slice field of a modified object ends up on its old array, a
	// fresh one, nil, or the array of a slice argument (the callee proves this: "frame.own")
	if modMem {
		for _, r := range ms.roots {
			for _, t := range e.ownTerms(r, actuals, oldMap, Var(snap["$nextRef"], SInt)) {
				e.ownAssume = append(e.ownAssume, t)
			}
		}
	}
	if modMem {
		e.havoc("Mem", SMem)
		e.havoc("$nextRef", SInt)
		e.havoc("$nextObj", SInt)
		preRef := Var(snap["$nextRef"], SInt)
		e.assume(Ge(e.nextRef(), preRef))
		e.assume(Ge(e.nextObj(), Var(snap["$nextObj"], SInt)))
		r := Bound("r$", SInt)
		var excl []*Term
		for i, rf := range ms.refs {
			if c := ms.conds[i]; c != nil {
				excl = append(excl, Or(Ne(r, rf.Subst(oldMap)), Not(c.Subst(oldMap))))
			} else {
				excl = append(excl, Ne(r, rf.Subst(oldMap)))
			}
		}
		// nothing lives at the nil ref: it is never written
		e.assume(Forall([]*Term{r}, Implies(And(Lt(r, preRef), Or(Eq(r, IntLit(0)), And(excl...))),
			Eq(Select(e.mem(), r), Select(Var(snap["Mem"], SMem), r)))))
	}
	for _, t := range e.ownAssume {
		e.assume(t)
	}
	e.ownAssume = nil
	if ms.memU {
		e.havoc("MemU", SMemU)
	}
	for _, g := range ms.ghosts {
		s := e.proc.Sorts["ghost$"+g]
		e.havoc("ghost$"+g, s)
	}
	for _, g := range ms.globals {
		if s, ok := e.proc.Sorts[g]; ok {
			e.havoc(g, s)
		}
	}
	if mayPanic || ms.panic {
		e.havoc("$panic", SBool)
	}
	// results
	var res Value
	switch sig.Results().Len() {
	case 0:
		res = Value{K: VNone}
	case 1:
		res = e.unknown(sig.Results().At(0).Type(), "ret")
		res.Typ = sig.Results().At(0).Type()
	default:
		res = Value{K: VTuple}
		for i := 0; i < sig.Results().Len(); i++ {
			v := e.unknown(sig.Results().At(i).Type(), "ret")
			v.Typ = sig.Results().At(i).Type()
			res.Elems = append(res.Elems, v)
		}
	}
	postNames := map[string]Value{}
	for n, v := range names {
		postNames[n] = v
	}
	if res.K == VTuple {
		for i, v := range res.Elems {
			postNames[fmt.Sprintf("result%d", i)] = v
			if i < len(fc.Results) && fc.Results[i] != "_" {
				postNames[fc.Results[i]] = v
			}
		}
	} else if res.K != VNone {
		postNames["result"] = res
		if len(fc.Results) == 1 && fc.Results[0] != "_" {
			postNames[fc.Results[0]] = res
		}
	}
	qctx := &specCtx{e: e, names: postNames, bound: map[string]*Term{}, oldMap: oldMap, pkg: calleePkg}
	var always, normal []*Term
	for _, cl := range fc.Clauses {
		switch cl.Kind {
		case "ensures":
			normal = append(normal, qctx.boolTerm(cl.Expr))
		case "ensures-always":
			always = append(always, qctx.boolTerm(cl.Expr))
		}
	}
	e.autoInv(key, sig, actuals, oldMap, func(cl *Clause, t *Term, what string) {
		always = append(always, t)
	})
	for _, t := range always {
		e.assume(t)
	}
	if mayPanic {
		e.hasMayPanicCall = true
		// exceptional edge
		here := e.cur
		unw := e.newBlock("unwind")
		cont := e.newBlock("cont")
		here.Succ = append(here.Succ, unw, cont)
		unw.Cmds = append(unw.Cmds, Cmd{Kind: CAssume, T: e.panicVar()})
		e.unwindFrom(unw)
		e.cur = cont
		e.assume(Not(e.panicVar()))
	} else if ms.panic {
		// callee manipulates $panic explicitly (catchPanic); no implicit edge
	}
	for _, t := range normal {
		e.assume(t)
	}
	return res
}

func (e *Env) pureApp(key string, sig *types.Signature, args []*Term) Value {
	if sig.Results().Len() != 1 {
		e.errorf("pure function %s must have exactly one result", key)
		return Value{K: VNone}
	}
	rt := sig.Results().At(0).Type()
	k, _ := kindOf(rt)
	if e.w.pureResult == nil {
		e.w.pureResult = map[string]Sort{}
	}
	switch k {
	case VInt:
		e.w.pureResult[key] = SInt
		t := e.tmp(App("pure$"+key, SInt, args...))
		e.assume(rangeAssume(t, rt))
		return Value{K: VInt, T: t, Typ: rt}
	case VBool:
		e.w.pureResult[key] = SBool
		return Value{K: VBool, T: App("pure$"+key, SBool, args...), Typ: rt}
	case VU:
		e.w.pureResult[key] = SU
		return Value{K: VU, T: App("pure$"+key, SU, args...), Typ: rt}
	case VStr:
		e.w.pureResult[key] = SU
		u := App("pure$"+key, SU, args...)
		r := Value{K: VStr, Arr: App("unbox$str.arr", SArr, u), Off: App("unbox$str.off", SInt, u), Len: App("unbox$str.len", SInt, u), Typ: rt}
		r = e.freeze(r)
		e.assume(e.wfStr(r))
		return r
	}
	if k == VSlice {
		e.w.pureResult[key] = SU
		r := Value{K: VSlice, Ref: App("pure$"+key+".ref", SInt, args...), Off: App("pure$"+key+".off", SInt, args...), Len: App("pure$"+key+".len", SInt, args...), Cap: App("pure$"+key+".cap", SInt, args...), Typ: rt}
		_, r.ElemU = kindOf(rt)
		r = e.freeze(r)
		e.assume(e.wfSlice(r))
		return r
	}
	e.errorf("pure function %s has unsupported result type", key)
	return e.unknown(rt, "pure")
}

// modSpecOf computes what a call may modify.
func (e *Env) modSpecOf(fc *FuncContract, key string, sig *types.Signature, actuals []Value, pctx *specCtx) modSpec {
	var ms modSpec
	addRootRefs := func(r Value) {
		t := r.Typ
		if r.K == VPtr {
			t = derefType(t)
		}
		walkLeaves(t, nil, func(steps []subStep, lf leaf) {
			if lf.K == VSlice && !lf.ElemU {
				v := e.loadField(subID(r.T, steps), lf)
				ms.refs = append(ms.refs, v.Ref)
				ms.conds = append(ms.conds, nil)
			}
		})
	}
	if !fc.ModSet {
		if fc.Assumed && !strings.HasPrefix(key, modulePath) {
			return ms // foreign functions modify nothing unless declared
		}
		if sig.Recv() != nil && len(actuals) > 0 && actuals[0].K == VPtr {
			ms.roots = append(ms.roots, actuals[0])
			addRootRefs(actuals[0])
		}
		return ms
	}
	for _, m := range fc.Modifies {
		// "mem(x) if COND": the array of x is written only if COND holds in the pre-state (e.g. only into spare capacity)
		var cond *Term
		if i := strings.Index(m, ") if "); i > 0 && strings.HasPrefix(m, "mem(") {
			cx, err := parseSpecExpr(m[i+5:])
			if err != nil {
				e.errorf("bad condition in modifies item %q: %v", m, err)
				continue
			}
			cond = pctx.boolTerm(cx)
			m = m[:i+1]
		}
		switch {
		case m == "mem" || m == "alloc":
		case m == "$panic":
			ms.panic = true
		case m == "memU":
			ms.memU = true
		case strings.HasPrefix(m, "mem(") && strings.HasSuffix(m, ")"):
			x, err := parseSpecExpr(m[4 : len(m)-1])
			if err != nil {
				e.errorf("bad modifies item %q: %v", m, err)
				continue
			}
			v := pctx.tr(x)
			if v.K == VSlice {
				ms.refs = append(ms.refs, v.Ref)
				ms.conds = append(ms.conds, cond)
			} else {
				e.errorf("modifies mem(%s): not a slice", x.String())
			}
		case (strings.HasPrefix(m, "ptr(") || strings.HasPrefix(m, "field(")) && strings.HasSuffix(m, ")"):
			x, err := parseSpecExpr(m[strings.Index(m, "(")+1 : len(m)-1])
			if err != nil || x.Kind != "sel" {
				e.errorf("bad modifies item %q", m)
				continue
			}
			base := pctx.tr(x.Args[0])
			if base.K != VPtr && base.K != VStruct {
				e.errorf("modifies %s: base is not an object", m)
				continue
			}
			bt := base.Typ
			if base.K == VPtr {
				bt = derefType(bt)
			}
			steps, lf, _, ok := findField(bt, x.Name)
			if !ok || lf == nil || (lf.K != VPtr && strings.HasPrefix(m, "ptr(")) {
				e.errorf("modifies %s: not a (pointer) leaf field", m)
				continue
			}
			ms.ptrs = append(ms.ptrs, ptrLeaf{subID(base.T, steps), *lf})
		case strings.HasPrefix(m, "G$"):
			ms.globals = append(ms.globals, m)
		default:
			if _, ok := e.w.Cs.Ghosts[m]; ok {
				ms.ghosts = append(ms.ghosts, m)
				continue
			}
			x, err := parseSpecExpr(m)
			if err != nil {
				e.errorf("bad modifies item %q: %v", m, err)
				continue
			}
			v := pctx.tr(x)
			if v.K == VPtr || v.K == VStruct {
				ms.roots = append(ms.roots, v)
				addRootRefs(v)
			} else {
				e.errorf("modifies %s: not an object", m)
			}
		}
	}
	// an explicit conditional item overrides the unconditional ownership a root implies for the same array
	for i, c := range ms.conds {
		if c == nil {
			continue
		}
		var refs, conds []*Term
		for j, r := range ms.refs {
			if ms.conds[j] == nil && r.String() == ms.refs[i].String() {
				continue
			}
			refs, conds = append(refs, r), append(conds, ms.conds[j])
		}
		ms.refs, ms.conds = refs, conds
		break // indices changed; one conditional item per contract is what is supported
	}
	return ms
}

// autoInv visits the implicit type-invariant clauses of a function's
// pointer/struct parameters. Within the defining package of the type only
// exported methods carry the invariant implicitly.
func (e *Env) autoInv(key string, sig *types.Signature, actuals []Value, oldMap func(string, Sort) *Term, visit func(cl *Clause, t *Term, what string)) {
	fnPkg := key
	if i := strings.Index(fnPkg, ".("); i >= 0 {
		fnPkg = fnPkg[:i]
	} else {
		fnPkg = fnPkg[:strings.LastIndex(fnPkg, ".")]
		if _, ok := e.w.Pkgs[fnPkg]; !ok {
			if j := strings.LastIndex(fnPkg, "."); j >= 0 {
				fnPkg = fnPkg[:j]
			}
		}
	}
	name := key[strings.LastIndex(key, ".")+1:]
	exported := ast.IsExported(name)
	idx := 0
	visitParam := func(v Value, what string) {
		if v.K != VPtr && v.K != VStruct {
			return
		}
		e.collectInvFiltered(v, oldMap, func(typeKey string, cl *Clause, t *Term) {
			defPkg := typeKey[:strings.LastIndex(typeKey, ".")]
			if defPkg == fnPkg && !exported {
				return
			}
			visit(cl, t, what)
		})
	}
	if sig.Recv() != nil {
		if idx < len(actuals) {
			visitParam(actuals[idx], "recv")
		}
		idx++
	}
	for i := 0; i < sig.Params().Len(); i++ {
		if idx < len(actuals) {
			visitParam(actuals[idx], sig.Params().At(i).Name())
		}
		idx++
	}
}

func (e *Env) collectInvFiltered(v Value, oldMap func(string, Sort) *Term, visit func(typeKey string, cl *Clause, t *Term)) {
	t := v.Typ
	if t == nil {
		return
	}
	if v.K == VPtr {
		t = derefType(t)
	}
	if nt, ok := types.Unalias(t).(*types.Named); ok && nt.Obj().Pkg() != nil {
		key := nt.Obj().Pkg().Path() + "." + nt.Obj().Name()
		if ti, ok := e.w.Cs.TypeInvs[key]; ok {
			if op := e.opaqueInv(v, t, key, oldMap); op != nil {
				visit(key, &Clause{Kind: "typeinv", Text: "inv(" + nt.Obj().Name() + ") [abstract outside its package]", Ord: 0}, op)
			} else {
				pkg := e.w.Pkgs[nt.Obj().Pkg().Path()]
				self := v
				self.K = VStruct
				self.Typ = t
				c := &specCtx{e: e, names: map[string]Value{ti.Self: self}, bound: map[string]*Term{}, oldMap: oldMap, pkg: pkg}
				for _, cl := range ti.Clauses {
					visit(key, cl, c.boolTerm(cl.Expr))
				}
			}
		}
	}
	st, skey, ok := structOf(t)
	if !ok {
		return
	}
	for i := 0; i < st.NumFields(); i++ {
		f := st.Field(i)
		k, _ := kindOf(f.Type())
		if k == VStruct {
			e.collectInvFiltered(Value{K: VStruct, T: App(subFn(skey, f.Name()), SInt, v.T), Typ: f.Type()}, oldMap, visit)
		}
	}
}


// bytesBuiltin models bytes.Equal / bytes.HasSuffix / bytes.HasPrefix when the
// second operand is a constant byte slice: the comparison is expanded
// element-wise (quantifier-free).
func (e *Env) bytesBuiltin(key string, x *ast.CallExpr, args []Value, rt types.Type) (Value, bool) {
	if key != "bytes.Equal" && key != "bytes.HasSuffix" && key != "bytes.HasPrefix" {
		return Value{}, false
	}
	if len(args) != 2 || args[0].K != VSlice || args[1].K != VSlice {
		return Value{}, false
	}
	a, b := args[0], args[1]
	n, ok := litInt(b.Len)
	if !ok {
		return Value{}, false
	}
	var content string
	found := false
	for ref, sym := range e.constGlobals {
		if b.Ref.Op == "lit" && b.Ref.Name == ref {
			content, found = e.w.litByName[sym], true
		}
	}
	if !found {
		// the constant may have flowed through a local variable: compare against Mem cells
		arr := Select(e.mem(), a.Ref)
		barr := Select(e.mem(), b.Ref)
		var cs []*Term
		start := a.Off
		switch key {
		case "bytes.Equal":
			cs = append(cs, Eq(a.Len, b.Len))
		case "bytes.HasSuffix":
			cs = append(cs, Ge(a.Len, b.Len))
			start = Add(a.Off, Sub(a.Len, b.Len))
		default:
			cs = append(cs, Ge(a.Len, b.Len))
		}
		if n > 8 {
			return Value{}, false
		}
		for i := int64(0); i < n; i++ {
			cs = append(cs, Eq(Select(arr, Add(start, IntLit(i))), Select(barr, Add(b.Off, IntLit(i)))))
		}
		e.w.trustedNote(key + " modelled as element-wise comparison for operands of constant length")
		return Value{K: VBool, T: e.tmp(And(cs...)), Typ: rt}, true
	}
	arr := Select(e.mem(), a.Ref)
	var cs []*Term
	start := a.Off
	switch key {
	case "bytes.Equal":
		cs = append(cs, Eq(a.Len, IntLit(n)))
	case "bytes.HasSuffix":
		cs = append(cs, Ge(a.Len, IntLit(n)))
		start = Add(a.Off, Sub(a.Len, IntLit(n)))
	default:
		cs = append(cs, Ge(a.Len, IntLit(n)))
	}
	for i := int64(0); i < n; i++ {
		cs = append(cs, Eq(Select(arr, Add(start, IntLit(i))), IntLit(int64(content[i]))))
	}
	e.w.trustedNote(key + " modelled as element-wise comparison against a constant operand")
	return Value{K: VBool, T: e.tmp(And(cs...)), Typ: rt}, true
}


// opaqueInv: outside the package that defines a struct type, its invariant is an
// uninterpreted predicate of the object's field values and of the contents of its
// byte slices (DESIGN 3.1: the fields are unexported, so clients can neither
// break nor inspect the invariant; they only carry it from one method call to the next).
// Returns nil inside the defining package.
func (e *Env) opaqueInv(v Value, t types.Type, key string, oldMap func(string, Sort) *Term) *Term {
	defPkg := key[:strings.LastIndex(key, ".")]
	if e.fnPkg == defPkg || e.forceConcreteInv {
		return nil
	}
	var args []*Term
	walkLeaves(t, nil, func(steps []subStep, lf leaf) {
		if _, ghost := ghostFieldTable[lf.Owner][lf.Field]; ghost {
			return
		}
		lv := e.loadField(subID(v.T, steps), lf)
		switch lf.K {
		case VInt, VPtr, VBool, VU:
			args = append(args, lv.T)
		case VSlice:
			args = append(args, lv.Ref, lv.Off, lv.Len, lv.Cap)
			if !lf.ElemU {
				args = append(args, Select(e.mem(), lv.Ref))
			}
		case VStr:
			args = append(args, lv.Arr, lv.Off, lv.Len)
		}
	})
	t0 := App("inv$"+shortKey(key), SBool, args...)
	if oldMap != nil {
		_ = oldMap
	}
	e.w.opaqueInvs[shortKey(key)] = true
	return t0
}


// ownTerms: for every byte-slice leaf of root r, "new ref is the old ref, fresh, nil, or a slice argument's".
// oldMap gives the pre-state; preNextRef is $nextRef before the call.
func (e *Env) ownTerms(r Value, actuals []Value, oldMap func(string, Sort) *Term, preNextRef *Term) []*Term {
	var out []*Term
	t := r.Typ
	if r.K == VPtr {
		t = derefType(t)
	}
	walkLeaves(t, nil, func(steps []subStep, lf leaf) {
		if lf.K != VSlice || lf.ElemU {
			return
		}
		if _, isArr := lf.Typ.Underlying().(*types.Array); isArr {
			return
		}
		id := subID(r.T, steps)
		if oldMap != nil {
			id = id.Subst(oldMap)
		}
		nv := e.loadField(id, lf)
		ov := nv.Ref
		if oldMap != nil {
			ov = nv.Ref.Subst(oldMap)
		}
		alts := []*Term{Eq(nv.Ref, ov), Eq(nv.Ref, IntLit(0)), And(Ge(nv.Ref, preNextRef), Lt(nv.Ref, e.nextRef()))}
		_ = actuals // no function adopts an argument's array into a field
		out = append(out, Or(alts...))
	})
	return out
}


func assignsGhost(fc *FuncContract, field string) bool {
	for _, cl := range fc.Clauses {
		if cl.Kind == "ghost" && cl.TExpr != nil && cl.TExpr.Kind == "sel" && cl.TExpr.Name == field {
			return true
		}
	}
	return false
}
