package main

import (
	"fmt"
	"sort"
	"strings"
)

type CmdKind int

const (
	CAssume CmdKind = iota
	CAssert
	CAssign
	CHavoc
)

// Cmd is a guarded-command instruction.
type Cmd struct {
	Kind CmdKind
	Var  string // assign/havoc target
	VS   Sort
	T    *Term
	Ob   *Obligation // for asserts
}

// Obligation is one named proof obligation.
type Obligation struct {
	Name  string   // structural name: pkg.Func#kind...
	Tags  []string // property ids this obligation belongs to ("" = core)
	Func  string
	Kind  string // requires/ensures/invariant/panic/site/...
	Descr string // human readable: the clause text or check description
	Pos   string // file:line, informational only
	Cover bool   // a reachability cover: expected to be REFUTED (sat)
	Frame bool   // a frame obligation: the guarded frame invariants of loops are in force only for these
}

type Block struct {
	ID   int
	Cmds []Cmd
	Succ []*Block
	Note string
}

type Proc struct {
	Name   string
	Blocks []*Block
	Entry  *Block
	Sorts  map[string]Sort // program variables
}

func (p *Proc) NewBlock(note string) *Block {
	b := &Block{ID: len(p.Blocks), Note: note}
	p.Blocks = append(p.Blocks, b)
	return b
}

func (p *Proc) declare(name string, s Sort) {
	if old, ok := p.Sorts[name]; ok && old != s && !(isMemSort(old) && isMemSort(s)) {
		panic(fmt.Sprintf("variable %s redeclared with different sort", name))
	}
	p.Sorts[name] = s
}

// ---------------------------------------------------------------------
// Passification

type passive struct {
	proc  *Proc
	order []*Block        // topological
	out   map[int][]pcmd  // passive commands per block
	syms  map[string]Sort // all incarnation symbols
	inc0  map[string]string
}

type pcmd struct {
	assert bool
	t      *Term
	ob     *Obligation
}

func topo(p *Proc) ([]*Block, error) {
	state := map[int]int{}
	var order []*Block
	var visit func(b *Block) error
	visit = func(b *Block) error {
		switch state[b.ID] {
		case 1:
			return fmt.Errorf("cycle in CFG of %s at block %d (%s)", p.Name, b.ID, b.Note)
		case 2:
			return nil
		}
		state[b.ID] = 1
		for _, s := range b.Succ {
			if err := visit(s); err != nil {
				return err
			}
		}
		state[b.ID] = 2
		order = append(order, b)
		return nil
	}
	if err := visit(p.Entry); err != nil {
		return nil, err
	}
	// reverse
	for i, j := 0, len(order)-1; i < j; i, j = i+1, j-1 {
		order[i], order[j] = order[j], order[i]
	}
	return order, nil
}

func passify(p *Proc) (*passive, error) {
	order, err := topo(p)
	if err != nil {
		return nil, err
	}
	ps := &passive{proc: p, order: order, out: map[int][]pcmd{}, syms: map[string]Sort{}, inc0: map[string]string{}}
	counter := map[string]int{}
	preds := map[int][]*Block{}
	for _, b := range order {
		for _, s := range b.Succ {
			preds[s.ID] = append(preds[s.ID], b)
		}
	}
	symName := func(v string, k int) string { return fmt.Sprintf("%s!%d", v, k) }
	exit := map[int]map[string]int{}
	for _, b := range order {
		cur := map[string]int{}
		pr := preds[b.ID]
		if len(pr) == 1 {
			for k, v := range exit[pr[0].ID] {
				cur[k] = v
			}
		} else if len(pr) > 1 {
			// merge
			all := map[string]bool{}
			for _, q := range pr {
				for k := range exit[q.ID] {
					all[k] = true
				}
			}
			for _, v := range sortedKeys(all) {
				first, same := -1, true
				for i, q := range pr {
					k := exit[q.ID][v]
					if i == 0 {
						first = k
					} else if k != first {
						same = false
					}
				}
				if same {
					cur[v] = first
					continue
				}
				counter[v]++
				n := counter[v]
				cur[v] = n
				s := p.Sorts[v]
				ps.syms[symName(v, n)] = s
				for _, q := range pr {
					k := exit[q.ID][v]
					ps.syms[symName(v, k)] = s
					ps.out[q.ID] = append(ps.out[q.ID], pcmd{t: Eq(Sym(symName(v, n), s), Sym(symName(v, k), s))})
				}
			}
		}
		ren := func(t *Term) *Term {
			return t.Subst(func(name string, s Sort) *Term {
				if _, ok := p.Sorts[name]; !ok {
					panic(fmt.Sprintf("undeclared program variable %q in %s", name, p.Name))
				}
				k := cur[name]
				sn := symName(name, k)
				ps.syms[sn] = p.Sorts[name]
				return Sym(sn, p.Sorts[name])
			})
		}
		for _, c := range b.Cmds {
			switch c.Kind {
			case CAssume:
				ps.out[b.ID] = append(ps.out[b.ID], pcmd{t: ren(c.T)})
			case CAssert:
				ps.out[b.ID] = append(ps.out[b.ID], pcmd{assert: true, t: ren(c.T), ob: c.Ob})
			case CAssign:
				rhs := ren(c.T)
				counter[c.Var]++
				cur[c.Var] = counter[c.Var]
				sn := symName(c.Var, cur[c.Var])
				ps.syms[sn] = p.Sorts[c.Var]
				ps.out[b.ID] = append(ps.out[b.ID], pcmd{t: Eq(Sym(sn, p.Sorts[c.Var]), rhs)})
			case CHavoc:
				counter[c.Var]++
				cur[c.Var] = counter[c.Var]
				ps.syms[symName(c.Var, cur[c.Var])] = p.Sorts[c.Var]
			}
		}
		exit[b.ID] = cur
	}
	return ps, nil
}

// ---------------------------------------------------------------------
// Query generation: one query per assertion.

type Query struct {
	Ob    *Obligation
	Text  string // SMT-LIB without prelude/logic header
	Size  int
	Parts []*Query // for a conjunctive goal: one query per conjunct (run only if the whole fails)
	Raw   bool     // self-contained query (regex obligations): no prelude; String constants x!0, y!0 are reported
}

// queries returns one query per assert command of the passive program.
func (ps *passive) queries(axioms func(terms []*Term) []string) []*Query {
	p := ps.proc
	// successors / reverse reachability
	var qs []*Query
	idx := map[int]int{}
	for i, b := range ps.order {
		idx[b.ID] = i
	}
	for _, tb := range ps.order {
		for ci, c := range ps.out[tb.ID] {
			if !c.assert {
				continue
			}
			// relevant blocks: those from which tb is reachable
			rel := map[int]bool{tb.ID: true}
			for i := idx[tb.ID] - 1; i >= 0; i-- {
				b := ps.order[i]
				for _, s := range b.Succ {
					if rel[s.ID] {
						rel[b.ID] = true
					}
				}
			}
			if !rel[p.Entry.ID] {
				continue // unreachable block
			}
			var sb strings.Builder
			var terms []*Term
			// define ok_B in reverse topological order
			for i := idx[tb.ID]; i >= 0; i-- {
				b := ps.order[i]
				if !rel[b.ID] {
					continue
				}
				var parts []string
				cmds := ps.out[b.ID]
				closing := 0
				done := false
				for k, pc := range cmds {
					if b.ID == tb.ID && k == ci {
						parts = append(parts, "GOAL$$")
						terms = append(terms, pc.t)
						done = true
						break
					}
					if pc.assert && pc.ob != nil && pc.ob.Cover {
						continue // covers are never assumed
					}
					parts = append(parts, "(=> "+pc.t.String()+" ")
					terms = append(terms, pc.t)
					closing++
				}
				if !done {
					var succ []string
					for _, s := range b.Succ {
						if rel[s.ID] {
							succ = append(succ, fmt.Sprintf("ok_%d", s.ID))
						}
					}
					switch len(succ) {
					case 0:
						parts = append(parts, "true")
					case 1:
						parts = append(parts, succ[0])
					default:
						parts = append(parts, "(and "+strings.Join(succ, " ")+")")
					}
				}
				fmt.Fprintf(&sb, "(define-fun ok_%d () Bool %s%s)\n", b.ID, strings.Join(parts, ""), strings.Repeat(")", closing))
			}
			fmt.Fprintf(&sb, "(assert (not ok_%d))\n", p.Entry.ID)
			// declarations
			syms := map[string]Sort{}
			for _, t := range terms {
				t.Syms(syms)
			}
			if !c.ob.Frame {
				for k := range syms {
					if strings.HasPrefix(k, "$frameq") {
						fmt.Fprintf(&sb, "(assert (not %s))\n", smtName(k))
					}
				}
			}
			var decl strings.Builder
			for _, k := range sortedKeys(syms) {
				fmt.Fprintf(&decl, "(declare-fun %s () %s)\n", smtName(k), syms[k].SMT())
			}
			var ax strings.Builder
			if axioms != nil {
				for _, a := range axioms(terms) {
					ax.WriteString(a)
					ax.WriteString("\n")
				}
			}
			tmpl := decl.String() + ax.String() + sb.String()
			text := strings.Replace(tmpl, "GOAL$$", c.t.String(), 1)
			q := &Query{Ob: c.ob, Text: text, Size: len(text)}
			if c.t.Op == "and" && len(c.t.Args) > 1 && !c.ob.Cover {
				for i, cj := range c.t.Args {
					// earlier conjuncts may be assumed when proving a later one
					goal := cj.String()
					if i > 0 {
						var prev []string
						for _, pj := range c.t.Args[:i] {
							prev = append(prev, pj.String())
						}
						goal = "(=> (and " + strings.Join(prev, " ") + ") " + goal + ")"
					}
					ob := &Obligation{Name: fmt.Sprintf("%s/c%d", c.ob.Name, i+1), Tags: c.ob.Tags, Func: c.ob.Func, Kind: c.ob.Kind, Pos: c.ob.Pos, Frame: c.ob.Frame,
						Descr: c.ob.Descr + " -- conjunct " + fmt.Sprint(i+1) + ": " + abbrev(cj.String())}
					pt := strings.Replace(tmpl, "GOAL$$", goal, 1)
					q.Parts = append(q.Parts, &Query{Ob: ob, Text: pt, Size: len(pt)})
				}
			}
			qs = append(qs, q)
		}
	}
	sort.SliceStable(qs, func(i, j int) bool { return qs[i].Ob.Name < qs[j].Ob.Name })
	return qs
}
