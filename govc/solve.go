package main

import (
	"bytes"
	"context"
	"crypto/sha256"
	"encoding/hex"
	"encoding/json"
	"fmt"
	"os"
	"os/exec"
	"path/filepath"
	"strings"
	"sync"
	"sync/atomic"
	"time"
)

type SolverRes struct {
	Solver  string
	Verdict string // unsat | sat | unknown | timeout | error
	Output  string
	Secs    float64
}

type Outcome struct {
	Q        *Query
	Status   string // discharged | refuted | undecided | error
	By       string // solver that decided
	Results  []SolverRes
	Model    map[string]string
	SolverS  float64
	Disagree bool
	Cached   bool
}

var solverCmds = map[string]func(timeout int) []string{
	"z3-new": func(t int) []string { return []string{"z3-new", "-in", fmt.Sprintf("-T:%d", t)} },
	"z3":     func(t int) []string { return []string{"z3", "-in", fmt.Sprintf("-T:%d", t)} },
	"cvc5": func(t int) []string {
		return []string{"cvc5", "--lang=smt2", fmt.Sprintf("--tlimit=%d", t*1000), "--produce-models", "--strings-exp"}
	},
}

const smtHeader = "(set-option :produce-models true)\n(set-logic ALL)\n"

func runSolver(ctx context.Context, name string, text string, timeout int) SolverRes {
	args := solverCmds[name](timeout)
	cctx, cancel := context.WithTimeout(ctx, time.Duration(timeout+3)*time.Second)
	defer cancel()
	cmd := exec.CommandContext(cctx, args[0], args[1:]...)
	cmd.Stdin = strings.NewReader(text)
	var out bytes.Buffer
	cmd.Stdout = &out
	cmd.Stderr = &out
	start := time.Now()
	_ = cmd.Run()
	secs := time.Since(start).Seconds()
	o := out.String()
	first := strings.TrimSpace(strings.SplitN(o, "\n", 2)[0])
	v := "error"
	switch {
	case first == "unsat":
		v = "unsat"
	case first == "sat":
		v = "sat"
	case first == "unknown":
		v = "unknown"
	case first == "timeout" || strings.Contains(first, "interrupted by timeout") || strings.Contains(o, "cvc5 interrupted by timeout") || cctx.Err() != nil:
		v = "timeout"
	case first == "":
		v = "timeout"
	}
	if ctx.Err() != nil && v != "unsat" && v != "sat" {
		v = "cancelled"
	}
	return SolverRes{Solver: name, Verdict: v, Output: o, Secs: secs}
}

// discharge decides one query. Quick tier: z3-new alone with a short budget
// first, then all three raced. Thorough: all three must run and agree.
func discharge(q *Query, prelude string, budget int, thorough bool) *Outcome {
	oc := dischargeUncached(q, prelude, budget, thorough, true)
	return oc
}

// Proof cache. The verification conditions are regenerated from /repo's working tree on every run; what is
// memoised is only the solver's verdict for a byte-identical query (header, prelude, VC, tier), and only a
// definitive one (unsat, or sat with its model output). A changed function, contract or engine produces a
// different query text and therefore misses the cache. The cache lives in /verif/.cache (not committed).
var cacheDir = ""
var cacheHits, cacheMisses int64

type cacheEntry struct {
	Status  string      `json:"status"`
	By      string      `json:"by"`
	Secs    float64     `json:"secs"`
	Results []SolverRes `json:"results"`
}

// splitHint remembers (set) or asks (!set) whether a conjunctive goal had to be decided conjunct by conjunct.
// It is a strategy hint for a byte-identical query, not a verdict: the conjuncts are still discharged (or
// found in the cache) one by one.
func splitHint(q *Query, prelude string, thorough bool, set bool) bool {
	if cacheDir == "" {
		return false
	}
	if q.Raw {
		prelude = ""
	}
	key := cacheKey(smtHeader+prelude+q.Text+"(check-sat)\n"+q.valueRequest(), thorough)
	path := filepath.Join(cacheDir, key[:2], key+".split")
	if set {
		os.MkdirAll(filepath.Dir(path), 0o755)
		os.WriteFile(path, []byte("split\n"), 0o644)
		return true
	}
	_, err := os.Stat(path)
	return err == nil
}

func cacheKey(full string, thorough bool) string {
	h := sha256.New()
	if thorough {
		h.Write([]byte("thorough\n"))
	}
	h.Write([]byte(full))
	return hex.EncodeToString(h.Sum(nil))
}

func dischargeUncached(q *Query, prelude string, budget int, thorough bool, useCache bool) *Outcome {
	oc := &Outcome{Q: q}
	if q.Raw {
		prelude = ""
	}
	text := smtHeader + prelude + q.Text + "(check-sat)\n"
	valueReq := q.valueRequest()
	full := text + valueReq
	if useCache && cacheDir != "" {
		key := cacheKey(full, thorough)
		path := filepath.Join(cacheDir, key[:2], key+".json")
		if b, err := os.ReadFile(path); err == nil {
			var ce cacheEntry
			if json.Unmarshal(b, &ce) == nil && (ce.Status == "discharged" || ce.Status == "refuted") {
				atomic.AddInt64(&cacheHits, 1)
				oc.Results = ce.Results
				oc.Cached = true
				oc.finish()
				oc.SolverS = 0
				return oc
			}
		}
		atomic.AddInt64(&cacheMisses, 1)
		defer func() {
			if oc.Status == "discharged" || oc.Status == "refuted" {
				var keep []SolverRes
				for _, r := range oc.Results {
					if r.Verdict == "unsat" || r.Verdict == "sat" {
						if r.Verdict == "unsat" && len(r.Output) > 200 {
							r.Output = r.Output[:200]
						}
						if len(r.Output) > 20000 {
							r.Output = r.Output[:20000]
						}
						keep = append(keep, r)
					}
				}
				b, _ := json.Marshal(cacheEntry{Status: oc.Status, By: oc.By, Secs: oc.SolverS, Results: keep})
				os.MkdirAll(filepath.Dir(path), 0o755)
				tmp := path + fmt.Sprintf(".%d.tmp", os.Getpid())
				if os.WriteFile(tmp, b, 0o644) == nil {
					os.Rename(tmp, path)
				}
			}
		}()
	}
	if q.Ob.Cover {
		// reachability covers: a quick satisfiability probe; "unknown" is inconclusive, not a failure
		r := runSolver(context.Background(), "z3-new", full, 2)
		oc.Results = append(oc.Results, r)
		oc.SolverS += r.Secs
		oc.finish()
		return oc
	}
	if !thorough {
		r := runSolver(context.Background(), "z3-new", full, 2)
		oc.Results = append(oc.Results, r)
		oc.SolverS += r.Secs
		if r.Verdict == "unsat" || r.Verdict == "sat" {
			oc.finish()
			return oc
		}
		if r.Verdict == "error" {
			oc.finish()
			return oc
		}
	}
	ctx, cancel := context.WithCancel(context.Background())
	defer cancel()
	names := []string{"z3-new", "z3", "cvc5"}
	ch := make(chan SolverRes, len(names))
	var wg sync.WaitGroup
	for _, n := range names {
		wg.Add(1)
		go func(n string) {
			defer wg.Done()
			ch <- runSolver(ctx, n, full, budget)
		}(n)
	}
	go func() { wg.Wait(); close(ch) }()
	graceStarted := false
	for r := range ch {
		if r.Verdict == "cancelled" {
			continue
		}
		oc.Results = append(oc.Results, r)
		oc.SolverS += r.Secs
		if r.Verdict == "unsat" || r.Verdict == "sat" {
			if !thorough {
				cancel()
			} else if !graceStarted {
				// thorough: the other solvers get a few more seconds to give a second opinion
				// (a disagreement makes the obligation undecided), then they are stopped
				graceStarted = true
				go func() {
					time.Sleep(5 * time.Second)
					cancel()
				}()
			}
		}
	}
	oc.finish()
	return oc
}

func (oc *Outcome) finish() {
	nUnsat, nSat := 0, 0
	for _, r := range oc.Results {
		switch r.Verdict {
		case "unsat":
			nUnsat++
			if oc.By == "" {
				oc.By = r.Solver
			}
		case "sat":
			nSat++
		}
	}
	switch {
	case nSat > 0 && nUnsat > 0:
		oc.Status = "undecided"
		oc.Disagree = true
	case nSat > 0:
		oc.Status = "refuted"
		for _, r := range oc.Results {
			if r.Verdict == "sat" {
				oc.By = r.Solver
				if oc.Q != nil && oc.Q.Raw {
					oc.Model = map[string]string{}
					for _, n := range []string{"x", "y"} {
						if v, ok := smtStringValue(r.Output, "|"+n+"!0|"); ok {
							oc.Model[n] = v
						} else if v, ok := smtStringValue(r.Output, n+"!0"); ok {
							oc.Model[n] = v
						}
					}
					break
				}
				oc.Model = parseValues(r.Output)
				break
			}
		}
	case nUnsat > 0:
		oc.Status = "discharged"
	default:
		oc.Status = "undecided"
		for _, r := range oc.Results {
			if r.Verdict == "error" {
				oc.Status = "error"
			}
		}
	}
}

// valueRequest asks for the values of the scalar entry incarnations.
func (q *Query) valueRequest() string {
	if q.Raw {
		return "(get-value (|x!0| |y!0|))\n"
	}
	var names []string
	for _, line := range strings.Split(q.Text, "\n") {
		if !strings.HasPrefix(line, "(declare-fun ") {
			continue
		}
		rest := strings.TrimPrefix(line, "(declare-fun ")
		i := strings.Index(rest, " () ")
		if i < 0 {
			continue
		}
		name, sort := rest[:i], strings.TrimSuffix(rest[i+4:], ")")
		if (sort == "Int" || sort == "Bool") && (strings.HasSuffix(name, "!0") || strings.HasSuffix(name, "!0|")) {
			names = append(names, name)
		}
	}
	if len(names) == 0 {
		return ""
	}
	if len(names) > 400 {
		names = names[:400]
	}
	return "(get-value (" + strings.Join(names, " ") + "))\n"
}

// parseValues parses "((a 1) (b (- 2)) (c true))" style output.
func parseValues(out string) map[string]string {
	m := map[string]string{}
	i := strings.Index(out, "((")
	if i < 0 {
		return m
	}
	s := out[i+1:]
	for {
		s = strings.TrimLeft(s, " \n\t")
		if !strings.HasPrefix(s, "(") {
			break
		}
		// find matching paren
		depth, j := 0, 0
		inBar := false
		for j = 0; j < len(s); j++ {
			c := s[j]
			if c == '|' {
				inBar = !inBar
			}
			if inBar {
				continue
			}
			if c == '(' {
				depth++
			} else if c == ')' {
				depth--
				if depth == 0 {
					break
				}
			}
		}
		if j >= len(s) {
			break
		}
		item := s[1:j]
		s = s[j+1:]
		var name, val string
		if strings.HasPrefix(item, "|") {
			k := strings.Index(item[1:], "|")
			name = item[1 : k+1]
			val = strings.TrimSpace(item[k+2:])
		} else {
			k := strings.IndexAny(item, " \n")
			if k < 0 {
				continue
			}
			name = item[:k]
			val = strings.TrimSpace(item[k+1:])
		}
		val = strings.ReplaceAll(val, "(- ", "-")
		val = strings.TrimSuffix(val, ")")
		m[strings.TrimSuffix(name, "!0")] = val
	}
	return m
}
