package main

import (
	"fmt"
	"go/ast"
	"go/parser"
	"go/token"
	"strconv"
	"strings"
	"unicode"
)

// ---------------------------------------------------------------------
// Spec expressions

type SExpr struct {
	Kind string // int, str, bool, nil, id, sel, index, slice, call, old, un, bin, forall, exists, cond
	Name string // identifier, operator, field name, function name
	Args []*SExpr
	Vars []string // bound variables
	Int  string
	Src  string
}

func (e *SExpr) String() string {
	switch e.Kind {
	case "int":
		return e.Int
	case "str":
		return strconv.Quote(e.Name)
	case "bool", "id":
		return e.Name
	case "nil":
		return "nil"
	case "sel":
		return e.Args[0].String() + "." + e.Name
	case "index":
		return e.Args[0].String() + "[" + e.Args[1].String() + "]"
	case "call":
		var as []string
		for _, a := range e.Args {
			as = append(as, a.String())
		}
		return e.Name + "(" + strings.Join(as, ", ") + ")"
	case "old":
		return "old(" + e.Args[0].String() + ")"
	case "un":
		return e.Name + e.Args[0].String()
	case "bin":
		return "(" + e.Args[0].String() + " " + e.Name + " " + e.Args[1].String() + ")"
	case "forall", "exists":
		return "(" + e.Kind + " " + strings.Join(e.Vars, ", ") + " :: " + e.Args[0].String() + ")"
	case "cond":
		return "(" + e.Args[0].String() + " ? " + e.Args[1].String() + " : " + e.Args[2].String() + ")"
	}
	return "?" + e.Kind
}

type stok struct {
	kind string // id, int, str, chr, op, eof
	text string
}

func lexSpec(s string) ([]stok, error) {
	var out []stok
	i := 0
	for i < len(s) {
		c := s[i]
		switch {
		case c == ' ' || c == '\t' || c == '\n' || c == '\r':
			i++
		case unicode.IsLetter(rune(c)) || c == '_' || c == '$':
			j := i
			for j < len(s) && (unicode.IsLetter(rune(s[j])) || unicode.IsDigit(rune(s[j])) || s[j] == '_' || s[j] == '$') {
				j++
			}
			out = append(out, stok{"id", s[i:j]})
			i = j
		case c >= '0' && c <= '9':
			j := i
			for j < len(s) && (unicode.IsDigit(rune(s[j])) || unicode.IsLetter(rune(s[j]))) {
				j++
			}
			out = append(out, stok{"int", s[i:j]})
			i = j
		case c == '"':
			j := i + 1
			for j < len(s) && s[j] != '"' {
				if s[j] == '\\' {
					j++
				}
				j++
			}
			if j >= len(s) {
				return nil, fmt.Errorf("unterminated string in %q", s)
			}
			v, err := strconv.Unquote(s[i : j+1])
			if err != nil {
				return nil, fmt.Errorf("bad string literal %s", s[i:j+1])
			}
			out = append(out, stok{"str", v})
			i = j + 1
		case c == '\'':
			j := i + 1
			for j < len(s) && s[j] != '\'' {
				if s[j] == '\\' {
					j++
				}
				j++
			}
			if j >= len(s) {
				return nil, fmt.Errorf("unterminated char in %q", s)
			}
			v, _, _, err := strconv.UnquoteChar(s[i+1:j], '\'')
			if err != nil {
				return nil, fmt.Errorf("bad char literal %s", s[i:j+1])
			}
			out = append(out, stok{"int", strconv.Itoa(int(v))})
			i = j + 1
		default:
			ops := []string{"<==>", "==>", "::", "==", "!=", "<=", ">=", "&&", "||", "<<", ">>", "+", "-", "*", "/", "%", "<", ">", "!", "(", ")", "[", "]", ",", ".", ":", "?", "&"}
			found := false
			for _, op := range ops {
				if strings.HasPrefix(s[i:], op) {
					out = append(out, stok{"op", op})
					i += len(op)
					found = true
					break
				}
			}
			if !found {
				return nil, fmt.Errorf("unexpected character %q in spec %q", c, s)
			}
		}
	}
	out = append(out, stok{"eof", ""})
	return out, nil
}

type sparser struct {
	toks []stok
	pos  int
	src  string
}

func parseSpecExpr(s string) (*SExpr, error) {
	toks, err := lexSpec(s)
	if err != nil {
		return nil, err
	}
	p := &sparser{toks: toks, src: s}
	e, err := p.expr(0)
	if err != nil {
		return nil, fmt.Errorf("%v in spec %q", err, s)
	}
	if p.peek().kind != "eof" {
		return nil, fmt.Errorf("trailing tokens at %q in spec %q", p.peek().text, s)
	}
	e.Src = s
	return e, nil
}

func (p *sparser) peek() stok { return p.toks[p.pos] }
func (p *sparser) next() stok { t := p.toks[p.pos]; p.pos++; return t }
func (p *sparser) isOp(op string) bool {
	t := p.peek()
	return t.kind == "op" && t.text == op
}
func (p *sparser) expect(op string) error {
	if !p.isOp(op) {
		return fmt.Errorf("expected %q, found %q", op, p.peek().text)
	}
	p.pos++
	return nil
}

var sprec = map[string]int{
	"<==>": 1, "==>": 2, "?": 3, "||": 4, "&&": 5,
	"==": 6, "!=": 6, "<": 6, "<=": 6, ">": 6, ">=": 6,
	"+": 7, "-": 7, "*": 8, "/": 8, "%": 8, "<<": 8, ">>": 8, "&": 8,
}

func (p *sparser) expr(minPrec int) (*SExpr, error) {
	lhs, err := p.unary()
	if err != nil {
		return nil, err
	}
	for {
		t := p.peek()
		if t.kind != "op" {
			break
		}
		pr, ok := sprec[t.text]
		if !ok || pr < minPrec {
			break
		}
		p.next()
		if t.text == "?" {
			a, err := p.expr(0)
			if err != nil {
				return nil, err
			}
			if err := p.expect(":"); err != nil {
				return nil, err
			}
			b, err := p.expr(pr)
			if err != nil {
				return nil, err
			}
			lhs = &SExpr{Kind: "cond", Args: []*SExpr{lhs, a, b}}
			continue
		}
		nextMin := pr + 1
		if t.text == "==>" {
			nextMin = pr // right assoc
		}
		rhs, err := p.expr(nextMin)
		if err != nil {
			return nil, err
		}
		lhs = &SExpr{Kind: "bin", Name: t.text, Args: []*SExpr{lhs, rhs}}
	}
	return lhs, nil
}

func (p *sparser) unary() (*SExpr, error) {
	t := p.peek()
	if t.kind == "op" && (t.text == "!" || t.text == "-") {
		p.next()
		e, err := p.unary()
		if err != nil {
			return nil, err
		}
		return &SExpr{Kind: "un", Name: t.text, Args: []*SExpr{e}}, nil
	}
	if t.kind == "id" && (t.text == "forall" || t.text == "exists") {
		p.next()
		var vars []string
		for {
			v := p.next()
			if v.kind != "id" {
				return nil, fmt.Errorf("expected bound variable")
			}
			vars = append(vars, v.text)
			if p.isOp(",") {
				p.next()
				continue
			}
			break
		}
		if err := p.expect("::"); err != nil {
			return nil, err
		}
		body, err := p.expr(0)
		if err != nil {
			return nil, err
		}
		return &SExpr{Kind: t.text, Vars: vars, Args: []*SExpr{body}}, nil
	}
	return p.postfix()
}

func (p *sparser) postfix() (*SExpr, error) {
	e, err := p.primary()
	if err != nil {
		return nil, err
	}
	for {
		switch {
		case p.isOp("."):
			p.next()
			t := p.next()
			if t.kind != "id" {
				return nil, fmt.Errorf("expected field name after '.'")
			}
			e = &SExpr{Kind: "sel", Name: t.text, Args: []*SExpr{e}}
		case p.isOp("["):
			p.next()
			i, err := p.expr(0)
			if err != nil {
				return nil, err
			}
			if err := p.expect("]"); err != nil {
				return nil, err
			}
			e = &SExpr{Kind: "index", Args: []*SExpr{e, i}}
		case p.isOp("("):
			// call: e must be id or sel (pkg.func)
			name := ""
			switch e.Kind {
			case "id":
				name = e.Name
			case "sel":
				if e.Args[0].Kind == "id" {
					name = e.Args[0].Name + "." + e.Name
				}
			}
			var recv *SExpr
			if name == "" && e.Kind == "sel" {
				name = "." + e.Name
				recv = e.Args[0]
			}
			if name == "" {
				return nil, fmt.Errorf("call of non-identifier")
			}
			p.next()
			var args []*SExpr
			if recv != nil {
				args = append(args, recv)
			}
			for !p.isOp(")") {
				a, err := p.expr(0)
				if err != nil {
					return nil, err
				}
				args = append(args, a)
				if p.isOp(",") {
					p.next()
				}
			}
			p.next()
			if name == "old" {
				if len(args) != 1 {
					return nil, fmt.Errorf("old takes one argument")
				}
				e = &SExpr{Kind: "old", Args: args}
			} else {
				e = &SExpr{Kind: "call", Name: name, Args: args}
			}
		default:
			return e, nil
		}
	}
}

func (p *sparser) primary() (*SExpr, error) {
	t := p.next()
	switch t.kind {
	case "int":
		v, err := strconv.ParseInt(t.text, 0, 64)
		if err != nil {
			return nil, fmt.Errorf("bad integer %q", t.text)
		}
		return &SExpr{Kind: "int", Int: strconv.FormatInt(v, 10)}, nil
	case "str":
		return &SExpr{Kind: "str", Name: t.text}, nil
	case "id":
		switch t.text {
		case "true", "false":
			return &SExpr{Kind: "bool", Name: t.text}, nil
		case "nil":
			return &SExpr{Kind: "nil"}, nil
		}
		return &SExpr{Kind: "id", Name: t.text}, nil
	case "op":
		if t.text == "(" {
			e, err := p.expr(0)
			if err != nil {
				return nil, err
			}
			if err := p.expect(")"); err != nil {
				return nil, err
			}
			return e, nil
		}
	}
	return nil, fmt.Errorf("unexpected token %q", t.text)
}

// ---------------------------------------------------------------------
// Contract files

type Clause struct {
	Kind   string   // requires, ensures, ensures-always, invariant, assert, ghost, lemma, assume
	Tags   []string // property tags
	Expr   *SExpr
	Text   string
	Loop   int    // loop ordinal for invariants (1-based)
	Anchor string // statement text for assert/ghost/lemma
	Resolved string // the statement the anchor was matched to by shape when its exact text no longer exists (see resolveAnchors)
	Before bool
	Occ    int    // occurrence of anchor (1-based, 0 = must be unique)
	Target string // ghost assignment target (spec path text)
	TExpr  *SExpr // target expression
	Lemma  string
	LArgs  []*SExpr
	Line   int
	Ord    int // ordinal among clauses of the same kind in this contract
	Int    int
}

type FuncContract struct {
	Key      string // pkgpath.(*T).Name or pkgpath.Name or pkgpath.T.Name
	Header   string
	Assumed  bool // trusted, body not verified
	Pure     bool // modelled as an uninterpreted function of its arguments
	MayPanic bool
	Params   []string // names in the contract header (receiver first if any)
	ParamTypes []string // their types as written in the header (receiver first), "" when unnamed
	ResultType string   // type of a single result, as written
	Results  []string
	Clauses  []*Clause
	Modifies []string // raw modifies items
	ModSet   bool
	Public   []string
	Tags     []string
	File     string
	Line     int
	RecvName string
	Lemma    bool
	Induct   string
	LemmaSig []string // kinds of lemma params: int, seq, bool
	NoSweep  bool
	Inline   bool // callers lower the body in place instead of using the contract
	DeclPkg  string // package whose contract file declares this contract (names in its clauses resolve there)
}

type TypeInvariant struct {
	Type    string // pkgpath.T
	Self    string
	Clauses []*Clause
}

type Contracts struct {
	Funcs    map[string]*FuncContract
	Order    []string
	TypeInvs map[string]*TypeInvariant
	Ghosts   map[string]string // ghost global variables: name -> kind (int/bool)
	Aliases  [][2]string
	Lemmas   map[string]*FuncContract
	Errors   []string
	Preds    map[string]*Pred
	GhostFields map[string]map[string]string // type key (short) -> field -> kind
	Regexes  []*RegexSpec
	Shared   []*SharedDecl
	Restrict []*RestrictDecl
}

// Pred is a named spec macro: pred Name(p *T, x int) = expr
type Pred struct {
	Name   string
	Params []string
	Body   *SExpr
	Pkg    string
}

// importAlias maps qualifiers used in contract headers to import paths.
var importAlias = map[string]string{
	"utf8": "unicode/utf8", "bytes": "bytes", "reflect": "reflect", "strconv": "strconv", "strings": "strings",
	"io": "io", "sync": "sync", "fmt": "fmt", "os": "os", "regexp": "regexp", "sort": "sort",
}

var ghostFieldTable map[string]map[string]string
var stableGhost = map[string]bool{}

var clauseKeywords = map[string]bool{
	"requires": true, "ensures": true, "ensures-always": true, "modifies": true, "may-panic": true,
	"loop": true, "assert": true, "ghost": true, "lemma": true, "public": true, "assume": true,
	"induction": true, "nosweep": true, "cover": true, "inline": true, "assume-fresh": true, "class": true,
}

func parseTags(s string) (tags []string, rest string) {
	s = strings.TrimSpace(s)
	if strings.HasPrefix(s, "[") {
		if i := strings.Index(s, "]"); i > 0 {
			inner := s[1:i]
			ok := true
			for _, t := range strings.Split(inner, ",") {
				t = strings.TrimSpace(t)
				if len(t) < 2 || t[0] != 'C' {
					ok = false
				}
			}
			if ok {
				for _, t := range strings.Split(inner, ",") {
					tags = append(tags, strings.TrimSpace(t))
				}
				return tags, strings.TrimSpace(s[i+1:])
			}
		}
	}
	return nil, s
}

// parseContractText parses the body of /*@ ... @*/ blocks of one file.
func (cs *Contracts) parseContractText(pkgPath, file string, text string, baseLine int) {
	lines := strings.Split(text, "\n")
	type item struct {
		line int
		text string
	}
	var items []item
	for i, l := range lines {
		t := strings.TrimSpace(l)
		if t == "" || strings.HasPrefix(t, "--") {
			continue
		}
		first := strings.Fields(t)[0]
		if first == "import" {
			f := strings.Fields(t)
			if len(f) == 3 {
				if p, err := strconv.Unquote(f[2]); err == nil {
					importAlias[f[1]] = p
				}
			}
			continue
		}
		if first == "pred" {
			items = append(items, item{baseLine + i, t})
			continue
		}
		isHeader := first == "func" || first == "regex" || first == "shared" || first == "restrict" || first == "invariant" || first == "ghostvar" || first == "ghostfield" || first == "alias" || (first == "assume" && strings.HasPrefix(t, "assume func")) ||
			(first == "pure" && strings.HasPrefix(t, "pure func")) || (first == "assume" && strings.HasPrefix(t, "assume pure func"))
		if isHeader || clauseKeywords[first] {
			items = append(items, item{baseLine + i, t})
		} else if len(items) > 0 {
			items[len(items)-1].text += " " + t
		} else {
			cs.Errors = append(cs.Errors, fmt.Sprintf("%s:%d: stray text %q", file, baseLine+i, t))
		}
	}
	var cur *FuncContract
	var curInv *TypeInvariant
	ordinals := map[string]int{}
	for _, it := range items {
		t := it.text
		first := strings.Fields(t)[0]
		errf := func(format string, a ...interface{}) {
			cs.Errors = append(cs.Errors, fmt.Sprintf("%s:%d: %s", file, it.line, fmt.Sprintf(format, a...)))
		}
		switch {
		case first == "pred":
			// pred Name(a, b) = expr
			rest := strings.TrimSpace(strings.TrimPrefix(t, "pred"))
			eq := strings.Index(rest, "=")
			lp, rp := strings.Index(rest, "("), strings.Index(rest, ")")
			if eq < 0 || lp < 0 || rp < lp || rp > eq {
				errf("pred Name(params) = expr")
				continue
			}
			pd := &Pred{Name: strings.TrimSpace(rest[:lp]), Pkg: pkgPath}
			for _, p := range strings.Split(rest[lp+1:rp], ",") {
				f := strings.Fields(p)
				if len(f) > 0 {
					pd.Params = append(pd.Params, f[0])
				}
			}
			e, err := parseSpecExpr(rest[eq+1:])
			if err != nil {
				errf("%v", err)
				continue
			}
			pd.Body = e
			cs.Preds[pd.Name] = pd
			cur, curInv = nil, nil
		case first == "shared":
			// shared pkg.Var "why"
			f := strings.Fields(t)
			if len(f) < 3 {
				errf("shared pkg.Var \"justification\"")
				continue
			}
			why := strings.TrimSpace(t[strings.Index(t, f[1])+len(f[1]):])
			if uq, err := strconv.Unquote(why); err == nil {
				why = uq
			}
			cs.Shared = append(cs.Shared, &SharedDecl{Var: f[1], Why: why, File: file, Line: it.line})
			cur, curInv = nil, nil
		case first == "restrict":
			// restrict <Method> in <pkgshort> [tags] to f1, f2, ... "why"
			rest := strings.TrimSpace(strings.TrimPrefix(t, "restrict"))
			why := ""
			if i := strings.Index(rest, "\""); i >= 0 {
				if uq, err := strconv.Unquote(strings.TrimSpace(rest[i:])); err == nil {
					why = uq
				}
				rest = strings.TrimSpace(rest[:i])
			}
			f := strings.Fields(rest)
			if len(f) < 5 || f[1] != "in" {
				errf("restrict <Method> in <pkg> [tags] to f1, f2 \"justification\"")
				continue
			}
			rd := &RestrictDecl{Method: f[0], Pkg: f[2], Why: why, File: file, Line: it.line}
			tail := strings.TrimSpace(rest[strings.Index(rest, f[2])+len(f[2]):])
			rd.Tags, tail = parseTags(tail)
			tail = strings.TrimSpace(strings.TrimPrefix(strings.TrimSpace(tail), "to"))
			for _, n := range strings.Split(tail, ",") {
				if n = strings.TrimSpace(n); n != "" {
					rd.Allowed = append(rd.Allowed, n)
				}
			}
			cs.Restrict = append(cs.Restrict, rd)
			cur, curInv = nil, nil
		case first == "regex":
			// regex Var [tags] language "<pattern>" prefix-free nonempty
			rest := strings.TrimSpace(strings.TrimPrefix(t, "regex"))
			f := strings.Fields(rest)
			if len(f) == 0 {
				errf("regex VarName [tags] language \"pattern\" prefix-free nonempty")
				continue
			}
			rs := &RegexSpec{Pkg: pkgPath, Var: f[0], File: file, Line: it.line}
			rest = strings.TrimSpace(rest[len(f[0]):])
			rs.Tags, rest = parseTags(rest)
			for rest != "" {
				switch {
				case strings.HasPrefix(rest, "language"):
					rest = strings.TrimSpace(rest[len("language"):])
					q, err := strconv.QuotedPrefix(rest)
					if err != nil {
						errf("regex: language needs a quoted pattern")
						rest = ""
						break
					}
					rs.Language, _ = strconv.Unquote(q)
					rest = strings.TrimSpace(rest[len(q):])
				case strings.HasPrefix(rest, "prefix-free"):
					rs.PrefixFree = true
					rest = strings.TrimSpace(rest[len("prefix-free"):])
				case strings.HasPrefix(rest, "nonempty"):
					rs.NonEmpty = true
					rest = strings.TrimSpace(rest[len("nonempty"):])
				default:
					errf("regex: unexpected %q", rest)
					rest = ""
				}
			}
			cs.Regexes = append(cs.Regexes, rs)
			cur, curInv = nil, nil
		case first == "ghostfield":
			// ghostfield T.name kind
			f := strings.Fields(t)
			if len(f) == 4 && f[3] == "stable" {
				// stable: only functions whose contract assigns the field (a ghost clause) change it
				stableGhost[f[1][strings.Index(f[1], ".")+1:]] = true
				f = f[:3]
			}
			if len(f) != 3 || !strings.Contains(f[1], ".") {
				errf("ghostfield Type.name kind [stable]")
				continue
			}
			i := strings.Index(f[1], ".")
			tk := shortPkg(pkgPath) + "." + f[1][:i]
			if cs.GhostFields[tk] == nil {
				cs.GhostFields[tk] = map[string]string{}
			}
			cs.GhostFields[tk][f[1][i+1:]] = f[2]
			ghostFieldTable = cs.GhostFields
			cur, curInv = nil, nil
		case first == "ghostvar":
			f := strings.Fields(t)
			if len(f) != 3 {
				errf("ghostvar NAME KIND")
				continue
			}
			cs.Ghosts[f[1]] = f[2]
			cur, curInv = nil, nil
		case first == "alias":
			f := strings.Fields(t)
			if len(f) != 4 || f[2] != "=" {
				errf("alias A = B")
				continue
			}
			cs.Aliases = append(cs.Aliases, [2]string{f[1], f[3]})
		case first == "invariant":
			// invariant (b *Buffer) ; following clauses are "ensures" style
			rest := strings.TrimSpace(strings.TrimPrefix(t, "invariant"))
			rest = strings.Trim(rest, "()")
			f := strings.Fields(rest)
			if len(f) != 2 {
				errf("invariant (self *Type)")
				continue
			}
			tn := strings.TrimPrefix(f[1], "*")
			curInv = &TypeInvariant{Type: pkgPath + "." + tn, Self: f[0]}
			cs.TypeInvs[curInv.Type] = curInv
			cur = nil
			ordinals = map[string]int{}
		case first == "func" || strings.HasPrefix(t, "assume func") || strings.HasPrefix(t, "pure func") || strings.HasPrefix(t, "assume pure func"):
			fc := &FuncContract{File: file, Line: it.line, DeclPkg: pkgPath}
			hdr := t
			if strings.HasPrefix(hdr, "assume ") {
				fc.Assumed = true
				hdr = strings.TrimPrefix(hdr, "assume ")
			}
			if strings.HasPrefix(hdr, "pure ") {
				fc.Pure = true
				hdr = strings.TrimPrefix(hdr, "pure ")
			}
			// trailing tags
			if i := strings.LastIndex(hdr, "["); i > 0 && strings.HasSuffix(strings.TrimSpace(hdr), "]") {
				tg, _ := parseTags(hdr[i:])
				if tg != nil {
					fc.Tags = tg
					hdr = strings.TrimSpace(hdr[:i])
				}
			}
			fc.Header = hdr
			if err := parseHeader(pkgPath, hdr, fc); err != nil {
				errf("%v", err)
				cur = nil
				continue
			}
			if _, dup := cs.Funcs[fc.Key]; dup {
				errf("duplicate contract for %s", fc.Key)
			}
			cs.Funcs[fc.Key] = fc
			cs.Order = append(cs.Order, fc.Key)
			cur, curInv = fc, nil
			ordinals = map[string]int{}
		default:
			rest := strings.TrimSpace(strings.TrimPrefix(t, first))
			if cur == nil && curInv == nil {
				errf("clause outside contract")
				continue
			}
			if curInv != nil {
				if first != "ensures" && first != "requires" {
					errf("type invariants take 'ensures' clauses only")
					continue
				}
				tags, body := parseTags(rest)
				e, err := parseSpecExpr(body)
				if err != nil {
					errf("%v", err)
					continue
				}
				ordinals["inv"]++
				curInv.Clauses = append(curInv.Clauses, &Clause{Kind: "typeinv", Tags: tags, Expr: e, Text: body, Line: it.line, Ord: ordinals["inv"]})
				continue
			}
			switch first {
			case "may-panic":
				cur.MayPanic = true
			case "class":
				// class K before "stmt": payload class of the arguments of calls in that statement
				f := strings.Fields(rest)
				idx := strings.Index(rest, " before \"")
				if len(f) < 3 || idx < 0 {
					errf("class K before \"stmt\"")
					continue
				}
				as, err := strconv.Unquote(strings.TrimSpace(rest[idx+8:]))
				if err != nil {
					errf("bad anchor")
					continue
				}
				k, err := strconv.Atoi(f[0])
				if err != nil {
					errf("class: %v", err)
					continue
				}
				cur.Clauses = append(cur.Clauses, &Clause{Kind: "class", Anchor: as, Before: true, Text: rest, Int: k, Line: it.line})
			case "assume-fresh":
				// assume-fresh VAR after "stmt": VAR is an object nobody else holds (sync.Pool contract)
				idx := strings.LastIndex(rest, " after \"")
				if idx < 0 {
					errf("assume-fresh VAR after \"stmt\"")
					continue
				}
				as, err := strconv.Unquote(strings.TrimSpace(rest[idx+7:]))
				if err != nil {
					errf("bad anchor")
					continue
				}
				e, err := parseSpecExpr(strings.TrimSpace(rest[:idx]))
				if err != nil {
					errf("%v", err)
					continue
				}
				cur.Clauses = append(cur.Clauses, &Clause{Kind: "assume-fresh", Anchor: as, Text: rest, Expr: e, Line: it.line})
			case "nosweep":
				cur.NoSweep = true
			case "inline":
				cur.Inline = true
			case "induction":
				cur.Induct = rest
			case "modifies":
				cur.ModSet = true
				for _, m := range strings.Split(rest, ",") {
					m = strings.TrimSpace(m)
					if m != "" && m != "nothing" {
						cur.Modifies = append(cur.Modifies, m)
					}
				}
			case "public":
				for _, m := range strings.Split(rest, ",") {
					cur.Public = append(cur.Public, strings.TrimSpace(m))
				}
			case "requires", "ensures", "ensures-always", "assume", "cover":
				if first == "assume" && strings.HasSuffix(strings.TrimSpace(rest), " at unwind") {
					rest = strings.TrimSuffix(strings.TrimSpace(rest), " at unwind") + " before \"$unwind\""
				}
				if first == "assume" && strings.HasSuffix(rest, " at exit") {
					rest = strings.TrimSuffix(rest, " at exit") + " after \"$exit\""
				}
				if first == "assume" && (strings.Contains(rest, " after \"") || strings.Contains(rest, " before \"")) {
					tags, body := parseTags(rest)
					idx, before := strings.LastIndex(body, " after \""), false
					if j := strings.LastIndex(body, " before \""); j > idx {
						idx, before = j, true
					}
					payload := strings.TrimSpace(body[:idx])
					anch := strings.TrimSpace(strings.TrimPrefix(strings.TrimPrefix(strings.TrimSpace(body[idx:]), "after"), "before"))
					occ := 0
					if k := strings.LastIndex(anch, "\" #"); k > 0 {
						occ, _ = strconv.Atoi(strings.TrimSpace(anch[k+3:]))
						anch = anch[:k+1]
					}
					as, err := strconv.Unquote(anch)
					if err != nil {
						errf("bad anchor %s", anch)
						continue
					}
					e, err := parseSpecExpr(payload)
					if err != nil {
						errf("%v", err)
						continue
					}
					cur.Clauses = append(cur.Clauses, &Clause{Kind: "assume-at", Tags: tags, Anchor: as, Before: before, Occ: occ, Text: payload, Expr: e, Line: it.line})
					continue
				}
				tags, body := parseTags(rest)
				if tags == nil {
					tags = cur.Tags
				}
				e, err := parseSpecExpr(body)
				if err != nil {
					errf("%v", err)
					continue
				}
				ordinals[first]++
				cur.Clauses = append(cur.Clauses, &Clause{Kind: first, Tags: tags, Expr: e, Text: body, Line: it.line, Ord: ordinals[first]})
			case "loop":
				f := strings.Fields(rest)
				if len(f) < 3 || (f[1] != "invariant" && f[1] != "decreases") {
					errf("loop N invariant EXPR")
					continue
				}
				n, err := strconv.Atoi(f[0])
				if err != nil {
					errf("loop ordinal: %v", err)
					continue
				}
				body := strings.TrimSpace(strings.TrimPrefix(strings.TrimSpace(strings.TrimPrefix(rest, f[0])), f[1]))
				tags, body := parseTags(body)
				if tags == nil {
					tags = cur.Tags
				}
				e, err := parseSpecExpr(body)
				if err != nil {
					errf("%v", err)
					continue
				}
				k := fmt.Sprintf("loop%d.%s", n, f[1])
				ordinals[k]++
				cur.Clauses = append(cur.Clauses, &Clause{Kind: f[1], Loop: n, Tags: tags, Expr: e, Text: body, Line: it.line, Ord: ordinals[k]})
			case "assert", "ghost", "lemma":
				// <payload> after|before "stmt" [#k]
				tags, body := parseTags(rest)
				if tags == nil {
					tags = cur.Tags
				}
				idx, before := strings.LastIndex(body, " after \""), false
				if j := strings.LastIndex(body, " before \""); j > idx {
					idx, before = j, true
				}
				if strings.HasSuffix(body, " at exit") {
					body = strings.TrimSuffix(body, " at exit") + " after \"$exit\""
					idx = strings.LastIndex(body, " after \"")
				} else if strings.HasSuffix(body, " at entry") {
					body = strings.TrimSuffix(body, " at entry") + " before \"$entry\""
					idx, before = strings.LastIndex(body, " before \""), true
				}
				if idx < 0 {
					errf("%s needs an anchor: after \"stmt\"", first)
					continue
				}
				payload := strings.TrimSpace(body[:idx])
				anch := strings.TrimSpace(body[idx:])
				anch = strings.TrimSpace(strings.TrimPrefix(strings.TrimPrefix(anch, "after"), "before"))
				occ := 0
				if k := strings.LastIndex(anch, "\" #"); k > 0 {
					occ, _ = strconv.Atoi(strings.TrimSpace(anch[k+3:]))
					anch = anch[:k+1]
				}
				as, err := strconv.Unquote(anch)
				if err != nil {
					errf("bad anchor %s", anch)
					continue
				}
				cl := &Clause{Kind: first, Tags: tags, Anchor: as, Before: before, Occ: occ, Text: payload, Line: it.line}
				switch first {
				case "assert":
					e, err := parseSpecExpr(payload)
					if err != nil {
						errf("%v", err)
						continue
					}
					cl.Expr = e
				case "ghost":
					i := strings.Index(payload, "=")
					if i < 0 {
						errf("ghost TARGET = EXPR")
						continue
					}
					cl.Target = strings.TrimSpace(payload[:i])
					te, err := parseSpecExpr(cl.Target)
					if err != nil {
						errf("%v", err)
						continue
					}
					cl.TExpr = te
					e, err := parseSpecExpr(payload[i+1:])
					if err != nil {
						errf("%v", err)
						continue
					}
					cl.Expr = e
				case "lemma":
					if w := strings.Index(payload, " when "); w > 0 {
						ce, err := parseSpecExpr(payload[w+6:])
						if err != nil {
							errf("%v", err)
							continue
						}
						cl.Expr = ce
						payload = strings.TrimSpace(payload[:w])
					}
					e, err := parseSpecExpr(payload)
					if err != nil || e.Kind != "call" {
						errf("lemma Name(args): %v", err)
						continue
					}
					cl.Lemma = e.Name
					cl.LArgs = e.Args
				}
				ordinals[first]++
				cl.Ord = ordinals[first]
				cur.Clauses = append(cur.Clauses, cl)
			default:
				errf("unknown clause %q", first)
			}
		}
	}
}

// parseHeader parses "func (b *Buffer) Name(n int) (m int, ok bool)" or
// "func pkg.Name(...)" / "func (x pkg.Type) Name(...)" for foreign functions.
func parseHeader(pkgPath, hdr string, fc *FuncContract) error {
	src := "package p\n" + hdr
	// Foreign function "func bytes.HasSuffix(..)" is not valid Go: rewrite dots in the name.
	rest := strings.TrimSpace(strings.TrimPrefix(hdr, "func"))
	qual := ""
	if !strings.HasPrefix(rest, "(") {
		// plain function, maybe qualified
		i := strings.Index(rest, "(")
		if i < 0 {
			return fmt.Errorf("bad header %q", hdr)
		}
		name := rest[:i]
		if j := strings.LastIndex(name, "."); j >= 0 {
			qual = name[:j]
			src = "package p\nfunc " + name[j+1:] + rest[i:]
		}
	}
	fset := token.NewFileSet()
	f, err := parser.ParseFile(fset, "hdr.go", src, 0)
	if err != nil {
		return fmt.Errorf("cannot parse contract header %q: %v", hdr, err)
	}
	if len(f.Decls) != 1 {
		return fmt.Errorf("bad header %q", hdr)
	}
	fd, ok := f.Decls[0].(*ast.FuncDecl)
	if !ok {
		return fmt.Errorf("bad header %q", hdr)
	}
	key := ""
	if fd.Recv != nil && len(fd.Recv.List) == 1 {
		r := fd.Recv.List[0]
		rn := "_"
		if len(r.Names) > 0 {
			rn = r.Names[0].Name
		}
		fc.Params = append(fc.Params, rn)
		fc.ParamTypes = append(fc.ParamTypes, exprText(r.Type))
		fc.RecvName = rn
		ts := exprText(r.Type)
		ptr := strings.HasPrefix(ts, "*")
		ts = strings.TrimPrefix(ts, "*")
		pp := pkgPath
		if i := strings.LastIndex(ts, "."); i >= 0 {
			pp = ts[:i]
			ts = ts[i+1:]
		}
		if a, ok := importAlias[pp]; ok {
			pp = a
		}
		if ptr {
			key = pp + ".(*" + ts + ")." + fd.Name.Name
		} else {
			key = pp + "." + ts + "." + fd.Name.Name
		}
	} else {
		pp := pkgPath
		if qual != "" {
			pp = qual
		}
		if a, ok := importAlias[pp]; ok {
			pp = a
		}
		key = pp + "." + fd.Name.Name
	}
	fc.Key = key
	if fd.Type.Params != nil {
		for _, p := range fd.Type.Params.List {
			if len(p.Names) == 0 {
				fc.Params = append(fc.Params, "_")
				fc.ParamTypes = append(fc.ParamTypes, exprText(p.Type))
			}
			for _, n := range p.Names {
				fc.Params = append(fc.Params, n.Name)
				fc.ParamTypes = append(fc.ParamTypes, exprText(p.Type))
			}
			if fc.Lemma || strings.HasPrefix(fd.Name.Name, "Lemma") {
				for range p.Names {
					fc.LemmaSig = append(fc.LemmaSig, exprText(p.Type))
				}
			}
		}
	}
	if fd.Type.Results != nil && len(fd.Type.Results.List) == 1 && len(fd.Type.Results.List[0].Names) <= 1 {
		fc.ResultType = exprText(fd.Type.Results.List[0].Type)
	}
	if fd.Type.Results != nil {
		for _, p := range fd.Type.Results.List {
			if len(p.Names) == 0 {
				fc.Results = append(fc.Results, "_")
			}
			for _, n := range p.Names {
				fc.Results = append(fc.Results, n.Name)
			}
		}
	}
	if strings.HasPrefix(fd.Name.Name, "Lemma") && fd.Recv == nil {
		fc.Lemma = true
	}
	return nil
}

func exprText(e ast.Expr) string {
	switch x := e.(type) {
	case *ast.Ident:
		return x.Name
	case *ast.StarExpr:
		return "*" + exprText(x.X)
	case *ast.SelectorExpr:
		return exprText(x.X) + "." + x.Sel.Name
	case *ast.ArrayType:
		return "[]" + exprText(x.Elt)
	case *ast.Ellipsis:
		return "..." + exprText(x.Elt)
	case *ast.InterfaceType:
		return "interface{}"
	}
	return fmt.Sprintf("%T", e)
}
