package main

import (
	"fmt"
	"go/ast"
	"go/token"
	"go/types"
	"strings"
)

// invoke performs a call to a static callee with evaluated receiver/arguments.
func (e *Env) invoke(fn *types.Func, recv *Value, args []Value, pos token.Pos, rt types.Type) Value {
	sig := fn.Type().(*types.Signature)
	key := funcKey(fn)
	if fc, ok := e.w.Cs.Funcs[key]; ok {
		return e.callContract(fc, key, sig, recv, args, pos, rt)
	}
	e.curCallArgs = nil
	if inModule(fn.Pkg()) {
		if pkg := e.w.Pkgs[fn.Pkg().Path()]; pkg != nil {
			if fd, ok := pkg.Funcs[key]; ok && e.inline < 3 && inlinable(fd) {
				return e.inlineCall(pkg, fd, fn, sig, recv, args, rt)
			}
		}
		e.errorf("%s: call to %s which has no contract and cannot be inlined", e.w.pos(pos), shortKey(key))
		return e.unknownResult(sig, rt)
	}
	e.w.trustedNote("unmodelled foreign call " + key + ": result unconstrained, no side effects assumed")
	return e.unknownResult(sig, rt)
}

func (e *Env) deferStmt(s *ast.DeferStmt) {
	if len(e.ctxStack) > 0 {
		for _, c := range e.ctxStack {
			if c.isLoop {
				e.errorf("%s: defer inside a loop is outside the supported subset", e.w.pos(s.Pos()))
				return
			}
		}
	}
	x := s.Call
	site := &deferSite{idx: len(e.defers), call: x, pkg: e.pkg}
	site.armed = e.freshName("armed")
	e.declare(site.armed, SBool)
	switch f := ast.Unparen(x.Fun).(type) {
	case *ast.SelectorExpr:
		if sel, ok := e.info().Selections[f]; ok && sel.Kind() == types.MethodVal {
			site.fn = sel.Obj().(*types.Func)
			rv := e.freeze(e.methodRecv(f, sel))
			site.recv, site.hasRV = rv, true
		} else if fo, ok := e.info().Uses[f.Sel].(*types.Func); ok {
			site.fn = fo
		}
	case *ast.Ident:
		if fo, ok := e.info().Uses[f].(*types.Func); ok {
			site.fn = fo
		}
	}
	if fl, ok := ast.Unparen(x.Fun).(*ast.FuncLit); ok && (fl.Type.Results == nil || fl.Type.Results.NumFields() == 0) {
		site.lit = fl
		// the arguments of a deferred call are evaluated when the defer statement executes
		if lsig, ok := e.info().Types[fl].Type.(*types.Signature); ok && len(x.Args) > 0 {
			for _, a := range e.evalArgs(x, lsig) {
				site.args = append(site.args, e.freeze(a))
			}
		}
		e.assign(site.armed, SBool, True)
		e.defers = append(e.defers, site)
		e.mayArmed[site] = true
		e.deferInit = append(e.deferInit, site.armed)
		return
	}
	if site.fn == nil {
		e.errorf("%s: unsupported deferred call %s", e.w.pos(s.Pos()), exprString(x.Fun))
		return
	}
	site.args = e.evalArgs(x, site.fn.Type().(*types.Signature))
	site.argExprs = x.Args
	// struct receivers by value must be captured (copied) now
	if site.hasRV && site.recv.K == VStruct {
		sigRecv := site.fn.Type().(*types.Signature).Recv().Type()
		if k, _ := kindOf(sigRecv); k == VStruct {
			id := e.allocObj()
			e.copyStruct(id, site.recv.T, site.recv.Typ)
			site.recv.T = id
		}
	}
	e.assign(site.armed, SBool, True)
	e.defers = append(e.defers, site)
	e.mayArmed[site] = true
	// the armed flag must be false on paths that do not execute the defer
	e.deferInit = append(e.deferInit, site.armed)
}

// runDefers emits the deferred calls that may be armed on the current path, in
// reverse order, each guarded by its armed flag.
func (e *Env) runDefers() {
	for i := len(e.defers) - 1; i >= 0; i-- {
		d := e.defers[i]
		if !e.mayArmed[d] {
			continue
		}
		head := e.cur
		run := e.newBlock("defer-run")
		skip := e.newBlock("defer-skip")
		join := e.newBlock("defer-join")
		head.Succ = append(head.Succ, run, skip)
		skip.Cmds = append(skip.Cmds, Cmd{Kind: CAssume, T: Not(Var(d.armed, SBool))})
		skip.Succ = append(skip.Succ, join)
		e.cur = run
		e.assume(Var(d.armed, SBool))
		savedPkg := e.pkg
		e.pkg = d.pkg
		var rv *Value
		if d.hasRV {
			r := d.recv
			rv = &r
		}
		// a panic inside a deferred call continues with the remaining defers
		savedUnw := e.unwindTo
		e.unwindTo = join
		savedArmed := e.mayArmed
		e.curCallArgs = d.argExprs
		savedFC := e.forceClass
		e.forceClass = -1
		if d.lit != nil {
			e.inlineLitArgs(d.call, d.lit, d.args, true)
		} else {
			e.invoke(d.fn, rv, d.args, d.call.Pos(), nil)
		}
		e.forceClass = savedFC
		e.curCallArgs = nil
		e.mayArmed = savedArmed
		e.unwindTo = savedUnw
		e.pkg = savedPkg
		e.jump(join)
		e.cur = join
	}
}

// leave ends the current path of the function: the deferred calls that may be
// armed here run, then control reaches the post block where the contract is checked.
func (e *Env) leave() {
	e.runDefers()
	if e.postB != nil {
		// the end of an inlined function literal: control continues in the enclosing function
		e.jump(e.postB)
		return
	}
	e.retOrd++
	saved := e.pathTag
	e.pathTag = fmt.Sprintf("@%d", e.retOrd)
	e.pseudoAnchor("$exit", false)
	e.postFn()
	e.pathTag = saved
}

// unwindFrom builds the exceptional continuation of block b (a call that panicked).
func (e *Env) unwindFrom(b *Block) {
	if e.unwindTo != nil {
		b.Succ = append(b.Succ, e.unwindTo)
		return
	}
	j := e.newBlock("unwind-path")
	b.Succ = append(b.Succ, j)
	saved := e.cur
	savedArmed := e.cloneArmed()
	e.cur = j
	if e.postB == nil {
		e.pseudoAnchor("$unwind", true)
	}
	e.leave()
	e.cur = saved
	e.mayArmed = savedArmed
}

// FuncResult is the outcome of lowering one function.
type FuncResult struct {
	Key    string
	Short  string
	Proc   *Proc
	Errors []string
	Env    *Env
}

func (w *World) lowerFunc(pkg *Pkg, key string, fd *ast.FuncDecl, fc *FuncContract, sweep bool) *FuncResult {
	fn := pkg.Info.Defs[fd.Name].(*types.Func)
	sig := fn.Type().(*types.Signature)
	proc := &Proc{Name: key, Sorts: map[string]Sort{}}
	e := &Env{w: w, pkg: pkg, fnPkg: pkg.Path, fd: fd, fn: fn, fc: fc, proc: proc, short: shortKey(key), key: key,
		locals: map[types.Object]string{}, assigned: map[string]bool{}, callOrd: map[string]int{},
		oldNeeded: map[string]Sort{}, anchors: map[string]int{}, usedCl: map[*Clause]bool{},
		trusted: map[string]bool{}, specLocals: map[string]types.Object{}, panicOrd: map[string]int{},
		constGlobals: map[string]string{}, nonNil: map[string]bool{}, sweep: sweep,
		localTypes: map[string]types.Type{}, localDefs: collectLocalDefs(pkg.Info, fd.Body), inlineClass: map[types.Object]*Term{}, constVals: map[types.Object]Value{}, assignCount: countAssignments(pkg.Info, fd.Body)}
	if fc != nil && fc.NoSweep {
		e.sweep = false
	}
	e.useDep = w.usesDep(key, fc)
	res := &FuncResult{Key: key, Short: e.short, Proc: proc, Env: e}
	e.snapB = proc.NewBlock("snapshots")
	proc.Entry = e.snapB
	entry := proc.NewBlock("entry")
	e.snapB.Succ = append(e.snapB.Succ, entry)
	e.cur = entry
	e.mayArmed = map[*deferSite]bool{}

	// global counters
	e.assume(And(Gt(e.nextRef(), IntLit(0)), Gt(e.nextObj(), IntLit(0)), Le(e.nextRef(), Lit(sizeBound, SInt))))
	modPanic := false
	if fc != nil {
		for _, m := range fc.Modifies {
			if m == "$panic" {
				modPanic = true
			}
		}
	}
	if !modPanic {
		e.assume(Not(e.panicVar()))
	}

	// parameters
	bind := func(n *ast.Ident, isRecv bool) {
		obj := pkg.Info.Defs[n]
		if obj == nil {
			e.paramObjs = append(e.paramObjs, nil)
			return
		}
		e.paramObjs = append(e.paramObjs, obj)
		base := e.localName(obj)
		v := e.readVar(base, obj.Type())
		switch v.K {
		case VInt:
			e.assume(rangeAssume(v.T, obj.Type()))
		case VSlice:
			e.assume(e.wfSlice(v))
			e.assumeTypeInv(v, obj.Type())
		case VStr:
			e.assume(e.wfStr(v))
			e.assumeTypeInv(v, obj.Type())
		case VPtr:
			if isRecv && !(fc != nil && fc.nilable()) {
				e.assume(Ne(v.T, IntLit(0)))
				e.nonNil[base] = true
			}
			e.assume(Lt(v.T, e.nextObj()))
			e.assumeTyping(v)
		case VStruct:
			e.assume(And(Gt(v.T, IntLit(0)), Lt(v.T, e.nextObj())))
			e.assumeTyping(v)
		}
	}
	if fd.Recv != nil && len(fd.Recv.List) == 1 {
		if len(fd.Recv.List[0].Names) == 1 {
			bind(fd.Recv.List[0].Names[0], true)
		} else {
			e.paramObjs = append(e.paramObjs, nil)
		}
	}
	for _, p := range fd.Type.Params.List {
		if len(p.Names) == 0 {
			e.paramObjs = append(e.paramObjs, nil)
		}
		for _, n := range p.Names {
			bind(n, false)
		}
	}
	// results
	ri := 0
	if fd.Type.Results != nil {
		for _, r := range fd.Type.Results.List {
			if len(r.Names) == 0 {
				ro := sig.Results().At(ri)
				name := fmt.Sprintf("res$%d", ri)
				k, _ := kindOf(ro.Type())
				for _, c := range compsOf(k) {
					e.declare(name+c.Suf, c.S)
				}
				e.resultVs = append(e.resultVs, name)
				e.resultObs = append(e.resultObs, ro)
				ri++
				continue
			}
			for _, n := range r.Names {
				obj := pkg.Info.Defs[n]
				name := e.localName(obj)
				e.resultVs = append(e.resultVs, name)
				e.resultObs = append(e.resultObs, obj)
				e.writeVar(name, obj.Type(), e.zero(obj.Type()))
				ri++
			}
		}
	}
	// actual parameter values (for contracts)
	var actuals []Value
	for _, o := range e.paramObjs {
		if o == nil {
			actuals = append(actuals, Value{K: VNone})
			continue
		}
		actuals = append(actuals, e.readVar(e.localName(o), o.Type()))
	}
	// preconditions
	if fc != nil {
		if len(fc.Params) != len(e.paramObjs) {
			e.errorf("contract header of %s has %d parameters (receiver included), function has %d", e.short, len(fc.Params), len(e.paramObjs))
		}
		c := e.bodyCtx()
		for _, cl := range fc.Clauses {
			if cl.Kind == "requires" || cl.Kind == "assume" {
				e.assume(c.boolTerm(cl.Expr))
			}
		}
	}
	e.autoInv(key, sig, actuals, nil, func(cl *Clause, t *Term, what string) { e.assume(t) })
	// vacuity cover: the entry must be reachable
	e.emit(Cmd{Kind: CAssert, T: False, Ob: &Obligation{Name: e.short + "#cover.entry", Func: e.short, Kind: "cover", Cover: true, Descr: "preconditions are satisfiable"}})

	if fc != nil && !fc.Assumed {
		e.frameInit(fc, key, sig, actuals)
		e.ownAuto = func() []*Term {
			var ents []Value
			for _, a := range actuals {
				ents = append(ents, e.toEntry(a))
			}
			names := map[string]Value{}
			for i, n := range fc.Params {
				if i < len(ents) && n != "_" {
					names[n] = ents[i]
				}
			}
			pctx := &specCtx{e: e, names: names, bound: map[string]*Term{}, oldMap: e.entryOld}
			saved := e.errors
			ms := e.modSpecOf(fc, key, sig, ents, pctx)
			e.errors = saved
			var out []*Term
			for _, r := range ms.roots {
				out = append(out, e.ownTerms(r, ents, e.entryOld, e.nextRef().Subst(e.entryOld))...)
			}
			return out
		}
	}
	// what is checked at the end of every path (normal or unwinding), after its deferred calls
	mayPanic := fc != nil && fc.MayPanic
	e.postFn = func() {
		pv := e.panicVar()
		if fc != nil {
			for _, cl := range fc.Clauses {
				if cl.Kind == "cover" {
					c := e.exitCtx()
					e.emit(Cmd{Kind: CAssert, T: Not(c.boolTerm(cl.Expr)), Ob: &Obligation{Name: fmt.Sprintf("%s#cover.%d%s", e.short, cl.Ord, e.pathTag), Func: e.short, Kind: "cover", Cover: true, Descr: "reachable: " + cl.Text}})
				}
			}
		}
		if !mayPanic && !modPanic {
			e.assert(Not(pv), "contained", "", []string{"C11"}, "no panic of a user method escapes "+e.short, w.pos(fd.Pos()))
			e.assume(Not(pv))
		}
		e.emit(Cmd{Kind: CAssert, T: False, Ob: &Obligation{Name: e.short + "#cover.exit" + e.pathTag, Func: e.short, Kind: "cover", Cover: true, Descr: "the end of the function is reachable"}})
		if fc != nil {
			c := e.exitCtx()
			for _, cl := range fc.Clauses {
				switch cl.Kind {
				case "ensures":
					t := c.boolTerm(cl.Expr)
					if mayPanic {
						t = Implies(Not(pv), t)
					}
					e.assert(t, "ensures", fmt.Sprintf("%d", cl.Ord), cl.Tags, cl.Text, fmt.Sprintf("%s:%d", fc.File, cl.Line))
				case "ensures-always":
					e.assert(c.boolTerm(cl.Expr), "ensures-always", fmt.Sprintf("%d", cl.Ord), cl.Tags, cl.Text, fmt.Sprintf("%s:%d", fc.File, cl.Line))
				}
			}
		}
		// implicit invariants at exit (current state of the objects the parameters pointed to at entry)
		var exitActuals []Value
		for _, a := range actuals {
			exitActuals = append(exitActuals, e.toEntry(a))
		}
		e.autoInv(key, sig, exitActuals, e.entryOld, func(cl *Clause, t *Term, what string) {
			e.assert(t, "inv."+what, fmt.Sprintf("%d", cl.Ord), cl.Tags, "type invariant at exit: "+cl.Text, fmt.Sprintf("%s:%d", e.short, cl.Line))
		})
		// ownership of byte storage (see callContract)
		if fc != nil && !fc.Assumed {
			names := map[string]Value{}
			for i, n := range fc.Params {
				if i < len(exitActuals) && n != "_" {
					names[n] = exitActuals[i]
				}
			}
			pctx := &specCtx{e: e, names: names, bound: map[string]*Term{}, oldMap: e.entryOld}
			ms := e.modSpecOf(fc, key, sig, exitActuals, pctx)
			k := 0
			for _, r := range ms.roots {
				for _, t := range e.ownTerms(r, exitActuals, e.entryOld, e.nextRef().Subst(e.entryOld)) {
					k++
					e.assert(t, "frame.own", fmt.Sprint(k), nil, "a byte-slice field of a modified object is left on its old array, a fresh one or nil", w.pos(fd.Pos()))
				}
			}
		}
		// memory frame
		e.aliasObligations(exitActuals, w.pos(fd.Pos()))
		if e.frOn {
			e.assertFrame("exit", "only what the modifies clause allows (or freshly allocated memory) is written", fmt.Sprintf("%s:%d", fc.File, fc.Line))
		}
		// global writes
		if fc != nil {
			for _, g := range e.globalWrites {
				ok := false
				for _, m := range fc.Modifies {
					if m == "G$"+g || m == "G$"+shortKey(g) || m == "G$"+g[strings.LastIndex(g, ".")+1:] {
						ok = true
					}
				}
				if !ok {
					e.emit(Cmd{Kind: CAssert, T: False, Ob: &Obligation{Name: e.short + "#frame.global." + shortKey(g) + e.pathTag, Func: e.short, Kind: "frame", Tags: []string{"C12"}, Descr: "package variable " + g + " is written but not in the modifies clause"}})
				}
			}
		}
	}

	// body
	e.pseudoAnchor("$entry", true)
	e.resolveAnchors(fd.Body)
	e.blockT(fd.Body.List, true)
	e.leave()

	// unused anchored clauses are failed obligations
	if fc != nil {
		for _, cl := range fc.Clauses {
			if (cl.Anchor != "" || cl.Kind == "invariant") && !e.usedCl[cl] {
				e.errorf("contract clause at %s:%d refers to a statement or loop that no longer exists: %s", fc.File, cl.Line, cl.Text)
			}
		}
	}

	// snapshots of entry values
	for _, v := range sortedKeys(e.oldNeeded) {
		s := e.oldNeeded[v]
		if _, ok := proc.Sorts[v]; !ok {
			proc.declare(v, s)
		}
		e.snapB.Cmds = append(e.snapB.Cmds, Cmd{Kind: CAssign, Var: "old$" + v, VS: s, T: Var(v, s)})
	}
	for _, cv := range e.classVars {
		entry.Cmds = append([]Cmd{{Kind: CAssume, T: And(Le(IntLit(0), Var(cv, SInt)), Le(Var(cv, SInt), IntLit(2)))}}, entry.Cmds...)
	}
	// defers are unarmed at entry
	for _, a := range e.deferInit {
		e.snapB.Cmds = append(e.snapB.Cmds, Cmd{Kind: CAssign, Var: a, VS: SBool, T: False})
	}
	res.Errors = e.errors
	return res
}

func (fc *FuncContract) nilable() bool {
	for _, p := range fc.Public {
		if p == "nilable" {
			return true
		}
	}
	return false
}

// toEntry rewrites a parameter value so that it denotes the value at entry
// (parameters are mutable in Go; contracts speak about entry values).
func (e *Env) toEntry(v Value) Value {
	m := func(t *Term) *Term {
		if t == nil {
			return nil
		}
		return t.Subst(func(name string, s Sort) *Term {
			if strings.Contains(name, "~") {
				return e.entryOld(name, s)
			}
			return nil
		})
	}
	v.T, v.Ref, v.Arr, v.Off, v.Len, v.Cap = m(v.T), m(v.Ref), m(v.Arr), m(v.Off), m(v.Len), m(v.Cap)
	return v
}

// exitCtx: parameters denote entry values, results current values.
func (e *Env) exitCtx() *specCtx {
	names := map[string]Value{}
	if e.fc != nil {
		for i, n := range e.fc.Params {
			if i < len(e.paramObjs) && n != "_" && e.paramObjs[i] != nil {
				o := e.paramObjs[i]
				names[n] = e.toEntry(e.readVar(e.localName(o), o.Type()))
			}
		}
		for i, n := range e.fc.Results {
			if i < len(e.resultObs) {
				v := e.readVar(e.resultVs[i], e.resultObs[i].Type())
				if n != "_" {
					names[n] = v
				}
				names[fmt.Sprintf("result%d", i)] = v
				if len(e.resultObs) == 1 {
					names["result"] = v
				}
			}
		}
	}
	// at exit, unqualified local names must not shadow parameters' entry values
	return &specCtx{e: e, names: names, bound: map[string]*Term{}, oldMap: e.entryOld}
}

// Frame checking. Callers assume that a callee writes only what its modifies clause allows: the fields of the
// by-value leaves of its roots, the listed ptr()/field() leaves, byte arrays owned by the roots, and memory it
// allocates. The callee is held to that at every write: each heap store, each byte-array write and each call
// (which writes what the callee's own modifies clause allows) conjoins "the target is allowed" onto the ghost
// boolean $fok; $fok is asserted at every exit path and is an automatic invariant of every loop.
func (e *Env) frameInit(fc *FuncContract, key string, sig *types.Signature, actuals []Value) {
	var ents []Value
	for _, a := range actuals {
		ents = append(ents, e.toEntry(a))
	}
	names := map[string]Value{}
	for i, n := range fc.Params {
		if i < len(ents) && n != "_" {
			names[n] = ents[i]
		}
	}
	pctx := &specCtx{e: e, names: names, bound: map[string]*Term{}, oldMap: e.entryOld}
	saved := e.errors
	ms := e.modSpecOf(fc, key, sig, ents, pctx)
	e.errors = saved
	seen := map[string]bool{}
	addObj := func(id *Term) {
		id = id.Subst(e.entryOld)
		if !seen[id.String()] {
			seen[id.String()] = true
			e.frObjs = append(e.frObjs, id)
		}
	}
	addRoot := func(r Value) {
		t := r.Typ
		if r.K == VPtr {
			t = derefType(t)
		}
		addObj(r.T)
		walkLeaves(t, nil, func(steps []subStep, lf leaf) { addObj(subID(r.T, steps)) })
	}
	for _, r := range ms.roots {
		addRoot(r)
	}
	for _, a := range ents {
		if a.K == VStruct {
			addRoot(a)
		}
	}
	e.frLeaves = map[string][]*Term{}
	for _, pl := range ms.ptrs {
		n := heapMap(pl.lf.Owner, pl.lf.Field)
		e.frLeaves[n] = append(e.frLeaves[n], pl.id.Subst(e.entryOld))
	}
	for i, rf := range ms.refs {
		e.frRefs = append(e.frRefs, rf.Subst(e.entryOld))
		var c *Term
		if ms.conds[i] != nil {
			c = ms.conds[i].Subst(e.entryOld)
		}
		e.frRefConds = append(e.frRefConds, c)
	}
	e.frOn = true
	e.declare("$fok", SBool)
	e.assign("$fok", SBool, True)
}

// aliasObligations: a string made by reinterpreting a byte slice (unsafe cast) shares the slice's array. It
// stays immutable only if nobody can write that array any more, so the function must have given the array up:
// at every exit no byte-slice field of its parameters (pointer targets and by-value copies alike) may still
// refer to it. (TakeRedactableString sets b.buf = nil; an accessor that casts and keeps the slice fails here.)
func (e *Env) aliasObligations(actuals []Value, pos string) {
	if len(e.unsafeCasts) == 0 {
		return
	}
	k := 0
	for _, r := range e.unsafeCasts {
		var conj []*Term
		for _, a := range actuals {
			if a.K != VPtr && a.K != VStruct {
				continue
			}
			t := a.Typ
			if a.K == VPtr {
				t = derefType(t)
			}
			walkLeaves(t, nil, func(steps []subStep, lf leaf) {
				if lf.K != VSlice || lf.ElemU {
					return
				}
				if _, isArr := lf.Typ.Underlying().(*types.Array); isArr {
					return
				}
				v := e.loadField(subID(a.T, steps), lf)
				conj = append(conj, Or(Eq(r, IntLit(0)), Ne(v.Ref, r)))
			})
		}
		if len(conj) > 0 {
			k++
			tags := append(append([]string{}, homeProps(e.key)...), "C13", "C12")
			e.assert(And(conj...), "alias.cast", fmt.Sprint(k), tags, "a byte array reinterpreted as a string (unsafe cast) is no longer referenced by the object when the function returns", pos)
		}
	}
}

func (e *Env) preObj(o *Term) *Term {
	oldNext := e.nextObj().Subst(e.entryOld)
	inv := func(t *Term) *Term { return App("subinv", SInt, t) }
	live := func(t *Term) *Term { return And(Gt(t, IntLit(0)), Lt(t, oldNext)) }
	return Or(live(o), And(Lt(o, IntLit(0)), Or(live(inv(o)), And(Lt(inv(o), IntLit(0)), Or(live(inv(inv(o))), And(Lt(inv(inv(o)), IntLit(0)), live(inv(inv(inv(o))))))))))
}

func (e *Env) frameNote(allowed *Term) {
	if !e.frOn {
		return
	}
	e.assign("$fok", SBool, And(Var("$fok", SBool), allowed))
}

// noteObjWrite: leaf lf of object id is written (lf nil: any leaf of the object and of its by-value sub-objects).
func (e *Env) noteObjWrite(id *Term, lf *leaf) {
	if !e.frOn {
		return
	}
	var alts []*Term
	for _, x := range e.frObjs {
		alts = append(alts, Eq(id, x))
	}
	if lf != nil {
		for _, x := range e.frLeaves[heapMap(lf.Owner, lf.Field)] {
			alts = append(alts, Eq(id, x))
		}
	}
	alts = append(alts, Not(e.preObj(id)))
	e.frameNote(Or(alts...))
}

// noteMemWrite: the byte array ref is written.
func (e *Env) noteMemWrite(ref *Term) { e.noteMemWriteIf(ref, nil) }

// noteMemWriteIf: the byte array ref is written if cond (nil: always) holds.
func (e *Env) noteMemWriteIf(ref, cond *Term) {
	if !e.frOn {
		return
	}
	var alts []*Term
	if cond != nil {
		alts = append(alts, Not(cond))
	}
	for i, x := range e.frRefs {
		if c := e.frRefConds[i]; c != nil {
			alts = append(alts, And(Eq(ref, x), c))
		} else {
			alts = append(alts, Eq(ref, x))
		}
	}
	alts = append(alts, Eq(ref, IntLit(0))) // nothing lives at the nil ref: a callee given a nil slice writes nothing
	alts = append(alts, Ge(ref, e.nextRef().Subst(e.entryOld)))
	alts = append(alts, And(Lt(ref, IntLit(-1000)), Not(e.preObj(App("arrinv", SInt, ref)))))
	e.frameNote(Or(alts...))
}

func (e *Env) assertFrame(detail string, descr, pos string) {
	name := e.short + "#frame." + detail + e.pathTag
	ob := &Obligation{Name: name, Tags: append([]string{}, homeProps(e.key)...), Func: e.short, Kind: "frame", Descr: descr, Pos: pos}
	if p := pkgOfKey(e.key); strings.HasSuffix(p, "/internal/buffer") || strings.HasSuffix(p, "/builder") {
		ob.Tags = append(ob.Tags, "C13")
	}
	e.emit(Cmd{Kind: CAssert, T: Var("$fok", SBool), Ob: ob})
}

var depWords = []string{"dep(", "WF(", "WFP(", "LS(", "frag(", "depConst(", "inv("}

// usesDep reports whether the contract (or a type invariant) of the function
// talks about the envelope-depth function, in which case array updates
// instantiate LemmaDepCong.
func (w *World) usesDep(key string, fc *FuncContract) bool {
	if fc == nil {
		return false
	}
	for _, cl := range fc.Clauses {
		for _, d := range depWords {
			if strings.Contains(cl.Text, d) {
				return true
			}
		}
	}
	for tk, ti := range w.Cs.TypeInvs {
		tn := tk[strings.LastIndex(tk, ".")+1:]
		if strings.Contains(key, "(*"+tn+")") || strings.Contains(key, "."+tn+".") {
			for _, cl := range ti.Clauses {
				for _, d := range depWords {
					if strings.Contains(cl.Text, d) {
						return true
					}
				}
			}
		}
	}
	return false
}


// pseudoAnchor runs the ghost clauses anchored at function entry/exit.
func (e *Env) pseudoAnchor(name string, before bool) {
	if e.fc == nil {
		return
	}
	for _, cl := range e.fc.Clauses {
		if cl.Anchor == name && cl.Before == before {
			e.usedCl[cl] = true
			e.ghostClause(cl)
		}
	}
}


func contractTagged(fc *FuncContract, tag string) bool {
	if hasTag(fc.Tags, tag) {
		return true
	}
	for _, cl := range fc.Clauses {
		if hasTag(cl.Tags, tag) {
			return true
		}
	}
	return false
}


// lowerZeroInv builds the obligations "the zero value of T satisfies T's invariant",
// which justify the axiom used for the abstract invariant outside T's package.
func (w *World) lowerZeroInv(typeKey string) *FuncResult {
	pkgPath := typeKey[:strings.LastIndex(typeKey, ".")]
	name := typeKey[strings.LastIndex(typeKey, ".")+1:]
	pkg := w.Pkgs[pkgPath]
	if pkg == nil {
		return nil
	}
	obj := pkg.Types.Scope().Lookup(name)
	if obj == nil {
		return nil
	}
	if _, _, ok := structOf(obj.Type()); !ok {
		return nil
	}
	short := shortKey(typeKey)
	proc := &Proc{Name: typeKey + "#zero", Sorts: map[string]Sort{}}
	e := &Env{w: w, pkg: pkg, fnPkg: pkg.Path, proc: proc, short: short,
		locals: map[types.Object]string{}, assigned: map[string]bool{}, callOrd: map[string]int{},
		oldNeeded: map[string]Sort{}, anchors: map[string]int{}, usedCl: map[*Clause]bool{},
		trusted: map[string]bool{}, specLocals: map[string]types.Object{}, panicOrd: map[string]int{},
		constGlobals: map[string]string{}, nonNil: map[string]bool{}, forceClass: -1,
		localTypes: map[string]types.Type{}, constVals: map[types.Object]Value{}, assignCount: map[types.Object]int{},
		localDefs: map[types.Object][]ast.Expr{}, inlineClass: map[types.Object]*Term{}, mayArmed: map[*deferSite]bool{}}
	e.useDep = true
	res := &FuncResult{Key: typeKey + "#zero", Short: short, Proc: proc, Env: e}
	entry := proc.NewBlock("entry")
	proc.Entry = entry
	e.cur = entry
	e.assume(And(Gt(e.nextRef(), IntLit(0)), Gt(e.nextObj(), IntLit(0))))
	z := e.zero(obj.Type())
	e.collectInvFiltered(z, nil, func(tk string, cl *Clause, t *Term) {
		e.assert(t, "inv.zero", fmt.Sprintf("%d", cl.Ord), cl.Tags, "the zero value satisfies the invariant: "+cl.Text, "")
	})
	res.Errors = e.errors
	return res
}
