package main

import (
	"fmt"
	"sort"
	"strings"
)

// Sort is an SMT sort used by the encoding.
type Sort int

const (
	SInt   Sort = iota // mathematical integers (Go ints, bytes, runes, enums, object ids, refs)
	SBool              // booleans
	SU                 // uninterpreted values (interfaces, reflect.Value, floats, funcs, maps)
	SArr               // (Array Int Int): byte storage, Int-valued field maps
	SArrB              // (Array Int Bool): Bool-valued field maps
	SArrU              // (Array Int U): U-valued field maps and storage of opaque elements
	SMem               // (Array Int (Array Int Int)): byte memory, indexed by ref
	SMemU              // (Array Int (Array Int U)): memory of opaque elements
	SArrA              // (Array Int (Array Int Int)) used as field map of string contents (same as SMem)
)

func (s Sort) SMT() string {
	switch s {
	case SInt:
		return "Int"
	case SBool:
		return "Bool"
	case SU:
		return "U"
	case SArr:
		return "(Array Int Int)"
	case SArrB:
		return "(Array Int Bool)"
	case SArrU:
		return "(Array Int U)"
	case SMem, SArrA:
		return "(Array Int (Array Int Int))"
	case SMemU:
		return "(Array Int (Array Int U))"
	}
	panic("bad sort")
}

// Term is an SMT term over *program variables* (Op "var"); passification
// renames program variables to incarnations (Op "sym").
type Term struct {
	Op   string // "var", "sym", "lit", "bv" (bound variable), "app" (function Name), "forall", "exists", or an SMT builtin
	Name string
	Args []*Term
	S    Sort
	BV   []*Term // bound variables of a quantifier
}

func Var(name string, s Sort) *Term { return &Term{Op: "var", Name: name, S: s} }
func Sym(name string, s Sort) *Term { return &Term{Op: "sym", Name: name, S: s} }
func Lit(text string, s Sort) *Term { return &Term{Op: "lit", Name: text, S: s} }
func IntLit(n int64) *Term {
	if n < 0 {
		return Lit(fmt.Sprintf("(- %d)", -n), SInt)
	}
	return Lit(fmt.Sprintf("%d", n), SInt)
}
func BigLit(s string) *Term { return Lit(s, SInt) }

var (
	True  = Lit("true", SBool)
	False = Lit("false", SBool)
)

func BoolLit(b bool) *Term {
	if b {
		return True
	}
	return False
}
func Bound(name string, s Sort) *Term { return &Term{Op: "bv", Name: name, S: s} }
func App(name string, s Sort, args ...*Term) *Term {
	return &Term{Op: "app", Name: name, Args: args, S: s}
}
func Bi(op string, s Sort, args ...*Term) *Term { return &Term{Op: op, Args: args, S: s} }

func isTrue(t *Term) bool  { return t.Op == "lit" && t.Name == "true" }
func isFalse(t *Term) bool { return t.Op == "lit" && t.Name == "false" }

func And(ts ...*Term) *Term {
	var out []*Term
	for _, t := range ts {
		if t == nil || isTrue(t) {
			continue
		}
		if isFalse(t) {
			return False
		}
		if t.Op == "and" {
			out = append(out, t.Args...)
		} else {
			out = append(out, t)
		}
	}
	if len(out) == 0 {
		return True
	}
	if len(out) == 1 {
		return out[0]
	}
	return Bi("and", SBool, out...)
}
func Or(ts ...*Term) *Term {
	var out []*Term
	for _, t := range ts {
		if t == nil || isFalse(t) {
			continue
		}
		if isTrue(t) {
			return True
		}
		out = append(out, t)
	}
	if len(out) == 0 {
		return False
	}
	if len(out) == 1 {
		return out[0]
	}
	return Bi("or", SBool, out...)
}
func Not(t *Term) *Term {
	if isTrue(t) {
		return False
	}
	if isFalse(t) {
		return True
	}
	if t.Op == "not" {
		return t.Args[0]
	}
	return Bi("not", SBool, t)
}
func Implies(a, b *Term) *Term {
	if isTrue(a) {
		return b
	}
	if isFalse(a) || isTrue(b) {
		return True
	}
	return Bi("=>", SBool, a, b)
}
func Eq(a, b *Term) *Term {
	if a.S != b.S && !(isMemSort(a.S) && isMemSort(b.S)) {
		panic(fmt.Sprintf("Eq sort mismatch %v %v: %s vs %s", a.S, b.S, a.String(), b.String()))
	}
	return Bi("=", SBool, a, b)
}
func isMemSort(s Sort) bool { return s == SMem || s == SArrA }
func Ne(a, b *Term) *Term   { return Not(Eq(a, b)) }
func Lt(a, b *Term) *Term   { return Bi("<", SBool, a, b) }
func Le(a, b *Term) *Term   { return Bi("<=", SBool, a, b) }
func Ge(a, b *Term) *Term   { return Bi(">=", SBool, a, b) }
func Gt(a, b *Term) *Term   { return Bi(">", SBool, a, b) }
func Add(a, b *Term) *Term {
	if a.Op == "lit" && a.Name == "0" {
		return b
	}
	if b.Op == "lit" && b.Name == "0" {
		return a
	}
	return Bi("+", SInt, a, b)
}
func Sub(a, b *Term) *Term {
	if b.Op == "lit" && b.Name == "0" {
		return a
	}
	return Bi("-", SInt, a, b)
}
func Mul(a, b *Term) *Term { return Bi("*", SInt, a, b) }
func Ite(c, a, b *Term) *Term {
	if isTrue(c) {
		return a
	}
	if isFalse(c) {
		return b
	}
	return &Term{Op: "ite", Args: []*Term{c, a, b}, S: a.S}
}
func elemSort(arr Sort) Sort {
	switch arr {
	case SArr:
		return SInt
	case SArrB:
		return SBool
	case SArrU:
		return SU
	case SMem, SArrA:
		return SArr
	case SMemU:
		return SArrU
	}
	panic("not an array sort")
}
func Select(a, i *Term) *Term { return &Term{Op: "select", Args: []*Term{a, i}, S: elemSort(a.S)} }
func Store(a, i, v *Term) *Term {
	return &Term{Op: "store", Args: []*Term{a, i, v}, S: a.S}
}
func Forall(bvs []*Term, body *Term) *Term {
	if isTrue(body) {
		return True
	}
	return &Term{Op: "forall", BV: bvs, Args: []*Term{body}, S: SBool}
}
func Exists(bvs []*Term, body *Term) *Term {
	return &Term{Op: "exists", BV: bvs, Args: []*Term{body}, S: SBool}
}

// String renders the term as SMT-LIB (program variables are printed as |name|).
func (t *Term) String() string {
	var sb strings.Builder
	t.write(&sb)
	return sb.String()
}

func smtName(n string) string {
	for _, c := range n {
		if !(c >= 'a' && c <= 'z' || c >= 'A' && c <= 'Z' || c >= '0' && c <= '9' || c == '_' || c == '.' || c == '$' || c == '!' || c == '@' || c == '#') {
			return "|" + n + "|"
		}
	}
	if n == "" || (n[0] >= '0' && n[0] <= '9') {
		return "|" + n + "|"
	}
	return n
}

func (t *Term) write(sb *strings.Builder) {
	switch t.Op {
	case "var", "sym", "bv":
		sb.WriteString(smtName(t.Name))
	case "lit":
		sb.WriteString(t.Name)
	case "app":
		if len(t.Args) == 0 {
			sb.WriteString(smtName(t.Name))
			return
		}
		sb.WriteString("(")
		sb.WriteString(smtName(t.Name))
		for _, a := range t.Args {
			sb.WriteString(" ")
			a.write(sb)
		}
		sb.WriteString(")")
	case "forall", "exists":
		sb.WriteString("(")
		sb.WriteString(t.Op)
		sb.WriteString(" (")
		for _, b := range t.BV {
			sb.WriteString("(")
			sb.WriteString(smtName(b.Name))
			sb.WriteString(" ")
			sb.WriteString(b.S.SMT())
			sb.WriteString(")")
		}
		sb.WriteString(") ")
		t.Args[0].write(sb)
		sb.WriteString(")")
	default:
		sb.WriteString("(")
		sb.WriteString(t.Op)
		for _, a := range t.Args {
			sb.WriteString(" ")
			a.write(sb)
		}
		sb.WriteString(")")
	}
}

// Subst replaces program variables according to m (name -> term).
func (t *Term) Subst(m func(name string, s Sort) *Term) *Term {
	switch t.Op {
	case "var":
		if r := m(t.Name, t.S); r != nil {
			return r
		}
		return t
	case "sym", "lit", "bv":
		return t
	}
	changed := false
	args := make([]*Term, len(t.Args))
	for i, a := range t.Args {
		args[i] = a.Subst(m)
		if args[i] != a {
			changed = true
		}
	}
	if !changed {
		return t
	}
	n := *t
	n.Args = args
	return &n
}

// SubstBound replaces bound variables by name.
func (t *Term) SubstBound(m map[string]*Term) *Term {
	switch t.Op {
	case "bv":
		if r, ok := m[t.Name]; ok {
			return r
		}
		return t
	case "var", "sym", "lit":
		return t
	}
	args := make([]*Term, len(t.Args))
	for i, a := range t.Args {
		args[i] = a.SubstBound(m)
	}
	n := *t
	n.Args = args
	return &n
}

// Vars collects program variables.
func (t *Term) Vars(out map[string]Sort) {
	if t.Op == "var" {
		out[t.Name] = t.S
		return
	}
	for _, a := range t.Args {
		a.Vars(out)
	}
}

// Syms collects incarnation symbols.
func (t *Term) Syms(out map[string]Sort) {
	if t.Op == "sym" {
		out[t.Name] = t.S
		return
	}
	for _, a := range t.Args {
		a.Syms(out)
	}
}

func (t *Term) hasBound() bool {
	if t.Op == "bv" {
		return true
	}
	for _, a := range t.Args {
		if a.hasBound() {
			return true
		}
	}
	return false
}

// GroundApps collects applications of the named function whose arguments
// contain no bound variable; key is the rendered term.
func (t *Term) GroundApps(names map[string]bool, out map[string]*Term) {
	if t.Op == "app" && names[t.Name] && !t.hasBound() {
		out[t.String()] = t
	}
	for _, a := range t.Args {
		a.GroundApps(names, out)
	}
}

func sortedKeys[V any](m map[string]V) []string {
	ks := make([]string, 0, len(m))
	for k := range m {
		ks = append(ks, k)
	}
	sort.Strings(ks)
	return ks
}
