package main

func runLemmas(verbose bool) int { return 0 }

func findFailingInput(o *checkOpts, prop string, r *obResult) map[string]interface{} { return nil }

func (e *Env) applyLemma(c *specCtx, cl *Clause) {
	e.errorf("lemma calls not implemented yet")
}
