package main

import (
	"encoding/json"
	"fmt"
	"os"
	"os/exec"
	"path/filepath"
	"strings"
	"time"
)

func runLemmas(verbose bool) int {
	bad := 0
	for _, q := range lemmaObligations() {
		oc := discharge(q, fullPrelude(), 20, true)
		fmt.Printf("%-12s %-8s %s\n", oc.Status, oc.By, q.Ob.Name)
		for _, r := range oc.Results {
			fmt.Printf("    %-7s %-8s %.2fs\n", r.Solver, r.Verdict, r.Secs)
		}
		if oc.Status != "discharged" {
			bad++
		}
	}
	if bad > 0 {
		return 1
	}
	return 0
}


// replayTargets: property -> (test file in /verif/replay, package dir in /repo, test name)
var replayTargets = map[string][3]string{}

func init() {
	for _, p := range []string{"C01", "C02", "C03", "C05", "C06", "C07", "C08", "C09", "C10", "C11", "C12", "C13", "C14", "C15", "C16", "C17"} {
		replayTargets[p] = [3]string{p + "_test.go", "", "TestVerifReplay" + p}
	}
}

var byteLayerProp = map[string]bool{"C01": true, "C02": true, "C03": true, "C05": true, "C06": true, "C07": true, "C08": true, "C09": true, "C10": true, "C12": true, "C13": true, "C14": true, "C15": true, "C16": true, "C17": true}

var replayCache = map[string][]map[string]interface{}{}

// findFailingInput runs the property's search harness against the real code
// (injected with -overlay; nothing is written into the repository) and returns
// the failing input most relevant to the obligation, if any.
func findFailingInput(o *checkOpts, prop string, r *obResult) map[string]interface{} {
	tgt, ok := replayTargets[prop]
	if !ok {
		return nil
	}
	src := filepath.Join(o.verif, "replay", tgt[0])
	if _, err := os.Stat(src); err != nil {
		return nil
	}
	hints := "{}"
	if r.Outcome != nil && r.Outcome.Model != nil {
		b, _ := json.Marshal(r.Outcome.Model)
		hints = string(b)
	}
	cacheKey := prop + "|" + hints
	fails, seen := replayCache[cacheKey]
	if !seen {
		fails = runReplay(o, src, tgt[1], tgt[2], hints)
		replayCache[cacheKey] = fails
	}
	if len(fails) == 0 {
		return nil
	}
	// prefer a failing input that mentions the function of the obligation
	fn := r.Ob.Func
	if i := strings.LastIndex(fn, "."); i >= 0 {
		fn = fn[i+1:]
	}
	var pick map[string]interface{}
	for _, f := range fails {
		b, _ := json.Marshal(f)
		if fn != "" && strings.Contains(string(b), fn) {
			pick = f
			break
		}
	}
	if pick == nil {
		if !byteLayerProp[prop] {
			// failing inputs exist but none exercises the function of this obligation
			return nil
		}
		// byte-layer properties are statements about API outputs: any output violating the
		// property on the current tree demonstrates it, whichever internal function is at fault
		pick = fails[0]
		pick["relevance"] = "property-level: the harness drives the public API and cannot name the internal function"
	}
	pick["replayed_with"] = fmt.Sprintf("go test -overlay (inject %s) -run %s in %s", tgt[0], tgt[2], filepath.Join(o.repo, tgt[1]))
	pick["other_failing_inputs"] = len(fails) - 1
	return pick
}

// lastBounded: the BOUNDED lines of the most recent harness run
var lastBounded []map[string]interface{}

// runBounded runs the bounded stand-in of a property (TestVerifBounded<id> in its harness file), if there is
// one. It reports what was enumerated; a failing case is a violation with a real failing input.
func runBounded(o *checkOpts, prop string) (bounded []map[string]interface{}, fails []map[string]interface{}, ran bool) {
	tgt, ok := replayTargets[prop]
	if !ok {
		return nil, nil, false
	}
	src := filepath.Join(o.verif, "replay", tgt[0])
	b, err := os.ReadFile(src)
	if err != nil || !strings.Contains(string(b), "func TestVerifBounded"+prop+"(") {
		return nil, nil, false
	}
	lastBounded = nil
	fails = runReplay(o, src, tgt[1], "TestVerifBounded"+prop, "{}")
	if prop == "C12" && o.tier == "thorough" {
		// the run above is the race-detector run (always at the quick bounds: the detector slows the harness
		// by an order of magnitude); the thorough bounds are explored by a second, uninstrumented run
		raceReport := lastBounded
		for _, m := range raceReport {
			if l, ok := m["law"].(string); ok {
				m["law"] = "[under the race detector, quick bounds] " + l
			}
		}
		lastBounded = nil
		noRace = true
		fails = append(fails, runReplay(o, src, tgt[1], "TestVerifBounded"+prop, "{}")...)
		noRace = false
		lastBounded = append(raceReport, lastBounded...)
	}
	return lastBounded, fails, true
}

// noRace: second C12 run of the thorough tier (see runBounded).
var noRace bool

func runReplay(o *checkOpts, src, pkgDir, test, hints string) []map[string]interface{} {
	tmp, err := os.MkdirTemp("", "govc-replay")
	if err != nil {
		return nil
	}
	defer os.RemoveAll(tmp)
	dir := filepath.Join(o.repo, pkgDir)
	ov := map[string]map[string]string{"Replace": {filepath.Join(dir, "zz_verif_replay_test.go"): src,
		filepath.Join(dir, "zz_verif_common_test.go"): filepath.Join(filepath.Dir(src), "common_test.go")}}
	ob, _ := json.Marshal(ov)
	ovPath := filepath.Join(tmp, "ov.json")
	os.WriteFile(ovPath, ob, 0o644)
	args := []string{"test", "-overlay", ovPath, "-vet=off", "-v", "-count=1", "-timeout", "600s", "-run", "^" + test + "$", "."}
	// C12 claims freedom from data races: its bounded harness (goroutines printing concurrently, operands shared
	// between them) runs under the race detector
	race := strings.HasPrefix(test, "TestVerifBoundedC12") && !noRace
	tier := o.tier
	if race {
		tier = "quick"
		args = append([]string{"test", "-race"}, args[1:]...)
	}
	cmd := exec.Command("go", args...)
	cmd.Dir = dir
	cmd.Env = append(os.Environ(), "GOFLAGS=-mod=mod", "GOPROXY=off", "GOSUMDB=off", "GOTOOLCHAIN=local", "REPLAY_HINTS="+hints, "VERIF_TIER="+tier, fmt.Sprintf("VERIF_SEED=%d", o.seed), "GOCACHE="+goCache())
	done := make(chan struct{})
	var out []byte
	go func() { out, _ = cmd.CombinedOutput(); close(done) }()
	select {
	case <-done:
	case <-time.After(630 * time.Second):
		if cmd.Process != nil {
			cmd.Process.Kill()
		}
		return nil
	}
	if strings.Contains(string(out), "build failed") || strings.Contains(string(out), "setup failed") {
		fmt.Printf("ENGINE-ERROR: replay harness %s does not build:\n%s\n", src, string(out))
		return nil
	}
	var fails []map[string]interface{}
	for _, line := range strings.Split(string(out), "\n") {
		if i := strings.Index(line, "BOUNDED: "); i >= 0 {
			var m map[string]interface{}
			if json.Unmarshal([]byte(line[i+len("BOUNDED: "):]), &m) == nil {
				lastBounded = append(lastBounded, m)
			}
		}
		if i := strings.Index(line, "REPLAY-FAIL: "); i >= 0 {
			var m map[string]interface{}
			if json.Unmarshal([]byte(line[i+len("REPLAY-FAIL: "):]), &m) == nil {
				fails = append(fails, m)
			}
		}
	}
	if i := strings.Index(string(out), "WARNING: DATA RACE"); i >= 0 {
		txt := string(out)[i:]
		if len(txt) > 2500 {
			txt = txt[:2500]
		}
		fails = append(fails, map[string]interface{}{"call": "go test -race " + test + " (goroutines printing concurrently on distinct destinations)", "output": txt, "why": "the race detector reports a data race"})
	}
	if race {
		lastBounded = append(lastBounded, map[string]interface{}{"property": "C12", "law": "no data race is reported by the Go race detector while the harness above runs (all of its sequential and concurrent parts)", "cases": 1, "nontrivial": 1,
			"nontrivial_rule": "the whole harness run", "bound": "the schedules the Go scheduler produced during this run (sampled, not enumerated)", "exhaustive": false})
	}
	finished := strings.Contains(string(out), "--- PASS: "+test) || strings.Contains(string(out), "--- FAIL: "+test)
	if len(fails) == 0 && !finished {
		// the test binary died (a panic escaped, a timeout) before the test function returned
		txt := string(out)
		if len(txt) > 1500 {
			txt = txt[len(txt)-1500:]
		}
		fails = append(fails, map[string]interface{}{"call": "harness aborted", "output": txt})
	}
	return fails
}

func goCache() string {
	if c := os.Getenv("GOCACHE"); c != "" {
		return c
	}
	h, _ := os.UserCacheDir()
	return filepath.Join(h, "go-build")
}
