#!/bin/bash
# usage: proc_seed2.sh ID [extra props...] : copies /tmp/seed2/ID/SEED to /verif/seeded/ID-2 and verifies it
id=$1; shift
mkdir -p /verif/seeded/$id-2 && cp /tmp/seed2/$id/SEED/{patch.diff,seed_demo_test.go,meta.json} /verif/seeded/$id-2/
echo "== $id-2"; /verif/seeded/verify_seed.sh /verif/seeded/$id-2 $id "$@" 2>&1 | grep -v conda | cut -c1-250
