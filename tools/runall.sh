#!/bin/bash
# runs every claimed check at the given tier (default quick) and prints one summary line each
tier=${1:-quick}
cd /verif
for p in $(python3 -c "import json;print(' '.join(c['property_id'] for c in json.load(open('MANIFEST.json'))['checks']))"); do
  out=$(./check $p --tier $tier 2>&1); rc=$?
  echo "rc=$rc $(echo "$out" | tail -1)"
  echo "$out" | grep "^VIOLATION\|^KNOWN-FINDING\|ENGINE-ERROR" | head -5
done
