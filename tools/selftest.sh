#!/bin/bash
# Must-fail corpus: applies every seeded change (/verif/seeded/<id>/patch.diff) and every extra mutation
# (/verif/selftest/<name>.diff, first line "# props: C11 C05") to /repo, runs the named checks
# (deductive part only unless BOUNDED=1), and reverts. A line "MISSED" means no check raised a violation.
# Never leaves /repo modified.
cd /verif
export GOFLAGS=-mod=mod GOPROXY=off GOSUMDB=off GOTOOLCHAIN=local
if [ -n "$(git -C /repo status --porcelain)" ]; then echo "refusing: /repo has uncommitted changes"; exit 2; fi
extra="-noreplay"; [ "${BOUNDED:-0}" = 1 ] || extra="$extra -nobounded"
run() { # name patch props...
  name=$1; patch=$2; shift 2
  if ! git -C /repo apply --check "$patch" 2>/dev/null; then echo "SKIP  $name: patch does not apply"; return; fi
  git -C /repo apply "$patch"
  caught=""
  for p in "$@"; do
    n=$(./bin/govc check -prop $p $extra -budget 5 2>&1 | grep -c '^VIOLATION')
    [ "$n" -gt 0 ] && caught="$caught $p($n)"
  done
  git -C /repo checkout -- . ; git -C /repo clean -fdq -e zz_contracts_verif.go >/dev/null 2>&1
  if [ -n "$caught" ]; then echo "CAUGHT $name by$caught"; else echo "MISSED $name (checked: $*)"; fi
}
for d in seeded/C*/; do id=$(basename $d); [ -f $d/patch.diff ] && run seed-$id /verif/$d/patch.diff $id; done
for f in selftest/*.diff; do [ -f "$f" ] || continue; props=$(head -1 "$f" | sed -n 's/^# props: //p'); run $(basename $f .diff) /verif/$f $props; done
