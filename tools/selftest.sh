#!/bin/bash
# Must-fail corpus: applies every seeded change (/verif/seeded/<id>[-2]/patch.diff) and every extra mutation
# (/verif/selftest/<name>.diff, first line "# props: C11 C05", optional second line "# expect: benign") to a
# scratch worktree of /repo's HEAD and runs the named checks against it (govc -repo <worktree> -out <scratch>);
# /repo and /verif/evidence are not touched. Deductive part only unless BOUNDED=1.
# ONLY=<regex> restricts the corpus. "MISSED" = no check raised a violation; for "expect: benign" mutations the expected outcome is QUIET.
cd /verif
export GOFLAGS=-mod=mod GOPROXY=off GOSUMDB=off GOTOOLCHAIN=local
extra="-noreplay -budget 5"; [ "${BOUNDED:-0}" = 1 ] || extra="$extra -nobounded"
w=$(mktemp -d /tmp/st.XXXXXX)
git -C /repo worktree add -q --detach "$w/wt" HEAD || exit 2
trap 'cd /; git -C /repo worktree remove --force "$w/wt" 2>/dev/null; rm -rf "$w"' EXIT
run() { # name patch expect props...
  name=$1; patch=$2; expect=$3; shift 3
  git -C "$w/wt" checkout -q -- . ; git -C "$w/wt" clean -fdq
  if ! git -C "$w/wt" apply --check "$patch" 2>/dev/null; then echo "SKIP   $name: patch does not apply"; return; fi
  git -C "$w/wt" apply "$patch"
  caught=""; ex="$extra"
  # a seed that only a bounded harness can see (its meta.json says "bounded_only": true) is run with the harnesses
  if grep -q '"bounded_only": *true' "$(dirname "$patch")/meta.json" 2>/dev/null; then ex="-noreplay -budget 5"; fi
  for p in "$@"; do
    n=$(./bin/govc check -prop $p $ex -repo "$w/wt" -out "$w/out" 2>&1 | grep -c '^VIOLATION')
    [ "$n" -gt 0 ] && caught="$caught $p($n)"
  done
  if [ "$expect" = benign ]; then
    if [ -n "$caught" ]; then echo "FALSE-ALARM $name by$caught"; else echo "QUIET  $name (benign, checked: $*)"; fi
  else
    if [ -n "$caught" ]; then echo "CAUGHT $name by$caught"; else echo "MISSED $name (checked: $*)"; fi
  fi
}
for d in seeded/C*/; do n=$(basename $d); [ -n "${ONLY:-}" ] && [[ ! "seed-$n" =~ $ONLY ]] && continue; id=${n%%-*}; [ -f $d/patch.diff ] && run seed-$n /verif/$d/patch.diff caught $id; done
for f in selftest/*.diff; do [ -f "$f" ] || continue; [ -n "${ONLY:-}" ] && [[ ! "$f" =~ $ONLY ]] && continue
  props=$(sed -n 's/^# props: //p' "$f" | head -1); expect=$(sed -n 's/^# expect: //p' "$f" | head -1)
  run $(basename $f .diff) /verif/$f "${expect:-caught}" $props; done
