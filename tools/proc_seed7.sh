#!/bin/bash
# usage: proc_seed7.sh ID : copies /tmp/seed7/ID/SEED to /verif/seeded/ID-7 and verifies it (deductive, then full if missed)
id=$1; shift
mkdir -p /verif/seeded/$id-7 && cp /tmp/seed7/$id/SEED/{patch.diff,seed_demo_test.go,meta.json} /verif/seeded/$id-7/
echo "== $id-7"
out=$(/verif/seeded/verify_seed.sh /verif/seeded/$id-7 $id "$@" 2>&1 | grep -v conda | cut -c1-250)
echo "$out"
if echo "$out" | grep -q "CHECK $id: 0 violations"; then
  echo "-- deductive part quiet; with replay + bounded harness:"
  FULL=1 /verif/seeded/verify_seed.sh /verif/seeded/$id-7 $id 2>&1 | grep "CHECK\|  obligation" | cut -c1-700
fi
