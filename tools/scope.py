#!/usr/bin/env python3
"""Single source for /verif/scope.json and /verif/MANIFEST.json.

scope.json says, per property, which clauses of the property statement the obligations decide and
which they do not (the undecided ones are never counted as proved); the evidence writer copies the
entry into evidence/<id>.json. MANIFEST.json is regenerated from the same table.
"""
import json, subprocess, sys

TECH = ("contract-based deductive verification: pre/postconditions, loop and type invariants, frame conditions, "
        "ghost state and lemmas in comment-only files in /repo (tag verif); weakest-precondition VCs generated from "
        "the typed AST of the working tree by /verif/govc; z3 4.8.12 / z3 5.1.0 / cvc5 1.0.3 raced per obligation")

TRUST = ("Trusted: the govc VC generator (lowering of a Go subset to guarded commands; its must-fail corpus is in /verif/selftest), "
         "the SMT solvers, the assumed contracts listed in the evidence under trusted_base (stdlib: utf8, reflect, strconv, "
         "strings.Builder, sort, sync.Pool freshness, io.Writer; user methods: rely contracts), mathematical integers with "
         "every length <= 2^40, definitional axioms of the spec functions dep and nd (lemmas about dep are proved on every run). "
         "Solver verdicts are memoised for byte-identical queries (/verif/.cache); VCs are regenerated from the working tree on every run. ")

P = {}

P["C01"] = dict(
    level="proof",
    text=("Every exported Buffer operation preserves a representation invariant saying the validated prefix is a well-formed "
          "redactable (markers strictly alternate, never nested, open iff markerOpen) with a clean end (no trailing partial "
          "marker or incomplete rune that later bytes could complete); InternalEscapeBytes maps well-formed prefix + arbitrary "
          "bytes to a well-formed result; Take*/Redactable*, Sprint*/Fprint*/HelperForErrorf/EscapeBytes return well-formed "
          "strings. Proved for all byte strings, lengths and call histories (invariant induction), not sampled."),
    ref="DESIGN 4 (C01)",
    note=TRUST + "User-supplied RedactableString/Bytes are assumed well-formed fragments (as the property states). The printer reaches "
         "the Buffer only through exported methods, so the invariant holds for every format/operand/user method.",
    decided=["well-formedness of every validated buffer prefix and of every returned/written string, for all inputs and histories",
             "data cannot forge/close/reopen an envelope: escape contract + clean-end invariant (partial markers and incomplete runes guarded)"],
    undecided=["Join/JoinTo outputs are covered through the SafeWriter contracts they call, not by a content equation"])

P["C02"] = dict(
    level="proof",
    text=("Non-interference is decided through the classification discipline it rests on: every write site of the printer is "
          "given a payload class computed syntactically from the real code (0 format literal/structural text, 1 type name or "
          "diagnostic, 2 operand data, 3 padding); the obligation S1 at every site says operand data is written only while the "
          "buffer is in unsafe mode unless an enclosing Safe() context (ghost gctx) or a safe classification of the operand "
          "allows otherwise. With C01 (only library-placed markers exist) this gives: bytes of unsafe values occur only inside "
          "envelopes, hence Redact() output does not depend on them. Control-flow dependence on unsafe content is limited to "
          "emptiness and line feeds by the escape contract."),
    ref="DESIGN 4 (C02)",
    note=TRUST + "The 2-run (relational) statement itself is not expressed; what is proved is the 1-run sufficient condition "
         "(operand bytes are confined to unsafe mode at every write site), for all formats, operands and user methods obeying "
         "their rely contracts. Rendering functions of fmt-derived code (format.go) are classified by call site, their digit "
         "generation is not re-verified for content (only for index safety, under C11).",
    decided=["every operand-class write site runs in unsafe mode unless a Safe context/classification applies (S1), all paths, all inputs",
             "a SafeValue override is justified by the value being printed (not a stale p.arg); a SafeMessager's bad-verb report shows the message, not the value",
             "the pool hands out printers with no stale override/context (free precondition), so earlier calls cannot declassify"],
    undecided=["byte-for-byte equality of two redacted outputs (relational); decided only via the confinement condition above; the bounded "
               "harness has one recorded OPEN finding here (F16: padding in front of a leading line feed, known_findings.json)"])

P["C03"] = dict(
    level="proof",
    text=("The line-safety conjuncts LS of the Buffer invariant and of the escape contract: no line feed at envelope depth 1 in "
          "any validated prefix or returned string; proved for all inputs and histories."),
    ref="DESIGN 4 (C03)",
    note=TRUST,
    decided=["no line feed inside an envelope in any validated prefix / returned string"],
    undecided=["'redacting line by line equals redacting the whole' follows from LS + C07's laws; not separately stated"])

P["C05"] = dict(
    level="proof",
    text=("Site obligations S3/S4 at every write site of the printer: literal/structural/type-name text is written in a safe mode "
          "unless everything is forced unsafe, and inside a Safe context nothing is written in unsafe mode; padding follows the "
          "class of what it pads; mode/override/context are restored on every path (normal and unwinding) by the restorer "
          "contracts; operands classified safe (SafeValue, registered type, Safe(), safe SafePrinter methods) switch to the safe "
          "mode before rendering: handleMethods REQUIRES that a SafeValue operand, or an operand whose dynamic type is in the "
          "registry, arrives under a context (so every caller, also the reflection walk over interface-typed slots, must have "
          "classified it first), and its dispatch-completeness postcondition says which branch handled the operand; the "
          "signedness of integer leaves is a ghost of pp.fmtInteger; Safe()/Unsafe() wrappers are recognised by their DYNAMIC "
          "type before any method dispatch, wherever they sit (F11); the parentheses and the i of a complex number are operand "
          "data (F15); a value whose type is registered is rendered under a context also when it is a reflect.Value operand that "
          "cannot be interfaced; fmtsort.compare answers 'equal' only for equal keys, so the order of map entries does not depend "
          "on the runtime's enumeration (A.5c). Also carries the frame and ownership obligations of package rfmt."),
    ref="DESIGN 4 (C05)",
    note=TRUST + "Equality of the safe text with 'what fmt would print' is C04 (not applicable); C05 decides on which side of the "
         "envelopes each payload class lands, for all formats and operands.",
    decided=["side (inside/outside envelopes) of every payload class at every write site, all paths", "restoration of mode/override/context on all paths incl. panics"],
    undecided=["the rendered characters themselves (fmt fidelity, C04)"])

P["C06"] = dict(
    level="proof",
    text=("Ghost context gctx (0 none, 1 Safe, 2 Unsafe, outermost wins) is tied to p.override by the printer invariant PI; "
          "S2: under Unsafe every write is in unsafe mode; S3: under Safe no write is in unsafe mode; nested printers and user "
          "callbacks inherit the context (Print/Printf/startPrint contracts); SafeFormatter/SafeMessager/error-hook dispatch is "
          "asserted unreachable under Unsafe."),
    ref="DESIGN 4 (C06)",
    note=TRUST + "The characters printed for x are not compared with fmt (C04).",
    decided=["Unsafe(x): every byte written while the context is 2 is written in unsafe mode; Safe(x) without own classification: none is", "outermost wins, through nested printers and callbacks"],
    undecided=["character-level equality with fmt"])

P["C07"] = dict(
    level="proof",
    text=("The two compiled patterns are extracted from the source as constants (go/types constant folding of the MustCompile "
          "argument), parsed with regexp/syntax and translated to SMT regular expressions; the solver proves, for all strings, "
          "that the envelope pattern denotes exactly start·(non-marker)*·end, that it is prefix-free and never matches the empty "
          "string (so leftmost-first matching has a unique choice and cannot be greedy across envelopes), and that the marker "
          "class denotes exactly {start, end}. The algebraic laws of Redact/StripMarkers (idempotence, projection, agreement of "
          "string and []byte variants) are checked exhaustively for all strings over the distinguishing alphabet (start, end, cross, "
          "LF, ordinary byte and each single byte of the markers, so that a marker cut in two by another one occurs) up to length 6 "
          "(thorough: 7) against the real functions: that part is BOUNDED and is not counted as proved. StripMarkers is also proved "
          "to return a string in which the marker class matches nowhere (the exit condition of its deletion loop; finding F13)."),
    ref="DESIGN 4 (C07)",
    note=TRUST + "regexp.ReplaceAll*'s leftmost-first replacement semantics is an assumed contract on the dependency; Go's regexp "
         "works on runes, invalid UTF-8 is outside the language-level claim (covered by the bounded part).",
    decided=["language of both patterns == the specification language; prefix-freeness; no empty match (unbounded, solver)",
             "StripMarkers leaves no match of the marker class (given regexp's Match/ReplaceAll as assumed contracts)"],
    undecided=["projection/idempotence laws of Redact/StripMarkers for all strings: bounded exhaustive check only (length <= 6, thorough 7)"])

P["C08"] = dict(
    level="proof",
    text=("Re-printing: a RedactableString/RedactableBytes operand reaches startPreRedactable, whose contract says that outside "
          "an Unsafe context the buffer is in raw (pre-redactable) mode with a clean end when the bytes are copied, and the raw "
          "write precondition (well-formed fragment) is discharged at every raw site; builder Print/Printf are asserted to be in "
          "raw mode when the inner output is inlined; the Buffer contract for raw mode copies bytes verbatim (no escaping, no "
          "envelope)."),
    ref="DESIGN 4 (C08)",
    note=TRUST + "The equation Sprint(Sprint(a...)) == Sprint(a...) and the distribution of Redact over Join are consequences of "
         "'copied verbatim in raw mode' + C01; they are not stated as content equations.",
    decided=["every redactable operand is written in raw mode unless under Unsafe; raw-mode writes are verbatim copies (sameBytes) of well-formed fragments"],
    undecided=["content equations over whole outputs (concatenation laws)"])

P["C09"] = dict(
    level="proof",
    text=("Each SafeWriter method of StringBuilder and of the printer adapter is asserted to have the buffer in the mode of its "
          "side at the moment of the write (safe methods: SafeEscaped, unsafe methods: UnsafeEscaped, Print/Printf: raw with the "
          "inner output already classified), restored afterwards; single-byte unsafe writes replace non-ASCII bytes; "
          "well-formedness and line-safety of the result are C01/C03; io.Writer/fmt.State writes on the printer are unsafe "
          "writes. The pool precondition rules out stale overrides. The escaper's truncated-tail guard is tied to a spec function "
          "badTail (fires exactly on an incomplete rune, not on a valid U+FFFD), and Buffer.Write/WriteString/WriteByte/WriteRune "
          "carry content postconditions (the argument's bytes are the new tail of the buffer, pending until the escaper validates them)."),
    ref="DESIGN 4 (C09)",
    note=TRUST + "'Exactly once, in call order' is a content equation over the whole history and is not stated; each call's own "
         "write is verified (one Buffer write per call, bytes preserved by the Buffer contract).",
    decided=["side of each SafeWriter call (mode at the write), for all call sequences (method-modular)", "result well-formed and line-safe (via C01/C03)"],
    undecided=["stripped output == concatenation of payloads (history-level content equation)"])

P["C10"] = dict(
    level="proof",
    text=("InternalEscapeBytes contract for all byte strings, offsets and both line-splitting settings: the result is well-formed "
          "and line-safe with depth preserved, ends clean (a truncated multi-byte tail is followed by one '?'), the input is never "
          "edited in place (copy-on-write), bytes before startLoc are untouched; EscapeBytes wraps it in one envelope."),
    ref="DESIGN 4 (C10)",
    note=TRUST + "utf8.DecodeLastRune is an assumed contract (only the E2 / E2 80 tails matter for markers). The regex-based "
         "EscapeMarkers is covered by C07's pattern obligations.",
    decided=["escape result contains only library-placed markers (WFP/depth), clean end, LS, copy-on-write, for all inputs"],
    undecided=["'never alters bytes that are not part of a marker' as a content equation; split-insensitivity across Write calls"])

P["C11"] = dict(
    level="proof",
    text=("Panic-freedom sweep: every index, slice, nil-dereference, type-assertion, division, conversion and explicit panic site of "
          "the functions under contract carries an obligation, discharged for all inputs under the function's precondition; "
          "catchPanic's contract contains user-method panics (ghost $panic) and restores printer state; only re-panics while "
          "printing a panic payload propagate. Signed + - * and negation carry an overflow obligation at the same sites (the "
          "model's integers are mathematical: a wrapped width or index would otherwise be invisible); fmtsort's interface-key "
          "comparison looks inside only two non-nil values."),
    ref="DESIGN 4 (C11)",
    note=TRUST + "fmtFloat is swept too (its digits come from strconv.AppendFloat, assumed: appended in place or into a new array, a sign is followed by a character); newPrinter is nosweep (pool type assertion); integer/unicode/char formatting IS swept, using the digit-count spec function nd whose defining equations and bounds are axioms; "
         "stdlib-derived buffer arithmetic), reflect kind preconditions are assumed where printValue dispatches on Kind.",
    decided=["no run-time panic at any swept site; user panics contained; output before/after intact (buffer invariant on unwinding)"],
    undecided=["newPrinter's pool type assertion (nosweep); termination"])

P["C12"] = dict(
    level="proof",
    text=("History independence is decided through the pool discipline: newPrinter returns a Pristine printer (every one of the "
          "per-call fields reset, width/precision numbers included) given only the pool invariant PoolInv, and free() requires PoolInv "
          "(empty buffer, no override, no context, no operand/error retained) at every call site, on every path; Take* detaches the "
          "result from the buffer and an array reinterpreted as a string is given up before return (alias.cast); package-level "
          "variables are written only where declared (frame.global); an operand shared by concurrent calls (a StringBuilder printed "
          "from several goroutines) is only read: the accessors it is printed through, and StringBuilder.SafeFormat itself, write no "
          "existing memory (F12); the order in which a map's entries are printed does not depend on the runtime's enumeration "
          "(fmtsort.compare is 0 only on equal keys). For the 'calls on other goroutines' half the deductive part "
          "establishes what a race needs to be absent: a scan of EVERY function of the module (also those without contracts) finds "
          "each write, address-of, slicing, append/copy-into or pointer-receiver call on a package-level variable, and each must be a "
          "variable declared `shared` with a stated justification (sync.Pool; the two registries written only by Register*)."),
    ref="DESIGN 4 (C12), A.11",
    note=TRUST + "sync.Pool is assumed to hand an object to one goroutine at a time; registration concurrent with printing is outside the "
         "claim. Schedules themselves are not explored by the deductive part (the bounded harness samples them).",
    decided=["no per-call state survives recycling: Put only under PoolInv, Get + reset gives Pristine", "results are detached from recycled buffers",
             "no package-level mutable state is shared between calls except the declared (and justified) ones"],
    undecided=["interleavings of goroutines as such (sampled by the bounded harness; the race detector is not part of the check)"])

P["C13"] = dict(
    level="proof",
    text=("Accessors (Len, Cap, GetMode, String, RedactableString, RedactableBytes) are proved to leave every field of the buffer "
          "and every byte visible through it unchanged (frame obligations + kept): finalize on the by-value copy is copy-on-write "
          "for escaping and only appends beyond the original's length; Reset/Take* are proved to leave exactly the zero state "
          "(mode, markerOpen, validUntil, content); the accessors have `modifies nothing`: not a byte of an existing array is "
          "written, also not in the spare capacity the buffer shares with its by-value copies (finding F12; conditional memory "
          "frames on finalize/endRedactable/grow), and a RedactableBytes() result is freshly allocated; grow keeps offsets; an array reinterpreted as a string (unsafe cast in String / "
          "Take*) must no longer be reachable from the buffer when the function returns (alias.cast)."),
    ref="DESIGN 4 (C13)",
    note=TRUST + "That later operations depend only on fields and visible bytes (not on bytes beyond len) is Go semantics. "
         "'Len == len(RedactableString())' needs determinism of finalize (a 2-run statement) and is checked only by the bounded replay harness.",
    decided=["accessor purity (fields, visible bytes AND the shared spare capacity unchanged), for all states", "Reset/Take* return to the pristine state; Take detaches the storage"],
    undecided=["Len() == len(RedactableString()) (relational; bounded only)"])

P["C14"] = dict(
    level="proof",
    text=("MakeFormat is verified against a ghost parser of fmt's directive grammar driven by the assumed contracts of "
          "strings.Builder: on every path the emitted tokens are '%', then exactly the flags the State reports, then the width "
          "iff present, then '.'+precision iff present, then the verb; the bare %v/%s/%d shortcuts return exactly those literals; "
          "a width that is present and 0 is NOT emitted (fmt would read '0' as the zero-padding flag; finding F6); "
          "the printer's own fmt.State methods (Flag/Width/Precision) return the active directive's fields; ReproducePrintf makes "
          "exactly one call into fmt: Fprint for the bare %v, otherwise Fprintf with the rebuilt directive and the operand itself."),
    ref="DESIGN 4 (C14)",
    note=TRUST + "That fmt parses such a string back into the same directive is the assumed contract on the dependency; strconv.Itoa "
         "is assumed to render its argument; behaviour of fmt itself ('prints exactly like x') is not re-verified.",
    decided=["token-level correctness of the rebuilt directive for all flag subsets, widths, precisions, verbs"],
    undecided=["end-to-end equality of fmt's output for Safe(x)/Unsafe(x) vs x"])

P["C15"] = dict(
    level="proof",
    text=("A ghost machine counts %w directives (gnw), records whether the first captured an error (ggood, gerr); the invariant WInv "
          "ties wrapErrs/wrappedErr to it through doPrintf, printArg, handleMethods, badArgNum, missingArg; HelperForErrorf returns "
          "gerr iff exactly one %w was processed and it captured, nil otherwise; a misused %w takes the bad-verb path; a correctly "
          "used %w is accepted where the operand is received and continues with the verb v, and the '#' and '+' flags are moved to "
          "sharpV/plusV for w as for v (F14)."),
    ref="DESIGN 4 (C15)",
    note=TRUST + "Text equality with Sprintf/fmt.Errorf is C04-like and not stated.",
    decided=["returned error for every format/operand list", "second/non-error/nil %w goes to badVerb and resets capture"],
    undecided=["textual equality with fmt.Errorf"])

P["C16"] = dict(
    level="proof",
    text=("Every route (Sprint/Fprint/Sprintln/Fprintln/Sprintf/Fprintf/HelperForErrorf, StringBuilder.Print/Printf, SafePrinter "
          "Print/Printf) is proved to run the shared funnel (doPrint/doPrintf/doPrintln) exactly once on its printer with its own "
          "operand list (and format), on every normal path; F-variants perform exactly one Write and return its (n, err); builder "
          "and nested routes inline the inner output in raw mode / hand the outer buffer over and back; doPrint/doPrintln require "
          "cleared directive flags (FlagsClear), so a nested Print cannot inherit %+v/%#v from the directive being served; whether "
          "the route's printer accepts %w (only HelperForErrorf's does) is part of each printf route's postcondition, down to the "
          "public wrappers."),
    ref="DESIGN 4 (C16)",
    note=TRUST + "Given the same funnel call, equality of the produced text across routes up to envelope merging is a relational "
         "statement about two runs and is not expressed.",
    decided=["all routes share one funnel call with identical arguments; single Write with (n, err) returned"],
    undecided=["byte equality / equality up to envelope merging of two routes' outputs (relational)"])

P["C17"] = dict(
    level="proof",
    text=("In handleMethods: an error operand that is neither SafeFormatter nor SafeMessager, with a hook registered and not under "
          "Unsafe, is handled by calling the hook (ghost counter) with the operand itself and the active verb (%w rewritten to %v) "
          "before any other user method; no other user method runs for it; under Unsafe the hook/SafeFormatter/SafeMessager sites "
          "are unreachable; the call is under catchPanic; RegisterRedactErrorFn stores exactly the function it was given "
          "(ensures redactErrorFn == fn) and is the only writer of that variable (frame.global + shared-state scan)."),
    ref="DESIGN 4 (C17)",
    note=TRUST + "Errors reached through reflection (fields, slices, maps) get to handleMethods through printValue's dispatch, whose "
         "reflect preconditions are assumed.",
    decided=["hook called first and alone with (operand, verb, printer) when applicable; bypassed under Unsafe; panics contained"],
    undecided=[])

NA = {
    "C04": ("equality with the output of the standard fmt package (an external 2 kLoC implementation) for every directive and "
            "operand is a whole-program equivalence, not expressible as per-function contracts of this code base without "
            "re-specifying fmt; see DESIGN.md section 4 (C04)"),
}


def main():
    scope = {k: {"decided_unbounded": v["decided"], "not_decided_or_bounded_only": v["undecided"]} for k, v in P.items()}
    json.dump(scope, open("/verif/scope.json", "w"), indent=1)
    commits = subprocess.run(["git", "-C", "/repo", "log", "--format=%h %s"], capture_output=True, text=True).stdout.splitlines()
    src = [c.split()[0] for c in commits if c.split(None, 1)[1].startswith("verif:")]
    m = {
        "version": 1,
        "setup_cmd": "cd /verif && ./setup.sh",
        "hooks": {
            "guard": "verif",
            "enable": "go build -tags verif ./... (the tag only adds comment-only contract files zz_contracts_verif.go)",
            "baseline_off_cmd": "cd /repo && GOFLAGS=-mod=mod GOPROXY=off go test -vet=off -count=1 ./...",
            "source_commits": src,
            "add_only": True,
        },
        "engines": [{
            "name": "govc", "path": "/verif/govc", "serves_properties": sorted(P),
            "kind_free_text": "self-written VC generator for a Go subset (go/ast+go/types), contracts in comment-only files in /repo "
                              "under build tag verif, obligations discharged by z3 4.8.12 / z3 5.1.0 / cvc5 1.0.3",
        }],
        "checks": [],
        "not_applicable": [{"property_id": k, "reason": v} for k, v in sorted(NA.items())],
        "notes": "All checks are ./check <id> --tier quick|thorough; they rebuild govc if needed and regenerate every VC from /repo's "
                 "working tree. Known findings (all fixed) are in /verif/known_findings.json. Seeded changes used to test the checks are "
                 "in /verif/seeded. scope.json states per property which clauses are decided and which are not.",
    }
    import os
    for k in sorted(P):
        v = P[k]
        if os.path.exists("/verif/replay/%s_test.go" % k) and "TestVerifBounded" + k in open("/verif/replay/%s_test.go" % k).read() and k != "C07":
            v = dict(v)
            v["text"] += (" The clauses listed under not_decided_or_bounded_only in scope.json are additionally exercised on every run by a BOUNDED harness "
                          "against the real code (exhaustive up to stated bounds, seeded sampling beyond; counts in evidence coverage.bounded); that part is "
                          "bounded and is not counted among the proved obligations.")
        m["checks"].append({
            "property_id": k,
            "quick_cmd": "./check %s --tier quick" % k,
            "thorough_cmd": "./check %s --tier thorough" % k,
            "evidence_file": "/verif/evidence/%s.json" % k,
            "replay_cmd_template": "cat {path}",
            "engine": "govc",
            "level_claimed": {"category": v["level"], "text": v["text"], "design_ref": v["ref"]},
            "level_note": v["note"],
            "technique": TECH,
        })
    if "--no-c07" in sys.argv:
        m["checks"] = [c for c in m["checks"] if c["property_id"] != "C07"]
        m["not_applicable"].append({"property_id": "C07", "reason": "check under construction"})
        m["engines"][0]["serves_properties"].remove("C07")
    json.dump(m, open("/verif/MANIFEST.json", "w"), indent=1)


main()
