#!/usr/bin/env python3
"""mkmut.py name "C11 C05" file 'old' 'new'  -> /verif/selftest/<name>.diff (made against /repo HEAD, /repo restored)."""
import subprocess, sys
name, props, path, old, new = sys.argv[1:6]
p = '/repo/' + path
s = open(p).read()
if s.count(old) != 1:
    print("old text occurs %d times" % s.count(old)); sys.exit(1)
open(p, 'w').write(s.replace(old, new))
build = subprocess.run("cd /repo && GOFLAGS=-mod=mod GOPROXY=off go build ./... 2>&1", shell=True, capture_output=True, text=True)
d = subprocess.run(["git", "-C", "/repo", "diff"], capture_output=True, text=True).stdout
subprocess.run(["git", "-C", "/repo", "checkout", "--", path])
if build.returncode != 0:
    print("does not build:", build.stdout[:400]); sys.exit(1)
expect = sys.argv[6] if len(sys.argv) > 6 else "caught"
open('/verif/selftest/%s.diff' % name, 'w').write("# props: %s\n# expect: %s\n%s" % (props, expect, d))
print("ok", name)
