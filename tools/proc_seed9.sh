#!/bin/bash
# usage: proc_seed9.sh ID : copies /tmp/seed9/ID/SEED to /verif/seeded/ID-9 and verifies it (deductive, then full if missed)
id=$1; shift
mkdir -p /verif/seeded/$id-9 && cp /tmp/seed9/$id/SEED/{patch.diff,seed_demo_test.go,meta.json} /verif/seeded/$id-9/
echo "== $id-9"
out=$(/verif/seeded/verify_seed.sh /verif/seeded/$id-9 $id "$@" 2>&1 | grep -v conda | cut -c1-250)
echo "$out"
if echo "$out" | grep -q "CHECK $id: 0 violations"; then
  echo "-- deductive part quiet; with replay + bounded harness:"
  FULL=1 /verif/seeded/verify_seed.sh /verif/seeded/$id-9 $id 2>&1 | grep "CHECK\|  obligation" | cut -c1-900
fi
